(* Line-oriented driver around the extracted Model/Auth.v (module Model).
   One command per input line, one answer per output line. Byte strings are tokens
   "x" ^ lowercase hex ("x" alone = empty string).

     rest <pw> <hdr>                       -> 1 | 0          rest_password_ok
     carries <pw> <hdr>                    -> 1 | 0          rest_carries
     grpc <pw> none|empty|<v1> <v2> ...    -> accept | missing | invalid | panic   grpc_gate
     b64d <s>                              -> none | some <hex>
     b64e <s>                              -> <hex>
     split <s>                             -> <n> <part> ...  go_split "Basic " s
     tlsdec  <cert> <key> <v> <ca> FACTS   -> err:<kind> | notls | tls:<certs>:<cas>:<auth>
     startup <cert> <key> <v> <ca> <pw> <grpc_listen_ok> <rest_configured> <rest_listen_ok> FACTS
                                           -> <result> enforced=<0|1>
     enforced <cert> <key> <v> <ca> <pw> <rest_configured> <result>
                                           -> 1 | 0          tls_enforced on an OBSERVED outcome
   FACTS describe the file oracle (the same for every read):
     R:<path>:<0|1>           os.ReadFile(path) succeeds (content := the path itself); "" never reads
     P:<certpath>:<keypath>:<0|1>   X509KeyPair of those two contents succeeds
     A:<path>:<0|1>           AppendCertsFromPEM of that content succeeds
   <result> ::= err:<grpc|rest>:<kind> | panic | run:<listener>:<listener|none>:<gp>:<rp>
   <listener> ::= plain | tls,<certs>,<cas>,<auth>
   Anything unparsable answers "error <why>". *)

exception Bad of string

open Model

let byte_of_int (i : int) : byte =
  let b k = (i lsr k) land 1 = 1 in
  drv_byte_of_bits (b 0, (b 1, (b 2, (b 3, (b 4, (b 5, (b 6, b 7)))))))

let int_of_byte (x : byte) : int =
  let (b0, (b1, (b2, (b3, (b4, (b5, (b6, b7))))))) = drv_byte_to_bits x in
  let v b k = if b then 1 lsl k else 0 in
  v b0 0 + v b1 1 + v b2 2 + v b3 3 + v b4 4 + v b5 5 + v b6 6 + v b7 7

let hexval c =
  match c with
  | '0' .. '9' -> Char.code c - 48
  | 'a' .. 'f' -> Char.code c - 87
  | _ -> raise (Bad "hex digit")

let str_of_tok t : byte list =
  let n = String.length t in
  if n < 1 || t.[0] <> 'x' || (n - 1) mod 2 <> 0 then raise (Bad ("token " ^ t));
  let rec go i acc =
    if i < 1 then acc
    else go (i - 2) (byte_of_int ((hexval t.[i] * 16) + hexval t.[i + 1]) :: acc)
  in
  go (n - 2) []

let tok_of_str (s : byte list) =
  let b = Buffer.create 16 in
  Buffer.add_char b 'x';
  List.iter (fun x -> Buffer.add_string b (Printf.sprintf "%02x" (int_of_byte x))) s;
  Buffer.contents b

let bool_of_tok = function "1" -> true | "0" -> false | t -> raise (Bad ("bool " ^ t))
let tok_of_bool b = if b then "1" else "0"

let auth_name = function
  | NoClientCert -> "NoClientCert"
  | RequestClientCert -> "RequestClientCert"
  | RequireAnyClientCert -> "RequireAnyClientCert"
  | VerifyClientCertIfGiven -> "VerifyClientCertIfGiven"
  | RequireAndVerifyClientCert -> "RequireAndVerifyClientCert"

let auth_of_name = function
  | "NoClientCert" -> NoClientCert
  | "RequestClientCert" -> RequestClientCert
  | "RequireAnyClientCert" -> RequireAnyClientCert
  | "VerifyClientCertIfGiven" -> VerifyClientCertIfGiven
  | "RequireAndVerifyClientCert" -> RequireAndVerifyClientCert
  | t -> raise (Bad ("client auth " ^ t))

let err_name = function
  | ErrLoadKeyPair -> "load_key_pair"
  | ErrReadCA -> "read_ca"
  | ErrAppendCA -> "append_ca"
  | ErrClientNeedsServerTLS -> "client_needs_server_tls"

let err_of_name = function
  | "load_key_pair" -> ErrLoadKeyPair
  | "read_ca" -> ErrReadCA
  | "append_ca" -> ErrAppendCA
  | "client_needs_server_tls" -> ErrClientNeedsServerTLS
  | t -> raise (Bad ("tls error " ^ t))

let start_err_name = function SEListen -> "listen" | SETls e -> err_name e
let start_err_of_name = function "listen" -> SEListen | t -> SETls (err_of_name t)

let listener_tok = function
  | LPlain -> "plain"
  | LTls c ->
      Printf.sprintf "tls,%s,%s,%s" (tok_of_bool c.tc_certs) (tok_of_bool c.tc_client_cas)
        (auth_name c.tc_client_auth)

let listener_of_tok t =
  match String.split_on_char ',' t with
  | [ "plain" ] -> LPlain
  | [ "tls"; c; a; auth ] ->
      LTls { tc_certs = bool_of_tok c; tc_client_cas = bool_of_tok a; tc_client_auth = auth_of_name auth }
  | _ -> raise (Bad ("listener " ^ t))

let result_tok = function
  | StartErr (who, e) ->
      Printf.sprintf "err:%s:%s" (match who with EGrpc -> "grpc" | ERest -> "rest") (start_err_name e)
  | StartPanic -> "panic"
  | Running (g, r, gp, rp) ->
      Printf.sprintf "run:%s:%s:%s:%s" (listener_tok g)
        (match r with None -> "none" | Some l -> listener_tok l)
        (tok_of_bool gp) (tok_of_bool rp)

let result_of_tok t =
  match String.split_on_char ':' t with
  | [ "err"; who; e ] ->
      StartErr ((match who with "grpc" -> EGrpc | "rest" -> ERest | _ -> raise (Bad "entry")), start_err_of_name e)
  | [ "panic" ] -> StartPanic
  | [ "run"; g; r; gp; rp ] ->
      Running
        ( listener_of_tok g,
          (if r = "none" then None else Some (listener_of_tok r)),
          bool_of_tok gp, bool_of_tok rp )
  | _ -> raise (Bad ("result " ^ t))

(* The oracle described by FACTS. *)
let oracle_of_facts facts : file_oracle =
  let reads = ref [] and pairs = ref [] and apps = ref [] in
  List.iter
    (fun f ->
      match String.split_on_char ':' f with
      | [ "R"; p; b ] -> reads := (str_of_tok p, bool_of_tok b) :: !reads
      | [ "P"; c; k; b ] -> pairs := ((str_of_tok c, str_of_tok k), bool_of_tok b) :: !pairs
      | [ "A"; p; b ] -> apps := (str_of_tok p, bool_of_tok b) :: !apps
      | _ -> raise (Bad ("fact " ^ f)))
    facts;
  let lookup1 l p = List.exists (fun (q, b) -> b && drv_bytes_eqb p q) l in
  { fo_read = (fun p -> if p = [] then None else if lookup1 !reads p then Some p else None);
    fo_x509_pair =
      (fun c k -> List.exists (fun ((c', k'), b) -> b && drv_bytes_eqb c c' && drv_bytes_eqb k k') !pairs);
    fo_append_pem = (fun pem -> lookup1 !apps pem) }

let secconf cert key v ca pw =
  { sc_cert = str_of_tok cert; sc_key = str_of_tok key; sc_verify = bool_of_tok v;
    sc_ca = str_of_tok ca; sc_password = str_of_tok pw }

let answer line =
  let toks = List.filter (fun t -> t <> "") (String.split_on_char ' ' (String.trim line)) in
  match toks with
  | [ "rest"; pw; hdr ] -> tok_of_bool (rest_password_ok (str_of_tok pw) (str_of_tok hdr))
  | [ "carries"; pw; hdr ] -> tok_of_bool (rest_carries (str_of_tok pw) (str_of_tok hdr))
  | "grpc" :: pw :: rest ->
      let md =
        match rest with
        | [ "none" ] -> None
        | [ "empty" ] -> Some []
        | [] -> raise (Bad "grpc needs metadata")
        | vs -> Some (List.map str_of_tok vs)
      in
      (match grpc_gate (str_of_tok pw) md with
       | AuthAccept -> "accept"
       | AuthMissing -> "missing"
       | AuthInvalid -> "invalid"
       | AuthPanic -> "panic")
  | [ "b64d"; s ] -> (match b64decode (str_of_tok s) with None -> "none" | Some d -> "some " ^ tok_of_str d)
  | [ "b64e"; s ] -> tok_of_str (b64encode (str_of_tok s))
  | [ "split"; s ] ->
      let parts = go_split basic_sp (str_of_tok s) in
      String.concat " " (string_of_int (List.length parts) :: List.map tok_of_str parts)
  | "tlsdec" :: cert :: key :: v :: ca :: facts ->
      (match tls_decision (secconf cert key v ca "x") (oracle_of_facts facts) with
       | TlsErr e -> "err:" ^ err_name e
       | NoTLS -> "notls"
       | TLS c ->
           Printf.sprintf "tls:%s:%s:%s" (tok_of_bool c.tc_certs) (tok_of_bool c.tc_client_cas)
             (auth_name c.tc_client_auth))
  | "startup" :: cert :: key :: v :: ca :: pw :: gl :: rc :: rl :: facts ->
      let sc = secconf cert key v ca pw in
      let env = { env_grpc_listen_ok = bool_of_tok gl; env_rest_configured = bool_of_tok rc;
                  env_rest_listen_ok = bool_of_tok rl } in
      let o = oracle_of_facts facts in
      let res = startup sc env o o o in
      Printf.sprintf "%s enforced=%s" (result_tok res) (tok_of_bool (tls_enforced sc env res))
  | [ "enforced"; cert; key; v; ca; pw; rc; res ] ->
      let sc = secconf cert key v ca pw in
      let env = { env_grpc_listen_ok = true; env_rest_configured = bool_of_tok rc; env_rest_listen_ok = true } in
      tok_of_bool (tls_enforced sc env (result_of_tok res))
  | _ -> raise (Bad "unknown command")

let () =
  try
    while true do
      let line = input_line stdin in
      let out = try answer line with Bad why -> "error " ^ why | Not_found -> "error not_found" in
      print_string out;
      print_newline ()
    done
  with End_of_file -> ()
