(** Extraction of Model/Auth.v for the C16 correspondence driver (ocaml/auth/driver.ml).
    ExtrOcamlBasic only: bool/option/unit/list/prod/sumbool/sumor become OCaml built-ins;
    nat, byte, Z, positive stay the extracted inductives. Compiled by checks/c16.py in a
    scratch directory: coqc -Q /verif/coq Ldlm extract.v *)
From Coq Require Extraction ExtrOcamlBasic.
From Ldlm Require Import Model.Base Model.Auth.

Definition drv_byte_of_bits := Byte.of_bits.
Definition drv_byte_to_bits := Byte.to_bits.
Definition drv_bytes_eqb := bytes_eqb.

Extraction Language OCaml.
Extraction "model.ml"
  drv_byte_of_bits drv_byte_to_bits drv_bytes_eqb
  rest_password_ok rest_carries go_split basic_sp b64encode b64decode
  grpc_gate grpc_password_ok
  tls_decision startup tls_enforced
  Build_secconf Build_file_oracle Build_run_env.
