#!/bin/sh
# Extracts Model/Auth.v from the compiled Coq development and builds the C16 driver.
#   ./build.sh [outdir]     outdir defaults to this directory; checks/c16.py passes a scratch directory
# Produces <outdir>/authdriver (reads commands on stdin, see driver.ml).
set -e
here="$(cd "$(dirname "$0")" && pwd)"
out="${1:-$here}"
mkdir -p "$out"
cd "$out"
[ "$out" = "$here" ] || cp "$here/extract.v" "$here/driver.ml" .
timeout 300 coqc -Q "$here/../../coq" Ldlm -w -notation-overridden,-extraction-opaque-accessed extract.v >/dev/null
rm -f extract.vo extract.glob extract.vos extract.vok .extract.aux
timeout 300 ocamlfind ocamlopt -O2 -w -a model.mli model.ml driver.ml -o authdriver 2>/dev/null || \
timeout 300 ocamlfind ocamlopt -w -a model.mli model.ml driver.ml -o authdriver
