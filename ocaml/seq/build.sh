#!/bin/sh
# Extracts Mseq + Track from the compiled Coq development and builds the replay driver.
set -e
cd "$(dirname "$0")"
coqc -Q ../../coq Ldlm -w -notation-overridden,-extraction-opaque-accessed ../../coq/Extract/SeqExtract.v >/dev/null
rm -f SeqExtract.vo SeqExtract.glob SeqExtract.vos SeqExtract.vok .SeqExtract.aux
# the binary is replaced atomically: another check may be running the old one
ocamlfind ocamlopt -O2 -w -a -package str seqmodel.mli seqmodel.ml driver.ml -o seqdriver.new 2>/dev/null || \
ocamlfind ocamlopt -w -a seqmodel.mli seqmodel.ml driver.ml -o seqdriver.new
mv -f seqdriver.new seqdriver
