(* Replay driver for the extracted sequential model (Model/Seq.v, Model/Track.v).

   usage: seqdriver <trace file> [proj ...]
   Reads histories in the line format written by harness/seqdiff (see DESIGN 3 / trace format in
   harness/seqdiff/trace.go), and for each history prints
     R <hid> <proj> ok                      the observed history is a run of Mseq under that projection
     R <hid> <proj> mismatch <idx>          first event at which no run of Mseq produces the observation
     M <hid> <idx> <cand> <out tokens>      (after the first mismatch of proj "all") what the model produces
     T <hid> <idx> <tag>                    a check of the trace oracle (Track.v) failed at event idx
     I <hid> <idx> <tag>                    C07 inertness check failed
   Only parsing and printing happen here; every decision is made by extracted Coq code.

   "via service" histories (a line `V service` after the C line; harness/seqdiff executed the history through the real
   grpc.Service): the error token of a response / completion is `code:<ErrorCode name>`; both that code and the model's
   error value are compared modulo Gen.ErrTables.srv_code (replay_history_svc, track_failures_svc of Extract/SeqExtract.v,
   where the choice is documented). Additional lines, only for such histories:
     S <hid> <idx> <what>                   the harness saw something the response format has no place for (`O svcbad <what>`:
                                            the handler returned an error / no message, or echoed another name)
   Histories without the V line are judged exactly as before.

   "boot on a given state file" histories (a line `F <nsessions> <sid> <nlocks> <name> <key> <size> ...` after the C line:
   harness/seqdiff wrote that map to the state file with the real store before the first boot, and the history's first event
   is that boot, `restart`; Model/SeqFile.v): the R lines come from replay_history_from_any (Extract/SeqExtract.v: replay on
   Mseq from file_state, for some order of the file's sessions at the first boot), for every projection asked for, and
     W <hid> <idx>                          the probe at event idx fails views_failures (Model/SeqFile.v views_ok_b: listing =
                                            holds of the lock table, = entries of the state file when it is on, no lock with
                                            more keys than its size) — a statement about the REAL observations alone
   The trace oracle (T lines) and the inertness check (I lines) are NOT run on such histories: the hold tracker of Track.v
   follows holds from their grants and cannot judge holds that come out of a file. Histories without the F line are judged
   exactly as before.
   usage: seqdriver --code-classes         prints `K <code name> <error values of that class ...>` and `K! tables-recognised 0|1` *)
type ostring = string
open Seqmodel

(* ---- numbers ---- *)
let rec pos_of_int (i : int) : positive =
  if i = 1 then XH else if i land 1 = 0 then XO (pos_of_int (i lsr 1)) else XI (pos_of_int (i lsr 1))
let z_of_int (i : int) : z = if i = 0 then Z0 else if i > 0 then Zpos (pos_of_int i) else Zneg (pos_of_int (-i))
let n_of_int (i : int) : n = if i = 0 then N0 else Npos (pos_of_int i)
let rec int_of_pos = function XH -> 1 | XO p -> 2 * int_of_pos p | XI p -> 2 * int_of_pos p + 1
let int_of_z = function Z0 -> 0 | Zpos p -> int_of_pos p | Zneg p -> - (int_of_pos p)
let int_of_n = function N0 -> 0 | Npos p -> int_of_pos p
let rec nat_of_int i = if i <= 0 then O else S (nat_of_int (i - 1))
let rec int_of_nat = function O -> 0 | S n -> 1 + int_of_nat n

(* ---- strings ---- *)
let byte_tbl : byte array = Array.init 256 (fun i -> match byte_of_N (n_of_int i) with Some b -> b | None -> assert false)
let str_of_hex (s : ostring) : byte list =
  if s = "-" then [] else begin
    let n = String.length s / 2 in
    List.init n (fun i -> byte_tbl.(int_of_string ("0x" ^ String.sub s (2 * i) 2)))
  end
let hex_of_str (l : byte list) : ostring =
  if l = [] then "-" else String.concat "" (List.map (fun b -> Printf.sprintf "%02x" (int_of_n (byte_to_N b))) l)
let ocaml_string (l : byte list) : ostring =
  String.init (List.length l) (fun i -> Char.chr (int_of_n (byte_to_N (List.nth l i))))

(* ---- errors ---- *)
let err_names : (ostring * err) list = List.map (fun e -> (ocaml_string (err_name_b e), e)) all_errs
let err_of_tok (t : ostring) : err option =
  if t = "~" then None else
  match List.assoc_opt t err_names with Some e -> Some e | None -> Some EOther
let tok_of_err = function None -> "~" | Some e -> ocaml_string (err_name_b e)

(* ---- via service: error CODES (mapping decided by the extracted srv_code / code_repr / code_of_name_b) ---- *)
exception Bad of ostring
let bytes_of_ocaml (s : ostring) : byte list = List.init (String.length s) (fun i -> byte_tbl.(Char.code s.[i]))
let svc = ref false
let err_of_code_tok (t : ostring) : err option =
  if t = "~" then None else
  if String.length t > 5 && String.sub t 0 5 = "code:" then begin
    let name = String.sub t 5 (String.length t - 5) in
    match code_of_name_b (bytes_of_ocaml name) with
    | None -> raise (Bad ("unknown-code:" ^ name))
    | Some c -> (match code_repr c with Some e -> Some e | None -> raise (Bad ("code-without-error-value:" ^ name)))
  end else raise (Bad ("service-error-token:" ^ t))
let code_tok_of_err = function None -> "~" | Some e -> "code:" ^ ocaml_string (code_name_b (srv_code e))
(* responses and completions came through the service; the admin socket did not *)
let resp_err_of_tok t = if !svc then err_of_code_tok t else err_of_tok t
let resp_tok_of_err e = if !svc then code_tok_of_err e else tok_of_err e

let optz t = if t = "~" then None else Some (z_of_int (int_of_string t))
let optstr t = if t = "~" then None else Some (str_of_hex t)
let bool_of t = t = "1"

(* ---- parsing ---- *)

let parse_event (t : ostring list) : event =
  match t with
  | ["conn"; sid] -> EConnect (str_of_hex sid)
  | ["disc"; sid] -> EDisconnect (str_of_hex sid)
  | ["try"; sid; name; size; lt; key] -> ETryLock (optstr sid, str_of_hex name, optz size, optz lt, str_of_hex key)
  | ["lock"; wid; sid; name; size; lt; wt; key] ->
      ELock (nat_of_int (int_of_string wid), optstr sid, str_of_hex name, optz size, optz lt, optz wt, str_of_hex key)
  | ["unl"; sid; name; key] -> EUnlock (optstr sid, str_of_hex name, str_of_hex key)
  | ["ren"; name; key; lt] -> ERenew (str_of_hex name, str_of_hex key, z_of_int (int_of_string lt))
  | ["cancel"; wid] -> ECancel (nat_of_int (int_of_string wid))
  | ["adv"; dt] -> EAdvance (z_of_int (int_of_string dt))
  | "restart" :: order -> ERestart (List.map str_of_hex order)
  | ["shutdown"] -> EShutdown
  | ["probe"] -> EProbe
  | ["ipcl"] -> EIpcList
  | ["ipcu"; name; key] -> EIpcUnlock (str_of_hex name, optstr key)
  | _ -> raise (Bad ("event: " ^ String.concat " " t))

let rec take_clocks n toks acc =
  if n = 0 then (List.rev acc, toks) else
  match toks with
  | name :: key :: size :: rest ->
      take_clocks (n - 1) rest ({ cl_name = str_of_hex name; cl_key = str_of_hex key; cl_size = z_of_int (int_of_string size) } :: acc)
  | _ -> raise (Bad "clocks")

let rec take_strs n toks acc =
  if n = 0 then (List.rev acc, toks) else
  match toks with x :: rest -> take_strs (n - 1) rest (str_of_hex x :: acc) | [] -> raise (Bad "strs")

let parse_resp (t : ostring list) : resp =
  match t with
  | ["lock"; l; key; e] -> RLock (bool_of l, str_of_hex key, resp_err_of_tok e)
  | ["unl"; u; e] -> RUnlock (bool_of u, resp_err_of_tok e)
  | ["blocked"] -> RBlocked
  | _ -> raise (Bad ("resp: " ^ String.concat " " t))

let parse_out (t : ostring list) : out =
  match t with
  | "r" :: rest -> OResp (parse_resp rest)
  | "w" :: wid :: at :: l :: key :: e :: [] ->
      OWaiter (nat_of_int (int_of_string wid), z_of_int (int_of_string at), RLock (bool_of l, str_of_hex key, resp_err_of_tok e))
  | "listing" :: n :: rest -> let (cs, _) = take_clocks (int_of_string n) rest [] in OListing cs
  | ["file"; "none"] -> OFile None
  | "file" :: n :: rest ->
      let rec go k toks acc =
        if k = 0 then List.rev acc else
        match toks with
        | sid :: m :: rest -> let (cs, rest') = take_clocks (int_of_string m) rest [] in go (k - 1) rest' ((str_of_hex sid, cs) :: acc)
        | _ -> raise (Bad "file") in
      OFile (Some (go (int_of_string n) rest []))
  | "table" :: n :: rest ->
      let rec go k toks acc =
        if k = 0 then List.rev acc else
        match toks with
        | name :: size :: last :: nk :: rest ->
            let (ks, rest') = take_strs (int_of_string nk) rest [] in
            go (k - 1) rest' ((str_of_hex name, ((z_of_int (int_of_string size), ks), z_of_int (int_of_string last))) :: acc)
        | _ -> raise (Bad "table") in
      OTable (go (int_of_string n) rest [])
  | "ipcl" :: n :: rest -> let (cs, _) = take_clocks (int_of_string n) rest [] in OIpcList cs
  | ["ipcu"; r; e] -> OIpcUnlock ((if r = "~" then None else Some (bool_of r)), err_of_tok e)
  | _ -> raise (Bad ("out: " ^ String.concat " " t))

(* ---- printing ---- *)
let tok_of_clock c = Printf.sprintf "%s %s %d" (hex_of_str c.cl_name) (hex_of_str c.cl_key) (int_of_z c.cl_size)
let tok_of_resp = function
  | RLock (l, k, e) -> Printf.sprintf "lock %d %s %s" (if l then 1 else 0) (hex_of_str k) (resp_tok_of_err e)
  | RUnlock (u, e) -> Printf.sprintf "unl %d %s" (if u then 1 else 0) (resp_tok_of_err e)
  | RBlocked -> "blocked"
let tok_of_out = function
  | OResp r -> "r " ^ tok_of_resp r
  | OWaiter (w, a, r) ->
      (match r with
       | RLock (l, k, e) -> Printf.sprintf "w %d %d %d %s %s" (int_of_nat w) (int_of_z a) (if l then 1 else 0) (hex_of_str k) (resp_tok_of_err e)
       | _ -> Printf.sprintf "w %d %d ?" (int_of_nat w) (int_of_z a))
  | OListing l -> Printf.sprintf "listing %d %s" (List.length l) (String.concat " " (List.map tok_of_clock l))
  | OFile None -> "file none"
  | OFile (Some f) ->
      Printf.sprintf "file %d %s" (List.length f)
        (String.concat " " (List.map (fun (sid, cs) -> Printf.sprintf "%s %d %s" (hex_of_str sid) (List.length cs) (String.concat " " (List.map tok_of_clock cs))) f))
  | OTable t ->
      Printf.sprintf "table %d %s" (List.length t)
        (String.concat " " (List.map (fun (n, ((sz, ks), last)) ->
             Printf.sprintf "%s %d %d %d %s" (hex_of_str n) (int_of_z sz) (int_of_z last) (List.length ks) (String.concat " " (List.map hex_of_str ks))) t))
  | OIpcList l -> Printf.sprintf "ipcl %d %s" (List.length l) (String.concat " " (List.map tok_of_clock l))
  | OIpcUnlock (r, e) -> Printf.sprintf "ipcu %s %s" (match r with None -> "~" | Some b -> if b then "1" else "0") (tok_of_err e)

(* ---- projections (DESIGN 4.6); fields: bits keys errs times listing file table last ipc ---- *)
let mk b k e t l f tb la i = { p_bits = b; p_keys = k; p_errs = e; p_times = t; p_listing = l; p_file = f; p_table = tb; p_last = la; p_ipc = i }
let projections = [
  "all",  proj_all;
  "nolast", mk true true true true true true true false true;
  "C01",  mk true false false false false false true false false;
  "C03",  mk true false true true false false false false false;
  "C04",  mk true false false true true false true false false;
  "C06",  mk true false false false true true true false false;
  "C07",  mk true true true true true true true false true;
  "C08",  mk false false false false true true true false false;
  "C10",  mk true false false true true true true false false;
  "C11",  mk true false true false true true true false false;
  "C12",  mk true false true false false false true false false;
  "C13",  mk true false true false false false true true false;
  "C14",  mk true false true false false false false false false;
  "C18",  mk true false true false true true true false true;
]

let split_ws s = List.filter (fun x -> x <> "") (String.split_on_char ' ' s)

let print_code_classes () =
  Printf.printf "K! tables-recognised %d\n" (if svc_tables_ok then 1 else 0);
  List.iter (fun c ->
    Printf.printf "K %s %s\n" (ocaml_string (code_name_b c)) (String.concat " " (List.map (fun e -> ocaml_string (err_name_b e)) (code_class c))))
    all_codes

let () =
  if Array.length Sys.argv > 1 && Sys.argv.(1) = "--code-classes" then (print_code_classes (); exit 0);
  let file = Sys.argv.(1) in
  let projs = if Array.length Sys.argv > 2 then Array.to_list (Array.sub Sys.argv 2 (Array.length Sys.argv - 2)) else ["all"] in
  let ic = open_in file in
  let hid = ref "" in
  let cfg = ref { c_noclear = false; c_file = false; c_gc_interval = z_of_int 1; c_gc_minidle = Z0; c_default_lt = Z0 } in
  let evs : (event * out list) list ref = ref [] in       (* reversed *)
  let cur : (event * out list) option ref = ref None in   (* outs reversed *)
  let bad = ref None in
  let anomalies : (int * ostring) list ref = ref [] in     (* via service: `O svcbad ...` lines, reversed *)
  let initf : (byte list * clock list) list option ref = ref None in   (* the `F` line: the state file of the first boot *)
  let flush_event () =
    (match !cur with Some (e, os) -> evs := (e, List.rev os) :: !evs | None -> ());
    cur := None in
  let finish () =
    flush_event ();
    let h = List.rev !evs in
    (match !bad with
     | Some msg -> Printf.printf "B %s %s\n" !hid msg
     | None ->
       List.iter (fun pn ->
         match List.assoc_opt pn projections with
         | None -> Printf.printf "B %s unknown-projection-%s\n" !hid pn
         | Some p ->
           (match (match !initf with
                   | Some f -> replay_history_from_any p !cfg f h
                   | None -> if !svc then replay_history_svc p !cfg h else replay_history p !cfg h) with
            | None -> Printf.printf "R %s %s ok\n" !hid pn
            | Some (i, outs) ->
                Printf.printf "R %s %s mismatch %d\n" !hid pn (int_of_nat i);
                if pn = "all" || List.length projs = 1 then
                  List.iteri (fun c os -> List.iter (fun o -> Printf.printf "M %s %d %d %s\n" !hid (int_of_nat i) c (tok_of_out o)) os;
                                          if os = [] then Printf.printf "M %s %d %d (no output)\n" !hid (int_of_nat i) c) outs)) projs;
       (match !initf with
        | Some _ ->
          List.iter (fun i -> Printf.printf "W %s %d\n" !hid (int_of_nat i)) (views_failures !cfg.c_file O h)
        | None ->
          List.iter (fun (i, t) -> Printf.printf "T %s %d %s\n" !hid (int_of_nat i) (ocaml_string t))
            (if !svc then track_failures_svc_b !cfg h else track_failures_b !cfg h);
          List.iter (fun (i, w) -> Printf.printf "S %s %d %s\n" !hid i w) (List.rev !anomalies);
          List.iter (fun (i, t) -> Printf.printf "I %s %d %s\n" !hid (int_of_nat i) (ocaml_string t)) (inert_failures_b h)));
    evs := []; cur := None; bad := None; anomalies := []; svc := false; initf := None in
  (try
     while true do
       let line = input_line ic in
       match split_ws line with
       | [] -> ()
       | "H" :: id :: _ -> hid := id; svc := false; initf := None
       | ["V"; "service"] -> svc := true; if !initf <> None then bad := Some "init-file-history-via-service-is-not-supported"
       | "F" :: n :: rest ->
           (try
              let rec go k toks acc =
                if k = 0 then (if toks = [] then List.rev acc else raise (Bad "F: trailing tokens")) else
                match toks with
                | sid :: m :: rest -> let (cs, rest') = take_clocks (int_of_string m) rest [] in go (k - 1) rest' ((str_of_hex sid, cs) :: acc)
                | _ -> raise (Bad "F") in
              initf := Some (go (int_of_string n) rest []);
              if !svc then bad := Some "init-file-history-via-service-is-not-supported"
            with Bad m | Failure m -> bad := Some ("parse:" ^ String.map (fun c -> if c = ' ' then '_' else c) m))
       | "O" :: "svcbad" :: what when !svc ->
           anomalies := (List.length !evs, String.concat "_" (if what = [] then ["?"] else what)) :: !anomalies
       | ["C"; nc; f; gci; gcm; dlt] ->
           cfg := { c_noclear = bool_of nc; c_file = bool_of f; c_gc_interval = z_of_int (int_of_string gci);
                    c_gc_minidle = z_of_int (int_of_string gcm); c_default_lt = z_of_int (int_of_string dlt) }
       | "E" :: rest -> flush_event (); (try cur := Some (parse_event rest, []) with Bad m | Failure m -> bad := Some ("parse:" ^ String.map (fun c -> if c = ' ' then '_' else c) m))
       | "O" :: rest ->
           (try
              match !cur with
              | Some (e, os) -> cur := Some (e, parse_out rest :: os)
              | None -> ()
            with Bad m | Failure m -> bad := Some ("parse:" ^ String.map (fun c -> if c = ' ' then '_' else c) m))
       | ["X"] -> finish ()
       | _ -> ()
     done
   with End_of_file -> ());
  close_in ic
