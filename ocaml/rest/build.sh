#!/bin/sh
# Extracts Mrest (+ Mseq, Track) from the compiled Coq development and builds the replay driver.
set -e
cd "$(dirname "$0")"
coqc -Q ../../coq Ldlm -w -notation-overridden,-extraction-opaque-accessed ../../coq/Extract/RestExtract.v >/dev/null
rm -f RestExtract.vo RestExtract.glob RestExtract.vos RestExtract.vok .RestExtract.aux
ocamlfind ocamlopt -O2 -w -a -package str restmodel.mli restmodel.ml driver.ml -o restdriver 2>/dev/null || \
ocamlfind ocamlopt -w -a restmodel.mli restmodel.ml driver.ml -o restdriver
