
type __ = Obj.t

val xorb : bool -> bool -> bool

val negb : bool -> bool

type nat =
| O
| S of nat

val option_map : ('a1 -> 'a2) -> 'a1 option -> 'a2 option

type ('a, 'b) sum =
| Inl of 'a
| Inr of 'b

val fst : ('a1 * 'a2) -> 'a1

val snd : ('a1 * 'a2) -> 'a2

val uncurry : ('a1 -> 'a2 -> 'a3) -> ('a1 * 'a2) -> 'a3

val prod_curry_subdef : ('a1 -> 'a2 -> 'a3) -> ('a1 * 'a2) -> 'a3

val length : 'a1 list -> nat

val app : 'a1 list -> 'a1 list -> 'a1 list

type comparison =
| Eq
| Lt
| Gt

val compOpp : comparison -> comparison

type compareSpecT =
| CompEqT
| CompLtT
| CompGtT

val compareSpec2Type : comparison -> compareSpecT

type 'a compSpecT = compareSpecT

val compSpec2Type : 'a1 -> 'a1 -> comparison -> 'a1 compSpecT

val id : __ -> __

type 'a sig0 = 'a
  (* singleton inductive, whose constructor was exist *)



type uint =
| Nil
| D0 of uint
| D1 of uint
| D2 of uint
| D3 of uint
| D4 of uint
| D5 of uint
| D6 of uint
| D7 of uint
| D8 of uint
| D9 of uint

type signed_int =
| Pos of uint
| Neg of uint

val nzhead : uint -> uint

val unorm : uint -> uint

val norm : signed_int -> signed_int

val revapp : uint -> uint -> uint

val rev : uint -> uint

module Little :
 sig
  val succ : uint -> uint
 end

type uint0 =
| Nil0
| D10 of uint0
| D11 of uint0
| D12 of uint0
| D13 of uint0
| D14 of uint0
| D15 of uint0
| D16 of uint0
| D17 of uint0
| D18 of uint0
| D19 of uint0
| Da of uint0
| Db of uint0
| Dc of uint0
| Dd of uint0
| De of uint0
| Df of uint0

type signed_int0 =
| Pos0 of uint0
| Neg0 of uint0

val nzhead0 : uint0 -> uint0

val unorm0 : uint0 -> uint0

val norm0 : signed_int0 -> signed_int0

val revapp0 : uint0 -> uint0 -> uint0

val rev0 : uint0 -> uint0

module Coq_Little :
 sig
  val succ : uint0 -> uint0
 end

type uint1 =
| UIntDecimal of uint
| UIntHexadecimal of uint0

type signed_int1 =
| IntDecimal of signed_int
| IntHexadecimal of signed_int0

val add : nat -> nat -> nat

val mul : nat -> nat -> nat

type byte =
| X00
| X01
| X02
| X03
| X04
| X05
| X06
| X07
| X08
| X09
| X0a
| X0b
| X0c
| X0d
| X0e
| X0f
| X10
| X11
| X12
| X13
| X14
| X15
| X16
| X17
| X18
| X19
| X1a
| X1b
| X1c
| X1d
| X1e
| X1f
| X20
| X21
| X22
| X23
| X24
| X25
| X26
| X27
| X28
| X29
| X2a
| X2b
| X2c
| X2d
| X2e
| X2f
| X30
| X31
| X32
| X33
| X34
| X35
| X36
| X37
| X38
| X39
| X3a
| X3b
| X3c
| X3d
| X3e
| X3f
| X40
| X41
| X42
| X43
| X44
| X45
| X46
| X47
| X48
| X49
| X4a
| X4b
| X4c
| X4d
| X4e
| X4f
| X50
| X51
| X52
| X53
| X54
| X55
| X56
| X57
| X58
| X59
| X5a
| X5b
| X5c
| X5d
| X5e
| X5f
| X60
| X61
| X62
| X63
| X64
| X65
| X66
| X67
| X68
| X69
| X6a
| X6b
| X6c
| X6d
| X6e
| X6f
| X70
| X71
| X72
| X73
| X74
| X75
| X76
| X77
| X78
| X79
| X7a
| X7b
| X7c
| X7d
| X7e
| X7f
| X80
| X81
| X82
| X83
| X84
| X85
| X86
| X87
| X88
| X89
| X8a
| X8b
| X8c
| X8d
| X8e
| X8f
| X90
| X91
| X92
| X93
| X94
| X95
| X96
| X97
| X98
| X99
| X9a
| X9b
| X9c
| X9d
| X9e
| X9f
| Xa0
| Xa1
| Xa2
| Xa3
| Xa4
| Xa5
| Xa6
| Xa7
| Xa8
| Xa9
| Xaa
| Xab
| Xac
| Xad
| Xae
| Xaf
| Xb0
| Xb1
| Xb2
| Xb3
| Xb4
| Xb5
| Xb6
| Xb7
| Xb8
| Xb9
| Xba
| Xbb
| Xbc
| Xbd
| Xbe
| Xbf
| Xc0
| Xc1
| Xc2
| Xc3
| Xc4
| Xc5
| Xc6
| Xc7
| Xc8
| Xc9
| Xca
| Xcb
| Xcc
| Xcd
| Xce
| Xcf
| Xd0
| Xd1
| Xd2
| Xd3
| Xd4
| Xd5
| Xd6
| Xd7
| Xd8
| Xd9
| Xda
| Xdb
| Xdc
| Xdd
| Xde
| Xdf
| Xe0
| Xe1
| Xe2
| Xe3
| Xe4
| Xe5
| Xe6
| Xe7
| Xe8
| Xe9
| Xea
| Xeb
| Xec
| Xed
| Xee
| Xef
| Xf0
| Xf1
| Xf2
| Xf3
| Xf4
| Xf5
| Xf6
| Xf7
| Xf8
| Xf9
| Xfa
| Xfb
| Xfc
| Xfd
| Xfe
| Xff

val of_bits :
  (bool * (bool * (bool * (bool * (bool * (bool * (bool * bool))))))) -> byte

val to_bits :
  byte -> bool * (bool * (bool * (bool * (bool * (bool * (bool * bool))))))

val eqb : bool -> bool -> bool

type reflect =
| ReflectT
| ReflectF

val iff_reflect : bool -> reflect

val compose : ('a2 -> 'a3) -> ('a1 -> 'a2) -> 'a1 -> 'a3

module Nat :
 sig
  type t = nat

  val zero : nat

  val one : nat

  val two : nat

  val succ : nat -> nat

  val pred : nat -> nat

  val add : nat -> nat -> nat

  val double : nat -> nat

  val mul : nat -> nat -> nat

  val sub : nat -> nat -> nat

  val eqb : nat -> nat -> bool

  val leb : nat -> nat -> bool

  val ltb : nat -> nat -> bool

  val compare : nat -> nat -> comparison

  val max : nat -> nat -> nat

  val min : nat -> nat -> nat

  val even : nat -> bool

  val odd : nat -> bool

  val pow : nat -> nat -> nat

  val tail_add : nat -> nat -> nat

  val tail_addmul : nat -> nat -> nat -> nat

  val tail_mul : nat -> nat -> nat

  val of_uint_acc : uint -> nat -> nat

  val of_uint : uint -> nat

  val of_hex_uint_acc : uint0 -> nat -> nat

  val of_hex_uint : uint0 -> nat

  val of_num_uint : uint1 -> nat

  val to_little_uint : nat -> uint -> uint

  val to_uint : nat -> uint

  val to_little_hex_uint : nat -> uint0 -> uint0

  val to_hex_uint : nat -> uint0

  val to_num_uint : nat -> uint1

  val to_num_hex_uint : nat -> uint1

  val of_int : signed_int -> nat option

  val of_hex_int : signed_int0 -> nat option

  val of_num_int : signed_int1 -> nat option

  val to_int : nat -> signed_int

  val to_hex_int : nat -> signed_int0

  val to_num_int : nat -> signed_int1

  val divmod : nat -> nat -> nat -> nat -> nat * nat

  val div : nat -> nat -> nat

  val modulo : nat -> nat -> nat

  val gcd : nat -> nat -> nat

  val square : nat -> nat

  val sqrt_iter : nat -> nat -> nat -> nat -> nat

  val sqrt : nat -> nat

  val log2_iter : nat -> nat -> nat -> nat -> nat

  val log2 : nat -> nat

  val iter : nat -> ('a1 -> 'a1) -> 'a1 -> 'a1

  val div2 : nat -> nat

  val testbit : nat -> nat -> bool

  val shiftl : nat -> nat -> nat

  val shiftr : nat -> nat -> nat

  val bitwise : (bool -> bool -> bool) -> nat -> nat -> nat -> nat

  val coq_land : nat -> nat -> nat

  val coq_lor : nat -> nat -> nat

  val ldiff : nat -> nat -> nat

  val coq_lxor : nat -> nat -> nat

  val recursion : 'a1 -> (nat -> 'a1 -> 'a1) -> nat -> 'a1

  val eq_dec : nat -> nat -> bool

  val leb_spec0 : nat -> nat -> reflect

  val ltb_spec0 : nat -> nat -> reflect

  module Private_OrderTac :
   sig
    module IsTotal :
     sig
     end

    module Tac :
     sig
     end
   end

  module Private_Tac :
   sig
   end

  module Private_Dec :
   sig
    val max_case_strong :
      nat -> nat -> (nat -> nat -> __ -> 'a1 -> 'a1) -> (__ -> 'a1) -> (__ ->
      'a1) -> 'a1

    val max_case :
      nat -> nat -> (nat -> nat -> __ -> 'a1 -> 'a1) -> 'a1 -> 'a1 -> 'a1

    val max_dec : nat -> nat -> bool

    val min_case_strong :
      nat -> nat -> (nat -> nat -> __ -> 'a1 -> 'a1) -> (__ -> 'a1) -> (__ ->
      'a1) -> 'a1

    val min_case :
      nat -> nat -> (nat -> nat -> __ -> 'a1 -> 'a1) -> 'a1 -> 'a1 -> 'a1

    val min_dec : nat -> nat -> bool
   end

  val max_case_strong : nat -> nat -> (__ -> 'a1) -> (__ -> 'a1) -> 'a1

  val max_case : nat -> nat -> 'a1 -> 'a1 -> 'a1

  val max_dec : nat -> nat -> bool

  val min_case_strong : nat -> nat -> (__ -> 'a1) -> (__ -> 'a1) -> 'a1

  val min_case : nat -> nat -> 'a1 -> 'a1 -> 'a1

  val min_dec : nat -> nat -> bool

  module Private_Parity :
   sig
   end

  module Private_NZPow :
   sig
   end

  module Private_NZSqrt :
   sig
   end

  val sqrt_up : nat -> nat

  val log2_up : nat -> nat

  module Private_NZDiv :
   sig
   end

  val lcm : nat -> nat -> nat

  val eqb_spec : nat -> nat -> reflect

  val b2n : bool -> nat

  val setbit : nat -> nat -> nat

  val clearbit : nat -> nat -> nat

  val ones : nat -> nat

  val lnot : nat -> nat -> nat

  val coq_Even_Odd_dec : nat -> bool

  type coq_EvenT = nat

  type coq_OddT = nat

  val coq_EvenT_0 : coq_EvenT

  val coq_EvenT_2 : nat -> coq_EvenT -> coq_EvenT

  val coq_OddT_1 : coq_OddT

  val coq_OddT_2 : nat -> coq_OddT -> coq_OddT

  val coq_EvenT_S_OddT : nat -> coq_EvenT -> coq_OddT

  val coq_OddT_S_EvenT : nat -> coq_OddT -> coq_EvenT

  val even_EvenT : nat -> coq_EvenT

  val odd_OddT : nat -> coq_OddT

  val coq_Even_EvenT : nat -> coq_EvenT

  val coq_Odd_OddT : nat -> coq_OddT

  val coq_EvenT_OddT_dec : nat -> (coq_EvenT, coq_OddT) sum

  val coq_OddT_EvenT_rect :
    (nat -> coq_EvenT -> 'a2 -> 'a1) -> 'a2 -> (nat -> coq_OddT -> 'a1 ->
    'a2) -> nat -> coq_OddT -> 'a1

  val coq_EvenT_OddT_rect :
    (nat -> coq_EvenT -> 'a2 -> 'a1) -> 'a2 -> (nat -> coq_OddT -> 'a1 ->
    'a2) -> nat -> coq_EvenT -> 'a2
 end

type positive =
| XI of positive
| XO of positive
| XH

type n =
| N0
| Npos of positive

type z =
| Z0
| Zpos of positive
| Zneg of positive

module Pos :
 sig
  val succ : positive -> positive

  val add : positive -> positive -> positive

  val add_carry : positive -> positive -> positive

  val pred_double : positive -> positive

  val pred : positive -> positive

  val mul : positive -> positive -> positive

  val compare_cont : comparison -> positive -> positive -> comparison

  val compare : positive -> positive -> comparison

  val eqb : positive -> positive -> bool

  val of_succ_nat : nat -> positive

  val eq_dec : positive -> positive -> bool
 end

module N :
 sig
  val eq_dec : n -> n -> bool
 end

val rev1 : 'a1 list -> 'a1 list

val concat : 'a1 list list -> 'a1 list

val list_eq_dec : ('a1 -> 'a1 -> bool) -> 'a1 list -> 'a1 list -> bool

val map : ('a1 -> 'a2) -> 'a1 list -> 'a2 list

val flat_map : ('a1 -> 'a2 list) -> 'a1 list -> 'a2 list

val fold_left : ('a1 -> 'a2 -> 'a1) -> 'a2 list -> 'a1 -> 'a1

val fold_right : ('a2 -> 'a1 -> 'a1) -> 'a1 -> 'a2 list -> 'a1

val existsb : ('a1 -> bool) -> 'a1 list -> bool

val forallb : ('a1 -> bool) -> 'a1 list -> bool

val filter : ('a1 -> bool) -> 'a1 list -> 'a1 list

module Z :
 sig
  val double : z -> z

  val succ_double : z -> z

  val pred_double : z -> z

  val pos_sub : positive -> positive -> z

  val add : z -> z -> z

  val opp : z -> z

  val sub : z -> z -> z

  val mul : z -> z -> z

  val compare : z -> z -> comparison

  val leb : z -> z -> bool

  val ltb : z -> z -> bool

  val eqb : z -> z -> bool

  val max : z -> z -> z

  val min : z -> z -> z

  val of_nat : nat -> z

  val pos_div_eucl : positive -> z -> z * z

  val div_eucl : z -> z -> z * z

  val div : z -> z -> z

  val eq_dec : z -> z -> bool
 end

val z_lt_dec : z -> z -> bool

val eqb0 : byte -> byte -> bool

val byte_eq_dec : byte -> byte -> bool

val to_N : byte -> n

val of_N : n -> byte option

type ascii =
| Ascii of bool * bool * bool * bool * bool * bool * bool * bool

val byte_of_ascii : ascii -> byte

type string =
| EmptyString
| String of ascii * string

val list_ascii_of_string : string -> ascii list

val list_byte_of_string : string -> byte list

type decision = bool

val decide : decision -> bool

type ('a, 'b) relDecision = 'a -> 'b -> decision

val decide_rel : ('a1, 'a2) relDecision -> 'a1 -> 'a2 -> decision

type 'a empty = 'a

val empty0 : 'a1 empty -> 'a1

type ('a, 'b) filter0 = __ -> ('a -> decision) -> 'b -> 'b

val filter1 : ('a1, 'a2) filter0 -> ('a1 -> decision) -> 'a2 -> 'a2

type 'm mRet = __ -> __ -> 'm

val mret : 'a1 mRet -> 'a2 -> 'a1

type 'm mBind = __ -> __ -> (__ -> 'm) -> 'm -> 'm

val mbind : 'a1 mBind -> ('a2 -> 'a1) -> 'a1 -> 'a1

type 'm fMap = __ -> __ -> (__ -> __) -> 'm -> 'm

val fmap : 'a1 fMap -> ('a2 -> 'a3) -> 'a1 -> 'a1

type 'm oMap = __ -> __ -> (__ -> __ option) -> 'm -> 'm

val omap : 'a1 oMap -> ('a2 -> 'a3 option) -> 'a1 -> 'a1

type ('k, 'a, 'm) lookup = 'k -> 'm -> 'a option

val lookup0 : ('a1, 'a2, 'a3) lookup -> 'a1 -> 'a3 -> 'a2 option

type ('k, 'a, 'm) insert = 'k -> 'a -> 'm -> 'm

val insert0 : ('a1, 'a2, 'a3) insert -> 'a1 -> 'a2 -> 'a3 -> 'a3

type ('k, 'm) delete = 'k -> 'm -> 'm

val delete0 : ('a1, 'a2) delete -> 'a1 -> 'a2 -> 'a2

type ('k, 'a, 'm) partialAlter = ('a option -> 'a option) -> 'k -> 'm -> 'm

val partial_alter :
  ('a1, 'a2, 'a3) partialAlter -> ('a2 option -> 'a2 option) -> 'a1 -> 'a3 ->
  'a3

type 'c size = 'c -> nat

val size0 : 'a1 size -> 'a1 -> nat

val true_dec : decision

val false_dec : decision

val is_true_dec : bool -> decision

val not_dec : decision -> decision

val bool_eq_dec : (bool, bool) relDecision

val prod_eq_dec :
  ('a1, 'a1) relDecision -> ('a2, 'a2) relDecision -> ('a1 * 'a2, 'a1 * 'a2)
  relDecision

val uncurry_dec : ('a1 -> 'a2 -> decision) -> ('a1 * 'a2) -> decision

val bool_decide : decision -> bool

module Coq_Nat :
 sig
  type t = nat

  val zero : nat

  val one : nat

  val two : nat

  val succ : nat -> nat

  val pred : nat -> nat

  val add : nat -> nat -> nat

  val double : nat -> nat

  val mul : nat -> nat -> nat

  val sub : nat -> nat -> nat

  val eqb : nat -> nat -> bool

  val leb : nat -> nat -> bool

  val ltb : nat -> nat -> bool

  val compare : nat -> nat -> comparison

  val max : nat -> nat -> nat

  val min : nat -> nat -> nat

  val even : nat -> bool

  val odd : nat -> bool

  val pow : nat -> nat -> nat

  val tail_add : nat -> nat -> nat

  val tail_addmul : nat -> nat -> nat -> nat

  val tail_mul : nat -> nat -> nat

  val of_uint_acc : uint -> nat -> nat

  val of_uint : uint -> nat

  val of_hex_uint_acc : uint0 -> nat -> nat

  val of_hex_uint : uint0 -> nat

  val of_num_uint : uint1 -> nat

  val to_little_uint : nat -> uint -> uint

  val to_uint : nat -> uint

  val to_little_hex_uint : nat -> uint0 -> uint0

  val to_hex_uint : nat -> uint0

  val to_num_uint : nat -> uint1

  val to_num_hex_uint : nat -> uint1

  val of_int : signed_int -> nat option

  val of_hex_int : signed_int0 -> nat option

  val of_num_int : signed_int1 -> nat option

  val to_int : nat -> signed_int

  val to_hex_int : nat -> signed_int0

  val to_num_int : nat -> signed_int1

  val divmod : nat -> nat -> nat -> nat -> nat * nat

  val div : nat -> nat -> nat

  val modulo : nat -> nat -> nat

  val gcd : nat -> nat -> nat

  val square : nat -> nat

  val sqrt_iter : nat -> nat -> nat -> nat -> nat

  val sqrt : nat -> nat

  val log2_iter : nat -> nat -> nat -> nat -> nat

  val log2 : nat -> nat

  val iter : nat -> ('a1 -> 'a1) -> 'a1 -> 'a1

  val div2 : nat -> nat

  val testbit : nat -> nat -> bool

  val shiftl : nat -> nat -> nat

  val shiftr : nat -> nat -> nat

  val bitwise : (bool -> bool -> bool) -> nat -> nat -> nat -> nat

  val coq_land : nat -> nat -> nat

  val coq_lor : nat -> nat -> nat

  val ldiff : nat -> nat -> nat

  val coq_lxor : nat -> nat -> nat

  val recursion : 'a1 -> (nat -> 'a1 -> 'a1) -> nat -> 'a1

  val eq_dec : nat -> nat -> bool

  val leb_spec0 : nat -> nat -> reflect

  val ltb_spec0 : nat -> nat -> reflect

  module Private_OrderTac :
   sig
    module IsTotal :
     sig
     end

    module Tac :
     sig
     end
   end

  module Private_Tac :
   sig
   end

  module Private_Dec :
   sig
    val max_case_strong :
      nat -> nat -> (nat -> nat -> __ -> 'a1 -> 'a1) -> (__ -> 'a1) -> (__ ->
      'a1) -> 'a1

    val max_case :
      nat -> nat -> (nat -> nat -> __ -> 'a1 -> 'a1) -> 'a1 -> 'a1 -> 'a1

    val max_dec : nat -> nat -> bool

    val min_case_strong :
      nat -> nat -> (nat -> nat -> __ -> 'a1 -> 'a1) -> (__ -> 'a1) -> (__ ->
      'a1) -> 'a1

    val min_case :
      nat -> nat -> (nat -> nat -> __ -> 'a1 -> 'a1) -> 'a1 -> 'a1 -> 'a1

    val min_dec : nat -> nat -> bool
   end

  val max_case_strong : nat -> nat -> (__ -> 'a1) -> (__ -> 'a1) -> 'a1

  val max_case : nat -> nat -> 'a1 -> 'a1 -> 'a1

  val max_dec : nat -> nat -> bool

  val min_case_strong : nat -> nat -> (__ -> 'a1) -> (__ -> 'a1) -> 'a1

  val min_case : nat -> nat -> 'a1 -> 'a1 -> 'a1

  val min_dec : nat -> nat -> bool

  module Private_Parity :
   sig
   end

  module Private_NZPow :
   sig
   end

  module Private_NZSqrt :
   sig
   end

  val sqrt_up : nat -> nat

  val log2_up : nat -> nat

  module Private_NZDiv :
   sig
   end

  val lcm : nat -> nat -> nat

  val eqb_spec : nat -> nat -> reflect

  val b2n : bool -> nat

  val setbit : nat -> nat -> nat

  val clearbit : nat -> nat -> nat

  val ones : nat -> nat

  val lnot : nat -> nat -> nat

  val coq_Even_Odd_dec : nat -> bool

  type coq_EvenT = nat

  type coq_OddT = nat

  val coq_EvenT_0 : coq_EvenT

  val coq_EvenT_2 : nat -> coq_EvenT -> coq_EvenT

  val coq_OddT_1 : coq_OddT

  val coq_OddT_2 : nat -> coq_OddT -> coq_OddT

  val coq_EvenT_S_OddT : nat -> coq_EvenT -> coq_OddT

  val coq_OddT_S_EvenT : nat -> coq_OddT -> coq_EvenT

  val even_EvenT : nat -> coq_EvenT

  val odd_OddT : nat -> coq_OddT

  val coq_Even_EvenT : nat -> coq_EvenT

  val coq_Odd_OddT : nat -> coq_OddT

  val coq_EvenT_OddT_dec : nat -> (coq_EvenT, coq_OddT) sum

  val coq_OddT_EvenT_rect :
    (nat -> coq_EvenT -> 'a2 -> 'a1) -> 'a2 -> (nat -> coq_OddT -> 'a1 ->
    'a2) -> nat -> coq_OddT -> 'a1

  val coq_EvenT_OddT_rect :
    (nat -> coq_EvenT -> 'a2 -> 'a1) -> 'a2 -> (nat -> coq_OddT -> 'a1 ->
    'a2) -> nat -> coq_EvenT -> 'a2
 end

val from_option : ('a1 -> 'a2) -> 'a2 -> 'a1 option -> 'a2

val is_Some_dec : 'a1 option -> decision

val option_eq_None_dec : 'a1 option -> decision

val option_eq_dec :
  ('a1, 'a1) relDecision -> ('a1 option, 'a1 option) relDecision

val option_ret : __ -> __ option

val option_bind : (__ -> __ option) -> __ option -> __ option

val option_fmap : (__ -> __) -> __ option -> __ option

module Coq0_Nat :
 sig
  val eq_dec : (nat, nat) relDecision
 end

module Coq_Pos :
 sig
  val eq_dec : (positive, positive) relDecision

  val app : positive -> positive -> positive

  val reverse_go : positive -> positive -> positive

  val reverse : positive -> positive

  val dup : positive -> positive
 end

val n_eq_dec : (n, n) relDecision

module Coq_Z :
 sig
  val eq_dec : (z, z) relDecision

  val lt_dec : (z, z) relDecision
 end

val list_filter : ('a1 -> decision) -> 'a1 list -> 'a1 list

val last : 'a1 list -> 'a1 option

val list_fmap : (__ -> __) -> __ list -> __ list

val list_omap : (__ -> __ option) -> __ list -> __ list

val mapM : 'a1 mBind -> 'a1 mRet -> ('a2 -> 'a1) -> 'a2 list -> 'a1

val list_remove : ('a1, 'a1) relDecision -> 'a1 -> 'a1 list -> 'a1 list option

val list_remove_list :
  ('a1, 'a1) relDecision -> 'a1 list -> 'a1 list -> 'a1 list option

val elem_of_list_dec : ('a1, 'a1) relDecision -> ('a1, 'a1 list) relDecision

val positives_flatten_go : positive list -> positive -> positive

val positives_flatten : positive list -> positive

val positives_unflatten_go :
  positive -> positive list -> positive -> positive list option

val positives_unflatten : positive -> positive list option

val list_eq_dec0 : ('a1, 'a1) relDecision -> ('a1 list, 'a1 list) relDecision

val list_eq_nil_dec : 'a1 list -> decision

val noDup_dec : ('a1, 'a1) relDecision -> 'a1 list -> decision

val submseteq_dec : ('a1, 'a1) relDecision -> ('a1 list, 'a1 list) relDecision

val permutation_dec :
  ('a1, 'a1) relDecision -> ('a1 list, 'a1 list) relDecision

type 'a countable = { encode : ('a -> positive);
                      decode : (positive -> 'a option) }

val inj_countable :
  ('a1, 'a1) relDecision -> 'a1 countable -> ('a2, 'a2) relDecision -> ('a2
  -> 'a1) -> ('a1 -> 'a2 option) -> 'a2 countable

val list_countable :
  ('a1, 'a1) relDecision -> 'a1 countable -> 'a1 list countable

val n_countable : n countable

type ('k, 'a, 'm) finMapToList = 'm -> ('k * 'a) list

val map_to_list : ('a1, 'a2, 'a3) finMapToList -> 'a3 -> ('a1 * 'a2) list

val map_insert : ('a1, 'a2, 'a3) partialAlter -> ('a1, 'a2, 'a3) insert

val map_delete : ('a1, 'a2, 'a3) partialAlter -> ('a1, 'a3) delete

val map_size : ('a1, 'a2, 'a3) finMapToList -> 'a3 size

val map_fold :
  ('a1, 'a2, 'a3) finMapToList -> ('a1 -> 'a2 -> 'a4 -> 'a4) -> 'a4 -> 'a3 ->
  'a4

val map_filter :
  ('a1, 'a2, 'a3) finMapToList -> ('a1, 'a2, 'a3) insert -> 'a3 empty ->
  (('a1 * 'a2) -> decision) -> 'a3 -> 'a3

type 'a pmap_raw =
| PLeaf
| PNode of 'a option * 'a pmap_raw * 'a pmap_raw

val pNode' : 'a1 option -> 'a1 pmap_raw -> 'a1 pmap_raw -> 'a1 pmap_raw

val pempty_raw : 'a1 pmap_raw empty

val plookup_raw : (positive, 'a1, 'a1 pmap_raw) lookup

val psingleton_raw : positive -> 'a1 -> 'a1 pmap_raw

val ppartial_alter_raw :
  ('a1 option -> 'a1 option) -> positive -> 'a1 pmap_raw -> 'a1 pmap_raw

val pfmap_raw : ('a1 -> 'a2) -> 'a1 pmap_raw -> 'a2 pmap_raw

val pto_list_raw :
  positive -> 'a1 pmap_raw -> (positive * 'a1) list -> (positive * 'a1) list

type 'a pmap =
  'a pmap_raw
  (* singleton inductive, whose constructor was PMap *)

val pmap_car : 'a1 pmap -> 'a1 pmap_raw

val pempty : 'a1 pmap empty

val plookup : (positive, 'a1, 'a1 pmap) lookup

val ppartial_alter : (positive, 'a1, 'a1 pmap) partialAlter

val pfmap : (__ -> __) -> __ pmap -> __ pmap

val pto_list : (positive, 'a1, 'a1 pmap) finMapToList

type ('k, 'a) gmap =
  'a pmap
  (* singleton inductive, whose constructor was GMap *)

val gmap_lookup :
  ('a1, 'a1) relDecision -> 'a1 countable -> ('a1, 'a2, ('a1, 'a2) gmap)
  lookup

val gmap_empty :
  ('a1, 'a1) relDecision -> 'a1 countable -> ('a1, 'a2) gmap empty

val gmap_partial_alter :
  ('a1, 'a1) relDecision -> 'a1 countable -> ('a1, 'a2, ('a1, 'a2) gmap)
  partialAlter

val gmap_fmap :
  ('a1, 'a1) relDecision -> 'a1 countable -> (__ -> __) -> ('a1, __) gmap ->
  ('a1, __) gmap

val gmap_to_list :
  ('a1, 'a1) relDecision -> 'a1 countable -> ('a1, 'a2, ('a1, 'a2) gmap)
  finMapToList

type str = byte list

val byte_eq_dec0 : (byte, byte) relDecision

val byte_countable : byte countable

type err =
| ESrvEmptyName
| ESrvLockWaitTimeout
| ESrvDoesNotExistOrInvalidKey
| ESrvSessionDoesNotExist
| ESrvInvalidLockTimeout
| ESrvInvalidWaitTimeout
| ELockInvalidLockKey
| ELockNotLocked
| ELockDoesNotExist
| ELockManagerShutdown
| ELockSizeMismatch
| ELockInvalidLockSize
| ETimerDoesNotExist
| ECtxCanceled
| ECtxDeadlineExceeded
| EOther

val err_eq_dec : (err, err) relDecision

val all_errs : err list

val err_go_name : err -> string

type ('r, 't) setter = ('t -> 't) -> 'r -> 'r

val set : ('a1 -> 'a2) -> ('a1, 'a2) setter -> ('a2 -> 'a2) -> 'a1 -> 'a1

type clock = { cl_name : str; cl_key : str; cl_size : z }

val clock_eq_dec : (clock, clock) relDecision

type lockobj = { lo_size : z; lo_keys : str list; lo_last : z }

type timer = { tm_deadline : z; tm_name : str; tm_key : str; tm_sid : str }

type waiter = { w_id : nat; w_sid : str; w_name : str; w_key : str;
                w_size : z; w_lt : z option; w_deadline : z option }

type config = { c_noclear : bool; c_file : bool; c_gc_interval : z;
                c_gc_minidle : z; c_default_lt : z }

type sstate = { st_locks : (str, lockobj) gmap;
                st_sessions : (str, clock list) gmap;
                st_timers : (str, timer) gmap; st_waiters : waiter list;
                st_file : (str, clock list) gmap option; st_now : z;
                st_gc_next : z; st_shut : bool; st_used : str list }

val init_state : config -> sstate

val second : z

val uint_bytes : uint -> byte list

val itoa : nat -> str

val tkey : str -> str -> str

type resp =
| RLock of bool * str * err option
| RUnlock of bool * err option
| RBlocked

type out =
| OResp of resp
| OWaiter of nat * z * resp
| OListing of clock list
| OFile of (str * clock list) list option
| OTable of (str * ((z * str list) * z)) list
| OIpcList of clock list
| OIpcUnlock of bool option * err option

type event =
| EConnect of str
| EDisconnect of str
| ETryLock of str option * str * z option * z option * str
| ELock of nat * str option * str * z option * z option * z option * str
| EUnlock of str option * str * str
| ERenew of str * str * z
| ECancel of nat
| EAdvance of z
| ERestart of str list
| EShutdown
| EProbe
| EIpcList
| EIpcUnlock of str * str option

val name_waiters : str -> waiter list -> waiter list

val get_lock_create : str -> z -> sstate -> (err, lockobj * sstate) sum

val can_acquire : str -> lockobj -> sstate -> bool

val add_key : str -> str -> sstate -> sstate

val save : config -> sstate -> sstate

val record_grant :
  config -> str -> str -> str -> z -> z option -> sstate -> sstate

val is_hold : str -> str -> clock -> bool

val remove_lock_entry : config -> str -> str -> sstate -> sstate

val hand_off : config -> str -> sstate -> sstate * out list

val remove_first : str -> str list -> str list

val mgr_unlock :
  config -> str -> str -> sstate -> (sstate * (err, unit) sum) * out list

val opt_neg : z option -> bool

val srv_acquire :
  config -> bool -> nat -> str -> str -> str -> z -> z option -> z option ->
  sstate -> sstate * out list

val srv_trylock :
  config -> str option -> str -> z option -> z option -> str -> sstate ->
  sstate * out list

val srv_lock :
  config -> nat -> str option -> str -> z option -> z option -> z option ->
  str -> sstate -> sstate * out list

val srv_unlock :
  config -> str -> str -> sstate -> (sstate * (bool * err option)) * out list

val srv_renew : str -> str -> z -> sstate -> sstate * out list

val waiter_leave : waiter -> err -> sstate -> sstate * out list

val cancel_waiters : (waiter -> bool) -> err -> sstate -> sstate * out list

val destroy_session : config -> str -> sstate -> sstate * out list

val disconnect : config -> str -> sstate -> sstate * out list

val expire : config -> str -> timer -> sstate -> sstate * out list

val gc_collectable : config -> z -> waiter list -> str -> lockobj -> bool

val run_gc_until : config -> z -> sstate -> sstate

type due_item =
| DTimer of str * timer
| DWaiter of waiter

val due_time : due_item -> z

val all_items : sstate -> due_item list

val min_time : due_item list -> z option

val next_due : z -> sstate -> due_item list

val fire : config -> due_item -> sstate -> sstate * out list

val finish_advance : config -> z -> sstate -> sstate

val advance_loop :
  config -> nat -> z -> sstate -> out list -> (sstate * out list) list

val advance_fuel : sstate -> nat

val advance : config -> z -> sstate -> (sstate * out list) list

val restore_one : config -> str -> clock -> sstate -> sstate

val reload_order : str list -> (str, clock list) gmap -> str list

val restart : config -> str list -> sstate -> (sstate * out list) list

val shutdown : config -> sstate -> sstate * out list

val listing : sstate -> clock list

val file_view : sstate -> (str * clock list) list option

val table_view : sstate -> (str * ((z * str list) * z)) list

val ipc_candidates : str -> sstate -> str list

val ipc_unlock_with : config -> str -> str -> sstate -> sstate * out list

val ipc_unlock :
  config -> str -> str option -> sstate -> (sstate * out list) list

val det : (sstate * out list) -> (sstate * out list) list

val sstep : config -> sstate -> event -> (sstate * out list) list

val remove_by : ('a1 -> 'a1 -> bool) -> 'a1 -> 'a1 list -> 'a1 list option

val perm_by : ('a1 -> 'a1 -> bool) -> 'a1 list -> 'a1 list -> bool

val eqb_dec : ('a1, 'a1) relDecision -> 'a1 -> 'a1 -> bool

type proj = { p_bits : bool; p_keys : bool; p_errs : bool; p_times : 
              bool; p_listing : bool; p_file : bool; p_table : bool;
              p_last : bool; p_ipc : bool }

val proj_all : proj

val resp_eqb : proj -> resp -> resp -> bool

val file_pairs : (str * clock list) list -> (str * clock) list

val table_holds : (str * ((z * str list) * z)) list -> clock list

val out_eqb : proj -> out -> out -> bool

val outs_eqb : proj -> out list -> out list -> bool

val replay :
  proj -> config -> sstate list -> (event * out list) list -> nat ->
  (nat * out list list) option

val replay_history :
  proj -> config -> (event * out list) list -> (nat * out list list) option

type req =
| QTry of str * z option * z option * str
| QUnlock of str * str
| QRenew of str * str * z
| QNoop of z

val req_event : str -> req -> event option

type rsess = { rs_sid : str; rs_deadline : z }

type rstate = { r_seq : sstate; r_table : (str, rsess) gmap; r_now : z }

val rinit : config -> rstate

type revent =
| RCreate of str * str
| RDelete of str option
| RRequest of str option * req
| RAdvance of z
| RProbe

type rout =
| ROStatus of z
| ROSeq of out
| ROEnd of str
| ROCookies of str list

val lift_seq :
  rstate -> rout list -> rout list -> (sstate * out list) list ->
  (rstate * rout list) list

val deadlines : rstate -> z list

val list_min : z list -> z option

val idle_due : z -> rstate -> (str * rsess) list

val radvance_loop :
  config -> nat -> z -> rstate -> rout list -> (rstate * rout list) list

val radvance : config -> z -> rstate -> (rstate * rout list) list

val radvance_tie : z -> rstate -> bool

val rstep : config -> z -> rstate -> revent -> (rstate * rout list) list

val strip : rout list -> out list

type gsess = { gs_sid : str; gs_last : z }

type gapst = { gp_now : z; gp_live : (str, gsess) gmap }

val gap_valid : gapst -> str option -> bool

val gap_step : z -> gapst -> revent -> gapst

val gap_init : gapst

val rout_eqb : proj -> rout -> rout -> bool

val drop_cookies : rout list -> rout list

val has_cookies : rout list -> bool

val routs_eqb : proj -> bool -> rout list -> rout list -> bool

val rreplay :
  proj -> bool -> config -> z -> rstate list -> (revent * rout list) list ->
  nat -> (nat * rout list list) option

val rreplay_history :
  proj -> bool -> config -> z -> (revent * rout list) list -> (nat * rout
  list list) option

val rhas_tie : config -> z -> rstate -> revent list -> bool

val statuses : rout list -> z list

val ends : rout list -> str list

type c20st = { c_gap : gapst; c_ended : str list; c_fail : (nat * string) list }

val cflag : nat -> string -> bool -> c20st -> c20st

val c20_step : z -> nat -> revent -> rout list -> c20st -> c20st

val c20_track : z -> nat -> (revent * rout list) list -> c20st -> c20st

val c20_failures : z -> (revent * rout list) list -> (nat * string) list

val rout_inert_eqb : rout -> rout -> bool

val refused_obs : rout list -> bool

val c20_inert_failures :
  nat -> (revent * rout list) list -> (nat * string) list

val tags_bytes : (nat * string) list -> (nat * byte list) list

val c20_failures_b : z -> (revent * rout list) list -> (nat * byte list) list

val c20_inert_failures_b : (revent * rout list) list -> (nat * byte list) list

val rhas_tie_b : config -> z -> revent list -> bool

val byte_to_N : byte -> n

val byte_of_N : n -> byte option

val err_name_b : err -> byte list
