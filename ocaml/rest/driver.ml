(* Replay driver for the extracted REST-gateway model (Model/Rest.v over Model/Seq.v, Model/Track.v).

   usage: restdriver <trace file> [proj ...]
   Reads cases in the line format written by harness/restdiff:
     H <id>
     C <noclear> <file> <gcInterval> <gcMinIdle> <defaultLockTimeout> <restSessionTimeout>     (ns)
     E <REST event>      O <observed output of it> ...         the REST side (real rest handler)
     G <gRPC event>      P <observed output of it> ...         the gRPC side (real Service), when the case has one
     X
   and prints, per case,
     R <id> rest <proj> ok | mismatch <idx>     is the observed REST history a run of Mrest under that projection
     R <id> grpc <proj> ok | mismatch <idx>     is the observed gRPC history a run of Mseq under that projection
     M <id> <side> <idx> <cand> <tokens>        what the model produces at the first mismatch
     T <id> <idx> <tag>                         the C20 trace oracle (Model/Rest.v c20_step) failed at REST event idx
     I <id> <idx> <tag>                         a refused request changed the probed state
     Y <id> tie                                 an idle deadline ties with a lock-server deadline: model order not enumerated
     B <id> <msg>                               unparsable trace
   Only parsing and printing happen here; every decision is made by extracted Coq code. *)
type ostring = string
open Restmodel

(* ---- numbers ---- *)
let rec pos_of_int (i : int) : positive =
  if i = 1 then XH else if i land 1 = 0 then XO (pos_of_int (i lsr 1)) else XI (pos_of_int (i lsr 1))
let z_of_int (i : int) : z = if i = 0 then Z0 else if i > 0 then Zpos (pos_of_int i) else Zneg (pos_of_int (-i))
let n_of_int (i : int) : n = if i = 0 then N0 else Npos (pos_of_int i)
let rec int_of_pos = function XH -> 1 | XO p -> 2 * int_of_pos p | XI p -> 2 * int_of_pos p + 1
let int_of_z = function Z0 -> 0 | Zpos p -> int_of_pos p | Zneg p -> - (int_of_pos p)
let int_of_n = function N0 -> 0 | Npos p -> int_of_pos p
let rec nat_of_int i = if i <= 0 then O else S (nat_of_int (i - 1))
let rec int_of_nat = function O -> 0 | S n -> 1 + int_of_nat n

(* ---- strings ---- *)
let byte_tbl : byte array = Array.init 256 (fun i -> match byte_of_N (n_of_int i) with Some b -> b | None -> assert false)
let str_of_hex (s : ostring) : byte list =
  if s = "-" then [] else begin
    let n = String.length s / 2 in
    List.init n (fun i -> byte_tbl.(int_of_string ("0x" ^ String.sub s (2 * i) 2)))
  end
let hex_of_str (l : byte list) : ostring =
  if l = [] then "-" else String.concat "" (List.map (fun b -> Printf.sprintf "%02x" (int_of_n (byte_to_N b))) l)
let ocaml_string (l : byte list) : ostring =
  String.init (List.length l) (fun i -> Char.chr (int_of_n (byte_to_N (List.nth l i))))

(* ---- errors ---- *)
let err_names : (ostring * err) list = List.map (fun e -> (ocaml_string (err_name_b e), e)) all_errs
let err_of_tok (t : ostring) : err option =
  if t = "~" then None else
  match List.assoc_opt t err_names with Some e -> Some e | None -> Some EOther
let tok_of_err = function None -> "~" | Some e -> ocaml_string (err_name_b e)

let optz t = if t = "~" then None else Some (z_of_int (int_of_string t))
let optstr t = if t = "~" then None else Some (str_of_hex t)
let bool_of t = t = "1"

(* ---- parsing ---- *)
exception Bad of ostring

let parse_event (t : ostring list) : event =
  match t with
  | ["conn"; sid] -> EConnect (str_of_hex sid)
  | ["disc"; sid] -> EDisconnect (str_of_hex sid)
  | ["try"; sid; name; size; lt; key] -> ETryLock (optstr sid, str_of_hex name, optz size, optz lt, str_of_hex key)
  | ["lock"; wid; sid; name; size; lt; wt; key] ->
      ELock (nat_of_int (int_of_string wid), optstr sid, str_of_hex name, optz size, optz lt, optz wt, str_of_hex key)
  | ["unl"; sid; name; key] -> EUnlock (optstr sid, str_of_hex name, str_of_hex key)
  | ["ren"; name; key; lt] -> ERenew (str_of_hex name, str_of_hex key, z_of_int (int_of_string lt))
  | ["cancel"; wid] -> ECancel (nat_of_int (int_of_string wid))
  | ["adv"; dt] -> EAdvance (z_of_int (int_of_string dt))
  | "restart" :: order -> ERestart (List.map str_of_hex order)
  | ["shutdown"] -> EShutdown
  | ["probe"] -> EProbe
  | ["ipcl"] -> EIpcList
  | ["ipcu"; name; key] -> EIpcUnlock (str_of_hex name, optstr key)
  | _ -> raise (Bad ("event: " ^ String.concat " " t))

let rec take_clocks n toks acc =
  if n = 0 then (List.rev acc, toks) else
  match toks with
  | name :: key :: size :: rest ->
      take_clocks (n - 1) rest ({ cl_name = str_of_hex name; cl_key = str_of_hex key; cl_size = z_of_int (int_of_string size) } :: acc)
  | _ -> raise (Bad "clocks")

let rec take_strs n toks acc =
  if n = 0 then (List.rev acc, toks) else
  match toks with x :: rest -> take_strs (n - 1) rest (str_of_hex x :: acc) | [] -> raise (Bad "strs")

let parse_resp (t : ostring list) : resp =
  match t with
  | ["lock"; l; key; e] -> RLock (bool_of l, str_of_hex key, err_of_tok e)
  | ["unl"; u; e] -> RUnlock (bool_of u, err_of_tok e)
  | ["blocked"] -> RBlocked
  | _ -> raise (Bad ("resp: " ^ String.concat " " t))

let parse_out (t : ostring list) : out =
  match t with
  | "r" :: rest -> OResp (parse_resp rest)
  | "w" :: wid :: at :: l :: key :: e :: [] ->
      OWaiter (nat_of_int (int_of_string wid), z_of_int (int_of_string at), RLock (bool_of l, str_of_hex key, err_of_tok e))
  | "listing" :: n :: rest -> let (cs, _) = take_clocks (int_of_string n) rest [] in OListing cs
  | ["file"; "none"] -> OFile None
  | "file" :: n :: rest ->
      let rec go k toks acc =
        if k = 0 then List.rev acc else
        match toks with
        | sid :: m :: rest -> let (cs, rest') = take_clocks (int_of_string m) rest [] in go (k - 1) rest' ((str_of_hex sid, cs) :: acc)
        | _ -> raise (Bad "file") in
      OFile (Some (go (int_of_string n) rest []))
  | "table" :: n :: rest ->
      let rec go k toks acc =
        if k = 0 then List.rev acc else
        match toks with
        | name :: size :: last :: nk :: rest ->
            let (ks, rest') = take_strs (int_of_string nk) rest [] in
            go (k - 1) rest' ((str_of_hex name, ((z_of_int (int_of_string size), ks), z_of_int (int_of_string last))) :: acc)
        | _ -> raise (Bad "table") in
      OTable (go (int_of_string n) rest [])
  | "ipcl" :: n :: rest -> let (cs, _) = take_clocks (int_of_string n) rest [] in OIpcList cs
  | ["ipcu"; r; e] -> OIpcUnlock ((if r = "~" then None else Some (bool_of r)), err_of_tok e)
  | _ -> raise (Bad ("out: " ^ String.concat " " t))

(* ---- printing ---- *)
let tok_of_clock c = Printf.sprintf "%s %s %d" (hex_of_str c.cl_name) (hex_of_str c.cl_key) (int_of_z c.cl_size)
let tok_of_resp = function
  | RLock (l, k, e) -> Printf.sprintf "lock %d %s %s" (if l then 1 else 0) (hex_of_str k) (tok_of_err e)
  | RUnlock (u, e) -> Printf.sprintf "unl %d %s" (if u then 1 else 0) (tok_of_err e)
  | RBlocked -> "blocked"
let tok_of_out = function
  | OResp r -> "r " ^ tok_of_resp r
  | OWaiter (w, a, r) ->
      (match r with
       | RLock (l, k, e) -> Printf.sprintf "w %d %d %d %s %s" (int_of_nat w) (int_of_z a) (if l then 1 else 0) (hex_of_str k) (tok_of_err e)
       | _ -> Printf.sprintf "w %d %d ?" (int_of_nat w) (int_of_z a))
  | OListing l -> Printf.sprintf "listing %d %s" (List.length l) (String.concat " " (List.map tok_of_clock l))
  | OFile None -> "file none"
  | OFile (Some f) ->
      Printf.sprintf "file %d %s" (List.length f)
        (String.concat " " (List.map (fun (sid, cs) -> Printf.sprintf "%s %d %s" (hex_of_str sid) (List.length cs) (String.concat " " (List.map tok_of_clock cs))) f))
  | OTable t ->
      Printf.sprintf "table %d %s" (List.length t)
        (String.concat " " (List.map (fun (n, ((sz, ks), last)) ->
             Printf.sprintf "%s %d %d %d %s" (hex_of_str n) (int_of_z sz) (int_of_z last) (List.length ks) (String.concat " " (List.map hex_of_str ks))) t))
  | OIpcList l -> Printf.sprintf "ipcl %d %s" (List.length l) (String.concat " " (List.map tok_of_clock l))
  | OIpcUnlock (r, e) -> Printf.sprintf "ipcu %s %s" (match r with None -> "~" | Some b -> if b then "1" else "0") (tok_of_err e)


(* ---- REST events / outputs ---- *)
let parse_req (t : ostring list) : req =
  match t with
  | ["try"; name; size; lt; key] -> QTry (str_of_hex name, optz size, optz lt, str_of_hex key)
  | ["unl"; name; key] -> QUnlock (str_of_hex name, str_of_hex key)
  | ["ren"; name; key; lt] -> QRenew (str_of_hex name, str_of_hex key, z_of_int (int_of_string lt))
  | ["noop"; st] -> QNoop (z_of_int (int_of_string st))
  | _ -> raise (Bad ("req: " ^ String.concat " " t))

let parse_revent (t : ostring list) : revent =
  match t with
  | ["create"; c; sid] -> RCreate (str_of_hex c, str_of_hex sid)
  | ["delete"; c] -> RDelete (optstr c)
  | "req" :: c :: rest -> RRequest (optstr c, parse_req rest)
  | ["adv"; dt] -> RAdvance (z_of_int (int_of_string dt))
  | ["probe"] -> RProbe
  | _ -> raise (Bad ("revent: " ^ String.concat " " t))

let parse_rout (t : ostring list) : rout =
  match t with
  | ["st"; c] -> ROStatus (z_of_int (int_of_string c))
  | ["end"; sid] -> ROEnd (str_of_hex sid)
  | "cookies" :: n :: rest -> let (cs, _) = take_strs (int_of_string n) rest [] in ROCookies cs
  | _ -> ROSeq (parse_out t)

let tok_of_rout = function
  | ROStatus c -> Printf.sprintf "st %d" (int_of_z c)
  | ROEnd s -> "end " ^ hex_of_str s
  | ROCookies cs -> Printf.sprintf "cookies %d %s" (List.length cs) (String.concat " " (List.map hex_of_str cs))
  | ROSeq o -> tok_of_out o

(* ---- projections; fields: bits keys errs times listing file table last ipc ---- *)
let mk b k e t l f tb la i = { p_bits = b; p_keys = k; p_errs = e; p_times = t; p_listing = l; p_file = f; p_table = tb; p_last = la; p_ipc = i }
(* statuses and ConnEnd deliveries are always compared; the second component says whether the session table is *)
let projections = [
  "all",  (proj_all, true);
  "nolast", (mk true true true true true true true false true, true);
  (* C15: the responses (flag, key, error) and the server state (listing, file, lock table); not the session table *)
  "C15",  (mk true true true false true true true false false, false);
  (* C20: statuses, ConnEnd, session table; nothing of the lock server (what a refusal leaves unchanged is judged
     on the real trace by c20_inert_failures, not through the model) *)
  "C20",  (mk false false false false false false false false false, true);
]

let split_ws s = List.filter (fun x -> x <> "") (String.split_on_char ' ' s)
let us m = String.map (fun c -> if c = ' ' then '_' else c) m


(* ================================================================================================================
   T2: model-chosen schedules of the fine-grained layer (Model/Rest.v part (b)).
     restdriver gen <seed> <n>             prints n schedules: thread table + items, every item enabled in the model
     restdriver check <schedules> <trace>  replays the model along the items and compares with what the real handler
                                           did after every item (harness/restdiff/sched.go) and at the end
   ================================================================================================================ *)
let pc_name = function
  | Q0 -> "Q0" | Q1 -> "Q1" | Q1b -> "Q1b" | Q2 -> "Q2" | Q3 -> "Q3" | Q4 -> "Q4" | Q5 -> "Q5" | QF -> "QF"
  (* the extraction renames the pcs D0..D7 of DestroySession (Decimal.D0.. are constructors too) *)
  | D20 -> "D0" | D21 -> "D1" | D22 -> "D2" | D23 -> "D3" | D24 -> "D4" | D25 -> "D5" | D26 -> "D6" | D27 -> "D7" | DF -> "DF"
  | K0 -> "K0" | K1 -> "K1" | K2 -> "K2" | K3 -> "K3"
  | C0 -> "C0" | C1 -> "C1" | C2 -> "C2" | C3 -> "C3" | C4 -> "C4" | C5 -> "C5" | C6 -> "C6" | C7 -> "C7" | CA -> "CA"
  | Done None -> "Done" | Done (Some R200) -> "Done200" | Done (Some R201) -> "Done201"
  | Done (Some R401) -> "Done401" | Done (Some R409) -> "Done409" | Panic -> "Panic"

let thr_tok = function TUser p -> "u" ^ string_of_int (int_of_pos p) | TCb c -> "c" ^ string_of_int (int_of_pos c)
let thr_of_tok (t : ostring) : thr =
  let n = int_of_string (String.sub t 1 (String.length t - 1)) in
  if t.[0] = 'u' then TUser (pos_of_int n) else TCb (pos_of_int n)

let item_tok = function SRun t -> "run " ^ thr_tok t | SFire c -> "fire " ^ string_of_int (int_of_pos c)
let pc_of st t = match pool_get st t with Some (_, p) -> Some p | None -> None
let pcname_of st t = match pc_of st t with Some p -> pc_name p | None -> "absent"

type sthread = { tid : int; kind : ostring; ck : int }

let start_pc = function "req" -> Q0 | "del" -> D20 | _ -> K0

let init_of (ths : sthread list) : fstate =
  mk_finit (List.map (fun t -> (TUser (pos_of_int t.tid), (pos_of_int t.ck, start_pc t.kind))) ths)

let gen_one (rng : Random.State.t) (id : ostring) =
  let nsess = 1 + Random.State.int rng 2 in
  let ths = ref [] and next = ref 1 in
  let add kind ck = ths := { tid = !next; kind; ck } :: !ths; incr next in
  for c = 1 to nsess do add "create" c done;
  let nreq = 1 + Random.State.int rng 4 and ndel = Random.State.int rng 3 in
  for _ = 1 to nreq do add "req" (1 + Random.State.int rng nsess) done;
  for _ = 1 to ndel do add "del" (1 + Random.State.int rng nsess) done;
  let ths = List.rev !ths in
  Printf.printf "S %s %d\n" id nsess;
  List.iter (fun t -> Printf.printf "T u%d %s %d\n" t.tid t.kind t.ck) ths;
  let st = ref (init_of ths) in
  let armed_at = Hashtbl.create 4 and counter = ref 0 in
  let fired = ref [] in
  let creators_first = Random.State.int rng 100 < 75 in
  let last = ref None in
  let steps = ref 0 in
  let continue_ = ref true in
  while !continue_ && !steps < 600 do
    incr steps;
    let all = List.map (fun t -> TUser (pos_of_int t.tid)) ths @ List.map (fun c -> TCb (pos_of_int c)) !fired in
    let enabled = List.filter (fun t -> fstep !st (SRun t) <> None) all in
    let enabled =
      if creators_first then
        (match List.filter (fun t -> match t, pc_of !st t with
                                     | TUser _, Some (K0 | K1 | K2 | K3) -> true | _ -> false) enabled with
         | [] -> enabled | l -> l)
      else enabled in
    (* all sessions share one timeout: the timer armed earliest is the one that can fire next *)
    let fire_c =
      let cands = Hashtbl.fold (fun c n acc -> if (sess !st (pos_of_int c)).fs_timer = TmArmed then (n, c) :: acc else acc) armed_at [] in
      match List.sort compare cands with (_, c) :: _ -> Some c | [] -> None in
    let item =
      match enabled, fire_c with
      | [], None -> None
      | [], Some c -> if Random.State.int rng 100 < 50 then Some (SFire (pos_of_int c)) else None
      | _, Some c when Random.State.int rng 100 < 6 -> Some (SFire (pos_of_int c))
      | l, _ ->
          (match !last with
           | Some t when List.mem t l && Random.State.int rng 100 < 45 -> Some (SRun t)
           | _ -> Some (SRun (List.nth l (Random.State.int rng (List.length l))))) in
    match item with
    | None -> continue_ := false
    | Some it ->
        let before = (match it with SRun t -> pc_of !st t | SFire _ -> None) in
        (match fstep !st it with
         | None -> continue_ := false
         | Some st' ->
             st := st';
             Printf.printf "I %s\n" (item_tok it);
             (match it with
              | SRun t ->
                  last := Some t;
                  let ck = (match pool_get st' t with Some (c, _) -> int_of_pos c | None -> 0) in
                  (match before, pc_of st' t with
                   | Some Q1, Some Q1b | Some K2, Some K3 -> incr counter; Hashtbl.replace armed_at ck !counter
                   | _ -> ())
              | SFire c -> fired := !fired @ [int_of_pos c]))
  done;
  Printf.printf "Z\n"

let gen seed n =
  let rng = Random.State.make [| seed; 0x5c4ed |] in
  for k = 0 to n - 1 do gen_one rng (Printf.sprintf "sch%d-%d" seed k) done

(* ---- check ---- *)
(* position of a label on its program's path; a real thread that is FURTHER on the same path than the model's thread
   passed a program point without yielding (the code's shape moved a statement off the anchored path): "drift", the
   step-by-step comparison of that schedule stops there; anything else is a mismatch *)
let rank (l : ostring) : (char * int) option =
  let find c lst = let rec go i = function [] -> None | x :: r -> if x = l then Some (c, i) else go (i + 1) r in go 0 lst in
  match find 'Q' ["Q0"; "Q1"; "Q1b"; "Q2"; "Q3"; "Q4"; "Q5"] with Some r -> Some r | None ->
  match find 'D' ["D0"; "D1"; "D2"; "D3"; "D4"; "D5"; "D6"; "D7"] with Some r -> Some r | None ->
  match find 'K' ["K0"; "K1"; "K2"; "K3"] with Some r -> Some r | None ->
  match find 'C' ["C0"; "C1"; "C2"; "C3"; "C4"; "C5"; "C6"; "C7"] with Some r -> Some r | None ->
  (match l with "QF" -> Some ('Q', 2) | "DF" -> Some ('D', 2) | "CA" -> Some ('C', 2) | _ -> None)
let is_drift (want : ostring) (state : ostring) (label : ostring) : bool =
  match rank want with
  | None -> false
  | Some (c, i) ->
      if state = "finished" then true
      else if state = "parked" then (match rank label with Some (c', j) -> c = c' && j > i | None -> false)
      else false

type sched_case = { sid : ostring; ths : sthread list; items : sitem list }

let read_schedules file : sched_case list =
  let ic = open_in file in
  let out = ref [] and cur = ref None in
  (try while true do
     let line = input_line ic in
     match split_ws line with
     | "S" :: id :: _ -> cur := Some { sid = id; ths = []; items = [] }
     | ["T"; t; kind; ck] ->
         (match !cur with Some c -> cur := Some { c with ths = c.ths @ [{ tid = int_of_string (String.sub t 1 (String.length t - 1)); kind; ck = int_of_string ck }] } | None -> ())
     | ["I"; "run"; t] -> (match !cur with Some c -> cur := Some { c with items = c.items @ [SRun (thr_of_tok t)] } | None -> ())
     | ["I"; "fire"; c'] -> (match !cur with Some c -> cur := Some { c with items = c.items @ [SFire (pos_of_int (int_of_string c'))] } | None -> ())
     | ["Z"] -> (match !cur with Some c -> out := c :: !out; cur := None | None -> ())
     | _ -> ()
   done with End_of_file -> ());
  close_in ic; List.rev !out

(* observed: per schedule id, per item index: (thread tok, state, label); finals: F / E lines *)
let check sfile tfile =
  let scs = read_schedules sfile in
  let obs : (ostring, (int, ostring * ostring * ostring) Hashtbl.t) Hashtbl.t = Hashtbl.create 64 in
  let fin : (ostring, (ostring * ostring list) list ref) Hashtbl.t = Hashtbl.create 64 in
  let ended : (ostring, bool) Hashtbl.t = Hashtbl.create 64 in
  let ic = open_in tfile in
  let cur = ref "" in
  (try while true do
     let line = input_line ic in
     match split_ws line with
     | "S" :: id :: _ -> cur := id; Hashtbl.replace obs id (Hashtbl.create 64); Hashtbl.replace fin id (ref [])
     | ["A"; k; t; state; label] -> (match Hashtbl.find_opt obs !cur with Some h -> Hashtbl.replace h (int_of_string k) (t, state, label) | None -> ())
     | ("F" | "E") as tag :: rest -> (match Hashtbl.find_opt fin !cur with Some l -> l := (tag, rest) :: !l | None -> ())
     | ["Z"] -> Hashtbl.replace ended !cur true
     | _ -> ()
   done with End_of_file -> ());
  close_in ic;
  List.iter (fun sc ->
    match Hashtbl.find_opt obs sc.sid with
    | None -> Printf.printf "K %s not-executed\n" sc.sid
    | Some h ->
      let st = ref (init_of sc.ths) in
      let bad = ref None in
      List.iteri (fun k it ->
        if !bad = None then begin
          match fstep !st it with
          | None -> bad := Some (Printf.sprintf "model-disabled %d %s" k (item_tok it))
          | Some st' ->
              st := st';
              let t = (match it with SRun t -> t | SFire c -> TCb c) in
              let want = pcname_of st' t in
              (match Hashtbl.find_opt h k with
               | None -> bad := Some (Printf.sprintf "missing-observation %d %s model=%s" k (item_tok it) want)
               | Some (_, state, label) ->
                   let is_done = String.length want >= 4 && String.sub want 0 4 = "Done" in
                   let ok =
                     if is_done then (state = "finished" || (state = "running" && (match t with TCb _ -> true | _ -> false)))
                     else (state = "parked" && label = want) in
                   if not ok then bad := Some (Printf.sprintf "%s %d %s model=%s real=%s:%s" (if is_drift want state label then "drift" else "mismatch") k (item_tok it) want state label))
        end) sc.items;
      (match !bad with
       | Some m -> Printf.printf "K %s %s\n" sc.sid m
       | None ->
         if not (Hashtbl.mem ended sc.sid) then Printf.printf "K %s incomplete\n" sc.sid else begin
           (* final comparison: statuses of the handler goroutines, ConnEnd deliveries and table entry per cookie *)
           let fb = ref None in
           List.iter (fun (tag, rest) ->
             match tag, rest with
             | "F", [t; status] ->
                 let want = (match pc_of !st (thr_of_tok t) with
                             | Some (Done (Some R200)) -> "200" | Some (Done (Some R201)) -> "201"
                             | Some (Done (Some R401)) -> "401" | Some (Done (Some R409)) -> "409"
                             | Some p -> "unfinished:" ^ pc_name p | None -> "absent") in
                 if want <> status && !fb = None then fb := Some (Printf.sprintf "final-status %s model=%s real=%s" t want status)
             | "E", [c; connend; entry] ->
                 let se = sess !st (pos_of_int (int_of_string c)) in
                 let wc = string_of_int (int_of_nat se.fs_connend) and we = if se.fs_entry then "1" else "0" in
                 if (wc <> connend || (entry <> "?" && we <> entry)) && !fb = None then
                   fb := Some (Printf.sprintf "final-session %s model=connend:%s,entry:%s real=connend:%s,entry:%s" c wc we connend entry)
             | _ -> ()) (match Hashtbl.find_opt fin sc.sid with Some l -> List.rev !l | None -> []);
           (match !fb with Some m -> Printf.printf "K %s %s\n" sc.sid m | None -> Printf.printf "K %s ok %d\n" sc.sid (List.length sc.items))
         end)) scs

let () =
  if Array.length Sys.argv >= 4 && Sys.argv.(1) = "gen" then (gen (int_of_string Sys.argv.(2)) (int_of_string Sys.argv.(3)); exit 0);
  if Array.length Sys.argv >= 4 && Sys.argv.(1) = "check" then (check Sys.argv.(2) Sys.argv.(3); exit 0);
  let file = Sys.argv.(1) in
  let projs = if Array.length Sys.argv > 2 then Array.to_list (Array.sub Sys.argv 2 (Array.length Sys.argv - 2)) else ["all"] in
  let ic = open_in file in
  let hid = ref "" in
  let cfg = ref { c_noclear = false; c_file = false; c_gc_interval = z_of_int 1; c_gc_minidle = Z0; c_default_lt = Z0 } in
  let tmo = ref (z_of_int 1) in
  let revs : (revent * rout list) list ref = ref [] in
  (* the whole history of the REST side's server: REST exchanges and (mode "mixed") gRPC calls on the same server *)
  let mevs : (mevent * rout list) list ref = ref [] in
  let mcur : (mevent * rout list) option ref = ref None in
  let flush_m () = (match !mcur with Some (e, os) -> mevs := (e, List.rev os) :: !mevs | None -> ()); mcur := None in
  let gevs : (event * out list) list ref = ref [] in
  let rcur : (revent * rout list) option ref = ref None in
  let gcur : (event * out list) option ref = ref None in
  let bad = ref None in
  let flush_r () = (match !rcur with Some (e, os) -> revs := (e, List.rev os) :: !revs | None -> ()); rcur := None in
  let flush_g () = (match !gcur with Some (e, os) -> gevs := (e, List.rev os) :: !gevs | None -> ()); gcur := None in
  let finish () =
    flush_r (); flush_g (); flush_m ();
    let rh = List.rev !revs and gh = List.rev !gevs and mh = List.rev !mevs in
    (match !bad with
     | Some msg -> Printf.printf "B %s %s\n" !hid msg
     | None ->
       List.iter (fun pn ->
         match List.assoc_opt pn projections with
         | None -> Printf.printf "B %s unknown-projection-%s\n" !hid pn
         | Some (p, ck) ->
           (match mreplay_history p ck !cfg !tmo mh with
            | None -> Printf.printf "R %s rest %s ok\n" !hid pn
            | Some (i, outs) ->
                Printf.printf "R %s rest %s mismatch %d\n" !hid pn (int_of_nat i);
                List.iteri (fun c os -> List.iter (fun o -> Printf.printf "M %s rest-%s %d %d %s\n" !hid pn (int_of_nat i) c (tok_of_rout o)) os;
                                        if os = [] then Printf.printf "M %s rest-%s %d %d (no output)\n" !hid pn (int_of_nat i) c) outs);
           if gh <> [] then
             (match replay_history p !cfg gh with
              | None -> Printf.printf "R %s grpc %s ok\n" !hid pn
              | Some (i, outs) ->
                  Printf.printf "R %s grpc %s mismatch %d\n" !hid pn (int_of_nat i);
                  List.iteri (fun c os -> List.iter (fun o -> Printf.printf "M %s grpc-%s %d %d %s\n" !hid pn (int_of_nat i) c (tok_of_out o)) os;
                                          if os = [] then Printf.printf "M %s grpc-%s %d %d (no output)\n" !hid pn (int_of_nat i) c) outs)) projs;
       List.iter (fun (i, t) -> Printf.printf "T %s %d %s\n" !hid (int_of_nat i) (ocaml_string t)) (c20_failures_b !tmo rh);
       List.iter (fun (i, t) -> Printf.printf "I %s %d %s\n" !hid (int_of_nat i) (ocaml_string t)) (c20_inert_failures_b rh);
       if rhas_tie_b !cfg !tmo (List.map fst rh) then Printf.printf "Y %s tie\n" !hid);
    revs := []; gevs := []; mevs := []; rcur := None; gcur := None; mcur := None; bad := None in
  (try
     while true do
       let line = input_line ic in
       match split_ws line with
       | [] -> ()
       | "H" :: id :: _ -> hid := id
       | ["C"; nc; f; gci; gcm; dlt; t] ->
           cfg := { c_noclear = bool_of nc; c_file = bool_of f; c_gc_interval = z_of_int (int_of_string gci);
                    c_gc_minidle = z_of_int (int_of_string gcm); c_default_lt = z_of_int (int_of_string dlt) };
           tmo := z_of_int (int_of_string t)
       | "E" :: "grpc" :: rest ->
           flush_r (); flush_m (); (try mcur := Some (MGrpc (parse_event rest), []) with Bad m | Failure m -> bad := Some ("parse:" ^ us m))
       | "E" :: rest ->
           flush_r (); flush_m ();
           (try let e = parse_revent rest in rcur := Some (e, []); mcur := Some (MRest e, []) with Bad m | Failure m -> bad := Some ("parse:" ^ us m))
       | "O" :: rest ->
           (try
              let o = parse_rout rest in
              (match !rcur with Some (e, os) -> rcur := Some (e, o :: os) | None -> ());
              (match !mcur with Some (e, os) -> mcur := Some (e, o :: os) | None -> ())
            with Bad m | Failure m -> bad := Some ("parse:" ^ us m))
       | "G" :: rest -> flush_g (); (try gcur := Some (parse_event rest, []) with Bad m | Failure m -> bad := Some ("parse:" ^ us m))
       | "P" :: rest ->
           (try match !gcur with Some (e, os) -> gcur := Some (e, parse_out rest :: os) | None -> ()
            with Bad m | Failure m -> bad := Some ("parse:" ^ us m))
       | "B" :: rest -> bad := Some (us (String.concat " " rest))
       | ["X"] -> finish ()
       | _ -> ()
     done
   with End_of_file -> ());
  close_in ic
