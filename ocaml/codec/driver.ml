(* Driver of the extracted codec model (property C17).

   Reads one command per line from stdin, writes one answer line per command.
   Byte strings are lower-case hex, the empty string is "-".  Entries are written
     <nentries> { <key> <nlocks> { <name> <key> <size> } }
   with sizes as decimal integers.

     D <hex>        decode_i, benc_decode_i of the bytes and file_read of a state file
                    holding them (alloc printed as 0x0 for the last):
                      <outcome> | <outcome> | <outcome>
                    outcome = ok <alloc> <entries>  (entries of the map, any order)
                            | err <kind> <alloc>    kind  = buftoosmall | overflow | verifymarshal
                            | panic <why> <alloc>   why   = slicebounds | makeslicelen | fuel
                            | alloc <n> <alloc>
     V <hex>        file_read of a state file holding the bytes only (what store.Read answers):
                      <outcome>   (alloc printed as 0x0)
     E <entries>    encode, entries in the given order: <hex>
     M <entries>    to_map: ok 0x0 <entries>
     N              file model: fresh empty state file; answers "-"
     F <hex> <hex|x> file model: the state file holds the first bytes, a left-over temporary file
                    the second ("x": there is none); answers the state file <hex>
     W <entries>    file model: file_write; answers the state file <hex>
     R              file model: file_read; <outcome> (alloc printed as 0x0)
   Anything else: "bad <text>".  Numbers of type N are printed in hex (0x..). *)

open Codec_model

(* ---- conversions (trusted) ---- *)

let rec pos_of_int (i : int) : positive =
  if i = 1 then XH
  else if i land 1 = 0 then XO (pos_of_int (i lsr 1))
  else XI (pos_of_int (i lsr 1))

let n_of_int (i : int) : n = if i = 0 then N0 else Npos (pos_of_int i)

let z_of_int (i : int) : z =
  if i = 0 then Z0 else if i > 0 then Zpos (pos_of_int i) else Zneg (pos_of_int (- i))

(* least significant bit first *)
let rec pos_bits (p : positive) : bool list =
  match p with
  | XH -> [true]
  | XO q -> false :: pos_bits q
  | XI q -> true :: pos_bits q

(* values of type N can exceed OCaml's 63-bit ints: render the bits as hex *)
let n_to_hex (v : n) : string =
  match v with
  | N0 -> "0x0"
  | Npos p ->
    let bits = List.rev (pos_bits p) in          (* most significant first *)
    let len = List.length bits in
    let pad = (4 - len mod 4) mod 4 in
    let bits = List.init pad (fun _ -> false) @ bits in
    let buf = Buffer.create 20 in
    Buffer.add_string buf "0x";
    let rec go = function
      | a :: b :: c :: d :: rest ->
        let v = (if a then 8 else 0) + (if b then 4 else 0) + (if c then 2 else 0) + (if d then 1 else 0) in
        Buffer.add_char buf "0123456789abcdef".[v]; go rest
      | _ -> () in
    go bits; Buffer.contents buf

let rec pos_to_int (p : positive) : int =
  match p with XH -> 1 | XO q -> 2 * pos_to_int q | XI q -> 2 * pos_to_int q + 1

(* sizes are int32 values *)
let z_to_string (v : z) : string =
  match v with
  | Z0 -> "0"
  | Zpos p -> string_of_int (pos_to_int p)
  | Zneg p -> string_of_int (- (pos_to_int p))

(* bytes: table built with the extracted Byte.of_N, checked against Byte.to_N *)
let byte_table : byte array =
  Array.init 256 (fun i ->
      match mc_byte_of_n (n_of_int i) with
      | Some b -> b
      | None -> failwith "byte table")

let int_of_byte (b : byte) : int =
  match mc_byte_to_n b with N0 -> 0 | Npos p -> pos_to_int p

let () =
  Array.iteri (fun i b -> if int_of_byte b <> i then failwith "byte table mismatch") byte_table

(* constant constructors are immediate integers in declaration order (x00 .. xff): checked here
   against the table, then used for speed *)
let fast_int_of_byte (b : byte) : int = (Obj.magic b : int)
let () =
  Array.iteri (fun i b -> if fast_int_of_byte b <> i then failwith "byte representation") byte_table

let hexval c =
  match c with
  | '0' .. '9' -> Char.code c - 48
  | 'a' .. 'f' -> Char.code c - 87
  | 'A' .. 'F' -> Char.code c - 55
  | _ -> failwith "hex"

let bytes_of_hex (s : string) : byte list =
  if s = "-" then []
  else begin
    let n = String.length s in
    if n mod 2 <> 0 then failwith "odd hex";
    let rec go i acc =
      if i < 0 then acc
      else go (i - 2) (byte_table.(16 * hexval s.[i] + hexval s.[i + 1]) :: acc) in
    go (n - 2) []
  end

let hex_of_bytes (l : byte list) : string =
  match l with
  | [] -> "-"
  | _ ->
    let buf = Buffer.create 64 in
    List.iter (fun b ->
        let v = fast_int_of_byte b in
        Buffer.add_char buf "0123456789abcdef".[v lsr 4];
        Buffer.add_char buf "0123456789abcdef".[v land 15]) l;
    Buffer.contents buf

(* ---- entries ---- *)

let parse_entries (toks : string list) : entries * string list =
  let next = function [] -> failwith "short" | t :: r -> (t, r) in
  let (t, r) = next toks in
  let ne = int_of_string t in
  let rec locks k toks acc =
    if k = 0 then (List.rev acc, toks)
    else begin
      let (a, r) = next toks in
      let (b, r) = next r in
      let (c, r) = next r in
      locks (k - 1) r (((bytes_of_hex a, bytes_of_hex b), z_of_int (int_of_string c)) :: acc)
    end in
  let rec ents k toks acc =
    if k = 0 then (List.rev acc, toks)
    else begin
      let (key, r) = next toks in
      let (nl, r) = next r in
      let (ls, r) = locks (int_of_string nl) r [] in
      ents (k - 1) r ((bytes_of_hex key, ls) :: acc)
    end in
  ents ne r []

let print_entries (buf : Buffer.t) (es : entries) : unit =
  Buffer.add_string buf (string_of_int (List.length es));
  List.iter (fun (k, ls) ->
      Buffer.add_char buf ' '; Buffer.add_string buf (hex_of_bytes k);
      Buffer.add_char buf ' '; Buffer.add_string buf (string_of_int (List.length ls));
      List.iter (fun ((a, b), c) ->
          Buffer.add_char buf ' '; Buffer.add_string buf (hex_of_bytes a);
          Buffer.add_char buf ' '; Buffer.add_string buf (hex_of_bytes b);
          Buffer.add_char buf ' '; Buffer.add_string buf (z_to_string c)) ls) es

let kind_name = function
  | EBufTooSmall -> "buftoosmall" | EOverflow -> "overflow" | EVerifyMarshal -> "verifymarshal"
let why_name = function
  | WhySliceBounds -> "slicebounds" | WhyMakeSliceLen -> "makeslicelen" | WhyFuel -> "fuel"

let print_outcome (buf : Buffer.t) ((r, a) : dec_result * n) : unit =
  match r with
  | DecOk m ->
    Buffer.add_string buf "ok "; Buffer.add_string buf (n_to_hex a); Buffer.add_char buf ' ';
    print_entries buf (mc_smap_to_list m)
  | DecErr e ->
    Buffer.add_string buf "err "; Buffer.add_string buf (kind_name e);
    Buffer.add_char buf ' '; Buffer.add_string buf (n_to_hex a)
  | DecPanic w ->
    Buffer.add_string buf "panic "; Buffer.add_string buf (why_name w);
    Buffer.add_char buf ' '; Buffer.add_string buf (n_to_hex a)
  | DecAlloc s ->
    Buffer.add_string buf "alloc "; Buffer.add_string buf (n_to_hex s);
    Buffer.add_char buf ' '; Buffer.add_string buf (n_to_hex a)

let () =
  let fsr = ref mc_fs_new in
  let buf = Buffer.create 4096 in
  (try
     while true do
       let line = input_line stdin in
       Buffer.clear buf;
       (try
          match String.split_on_char ' ' (String.trim line) with
          | ["D"; h] ->
            let b = bytes_of_hex h in
            print_outcome buf (mc_decode_i b);
            Buffer.add_string buf " | ";
            print_outcome buf (mc_benc_decode_i b);
            Buffer.add_string buf " | ";
            print_outcome buf (mc_file_read (mc_fs_of b), N0)
          | ["V"; h] -> print_outcome buf (mc_file_read (mc_fs_of (bytes_of_hex h)), N0)
          | "E" :: toks ->
            let (es, _) = parse_entries toks in
            Buffer.add_string buf (hex_of_bytes (mc_encode es))
          | "M" :: toks ->
            let (es, _) = parse_entries toks in
            print_outcome buf (DecOk (mc_to_map es), N0)
          | ["N"] -> fsr := mc_fs_new; Buffer.add_string buf (hex_of_bytes (mc_state_file !fsr))
          | ["F"; h; t] ->
            fsr := mc_fs_make (bytes_of_hex h) (if t = "x" then None else Some (bytes_of_hex t));
            Buffer.add_string buf (hex_of_bytes (mc_state_file !fsr))
          | "W" :: toks ->
            let (es, _) = parse_entries toks in
            fsr := mc_file_write !fsr es;
            Buffer.add_string buf (hex_of_bytes (mc_state_file !fsr))
          | ["R"] -> print_outcome buf (mc_file_read !fsr, N0)
          | _ -> Buffer.add_string buf ("bad " ^ line)
        with
        | Stack_overflow -> Buffer.clear buf; Buffer.add_string buf "bad stack-overflow"
        | Failure m -> Buffer.clear buf; Buffer.add_string buf ("bad " ^ m)
        | Not_found -> Buffer.clear buf; Buffer.add_string buf "bad not-found");
       print_string (Buffer.contents buf); print_char '\n'; flush stdout
     done
   with End_of_file -> ());
  flush stdout
