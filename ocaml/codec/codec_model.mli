
type __ = Obj.t

type nat =
| O
| S of nat

val option_map : ('a1 -> 'a2) -> 'a1 option -> 'a2 option

val fst : ('a1 * 'a2) -> 'a1

val snd : ('a1 * 'a2) -> 'a2

val length : 'a1 list -> nat

val app : 'a1 list -> 'a1 list -> 'a1 list

type comparison =
| Eq
| Lt
| Gt

val compOpp : comparison -> comparison

val add : nat -> nat -> nat

type byte =
| X00
| X01
| X02
| X03
| X04
| X05
| X06
| X07
| X08
| X09
| X0a
| X0b
| X0c
| X0d
| X0e
| X0f
| X10
| X11
| X12
| X13
| X14
| X15
| X16
| X17
| X18
| X19
| X1a
| X1b
| X1c
| X1d
| X1e
| X1f
| X20
| X21
| X22
| X23
| X24
| X25
| X26
| X27
| X28
| X29
| X2a
| X2b
| X2c
| X2d
| X2e
| X2f
| X30
| X31
| X32
| X33
| X34
| X35
| X36
| X37
| X38
| X39
| X3a
| X3b
| X3c
| X3d
| X3e
| X3f
| X40
| X41
| X42
| X43
| X44
| X45
| X46
| X47
| X48
| X49
| X4a
| X4b
| X4c
| X4d
| X4e
| X4f
| X50
| X51
| X52
| X53
| X54
| X55
| X56
| X57
| X58
| X59
| X5a
| X5b
| X5c
| X5d
| X5e
| X5f
| X60
| X61
| X62
| X63
| X64
| X65
| X66
| X67
| X68
| X69
| X6a
| X6b
| X6c
| X6d
| X6e
| X6f
| X70
| X71
| X72
| X73
| X74
| X75
| X76
| X77
| X78
| X79
| X7a
| X7b
| X7c
| X7d
| X7e
| X7f
| X80
| X81
| X82
| X83
| X84
| X85
| X86
| X87
| X88
| X89
| X8a
| X8b
| X8c
| X8d
| X8e
| X8f
| X90
| X91
| X92
| X93
| X94
| X95
| X96
| X97
| X98
| X99
| X9a
| X9b
| X9c
| X9d
| X9e
| X9f
| Xa0
| Xa1
| Xa2
| Xa3
| Xa4
| Xa5
| Xa6
| Xa7
| Xa8
| Xa9
| Xaa
| Xab
| Xac
| Xad
| Xae
| Xaf
| Xb0
| Xb1
| Xb2
| Xb3
| Xb4
| Xb5
| Xb6
| Xb7
| Xb8
| Xb9
| Xba
| Xbb
| Xbc
| Xbd
| Xbe
| Xbf
| Xc0
| Xc1
| Xc2
| Xc3
| Xc4
| Xc5
| Xc6
| Xc7
| Xc8
| Xc9
| Xca
| Xcb
| Xcc
| Xcd
| Xce
| Xcf
| Xd0
| Xd1
| Xd2
| Xd3
| Xd4
| Xd5
| Xd6
| Xd7
| Xd8
| Xd9
| Xda
| Xdb
| Xdc
| Xdd
| Xde
| Xdf
| Xe0
| Xe1
| Xe2
| Xe3
| Xe4
| Xe5
| Xe6
| Xe7
| Xe8
| Xe9
| Xea
| Xeb
| Xec
| Xed
| Xee
| Xef
| Xf0
| Xf1
| Xf2
| Xf3
| Xf4
| Xf5
| Xf6
| Xf7
| Xf8
| Xf9
| Xfa
| Xfb
| Xfc
| Xfd
| Xfe
| Xff

val to_bits :
  byte -> bool * (bool * (bool * (bool * (bool * (bool * (bool * bool))))))

type positive =
| XI of positive
| XO of positive
| XH

type n =
| N0
| Npos of positive

type z =
| Z0
| Zpos of positive
| Zneg of positive

val eqb : bool -> bool -> bool

module Pos :
 sig
  type mask =
  | IsNul
  | IsPos of positive
  | IsNeg
 end

module Coq_Pos :
 sig
  val succ : positive -> positive

  val add : positive -> positive -> positive

  val add_carry : positive -> positive -> positive

  val pred_double : positive -> positive

  val pred : positive -> positive

  val pred_N : positive -> n

  type mask = Pos.mask =
  | IsNul
  | IsPos of positive
  | IsNeg

  val succ_double_mask : mask -> mask

  val double_mask : mask -> mask

  val double_pred_mask : positive -> mask

  val sub_mask : positive -> positive -> mask

  val sub_mask_carry : positive -> positive -> mask

  val mul : positive -> positive -> positive

  val iter : ('a1 -> 'a1) -> 'a1 -> positive -> 'a1

  val pow : positive -> positive -> positive

  val div2 : positive -> positive

  val div2_up : positive -> positive

  val compare_cont : comparison -> positive -> positive -> comparison

  val compare : positive -> positive -> comparison

  val eqb : positive -> positive -> bool

  val coq_Nsucc_double : n -> n

  val coq_Ndouble : n -> n

  val coq_lor : positive -> positive -> positive

  val coq_land : positive -> positive -> n

  val ldiff : positive -> positive -> n

  val shiftl : positive -> n -> positive

  val iter_op : ('a1 -> 'a1 -> 'a1) -> positive -> 'a1 -> 'a1

  val to_nat : positive -> nat

  val of_succ_nat : nat -> positive

  val eq_dec : positive -> positive -> bool
 end

module N :
 sig
  val succ_double : n -> n

  val double : n -> n

  val succ_pos : n -> positive

  val add : n -> n -> n

  val sub : n -> n -> n

  val mul : n -> n -> n

  val compare : n -> n -> comparison

  val eqb : n -> n -> bool

  val leb : n -> n -> bool

  val ltb : n -> n -> bool

  val div2 : n -> n

  val pow : n -> n -> n

  val pos_div_eucl : positive -> n -> n * n

  val div_eucl : n -> n -> n * n

  val div : n -> n -> n

  val modulo : n -> n -> n

  val coq_lor : n -> n -> n

  val coq_land : n -> n -> n

  val ldiff : n -> n -> n

  val shiftl : n -> n -> n

  val shiftr : n -> n -> n

  val to_nat : n -> nat

  val of_nat : nat -> n

  val eq_dec : n -> n -> bool
 end

module Z :
 sig
  val double : z -> z

  val succ_double : z -> z

  val pred_double : z -> z

  val pos_sub : positive -> positive -> z

  val add : z -> z -> z

  val opp : z -> z

  val sub : z -> z -> z

  val mul : z -> z -> z

  val pow_pos : z -> positive -> z

  val pow : z -> z -> z

  val compare : z -> z -> comparison

  val leb : z -> z -> bool

  val ltb : z -> z -> bool

  val to_N : z -> n

  val of_N : n -> z

  val pos_div_eucl : positive -> z -> z * z

  val div_eucl : z -> z -> z * z

  val modulo : z -> z -> z

  val div2 : z -> z

  val shiftl : z -> z -> z

  val shiftr : z -> z -> z

  val coq_lor : z -> z -> z
 end

val concat : 'a1 list list -> 'a1 list

val list_eq_dec : ('a1 -> 'a1 -> bool) -> 'a1 list -> 'a1 list -> bool

val map : ('a1 -> 'a2) -> 'a1 list -> 'a2 list

val firstn : nat -> 'a1 list -> 'a1 list

val skipn : nat -> 'a1 list -> 'a1 list

val eqb0 : byte -> byte -> bool

val byte_eq_dec : byte -> byte -> bool

val to_N0 : byte -> n

val of_N0 : n -> byte option

type decision = bool

val decide : decision -> bool

type ('a, 'b) relDecision = 'a -> 'b -> decision

val decide_rel : ('a1, 'a2) relDecision -> 'a1 -> 'a2 -> decision

type 'a empty = 'a

val empty0 : 'a1 empty -> 'a1

type 'm mRet = __ -> __ -> 'm

val mret : 'a1 mRet -> 'a2 -> 'a1

type 'm mBind = __ -> __ -> (__ -> 'm) -> 'm -> 'm

val mbind : 'a1 mBind -> ('a2 -> 'a1) -> 'a1 -> 'a1

type 'm fMap = __ -> __ -> (__ -> __) -> 'm -> 'm

val fmap : 'a1 fMap -> ('a2 -> 'a3) -> 'a1 -> 'a1

type 'm oMap = __ -> __ -> (__ -> __ option) -> 'm -> 'm

val omap : 'a1 oMap -> ('a2 -> 'a3 option) -> 'a1 -> 'a1

type ('k, 'a, 'm) insert = 'k -> 'a -> 'm -> 'm

val insert0 : ('a1, 'a2, 'a3) insert -> 'a1 -> 'a2 -> 'a3 -> 'a3

type ('k, 'a, 'm) partialAlter = ('a option -> 'a option) -> 'k -> 'm -> 'm

val partial_alter :
  ('a1, 'a2, 'a3) partialAlter -> ('a2 option -> 'a2 option) -> 'a1 -> 'a3 ->
  'a3

val bool_decide : decision -> bool

val from_option : ('a1 -> 'a2) -> 'a2 -> 'a1 option -> 'a2

val option_ret : __ -> __ option

val option_bind : (__ -> __ option) -> __ option -> __ option

val option_fmap : (__ -> __) -> __ option -> __ option

module Coq0_Pos :
 sig
  val eq_dec : (positive, positive) relDecision

  val app : positive -> positive -> positive

  val reverse_go : positive -> positive -> positive

  val reverse : positive -> positive

  val dup : positive -> positive
 end

val n_eq_dec : (n, n) relDecision

val foldl : ('a1 -> 'a2 -> 'a1) -> 'a1 -> 'a2 list -> 'a1

val list_fmap : (__ -> __) -> __ list -> __ list

val list_omap : (__ -> __ option) -> __ list -> __ list

val mapM : 'a1 mBind -> 'a1 mRet -> ('a2 -> 'a1) -> 'a2 list -> 'a1

val positives_flatten_go : positive list -> positive -> positive

val positives_flatten : positive list -> positive

val positives_unflatten_go :
  positive -> positive list -> positive -> positive list option

val positives_unflatten : positive -> positive list option

val list_eq_dec0 : ('a1, 'a1) relDecision -> ('a1 list, 'a1 list) relDecision

type 'a countable = { encode : ('a -> positive);
                      decode : (positive -> 'a option) }

val inj_countable :
  ('a1, 'a1) relDecision -> 'a1 countable -> ('a2, 'a2) relDecision -> ('a2
  -> 'a1) -> ('a1 -> 'a2 option) -> 'a2 countable

val list_countable :
  ('a1, 'a1) relDecision -> 'a1 countable -> 'a1 list countable

val n_countable : n countable

type ('k, 'a, 'm) finMapToList = 'm -> ('k * 'a) list

val map_to_list : ('a1, 'a2, 'a3) finMapToList -> 'a3 -> ('a1 * 'a2) list

val map_insert : ('a1, 'a2, 'a3) partialAlter -> ('a1, 'a2, 'a3) insert

type 'a pmap_raw =
| PLeaf
| PNode of 'a option * 'a pmap_raw * 'a pmap_raw

val pNode' : 'a1 option -> 'a1 pmap_raw -> 'a1 pmap_raw -> 'a1 pmap_raw

val pempty_raw : 'a1 pmap_raw empty

val psingleton_raw : positive -> 'a1 -> 'a1 pmap_raw

val ppartial_alter_raw :
  ('a1 option -> 'a1 option) -> positive -> 'a1 pmap_raw -> 'a1 pmap_raw

val pto_list_raw :
  positive -> 'a1 pmap_raw -> (positive * 'a1) list -> (positive * 'a1) list

type 'a pmap =
  'a pmap_raw
  (* singleton inductive, whose constructor was PMap *)

val pempty : 'a1 pmap empty

val ppartial_alter : (positive, 'a1, 'a1 pmap) partialAlter

val pto_list : (positive, 'a1, 'a1 pmap) finMapToList

type ('k, 'a) gmap =
  'a pmap
  (* singleton inductive, whose constructor was GMap *)

val gmap_empty :
  ('a1, 'a1) relDecision -> 'a1 countable -> ('a1, 'a2) gmap empty

val gmap_partial_alter :
  ('a1, 'a1) relDecision -> 'a1 countable -> ('a1, 'a2, ('a1, 'a2) gmap)
  partialAlter

val gmap_to_list :
  ('a1, 'a1) relDecision -> 'a1 countable -> ('a1, 'a2, ('a1, 'a2) gmap)
  finMapToList

type str = byte list

val byte_eq_dec0 : (byte, byte) relDecision

val byte_countable : byte countable

type err_kind =
| EBufTooSmall
| EOverflow
| EVerifyMarshal

type panic_why =
| WhySliceBounds
| WhyMakeSliceLen
| WhyFuel

type 'a res =
| Ok of 'a
| Err of err_kind
| Panic of panic_why
| Alloc of n

val rbind : 'a1 res -> ('a1 -> 'a2 res) -> 'a2 res

val rcast : 'a1 res -> 'a2 res -> 'a2 res

type lock = (str * str) * z

type smap = (str, lock list) gmap

type entries = (str * lock list) list

type dec_result =
| DecOk of smap
| DecErr of err_kind
| DecPanic of panic_why
| DecAlloc of n

val blen : byte list -> n

val tail_at : byte list -> n -> byte list

val byte_of_N : n -> byte

val u64 : n -> n

val to_int : n -> z

val len_minus_lt : byte list -> n -> z -> bool

val max_varint_len : n

val marshal_uint_loop : nat -> n -> byte list

val marshal_uint : n -> byte list

val uvarint_loop : byte list -> n -> n -> n -> (n * n) res

val unmarshal_uint : byte list -> n -> (n * n) res

val marshal_string : str -> byte list

val unmarshal_string : byte list -> n -> (n * str) res

val byte_of_Z : z -> byte

val marshal_int32 : z -> byte list

val wrap32 : z -> z

val unmarshal_int32 : byte list -> n -> (n * z) res

val skip_int32 : byte list -> n -> n res

val marshal_lock : lock -> byte list

val unmarshal_lock : byte list -> n -> (n * lock) res

val terminator : byte list

val marshal_slice : lock list -> byte list

val marshal_entry : (str * lock list) -> byte list

val encode0 : entries -> byte list

val to_map : entries -> smap

val fuel_for : byte list -> nat

val check_count : byte list -> n -> n -> (n * n) res

val check_string : byte list -> n -> n res

val check_terminator : byte list -> n -> n res

val min_lock_size : n

val min_entry_size : n

val check_locks_loop : nat -> byte list -> n -> n -> n res

val check_entries_loop : nat -> byte list -> n -> n -> n res

val verify_marshal : byte list -> n -> unit res

val check_encoding_r : byte list -> unit res

val check_encoding : byte list -> err_kind option

val lock_mem : n

val max_alloc : n

val max_slice_len : n

val max_map_hint : n

val alloc_limit : n

val unbacked : n -> n -> bool

val unmarshal_locks_loop : nat -> byte list -> n -> n -> (n * lock list) res

val unmarshal_slice : byte list -> n -> (n * lock list) res * n

val unmarshal_entries_loop :
  nat -> byte list -> n -> n -> smap -> (n * smap) res * n

val unmarshal_map : byte list -> (n * smap) res * n

val benc_decode_i : byte list -> dec_result * n

val decode_i : byte list -> dec_result * n

val decode0 : byte list -> dec_result

type fs = { state_file : byte list; tmp_file : byte list option }

type write_step =
| WOpenTrunc
| WData of byte list
| WRename

val fs_step : fs -> write_step -> fs

val write_steps : entries -> write_step list

val file_write : fs -> entries -> fs

val file_read : fs -> dec_result

val fs_new : fs

val mc_encode : entries -> byte list

val mc_decode_i : byte list -> dec_result * n

val mc_benc_decode_i : byte list -> dec_result * n

val mc_check_encoding : byte list -> err_kind option

val mc_fs_new : fs

val mc_file_write : fs -> entries -> fs

val mc_file_read : fs -> dec_result

val mc_state_file : fs -> byte list

val mc_fs_of : byte list -> fs

val mc_fs_make : byte list -> byte list option -> fs

val mc_to_map : entries -> smap

val mc_smap_to_list : smap -> (str * lock list) list

val mc_byte_of_n : n -> byte option

val mc_byte_to_n : byte -> n
