
type __ = Obj.t
let __ = let rec f _ = Obj.repr f in Obj.repr f

type nat =
| O
| S of nat

(** val option_map : ('a1 -> 'a2) -> 'a1 option -> 'a2 option **)

let option_map f = function
| Some a -> Some (f a)
| None -> None

(** val fst : ('a1 * 'a2) -> 'a1 **)

let fst = function
| (x, _) -> x

(** val snd : ('a1 * 'a2) -> 'a2 **)

let snd = function
| (_, y) -> y

(** val length : 'a1 list -> nat **)

let rec length = function
| [] -> O
| _ :: l' -> S (length l')

(** val app : 'a1 list -> 'a1 list -> 'a1 list **)

let rec app l m =
  match l with
  | [] -> m
  | a :: l1 -> a :: (app l1 m)

type comparison =
| Eq
| Lt
| Gt

(** val compOpp : comparison -> comparison **)

let compOpp = function
| Eq -> Eq
| Lt -> Gt
| Gt -> Lt

module Coq__1 = struct
 (** val add : nat -> nat -> nat **)
 let rec add n0 m =
   match n0 with
   | O -> m
   | S p -> S (add p m)
end
include Coq__1

type byte =
| X00
| X01
| X02
| X03
| X04
| X05
| X06
| X07
| X08
| X09
| X0a
| X0b
| X0c
| X0d
| X0e
| X0f
| X10
| X11
| X12
| X13
| X14
| X15
| X16
| X17
| X18
| X19
| X1a
| X1b
| X1c
| X1d
| X1e
| X1f
| X20
| X21
| X22
| X23
| X24
| X25
| X26
| X27
| X28
| X29
| X2a
| X2b
| X2c
| X2d
| X2e
| X2f
| X30
| X31
| X32
| X33
| X34
| X35
| X36
| X37
| X38
| X39
| X3a
| X3b
| X3c
| X3d
| X3e
| X3f
| X40
| X41
| X42
| X43
| X44
| X45
| X46
| X47
| X48
| X49
| X4a
| X4b
| X4c
| X4d
| X4e
| X4f
| X50
| X51
| X52
| X53
| X54
| X55
| X56
| X57
| X58
| X59
| X5a
| X5b
| X5c
| X5d
| X5e
| X5f
| X60
| X61
| X62
| X63
| X64
| X65
| X66
| X67
| X68
| X69
| X6a
| X6b
| X6c
| X6d
| X6e
| X6f
| X70
| X71
| X72
| X73
| X74
| X75
| X76
| X77
| X78
| X79
| X7a
| X7b
| X7c
| X7d
| X7e
| X7f
| X80
| X81
| X82
| X83
| X84
| X85
| X86
| X87
| X88
| X89
| X8a
| X8b
| X8c
| X8d
| X8e
| X8f
| X90
| X91
| X92
| X93
| X94
| X95
| X96
| X97
| X98
| X99
| X9a
| X9b
| X9c
| X9d
| X9e
| X9f
| Xa0
| Xa1
| Xa2
| Xa3
| Xa4
| Xa5
| Xa6
| Xa7
| Xa8
| Xa9
| Xaa
| Xab
| Xac
| Xad
| Xae
| Xaf
| Xb0
| Xb1
| Xb2
| Xb3
| Xb4
| Xb5
| Xb6
| Xb7
| Xb8
| Xb9
| Xba
| Xbb
| Xbc
| Xbd
| Xbe
| Xbf
| Xc0
| Xc1
| Xc2
| Xc3
| Xc4
| Xc5
| Xc6
| Xc7
| Xc8
| Xc9
| Xca
| Xcb
| Xcc
| Xcd
| Xce
| Xcf
| Xd0
| Xd1
| Xd2
| Xd3
| Xd4
| Xd5
| Xd6
| Xd7
| Xd8
| Xd9
| Xda
| Xdb
| Xdc
| Xdd
| Xde
| Xdf
| Xe0
| Xe1
| Xe2
| Xe3
| Xe4
| Xe5
| Xe6
| Xe7
| Xe8
| Xe9
| Xea
| Xeb
| Xec
| Xed
| Xee
| Xef
| Xf0
| Xf1
| Xf2
| Xf3
| Xf4
| Xf5
| Xf6
| Xf7
| Xf8
| Xf9
| Xfa
| Xfb
| Xfc
| Xfd
| Xfe
| Xff

(** val to_bits :
    byte -> bool * (bool * (bool * (bool * (bool * (bool * (bool * bool)))))) **)

let to_bits = function
| X00 -> (false, (false, (false, (false, (false, (false, (false, false)))))))
| X01 -> (true, (false, (false, (false, (false, (false, (false, false)))))))
| X02 -> (false, (true, (false, (false, (false, (false, (false, false)))))))
| X03 -> (true, (true, (false, (false, (false, (false, (false, false)))))))
| X04 -> (false, (false, (true, (false, (false, (false, (false, false)))))))
| X05 -> (true, (false, (true, (false, (false, (false, (false, false)))))))
| X06 -> (false, (true, (true, (false, (false, (false, (false, false)))))))
| X07 -> (true, (true, (true, (false, (false, (false, (false, false)))))))
| X08 -> (false, (false, (false, (true, (false, (false, (false, false)))))))
| X09 -> (true, (false, (false, (true, (false, (false, (false, false)))))))
| X0a -> (false, (true, (false, (true, (false, (false, (false, false)))))))
| X0b -> (true, (true, (false, (true, (false, (false, (false, false)))))))
| X0c -> (false, (false, (true, (true, (false, (false, (false, false)))))))
| X0d -> (true, (false, (true, (true, (false, (false, (false, false)))))))
| X0e -> (false, (true, (true, (true, (false, (false, (false, false)))))))
| X0f -> (true, (true, (true, (true, (false, (false, (false, false)))))))
| X10 -> (false, (false, (false, (false, (true, (false, (false, false)))))))
| X11 -> (true, (false, (false, (false, (true, (false, (false, false)))))))
| X12 -> (false, (true, (false, (false, (true, (false, (false, false)))))))
| X13 -> (true, (true, (false, (false, (true, (false, (false, false)))))))
| X14 -> (false, (false, (true, (false, (true, (false, (false, false)))))))
| X15 -> (true, (false, (true, (false, (true, (false, (false, false)))))))
| X16 -> (false, (true, (true, (false, (true, (false, (false, false)))))))
| X17 -> (true, (true, (true, (false, (true, (false, (false, false)))))))
| X18 -> (false, (false, (false, (true, (true, (false, (false, false)))))))
| X19 -> (true, (false, (false, (true, (true, (false, (false, false)))))))
| X1a -> (false, (true, (false, (true, (true, (false, (false, false)))))))
| X1b -> (true, (true, (false, (true, (true, (false, (false, false)))))))
| X1c -> (false, (false, (true, (true, (true, (false, (false, false)))))))
| X1d -> (true, (false, (true, (true, (true, (false, (false, false)))))))
| X1e -> (false, (true, (true, (true, (true, (false, (false, false)))))))
| X1f -> (true, (true, (true, (true, (true, (false, (false, false)))))))
| X20 -> (false, (false, (false, (false, (false, (true, (false, false)))))))
| X21 -> (true, (false, (false, (false, (false, (true, (false, false)))))))
| X22 -> (false, (true, (false, (false, (false, (true, (false, false)))))))
| X23 -> (true, (true, (false, (false, (false, (true, (false, false)))))))
| X24 -> (false, (false, (true, (false, (false, (true, (false, false)))))))
| X25 -> (true, (false, (true, (false, (false, (true, (false, false)))))))
| X26 -> (false, (true, (true, (false, (false, (true, (false, false)))))))
| X27 -> (true, (true, (true, (false, (false, (true, (false, false)))))))
| X28 -> (false, (false, (false, (true, (false, (true, (false, false)))))))
| X29 -> (true, (false, (false, (true, (false, (true, (false, false)))))))
| X2a -> (false, (true, (false, (true, (false, (true, (false, false)))))))
| X2b -> (true, (true, (false, (true, (false, (true, (false, false)))))))
| X2c -> (false, (false, (true, (true, (false, (true, (false, false)))))))
| X2d -> (true, (false, (true, (true, (false, (true, (false, false)))))))
| X2e -> (false, (true, (true, (true, (false, (true, (false, false)))))))
| X2f -> (true, (true, (true, (true, (false, (true, (false, false)))))))
| X30 -> (false, (false, (false, (false, (true, (true, (false, false)))))))
| X31 -> (true, (false, (false, (false, (true, (true, (false, false)))))))
| X32 -> (false, (true, (false, (false, (true, (true, (false, false)))))))
| X33 -> (true, (true, (false, (false, (true, (true, (false, false)))))))
| X34 -> (false, (false, (true, (false, (true, (true, (false, false)))))))
| X35 -> (true, (false, (true, (false, (true, (true, (false, false)))))))
| X36 -> (false, (true, (true, (false, (true, (true, (false, false)))))))
| X37 -> (true, (true, (true, (false, (true, (true, (false, false)))))))
| X38 -> (false, (false, (false, (true, (true, (true, (false, false)))))))
| X39 -> (true, (false, (false, (true, (true, (true, (false, false)))))))
| X3a -> (false, (true, (false, (true, (true, (true, (false, false)))))))
| X3b -> (true, (true, (false, (true, (true, (true, (false, false)))))))
| X3c -> (false, (false, (true, (true, (true, (true, (false, false)))))))
| X3d -> (true, (false, (true, (true, (true, (true, (false, false)))))))
| X3e -> (false, (true, (true, (true, (true, (true, (false, false)))))))
| X3f -> (true, (true, (true, (true, (true, (true, (false, false)))))))
| X40 -> (false, (false, (false, (false, (false, (false, (true, false)))))))
| X41 -> (true, (false, (false, (false, (false, (false, (true, false)))))))
| X42 -> (false, (true, (false, (false, (false, (false, (true, false)))))))
| X43 -> (true, (true, (false, (false, (false, (false, (true, false)))))))
| X44 -> (false, (false, (true, (false, (false, (false, (true, false)))))))
| X45 -> (true, (false, (true, (false, (false, (false, (true, false)))))))
| X46 -> (false, (true, (true, (false, (false, (false, (true, false)))))))
| X47 -> (true, (true, (true, (false, (false, (false, (true, false)))))))
| X48 -> (false, (false, (false, (true, (false, (false, (true, false)))))))
| X49 -> (true, (false, (false, (true, (false, (false, (true, false)))))))
| X4a -> (false, (true, (false, (true, (false, (false, (true, false)))))))
| X4b -> (true, (true, (false, (true, (false, (false, (true, false)))))))
| X4c -> (false, (false, (true, (true, (false, (false, (true, false)))))))
| X4d -> (true, (false, (true, (true, (false, (false, (true, false)))))))
| X4e -> (false, (true, (true, (true, (false, (false, (true, false)))))))
| X4f -> (true, (true, (true, (true, (false, (false, (true, false)))))))
| X50 -> (false, (false, (false, (false, (true, (false, (true, false)))))))
| X51 -> (true, (false, (false, (false, (true, (false, (true, false)))))))
| X52 -> (false, (true, (false, (false, (true, (false, (true, false)))))))
| X53 -> (true, (true, (false, (false, (true, (false, (true, false)))))))
| X54 -> (false, (false, (true, (false, (true, (false, (true, false)))))))
| X55 -> (true, (false, (true, (false, (true, (false, (true, false)))))))
| X56 -> (false, (true, (true, (false, (true, (false, (true, false)))))))
| X57 -> (true, (true, (true, (false, (true, (false, (true, false)))))))
| X58 -> (false, (false, (false, (true, (true, (false, (true, false)))))))
| X59 -> (true, (false, (false, (true, (true, (false, (true, false)))))))
| X5a -> (false, (true, (false, (true, (true, (false, (true, false)))))))
| X5b -> (true, (true, (false, (true, (true, (false, (true, false)))))))
| X5c -> (false, (false, (true, (true, (true, (false, (true, false)))))))
| X5d -> (true, (false, (true, (true, (true, (false, (true, false)))))))
| X5e -> (false, (true, (true, (true, (true, (false, (true, false)))))))
| X5f -> (true, (true, (true, (true, (true, (false, (true, false)))))))
| X60 -> (false, (false, (false, (false, (false, (true, (true, false)))))))
| X61 -> (true, (false, (false, (false, (false, (true, (true, false)))))))
| X62 -> (false, (true, (false, (false, (false, (true, (true, false)))))))
| X63 -> (true, (true, (false, (false, (false, (true, (true, false)))))))
| X64 -> (false, (false, (true, (false, (false, (true, (true, false)))))))
| X65 -> (true, (false, (true, (false, (false, (true, (true, false)))))))
| X66 -> (false, (true, (true, (false, (false, (true, (true, false)))))))
| X67 -> (true, (true, (true, (false, (false, (true, (true, false)))))))
| X68 -> (false, (false, (false, (true, (false, (true, (true, false)))))))
| X69 -> (true, (false, (false, (true, (false, (true, (true, false)))))))
| X6a -> (false, (true, (false, (true, (false, (true, (true, false)))))))
| X6b -> (true, (true, (false, (true, (false, (true, (true, false)))))))
| X6c -> (false, (false, (true, (true, (false, (true, (true, false)))))))
| X6d -> (true, (false, (true, (true, (false, (true, (true, false)))))))
| X6e -> (false, (true, (true, (true, (false, (true, (true, false)))))))
| X6f -> (true, (true, (true, (true, (false, (true, (true, false)))))))
| X70 -> (false, (false, (false, (false, (true, (true, (true, false)))))))
| X71 -> (true, (false, (false, (false, (true, (true, (true, false)))))))
| X72 -> (false, (true, (false, (false, (true, (true, (true, false)))))))
| X73 -> (true, (true, (false, (false, (true, (true, (true, false)))))))
| X74 -> (false, (false, (true, (false, (true, (true, (true, false)))))))
| X75 -> (true, (false, (true, (false, (true, (true, (true, false)))))))
| X76 -> (false, (true, (true, (false, (true, (true, (true, false)))))))
| X77 -> (true, (true, (true, (false, (true, (true, (true, false)))))))
| X78 -> (false, (false, (false, (true, (true, (true, (true, false)))))))
| X79 -> (true, (false, (false, (true, (true, (true, (true, false)))))))
| X7a -> (false, (true, (false, (true, (true, (true, (true, false)))))))
| X7b -> (true, (true, (false, (true, (true, (true, (true, false)))))))
| X7c -> (false, (false, (true, (true, (true, (true, (true, false)))))))
| X7d -> (true, (false, (true, (true, (true, (true, (true, false)))))))
| X7e -> (false, (true, (true, (true, (true, (true, (true, false)))))))
| X7f -> (true, (true, (true, (true, (true, (true, (true, false)))))))
| X80 -> (false, (false, (false, (false, (false, (false, (false, true)))))))
| X81 -> (true, (false, (false, (false, (false, (false, (false, true)))))))
| X82 -> (false, (true, (false, (false, (false, (false, (false, true)))))))
| X83 -> (true, (true, (false, (false, (false, (false, (false, true)))))))
| X84 -> (false, (false, (true, (false, (false, (false, (false, true)))))))
| X85 -> (true, (false, (true, (false, (false, (false, (false, true)))))))
| X86 -> (false, (true, (true, (false, (false, (false, (false, true)))))))
| X87 -> (true, (true, (true, (false, (false, (false, (false, true)))))))
| X88 -> (false, (false, (false, (true, (false, (false, (false, true)))))))
| X89 -> (true, (false, (false, (true, (false, (false, (false, true)))))))
| X8a -> (false, (true, (false, (true, (false, (false, (false, true)))))))
| X8b -> (true, (true, (false, (true, (false, (false, (false, true)))))))
| X8c -> (false, (false, (true, (true, (false, (false, (false, true)))))))
| X8d -> (true, (false, (true, (true, (false, (false, (false, true)))))))
| X8e -> (false, (true, (true, (true, (false, (false, (false, true)))))))
| X8f -> (true, (true, (true, (true, (false, (false, (false, true)))))))
| X90 -> (false, (false, (false, (false, (true, (false, (false, true)))))))
| X91 -> (true, (false, (false, (false, (true, (false, (false, true)))))))
| X92 -> (false, (true, (false, (false, (true, (false, (false, true)))))))
| X93 -> (true, (true, (false, (false, (true, (false, (false, true)))))))
| X94 -> (false, (false, (true, (false, (true, (false, (false, true)))))))
| X95 -> (true, (false, (true, (false, (true, (false, (false, true)))))))
| X96 -> (false, (true, (true, (false, (true, (false, (false, true)))))))
| X97 -> (true, (true, (true, (false, (true, (false, (false, true)))))))
| X98 -> (false, (false, (false, (true, (true, (false, (false, true)))))))
| X99 -> (true, (false, (false, (true, (true, (false, (false, true)))))))
| X9a -> (false, (true, (false, (true, (true, (false, (false, true)))))))
| X9b -> (true, (true, (false, (true, (true, (false, (false, true)))))))
| X9c -> (false, (false, (true, (true, (true, (false, (false, true)))))))
| X9d -> (true, (false, (true, (true, (true, (false, (false, true)))))))
| X9e -> (false, (true, (true, (true, (true, (false, (false, true)))))))
| X9f -> (true, (true, (true, (true, (true, (false, (false, true)))))))
| Xa0 -> (false, (false, (false, (false, (false, (true, (false, true)))))))
| Xa1 -> (true, (false, (false, (false, (false, (true, (false, true)))))))
| Xa2 -> (false, (true, (false, (false, (false, (true, (false, true)))))))
| Xa3 -> (true, (true, (false, (false, (false, (true, (false, true)))))))
| Xa4 -> (false, (false, (true, (false, (false, (true, (false, true)))))))
| Xa5 -> (true, (false, (true, (false, (false, (true, (false, true)))))))
| Xa6 -> (false, (true, (true, (false, (false, (true, (false, true)))))))
| Xa7 -> (true, (true, (true, (false, (false, (true, (false, true)))))))
| Xa8 -> (false, (false, (false, (true, (false, (true, (false, true)))))))
| Xa9 -> (true, (false, (false, (true, (false, (true, (false, true)))))))
| Xaa -> (false, (true, (false, (true, (false, (true, (false, true)))))))
| Xab -> (true, (true, (false, (true, (false, (true, (false, true)))))))
| Xac -> (false, (false, (true, (true, (false, (true, (false, true)))))))
| Xad -> (true, (false, (true, (true, (false, (true, (false, true)))))))
| Xae -> (false, (true, (true, (true, (false, (true, (false, true)))))))
| Xaf -> (true, (true, (true, (true, (false, (true, (false, true)))))))
| Xb0 -> (false, (false, (false, (false, (true, (true, (false, true)))))))
| Xb1 -> (true, (false, (false, (false, (true, (true, (false, true)))))))
| Xb2 -> (false, (true, (false, (false, (true, (true, (false, true)))))))
| Xb3 -> (true, (true, (false, (false, (true, (true, (false, true)))))))
| Xb4 -> (false, (false, (true, (false, (true, (true, (false, true)))))))
| Xb5 -> (true, (false, (true, (false, (true, (true, (false, true)))))))
| Xb6 -> (false, (true, (true, (false, (true, (true, (false, true)))))))
| Xb7 -> (true, (true, (true, (false, (true, (true, (false, true)))))))
| Xb8 -> (false, (false, (false, (true, (true, (true, (false, true)))))))
| Xb9 -> (true, (false, (false, (true, (true, (true, (false, true)))))))
| Xba -> (false, (true, (false, (true, (true, (true, (false, true)))))))
| Xbb -> (true, (true, (false, (true, (true, (true, (false, true)))))))
| Xbc -> (false, (false, (true, (true, (true, (true, (false, true)))))))
| Xbd -> (true, (false, (true, (true, (true, (true, (false, true)))))))
| Xbe -> (false, (true, (true, (true, (true, (true, (false, true)))))))
| Xbf -> (true, (true, (true, (true, (true, (true, (false, true)))))))
| Xc0 -> (false, (false, (false, (false, (false, (false, (true, true)))))))
| Xc1 -> (true, (false, (false, (false, (false, (false, (true, true)))))))
| Xc2 -> (false, (true, (false, (false, (false, (false, (true, true)))))))
| Xc3 -> (true, (true, (false, (false, (false, (false, (true, true)))))))
| Xc4 -> (false, (false, (true, (false, (false, (false, (true, true)))))))
| Xc5 -> (true, (false, (true, (false, (false, (false, (true, true)))))))
| Xc6 -> (false, (true, (true, (false, (false, (false, (true, true)))))))
| Xc7 -> (true, (true, (true, (false, (false, (false, (true, true)))))))
| Xc8 -> (false, (false, (false, (true, (false, (false, (true, true)))))))
| Xc9 -> (true, (false, (false, (true, (false, (false, (true, true)))))))
| Xca -> (false, (true, (false, (true, (false, (false, (true, true)))))))
| Xcb -> (true, (true, (false, (true, (false, (false, (true, true)))))))
| Xcc -> (false, (false, (true, (true, (false, (false, (true, true)))))))
| Xcd -> (true, (false, (true, (true, (false, (false, (true, true)))))))
| Xce -> (false, (true, (true, (true, (false, (false, (true, true)))))))
| Xcf -> (true, (true, (true, (true, (false, (false, (true, true)))))))
| Xd0 -> (false, (false, (false, (false, (true, (false, (true, true)))))))
| Xd1 -> (true, (false, (false, (false, (true, (false, (true, true)))))))
| Xd2 -> (false, (true, (false, (false, (true, (false, (true, true)))))))
| Xd3 -> (true, (true, (false, (false, (true, (false, (true, true)))))))
| Xd4 -> (false, (false, (true, (false, (true, (false, (true, true)))))))
| Xd5 -> (true, (false, (true, (false, (true, (false, (true, true)))))))
| Xd6 -> (false, (true, (true, (false, (true, (false, (true, true)))))))
| Xd7 -> (true, (true, (true, (false, (true, (false, (true, true)))))))
| Xd8 -> (false, (false, (false, (true, (true, (false, (true, true)))))))
| Xd9 -> (true, (false, (false, (true, (true, (false, (true, true)))))))
| Xda -> (false, (true, (false, (true, (true, (false, (true, true)))))))
| Xdb -> (true, (true, (false, (true, (true, (false, (true, true)))))))
| Xdc -> (false, (false, (true, (true, (true, (false, (true, true)))))))
| Xdd -> (true, (false, (true, (true, (true, (false, (true, true)))))))
| Xde -> (false, (true, (true, (true, (true, (false, (true, true)))))))
| Xdf -> (true, (true, (true, (true, (true, (false, (true, true)))))))
| Xe0 -> (false, (false, (false, (false, (false, (true, (true, true)))))))
| Xe1 -> (true, (false, (false, (false, (false, (true, (true, true)))))))
| Xe2 -> (false, (true, (false, (false, (false, (true, (true, true)))))))
| Xe3 -> (true, (true, (false, (false, (false, (true, (true, true)))))))
| Xe4 -> (false, (false, (true, (false, (false, (true, (true, true)))))))
| Xe5 -> (true, (false, (true, (false, (false, (true, (true, true)))))))
| Xe6 -> (false, (true, (true, (false, (false, (true, (true, true)))))))
| Xe7 -> (true, (true, (true, (false, (false, (true, (true, true)))))))
| Xe8 -> (false, (false, (false, (true, (false, (true, (true, true)))))))
| Xe9 -> (true, (false, (false, (true, (false, (true, (true, true)))))))
| Xea -> (false, (true, (false, (true, (false, (true, (true, true)))))))
| Xeb -> (true, (true, (false, (true, (false, (true, (true, true)))))))
| Xec -> (false, (false, (true, (true, (false, (true, (true, true)))))))
| Xed -> (true, (false, (true, (true, (false, (true, (true, true)))))))
| Xee -> (false, (true, (true, (true, (false, (true, (true, true)))))))
| Xef -> (true, (true, (true, (true, (false, (true, (true, true)))))))
| Xf0 -> (false, (false, (false, (false, (true, (true, (true, true)))))))
| Xf1 -> (true, (false, (false, (false, (true, (true, (true, true)))))))
| Xf2 -> (false, (true, (false, (false, (true, (true, (true, true)))))))
| Xf3 -> (true, (true, (false, (false, (true, (true, (true, true)))))))
| Xf4 -> (false, (false, (true, (false, (true, (true, (true, true)))))))
| Xf5 -> (true, (false, (true, (false, (true, (true, (true, true)))))))
| Xf6 -> (false, (true, (true, (false, (true, (true, (true, true)))))))
| Xf7 -> (true, (true, (true, (false, (true, (true, (true, true)))))))
| Xf8 -> (false, (false, (false, (true, (true, (true, (true, true)))))))
| Xf9 -> (true, (false, (false, (true, (true, (true, (true, true)))))))
| Xfa -> (false, (true, (false, (true, (true, (true, (true, true)))))))
| Xfb -> (true, (true, (false, (true, (true, (true, (true, true)))))))
| Xfc -> (false, (false, (true, (true, (true, (true, (true, true)))))))
| Xfd -> (true, (false, (true, (true, (true, (true, (true, true)))))))
| Xfe -> (false, (true, (true, (true, (true, (true, (true, true)))))))
| Xff -> (true, (true, (true, (true, (true, (true, (true, true)))))))

type positive =
| XI of positive
| XO of positive
| XH

type n =
| N0
| Npos of positive

type z =
| Z0
| Zpos of positive
| Zneg of positive

(** val eqb : bool -> bool -> bool **)

let eqb b1 b2 =
  if b1 then b2 else if b2 then false else true

module Pos =
 struct
  type mask =
  | IsNul
  | IsPos of positive
  | IsNeg
 end

module Coq_Pos =
 struct
  (** val succ : positive -> positive **)

  let rec succ = function
  | XI p -> XO (succ p)
  | XO p -> XI p
  | XH -> XO XH

  (** val add : positive -> positive -> positive **)

  let rec add x y =
    match x with
    | XI p ->
      (match y with
       | XI q -> XO (add_carry p q)
       | XO q -> XI (add p q)
       | XH -> XO (succ p))
    | XO p ->
      (match y with
       | XI q -> XI (add p q)
       | XO q -> XO (add p q)
       | XH -> XI p)
    | XH -> (match y with
             | XI q -> XO (succ q)
             | XO q -> XI q
             | XH -> XO XH)

  (** val add_carry : positive -> positive -> positive **)

  and add_carry x y =
    match x with
    | XI p ->
      (match y with
       | XI q -> XI (add_carry p q)
       | XO q -> XO (add_carry p q)
       | XH -> XI (succ p))
    | XO p ->
      (match y with
       | XI q -> XO (add_carry p q)
       | XO q -> XI (add p q)
       | XH -> XO (succ p))
    | XH ->
      (match y with
       | XI q -> XI (succ q)
       | XO q -> XO (succ q)
       | XH -> XI XH)

  (** val pred_double : positive -> positive **)

  let rec pred_double = function
  | XI p -> XI (XO p)
  | XO p -> XI (pred_double p)
  | XH -> XH

  (** val pred : positive -> positive **)

  let pred = function
  | XI p -> XO p
  | XO p -> pred_double p
  | XH -> XH

  (** val pred_N : positive -> n **)

  let pred_N = function
  | XI p -> Npos (XO p)
  | XO p -> Npos (pred_double p)
  | XH -> N0

  type mask = Pos.mask =
  | IsNul
  | IsPos of positive
  | IsNeg

  (** val succ_double_mask : mask -> mask **)

  let succ_double_mask = function
  | IsNul -> IsPos XH
  | IsPos p -> IsPos (XI p)
  | IsNeg -> IsNeg

  (** val double_mask : mask -> mask **)

  let double_mask = function
  | IsPos p -> IsPos (XO p)
  | x0 -> x0

  (** val double_pred_mask : positive -> mask **)

  let double_pred_mask = function
  | XI p -> IsPos (XO (XO p))
  | XO p -> IsPos (XO (pred_double p))
  | XH -> IsNul

  (** val sub_mask : positive -> positive -> mask **)

  let rec sub_mask x y =
    match x with
    | XI p ->
      (match y with
       | XI q -> double_mask (sub_mask p q)
       | XO q -> succ_double_mask (sub_mask p q)
       | XH -> IsPos (XO p))
    | XO p ->
      (match y with
       | XI q -> succ_double_mask (sub_mask_carry p q)
       | XO q -> double_mask (sub_mask p q)
       | XH -> IsPos (pred_double p))
    | XH -> (match y with
             | XH -> IsNul
             | _ -> IsNeg)

  (** val sub_mask_carry : positive -> positive -> mask **)

  and sub_mask_carry x y =
    match x with
    | XI p ->
      (match y with
       | XI q -> succ_double_mask (sub_mask_carry p q)
       | XO q -> double_mask (sub_mask p q)
       | XH -> IsPos (pred_double p))
    | XO p ->
      (match y with
       | XI q -> double_mask (sub_mask_carry p q)
       | XO q -> succ_double_mask (sub_mask_carry p q)
       | XH -> double_pred_mask p)
    | XH -> IsNeg

  (** val mul : positive -> positive -> positive **)

  let rec mul x y =
    match x with
    | XI p -> add y (XO (mul p y))
    | XO p -> XO (mul p y)
    | XH -> y

  (** val iter : ('a1 -> 'a1) -> 'a1 -> positive -> 'a1 **)

  let rec iter f x = function
  | XI n' -> f (iter f (iter f x n') n')
  | XO n' -> iter f (iter f x n') n'
  | XH -> f x

  (** val pow : positive -> positive -> positive **)

  let pow x =
    iter (mul x) XH

  (** val div2 : positive -> positive **)

  let div2 = function
  | XI p0 -> p0
  | XO p0 -> p0
  | XH -> XH

  (** val div2_up : positive -> positive **)

  let div2_up = function
  | XI p0 -> succ p0
  | XO p0 -> p0
  | XH -> XH

  (** val compare_cont : comparison -> positive -> positive -> comparison **)

  let rec compare_cont r x y =
    match x with
    | XI p ->
      (match y with
       | XI q -> compare_cont r p q
       | XO q -> compare_cont Gt p q
       | XH -> Gt)
    | XO p ->
      (match y with
       | XI q -> compare_cont Lt p q
       | XO q -> compare_cont r p q
       | XH -> Gt)
    | XH -> (match y with
             | XH -> r
             | _ -> Lt)

  (** val compare : positive -> positive -> comparison **)

  let compare =
    compare_cont Eq

  (** val eqb : positive -> positive -> bool **)

  let rec eqb p q =
    match p with
    | XI p0 -> (match q with
                | XI q0 -> eqb p0 q0
                | _ -> false)
    | XO p0 -> (match q with
                | XO q0 -> eqb p0 q0
                | _ -> false)
    | XH -> (match q with
             | XH -> true
             | _ -> false)

  (** val coq_Nsucc_double : n -> n **)

  let coq_Nsucc_double = function
  | N0 -> Npos XH
  | Npos p -> Npos (XI p)

  (** val coq_Ndouble : n -> n **)

  let coq_Ndouble = function
  | N0 -> N0
  | Npos p -> Npos (XO p)

  (** val coq_lor : positive -> positive -> positive **)

  let rec coq_lor p q =
    match p with
    | XI p0 ->
      (match q with
       | XI q0 -> XI (coq_lor p0 q0)
       | XO q0 -> XI (coq_lor p0 q0)
       | XH -> p)
    | XO p0 ->
      (match q with
       | XI q0 -> XI (coq_lor p0 q0)
       | XO q0 -> XO (coq_lor p0 q0)
       | XH -> XI p0)
    | XH -> (match q with
             | XO q0 -> XI q0
             | _ -> q)

  (** val coq_land : positive -> positive -> n **)

  let rec coq_land p q =
    match p with
    | XI p0 ->
      (match q with
       | XI q0 -> coq_Nsucc_double (coq_land p0 q0)
       | XO q0 -> coq_Ndouble (coq_land p0 q0)
       | XH -> Npos XH)
    | XO p0 ->
      (match q with
       | XI q0 -> coq_Ndouble (coq_land p0 q0)
       | XO q0 -> coq_Ndouble (coq_land p0 q0)
       | XH -> N0)
    | XH -> (match q with
             | XO _ -> N0
             | _ -> Npos XH)

  (** val ldiff : positive -> positive -> n **)

  let rec ldiff p q =
    match p with
    | XI p0 ->
      (match q with
       | XI q0 -> coq_Ndouble (ldiff p0 q0)
       | XO q0 -> coq_Nsucc_double (ldiff p0 q0)
       | XH -> Npos (XO p0))
    | XO p0 ->
      (match q with
       | XI q0 -> coq_Ndouble (ldiff p0 q0)
       | XO q0 -> coq_Ndouble (ldiff p0 q0)
       | XH -> Npos p)
    | XH -> (match q with
             | XO _ -> Npos XH
             | _ -> N0)

  (** val shiftl : positive -> n -> positive **)

  let shiftl p = function
  | N0 -> p
  | Npos n1 -> iter (fun x -> XO x) p n1

  (** val iter_op : ('a1 -> 'a1 -> 'a1) -> positive -> 'a1 -> 'a1 **)

  let rec iter_op op p a =
    match p with
    | XI p0 -> op a (iter_op op p0 (op a a))
    | XO p0 -> iter_op op p0 (op a a)
    | XH -> a

  (** val to_nat : positive -> nat **)

  let to_nat x =
    iter_op Coq__1.add x (S O)

  (** val of_succ_nat : nat -> positive **)

  let rec of_succ_nat = function
  | O -> XH
  | S x -> succ (of_succ_nat x)

  (** val eq_dec : positive -> positive -> bool **)

  let rec eq_dec p x0 =
    match p with
    | XI p0 -> (match x0 with
                | XI p1 -> eq_dec p0 p1
                | _ -> false)
    | XO p0 -> (match x0 with
                | XO p1 -> eq_dec p0 p1
                | _ -> false)
    | XH -> (match x0 with
             | XH -> true
             | _ -> false)
 end

module N =
 struct
  (** val succ_double : n -> n **)

  let succ_double = function
  | N0 -> Npos XH
  | Npos p -> Npos (XI p)

  (** val double : n -> n **)

  let double = function
  | N0 -> N0
  | Npos p -> Npos (XO p)

  (** val succ_pos : n -> positive **)

  let succ_pos = function
  | N0 -> XH
  | Npos p -> Coq_Pos.succ p

  (** val add : n -> n -> n **)

  let add n0 m =
    match n0 with
    | N0 -> m
    | Npos p -> (match m with
                 | N0 -> n0
                 | Npos q -> Npos (Coq_Pos.add p q))

  (** val sub : n -> n -> n **)

  let sub n0 m =
    match n0 with
    | N0 -> N0
    | Npos n' ->
      (match m with
       | N0 -> n0
       | Npos m' ->
         (match Coq_Pos.sub_mask n' m' with
          | Coq_Pos.IsPos p -> Npos p
          | _ -> N0))

  (** val mul : n -> n -> n **)

  let mul n0 m =
    match n0 with
    | N0 -> N0
    | Npos p -> (match m with
                 | N0 -> N0
                 | Npos q -> Npos (Coq_Pos.mul p q))

  (** val compare : n -> n -> comparison **)

  let compare n0 m =
    match n0 with
    | N0 -> (match m with
             | N0 -> Eq
             | Npos _ -> Lt)
    | Npos n' -> (match m with
                  | N0 -> Gt
                  | Npos m' -> Coq_Pos.compare n' m')

  (** val eqb : n -> n -> bool **)

  let eqb n0 m =
    match n0 with
    | N0 -> (match m with
             | N0 -> true
             | Npos _ -> false)
    | Npos p -> (match m with
                 | N0 -> false
                 | Npos q -> Coq_Pos.eqb p q)

  (** val leb : n -> n -> bool **)

  let leb x y =
    match compare x y with
    | Gt -> false
    | _ -> true

  (** val ltb : n -> n -> bool **)

  let ltb x y =
    match compare x y with
    | Lt -> true
    | _ -> false

  (** val div2 : n -> n **)

  let div2 = function
  | N0 -> N0
  | Npos p0 -> (match p0 with
                | XI p -> Npos p
                | XO p -> Npos p
                | XH -> N0)

  (** val pow : n -> n -> n **)

  let pow n0 = function
  | N0 -> Npos XH
  | Npos p0 -> (match n0 with
                | N0 -> N0
                | Npos q -> Npos (Coq_Pos.pow q p0))

  (** val pos_div_eucl : positive -> n -> n * n **)

  let rec pos_div_eucl a b =
    match a with
    | XI a' ->
      let (q, r) = pos_div_eucl a' b in
      let r' = succ_double r in
      if leb b r' then ((succ_double q), (sub r' b)) else ((double q), r')
    | XO a' ->
      let (q, r) = pos_div_eucl a' b in
      let r' = double r in
      if leb b r' then ((succ_double q), (sub r' b)) else ((double q), r')
    | XH ->
      (match b with
       | N0 -> (N0, (Npos XH))
       | Npos p -> (match p with
                    | XH -> ((Npos XH), N0)
                    | _ -> (N0, (Npos XH))))

  (** val div_eucl : n -> n -> n * n **)

  let div_eucl a b =
    match a with
    | N0 -> (N0, N0)
    | Npos na -> (match b with
                  | N0 -> (N0, a)
                  | Npos _ -> pos_div_eucl na b)

  (** val div : n -> n -> n **)

  let div a b =
    fst (div_eucl a b)

  (** val modulo : n -> n -> n **)

  let modulo a b =
    snd (div_eucl a b)

  (** val coq_lor : n -> n -> n **)

  let coq_lor n0 m =
    match n0 with
    | N0 -> m
    | Npos p -> (match m with
                 | N0 -> n0
                 | Npos q -> Npos (Coq_Pos.coq_lor p q))

  (** val coq_land : n -> n -> n **)

  let coq_land n0 m =
    match n0 with
    | N0 -> N0
    | Npos p -> (match m with
                 | N0 -> N0
                 | Npos q -> Coq_Pos.coq_land p q)

  (** val ldiff : n -> n -> n **)

  let ldiff n0 m =
    match n0 with
    | N0 -> N0
    | Npos p -> (match m with
                 | N0 -> n0
                 | Npos q -> Coq_Pos.ldiff p q)

  (** val shiftl : n -> n -> n **)

  let shiftl a n0 =
    match a with
    | N0 -> N0
    | Npos a0 -> Npos (Coq_Pos.shiftl a0 n0)

  (** val shiftr : n -> n -> n **)

  let shiftr a = function
  | N0 -> a
  | Npos p -> Coq_Pos.iter div2 a p

  (** val to_nat : n -> nat **)

  let to_nat = function
  | N0 -> O
  | Npos p -> Coq_Pos.to_nat p

  (** val of_nat : nat -> n **)

  let of_nat = function
  | O -> N0
  | S n' -> Npos (Coq_Pos.of_succ_nat n')

  (** val eq_dec : n -> n -> bool **)

  let eq_dec n0 m =
    match n0 with
    | N0 -> (match m with
             | N0 -> true
             | Npos _ -> false)
    | Npos p -> (match m with
                 | N0 -> false
                 | Npos p0 -> Coq_Pos.eq_dec p p0)
 end

module Z =
 struct
  (** val double : z -> z **)

  let double = function
  | Z0 -> Z0
  | Zpos p -> Zpos (XO p)
  | Zneg p -> Zneg (XO p)

  (** val succ_double : z -> z **)

  let succ_double = function
  | Z0 -> Zpos XH
  | Zpos p -> Zpos (XI p)
  | Zneg p -> Zneg (Coq_Pos.pred_double p)

  (** val pred_double : z -> z **)

  let pred_double = function
  | Z0 -> Zneg XH
  | Zpos p -> Zpos (Coq_Pos.pred_double p)
  | Zneg p -> Zneg (XI p)

  (** val pos_sub : positive -> positive -> z **)

  let rec pos_sub x y =
    match x with
    | XI p ->
      (match y with
       | XI q -> double (pos_sub p q)
       | XO q -> succ_double (pos_sub p q)
       | XH -> Zpos (XO p))
    | XO p ->
      (match y with
       | XI q -> pred_double (pos_sub p q)
       | XO q -> double (pos_sub p q)
       | XH -> Zpos (Coq_Pos.pred_double p))
    | XH ->
      (match y with
       | XI q -> Zneg (XO q)
       | XO q -> Zneg (Coq_Pos.pred_double q)
       | XH -> Z0)

  (** val add : z -> z -> z **)

  let add x y =
    match x with
    | Z0 -> y
    | Zpos x' ->
      (match y with
       | Z0 -> x
       | Zpos y' -> Zpos (Coq_Pos.add x' y')
       | Zneg y' -> pos_sub x' y')
    | Zneg x' ->
      (match y with
       | Z0 -> x
       | Zpos y' -> pos_sub y' x'
       | Zneg y' -> Zneg (Coq_Pos.add x' y'))

  (** val opp : z -> z **)

  let opp = function
  | Z0 -> Z0
  | Zpos x0 -> Zneg x0
  | Zneg x0 -> Zpos x0

  (** val sub : z -> z -> z **)

  let sub m n0 =
    add m (opp n0)

  (** val mul : z -> z -> z **)

  let mul x y =
    match x with
    | Z0 -> Z0
    | Zpos x' ->
      (match y with
       | Z0 -> Z0
       | Zpos y' -> Zpos (Coq_Pos.mul x' y')
       | Zneg y' -> Zneg (Coq_Pos.mul x' y'))
    | Zneg x' ->
      (match y with
       | Z0 -> Z0
       | Zpos y' -> Zneg (Coq_Pos.mul x' y')
       | Zneg y' -> Zpos (Coq_Pos.mul x' y'))

  (** val pow_pos : z -> positive -> z **)

  let pow_pos z0 =
    Coq_Pos.iter (mul z0) (Zpos XH)

  (** val pow : z -> z -> z **)

  let pow x = function
  | Z0 -> Zpos XH
  | Zpos p -> pow_pos x p
  | Zneg _ -> Z0

  (** val compare : z -> z -> comparison **)

  let compare x y =
    match x with
    | Z0 -> (match y with
             | Z0 -> Eq
             | Zpos _ -> Lt
             | Zneg _ -> Gt)
    | Zpos x' -> (match y with
                  | Zpos y' -> Coq_Pos.compare x' y'
                  | _ -> Gt)
    | Zneg x' ->
      (match y with
       | Zneg y' -> compOpp (Coq_Pos.compare x' y')
       | _ -> Lt)

  (** val leb : z -> z -> bool **)

  let leb x y =
    match compare x y with
    | Gt -> false
    | _ -> true

  (** val ltb : z -> z -> bool **)

  let ltb x y =
    match compare x y with
    | Lt -> true
    | _ -> false

  (** val to_N : z -> n **)

  let to_N = function
  | Zpos p -> Npos p
  | _ -> N0

  (** val of_N : n -> z **)

  let of_N = function
  | N0 -> Z0
  | Npos p -> Zpos p

  (** val pos_div_eucl : positive -> z -> z * z **)

  let rec pos_div_eucl a b =
    match a with
    | XI a' ->
      let (q, r) = pos_div_eucl a' b in
      let r' = add (mul (Zpos (XO XH)) r) (Zpos XH) in
      if ltb r' b
      then ((mul (Zpos (XO XH)) q), r')
      else ((add (mul (Zpos (XO XH)) q) (Zpos XH)), (sub r' b))
    | XO a' ->
      let (q, r) = pos_div_eucl a' b in
      let r' = mul (Zpos (XO XH)) r in
      if ltb r' b
      then ((mul (Zpos (XO XH)) q), r')
      else ((add (mul (Zpos (XO XH)) q) (Zpos XH)), (sub r' b))
    | XH -> if leb (Zpos (XO XH)) b then (Z0, (Zpos XH)) else ((Zpos XH), Z0)

  (** val div_eucl : z -> z -> z * z **)

  let div_eucl a b =
    match a with
    | Z0 -> (Z0, Z0)
    | Zpos a' ->
      (match b with
       | Z0 -> (Z0, a)
       | Zpos _ -> pos_div_eucl a' b
       | Zneg b' ->
         let (q, r) = pos_div_eucl a' (Zpos b') in
         (match r with
          | Z0 -> ((opp q), Z0)
          | _ -> ((opp (add q (Zpos XH))), (add b r))))
    | Zneg a' ->
      (match b with
       | Z0 -> (Z0, a)
       | Zpos _ ->
         let (q, r) = pos_div_eucl a' b in
         (match r with
          | Z0 -> ((opp q), Z0)
          | _ -> ((opp (add q (Zpos XH))), (sub b r)))
       | Zneg b' -> let (q, r) = pos_div_eucl a' (Zpos b') in (q, (opp r)))

  (** val modulo : z -> z -> z **)

  let modulo a b =
    let (_, r) = div_eucl a b in r

  (** val div2 : z -> z **)

  let div2 = function
  | Z0 -> Z0
  | Zpos p -> (match p with
               | XH -> Z0
               | _ -> Zpos (Coq_Pos.div2 p))
  | Zneg p -> Zneg (Coq_Pos.div2_up p)

  (** val shiftl : z -> z -> z **)

  let shiftl a = function
  | Z0 -> a
  | Zpos p -> Coq_Pos.iter (mul (Zpos (XO XH))) a p
  | Zneg p -> Coq_Pos.iter div2 a p

  (** val shiftr : z -> z -> z **)

  let shiftr a n0 =
    shiftl a (opp n0)

  (** val coq_lor : z -> z -> z **)

  let coq_lor a b =
    match a with
    | Z0 -> b
    | Zpos a0 ->
      (match b with
       | Z0 -> a
       | Zpos b0 -> Zpos (Coq_Pos.coq_lor a0 b0)
       | Zneg b0 -> Zneg (N.succ_pos (N.ldiff (Coq_Pos.pred_N b0) (Npos a0))))
    | Zneg a0 ->
      (match b with
       | Z0 -> a
       | Zpos b0 -> Zneg (N.succ_pos (N.ldiff (Coq_Pos.pred_N a0) (Npos b0)))
       | Zneg b0 ->
         Zneg
           (N.succ_pos (N.coq_land (Coq_Pos.pred_N a0) (Coq_Pos.pred_N b0))))
 end

(** val concat : 'a1 list list -> 'a1 list **)

let rec concat = function
| [] -> []
| x :: l0 -> app x (concat l0)

(** val list_eq_dec : ('a1 -> 'a1 -> bool) -> 'a1 list -> 'a1 list -> bool **)

let rec list_eq_dec eq_dec0 l l' =
  match l with
  | [] -> (match l' with
           | [] -> true
           | _ :: _ -> false)
  | y :: l0 ->
    (match l' with
     | [] -> false
     | a :: l1 -> if eq_dec0 y a then list_eq_dec eq_dec0 l0 l1 else false)

(** val map : ('a1 -> 'a2) -> 'a1 list -> 'a2 list **)

let rec map f = function
| [] -> []
| a :: t -> (f a) :: (map f t)

(** val firstn : nat -> 'a1 list -> 'a1 list **)

let rec firstn n0 l =
  match n0 with
  | O -> []
  | S n1 -> (match l with
             | [] -> []
             | a :: l0 -> a :: (firstn n1 l0))

(** val skipn : nat -> 'a1 list -> 'a1 list **)

let rec skipn n0 l =
  match n0 with
  | O -> l
  | S n1 -> (match l with
             | [] -> []
             | _ :: l0 -> skipn n1 l0)

(** val eqb0 : byte -> byte -> bool **)

let eqb0 a b =
  let (a0, p) = to_bits a in
  let (a1, p0) = p in
  let (a2, p1) = p0 in
  let (a3, p2) = p1 in
  let (a4, p3) = p2 in
  let (a5, p4) = p3 in
  let (a6, a7) = p4 in
  let (b0, p5) = to_bits b in
  let (b1, p6) = p5 in
  let (b2, p7) = p6 in
  let (b3, p8) = p7 in
  let (b4, p9) = p8 in
  let (b5, p10) = p9 in
  let (b6, b7) = p10 in
  (&&)
    ((&&)
      ((&&)
        ((&&)
          ((&&) ((&&) ((&&) (eqb a0 b0) (eqb a1 b1)) (eqb a2 b2)) (eqb a3 b3))
          (eqb a4 b4)) (eqb a5 b5)) (eqb a6 b6)) (eqb a7 b7)

(** val byte_eq_dec : byte -> byte -> bool **)

let byte_eq_dec x y =
  if eqb0 x y then true else false

(** val to_N0 : byte -> n **)

let to_N0 = function
| X00 -> N0
| X01 -> Npos XH
| X02 -> Npos (XO XH)
| X03 -> Npos (XI XH)
| X04 -> Npos (XO (XO XH))
| X05 -> Npos (XI (XO XH))
| X06 -> Npos (XO (XI XH))
| X07 -> Npos (XI (XI XH))
| X08 -> Npos (XO (XO (XO XH)))
| X09 -> Npos (XI (XO (XO XH)))
| X0a -> Npos (XO (XI (XO XH)))
| X0b -> Npos (XI (XI (XO XH)))
| X0c -> Npos (XO (XO (XI XH)))
| X0d -> Npos (XI (XO (XI XH)))
| X0e -> Npos (XO (XI (XI XH)))
| X0f -> Npos (XI (XI (XI XH)))
| X10 -> Npos (XO (XO (XO (XO XH))))
| X11 -> Npos (XI (XO (XO (XO XH))))
| X12 -> Npos (XO (XI (XO (XO XH))))
| X13 -> Npos (XI (XI (XO (XO XH))))
| X14 -> Npos (XO (XO (XI (XO XH))))
| X15 -> Npos (XI (XO (XI (XO XH))))
| X16 -> Npos (XO (XI (XI (XO XH))))
| X17 -> Npos (XI (XI (XI (XO XH))))
| X18 -> Npos (XO (XO (XO (XI XH))))
| X19 -> Npos (XI (XO (XO (XI XH))))
| X1a -> Npos (XO (XI (XO (XI XH))))
| X1b -> Npos (XI (XI (XO (XI XH))))
| X1c -> Npos (XO (XO (XI (XI XH))))
| X1d -> Npos (XI (XO (XI (XI XH))))
| X1e -> Npos (XO (XI (XI (XI XH))))
| X1f -> Npos (XI (XI (XI (XI XH))))
| X20 -> Npos (XO (XO (XO (XO (XO XH)))))
| X21 -> Npos (XI (XO (XO (XO (XO XH)))))
| X22 -> Npos (XO (XI (XO (XO (XO XH)))))
| X23 -> Npos (XI (XI (XO (XO (XO XH)))))
| X24 -> Npos (XO (XO (XI (XO (XO XH)))))
| X25 -> Npos (XI (XO (XI (XO (XO XH)))))
| X26 -> Npos (XO (XI (XI (XO (XO XH)))))
| X27 -> Npos (XI (XI (XI (XO (XO XH)))))
| X28 -> Npos (XO (XO (XO (XI (XO XH)))))
| X29 -> Npos (XI (XO (XO (XI (XO XH)))))
| X2a -> Npos (XO (XI (XO (XI (XO XH)))))
| X2b -> Npos (XI (XI (XO (XI (XO XH)))))
| X2c -> Npos (XO (XO (XI (XI (XO XH)))))
| X2d -> Npos (XI (XO (XI (XI (XO XH)))))
| X2e -> Npos (XO (XI (XI (XI (XO XH)))))
| X2f -> Npos (XI (XI (XI (XI (XO XH)))))
| X30 -> Npos (XO (XO (XO (XO (XI XH)))))
| X31 -> Npos (XI (XO (XO (XO (XI XH)))))
| X32 -> Npos (XO (XI (XO (XO (XI XH)))))
| X33 -> Npos (XI (XI (XO (XO (XI XH)))))
| X34 -> Npos (XO (XO (XI (XO (XI XH)))))
| X35 -> Npos (XI (XO (XI (XO (XI XH)))))
| X36 -> Npos (XO (XI (XI (XO (XI XH)))))
| X37 -> Npos (XI (XI (XI (XO (XI XH)))))
| X38 -> Npos (XO (XO (XO (XI (XI XH)))))
| X39 -> Npos (XI (XO (XO (XI (XI XH)))))
| X3a -> Npos (XO (XI (XO (XI (XI XH)))))
| X3b -> Npos (XI (XI (XO (XI (XI XH)))))
| X3c -> Npos (XO (XO (XI (XI (XI XH)))))
| X3d -> Npos (XI (XO (XI (XI (XI XH)))))
| X3e -> Npos (XO (XI (XI (XI (XI XH)))))
| X3f -> Npos (XI (XI (XI (XI (XI XH)))))
| X40 -> Npos (XO (XO (XO (XO (XO (XO XH))))))
| X41 -> Npos (XI (XO (XO (XO (XO (XO XH))))))
| X42 -> Npos (XO (XI (XO (XO (XO (XO XH))))))
| X43 -> Npos (XI (XI (XO (XO (XO (XO XH))))))
| X44 -> Npos (XO (XO (XI (XO (XO (XO XH))))))
| X45 -> Npos (XI (XO (XI (XO (XO (XO XH))))))
| X46 -> Npos (XO (XI (XI (XO (XO (XO XH))))))
| X47 -> Npos (XI (XI (XI (XO (XO (XO XH))))))
| X48 -> Npos (XO (XO (XO (XI (XO (XO XH))))))
| X49 -> Npos (XI (XO (XO (XI (XO (XO XH))))))
| X4a -> Npos (XO (XI (XO (XI (XO (XO XH))))))
| X4b -> Npos (XI (XI (XO (XI (XO (XO XH))))))
| X4c -> Npos (XO (XO (XI (XI (XO (XO XH))))))
| X4d -> Npos (XI (XO (XI (XI (XO (XO XH))))))
| X4e -> Npos (XO (XI (XI (XI (XO (XO XH))))))
| X4f -> Npos (XI (XI (XI (XI (XO (XO XH))))))
| X50 -> Npos (XO (XO (XO (XO (XI (XO XH))))))
| X51 -> Npos (XI (XO (XO (XO (XI (XO XH))))))
| X52 -> Npos (XO (XI (XO (XO (XI (XO XH))))))
| X53 -> Npos (XI (XI (XO (XO (XI (XO XH))))))
| X54 -> Npos (XO (XO (XI (XO (XI (XO XH))))))
| X55 -> Npos (XI (XO (XI (XO (XI (XO XH))))))
| X56 -> Npos (XO (XI (XI (XO (XI (XO XH))))))
| X57 -> Npos (XI (XI (XI (XO (XI (XO XH))))))
| X58 -> Npos (XO (XO (XO (XI (XI (XO XH))))))
| X59 -> Npos (XI (XO (XO (XI (XI (XO XH))))))
| X5a -> Npos (XO (XI (XO (XI (XI (XO XH))))))
| X5b -> Npos (XI (XI (XO (XI (XI (XO XH))))))
| X5c -> Npos (XO (XO (XI (XI (XI (XO XH))))))
| X5d -> Npos (XI (XO (XI (XI (XI (XO XH))))))
| X5e -> Npos (XO (XI (XI (XI (XI (XO XH))))))
| X5f -> Npos (XI (XI (XI (XI (XI (XO XH))))))
| X60 -> Npos (XO (XO (XO (XO (XO (XI XH))))))
| X61 -> Npos (XI (XO (XO (XO (XO (XI XH))))))
| X62 -> Npos (XO (XI (XO (XO (XO (XI XH))))))
| X63 -> Npos (XI (XI (XO (XO (XO (XI XH))))))
| X64 -> Npos (XO (XO (XI (XO (XO (XI XH))))))
| X65 -> Npos (XI (XO (XI (XO (XO (XI XH))))))
| X66 -> Npos (XO (XI (XI (XO (XO (XI XH))))))
| X67 -> Npos (XI (XI (XI (XO (XO (XI XH))))))
| X68 -> Npos (XO (XO (XO (XI (XO (XI XH))))))
| X69 -> Npos (XI (XO (XO (XI (XO (XI XH))))))
| X6a -> Npos (XO (XI (XO (XI (XO (XI XH))))))
| X6b -> Npos (XI (XI (XO (XI (XO (XI XH))))))
| X6c -> Npos (XO (XO (XI (XI (XO (XI XH))))))
| X6d -> Npos (XI (XO (XI (XI (XO (XI XH))))))
| X6e -> Npos (XO (XI (XI (XI (XO (XI XH))))))
| X6f -> Npos (XI (XI (XI (XI (XO (XI XH))))))
| X70 -> Npos (XO (XO (XO (XO (XI (XI XH))))))
| X71 -> Npos (XI (XO (XO (XO (XI (XI XH))))))
| X72 -> Npos (XO (XI (XO (XO (XI (XI XH))))))
| X73 -> Npos (XI (XI (XO (XO (XI (XI XH))))))
| X74 -> Npos (XO (XO (XI (XO (XI (XI XH))))))
| X75 -> Npos (XI (XO (XI (XO (XI (XI XH))))))
| X76 -> Npos (XO (XI (XI (XO (XI (XI XH))))))
| X77 -> Npos (XI (XI (XI (XO (XI (XI XH))))))
| X78 -> Npos (XO (XO (XO (XI (XI (XI XH))))))
| X79 -> Npos (XI (XO (XO (XI (XI (XI XH))))))
| X7a -> Npos (XO (XI (XO (XI (XI (XI XH))))))
| X7b -> Npos (XI (XI (XO (XI (XI (XI XH))))))
| X7c -> Npos (XO (XO (XI (XI (XI (XI XH))))))
| X7d -> Npos (XI (XO (XI (XI (XI (XI XH))))))
| X7e -> Npos (XO (XI (XI (XI (XI (XI XH))))))
| X7f -> Npos (XI (XI (XI (XI (XI (XI XH))))))
| X80 -> Npos (XO (XO (XO (XO (XO (XO (XO XH)))))))
| X81 -> Npos (XI (XO (XO (XO (XO (XO (XO XH)))))))
| X82 -> Npos (XO (XI (XO (XO (XO (XO (XO XH)))))))
| X83 -> Npos (XI (XI (XO (XO (XO (XO (XO XH)))))))
| X84 -> Npos (XO (XO (XI (XO (XO (XO (XO XH)))))))
| X85 -> Npos (XI (XO (XI (XO (XO (XO (XO XH)))))))
| X86 -> Npos (XO (XI (XI (XO (XO (XO (XO XH)))))))
| X87 -> Npos (XI (XI (XI (XO (XO (XO (XO XH)))))))
| X88 -> Npos (XO (XO (XO (XI (XO (XO (XO XH)))))))
| X89 -> Npos (XI (XO (XO (XI (XO (XO (XO XH)))))))
| X8a -> Npos (XO (XI (XO (XI (XO (XO (XO XH)))))))
| X8b -> Npos (XI (XI (XO (XI (XO (XO (XO XH)))))))
| X8c -> Npos (XO (XO (XI (XI (XO (XO (XO XH)))))))
| X8d -> Npos (XI (XO (XI (XI (XO (XO (XO XH)))))))
| X8e -> Npos (XO (XI (XI (XI (XO (XO (XO XH)))))))
| X8f -> Npos (XI (XI (XI (XI (XO (XO (XO XH)))))))
| X90 -> Npos (XO (XO (XO (XO (XI (XO (XO XH)))))))
| X91 -> Npos (XI (XO (XO (XO (XI (XO (XO XH)))))))
| X92 -> Npos (XO (XI (XO (XO (XI (XO (XO XH)))))))
| X93 -> Npos (XI (XI (XO (XO (XI (XO (XO XH)))))))
| X94 -> Npos (XO (XO (XI (XO (XI (XO (XO XH)))))))
| X95 -> Npos (XI (XO (XI (XO (XI (XO (XO XH)))))))
| X96 -> Npos (XO (XI (XI (XO (XI (XO (XO XH)))))))
| X97 -> Npos (XI (XI (XI (XO (XI (XO (XO XH)))))))
| X98 -> Npos (XO (XO (XO (XI (XI (XO (XO XH)))))))
| X99 -> Npos (XI (XO (XO (XI (XI (XO (XO XH)))))))
| X9a -> Npos (XO (XI (XO (XI (XI (XO (XO XH)))))))
| X9b -> Npos (XI (XI (XO (XI (XI (XO (XO XH)))))))
| X9c -> Npos (XO (XO (XI (XI (XI (XO (XO XH)))))))
| X9d -> Npos (XI (XO (XI (XI (XI (XO (XO XH)))))))
| X9e -> Npos (XO (XI (XI (XI (XI (XO (XO XH)))))))
| X9f -> Npos (XI (XI (XI (XI (XI (XO (XO XH)))))))
| Xa0 -> Npos (XO (XO (XO (XO (XO (XI (XO XH)))))))
| Xa1 -> Npos (XI (XO (XO (XO (XO (XI (XO XH)))))))
| Xa2 -> Npos (XO (XI (XO (XO (XO (XI (XO XH)))))))
| Xa3 -> Npos (XI (XI (XO (XO (XO (XI (XO XH)))))))
| Xa4 -> Npos (XO (XO (XI (XO (XO (XI (XO XH)))))))
| Xa5 -> Npos (XI (XO (XI (XO (XO (XI (XO XH)))))))
| Xa6 -> Npos (XO (XI (XI (XO (XO (XI (XO XH)))))))
| Xa7 -> Npos (XI (XI (XI (XO (XO (XI (XO XH)))))))
| Xa8 -> Npos (XO (XO (XO (XI (XO (XI (XO XH)))))))
| Xa9 -> Npos (XI (XO (XO (XI (XO (XI (XO XH)))))))
| Xaa -> Npos (XO (XI (XO (XI (XO (XI (XO XH)))))))
| Xab -> Npos (XI (XI (XO (XI (XO (XI (XO XH)))))))
| Xac -> Npos (XO (XO (XI (XI (XO (XI (XO XH)))))))
| Xad -> Npos (XI (XO (XI (XI (XO (XI (XO XH)))))))
| Xae -> Npos (XO (XI (XI (XI (XO (XI (XO XH)))))))
| Xaf -> Npos (XI (XI (XI (XI (XO (XI (XO XH)))))))
| Xb0 -> Npos (XO (XO (XO (XO (XI (XI (XO XH)))))))
| Xb1 -> Npos (XI (XO (XO (XO (XI (XI (XO XH)))))))
| Xb2 -> Npos (XO (XI (XO (XO (XI (XI (XO XH)))))))
| Xb3 -> Npos (XI (XI (XO (XO (XI (XI (XO XH)))))))
| Xb4 -> Npos (XO (XO (XI (XO (XI (XI (XO XH)))))))
| Xb5 -> Npos (XI (XO (XI (XO (XI (XI (XO XH)))))))
| Xb6 -> Npos (XO (XI (XI (XO (XI (XI (XO XH)))))))
| Xb7 -> Npos (XI (XI (XI (XO (XI (XI (XO XH)))))))
| Xb8 -> Npos (XO (XO (XO (XI (XI (XI (XO XH)))))))
| Xb9 -> Npos (XI (XO (XO (XI (XI (XI (XO XH)))))))
| Xba -> Npos (XO (XI (XO (XI (XI (XI (XO XH)))))))
| Xbb -> Npos (XI (XI (XO (XI (XI (XI (XO XH)))))))
| Xbc -> Npos (XO (XO (XI (XI (XI (XI (XO XH)))))))
| Xbd -> Npos (XI (XO (XI (XI (XI (XI (XO XH)))))))
| Xbe -> Npos (XO (XI (XI (XI (XI (XI (XO XH)))))))
| Xbf -> Npos (XI (XI (XI (XI (XI (XI (XO XH)))))))
| Xc0 -> Npos (XO (XO (XO (XO (XO (XO (XI XH)))))))
| Xc1 -> Npos (XI (XO (XO (XO (XO (XO (XI XH)))))))
| Xc2 -> Npos (XO (XI (XO (XO (XO (XO (XI XH)))))))
| Xc3 -> Npos (XI (XI (XO (XO (XO (XO (XI XH)))))))
| Xc4 -> Npos (XO (XO (XI (XO (XO (XO (XI XH)))))))
| Xc5 -> Npos (XI (XO (XI (XO (XO (XO (XI XH)))))))
| Xc6 -> Npos (XO (XI (XI (XO (XO (XO (XI XH)))))))
| Xc7 -> Npos (XI (XI (XI (XO (XO (XO (XI XH)))))))
| Xc8 -> Npos (XO (XO (XO (XI (XO (XO (XI XH)))))))
| Xc9 -> Npos (XI (XO (XO (XI (XO (XO (XI XH)))))))
| Xca -> Npos (XO (XI (XO (XI (XO (XO (XI XH)))))))
| Xcb -> Npos (XI (XI (XO (XI (XO (XO (XI XH)))))))
| Xcc -> Npos (XO (XO (XI (XI (XO (XO (XI XH)))))))
| Xcd -> Npos (XI (XO (XI (XI (XO (XO (XI XH)))))))
| Xce -> Npos (XO (XI (XI (XI (XO (XO (XI XH)))))))
| Xcf -> Npos (XI (XI (XI (XI (XO (XO (XI XH)))))))
| Xd0 -> Npos (XO (XO (XO (XO (XI (XO (XI XH)))))))
| Xd1 -> Npos (XI (XO (XO (XO (XI (XO (XI XH)))))))
| Xd2 -> Npos (XO (XI (XO (XO (XI (XO (XI XH)))))))
| Xd3 -> Npos (XI (XI (XO (XO (XI (XO (XI XH)))))))
| Xd4 -> Npos (XO (XO (XI (XO (XI (XO (XI XH)))))))
| Xd5 -> Npos (XI (XO (XI (XO (XI (XO (XI XH)))))))
| Xd6 -> Npos (XO (XI (XI (XO (XI (XO (XI XH)))))))
| Xd7 -> Npos (XI (XI (XI (XO (XI (XO (XI XH)))))))
| Xd8 -> Npos (XO (XO (XO (XI (XI (XO (XI XH)))))))
| Xd9 -> Npos (XI (XO (XO (XI (XI (XO (XI XH)))))))
| Xda -> Npos (XO (XI (XO (XI (XI (XO (XI XH)))))))
| Xdb -> Npos (XI (XI (XO (XI (XI (XO (XI XH)))))))
| Xdc -> Npos (XO (XO (XI (XI (XI (XO (XI XH)))))))
| Xdd -> Npos (XI (XO (XI (XI (XI (XO (XI XH)))))))
| Xde -> Npos (XO (XI (XI (XI (XI (XO (XI XH)))))))
| Xdf -> Npos (XI (XI (XI (XI (XI (XO (XI XH)))))))
| Xe0 -> Npos (XO (XO (XO (XO (XO (XI (XI XH)))))))
| Xe1 -> Npos (XI (XO (XO (XO (XO (XI (XI XH)))))))
| Xe2 -> Npos (XO (XI (XO (XO (XO (XI (XI XH)))))))
| Xe3 -> Npos (XI (XI (XO (XO (XO (XI (XI XH)))))))
| Xe4 -> Npos (XO (XO (XI (XO (XO (XI (XI XH)))))))
| Xe5 -> Npos (XI (XO (XI (XO (XO (XI (XI XH)))))))
| Xe6 -> Npos (XO (XI (XI (XO (XO (XI (XI XH)))))))
| Xe7 -> Npos (XI (XI (XI (XO (XO (XI (XI XH)))))))
| Xe8 -> Npos (XO (XO (XO (XI (XO (XI (XI XH)))))))
| Xe9 -> Npos (XI (XO (XO (XI (XO (XI (XI XH)))))))
| Xea -> Npos (XO (XI (XO (XI (XO (XI (XI XH)))))))
| Xeb -> Npos (XI (XI (XO (XI (XO (XI (XI XH)))))))
| Xec -> Npos (XO (XO (XI (XI (XO (XI (XI XH)))))))
| Xed -> Npos (XI (XO (XI (XI (XO (XI (XI XH)))))))
| Xee -> Npos (XO (XI (XI (XI (XO (XI (XI XH)))))))
| Xef -> Npos (XI (XI (XI (XI (XO (XI (XI XH)))))))
| Xf0 -> Npos (XO (XO (XO (XO (XI (XI (XI XH)))))))
| Xf1 -> Npos (XI (XO (XO (XO (XI (XI (XI XH)))))))
| Xf2 -> Npos (XO (XI (XO (XO (XI (XI (XI XH)))))))
| Xf3 -> Npos (XI (XI (XO (XO (XI (XI (XI XH)))))))
| Xf4 -> Npos (XO (XO (XI (XO (XI (XI (XI XH)))))))
| Xf5 -> Npos (XI (XO (XI (XO (XI (XI (XI XH)))))))
| Xf6 -> Npos (XO (XI (XI (XO (XI (XI (XI XH)))))))
| Xf7 -> Npos (XI (XI (XI (XO (XI (XI (XI XH)))))))
| Xf8 -> Npos (XO (XO (XO (XI (XI (XI (XI XH)))))))
| Xf9 -> Npos (XI (XO (XO (XI (XI (XI (XI XH)))))))
| Xfa -> Npos (XO (XI (XO (XI (XI (XI (XI XH)))))))
| Xfb -> Npos (XI (XI (XO (XI (XI (XI (XI XH)))))))
| Xfc -> Npos (XO (XO (XI (XI (XI (XI (XI XH)))))))
| Xfd -> Npos (XI (XO (XI (XI (XI (XI (XI XH)))))))
| Xfe -> Npos (XO (XI (XI (XI (XI (XI (XI XH)))))))
| Xff -> Npos (XI (XI (XI (XI (XI (XI (XI XH)))))))

(** val of_N0 : n -> byte option **)

let of_N0 = function
| N0 -> Some X00
| Npos p ->
  (match p with
   | XI p0 ->
     (match p0 with
      | XI p1 ->
        (match p1 with
         | XI p2 ->
           (match p2 with
            | XI p3 ->
              (match p3 with
               | XI p4 ->
                 (match p4 with
                  | XI p5 ->
                    (match p5 with
                     | XI p6 -> (match p6 with
                                 | XH -> Some Xff
                                 | _ -> None)
                     | XO p6 -> (match p6 with
                                 | XH -> Some Xbf
                                 | _ -> None)
                     | XH -> Some X7f)
                  | XO p5 ->
                    (match p5 with
                     | XI p6 -> (match p6 with
                                 | XH -> Some Xdf
                                 | _ -> None)
                     | XO p6 -> (match p6 with
                                 | XH -> Some X9f
                                 | _ -> None)
                     | XH -> Some X5f)
                  | XH -> Some X3f)
               | XO p4 ->
                 (match p4 with
                  | XI p5 ->
                    (match p5 with
                     | XI p6 -> (match p6 with
                                 | XH -> Some Xef
                                 | _ -> None)
                     | XO p6 -> (match p6 with
                                 | XH -> Some Xaf
                                 | _ -> None)
                     | XH -> Some X6f)
                  | XO p5 ->
                    (match p5 with
                     | XI p6 -> (match p6 with
                                 | XH -> Some Xcf
                                 | _ -> None)
                     | XO p6 -> (match p6 with
                                 | XH -> Some X8f
                                 | _ -> None)
                     | XH -> Some X4f)
                  | XH -> Some X2f)
               | XH -> Some X1f)
            | XO p3 ->
              (match p3 with
               | XI p4 ->
                 (match p4 with
                  | XI p5 ->
                    (match p5 with
                     | XI p6 -> (match p6 with
                                 | XH -> Some Xf7
                                 | _ -> None)
                     | XO p6 -> (match p6 with
                                 | XH -> Some Xb7
                                 | _ -> None)
                     | XH -> Some X77)
                  | XO p5 ->
                    (match p5 with
                     | XI p6 -> (match p6 with
                                 | XH -> Some Xd7
                                 | _ -> None)
                     | XO p6 -> (match p6 with
                                 | XH -> Some X97
                                 | _ -> None)
                     | XH -> Some X57)
                  | XH -> Some X37)
               | XO p4 ->
                 (match p4 with
                  | XI p5 ->
                    (match p5 with
                     | XI p6 -> (match p6 with
                                 | XH -> Some Xe7
                                 | _ -> None)
                     | XO p6 -> (match p6 with
                                 | XH -> Some Xa7
                                 | _ -> None)
                     | XH -> Some X67)
                  | XO p5 ->
                    (match p5 with
                     | XI p6 -> (match p6 with
                                 | XH -> Some Xc7
                                 | _ -> None)
                     | XO p6 -> (match p6 with
                                 | XH -> Some X87
                                 | _ -> None)
                     | XH -> Some X47)
                  | XH -> Some X27)
               | XH -> Some X17)
            | XH -> Some X0f)
         | XO p2 ->
           (match p2 with
            | XI p3 ->
              (match p3 with
               | XI p4 ->
                 (match p4 with
                  | XI p5 ->
                    (match p5 with
                     | XI p6 -> (match p6 with
                                 | XH -> Some Xfb
                                 | _ -> None)
                     | XO p6 -> (match p6 with
                                 | XH -> Some Xbb
                                 | _ -> None)
                     | XH -> Some X7b)
                  | XO p5 ->
                    (match p5 with
                     | XI p6 -> (match p6 with
                                 | XH -> Some Xdb
                                 | _ -> None)
                     | XO p6 -> (match p6 with
                                 | XH -> Some X9b
                                 | _ -> None)
                     | XH -> Some X5b)
                  | XH -> Some X3b)
               | XO p4 ->
                 (match p4 with
                  | XI p5 ->
                    (match p5 with
                     | XI p6 -> (match p6 with
                                 | XH -> Some Xeb
                                 | _ -> None)
                     | XO p6 -> (match p6 with
                                 | XH -> Some Xab
                                 | _ -> None)
                     | XH -> Some X6b)
                  | XO p5 ->
                    (match p5 with
                     | XI p6 -> (match p6 with
                                 | XH -> Some Xcb
                                 | _ -> None)
                     | XO p6 -> (match p6 with
                                 | XH -> Some X8b
                                 | _ -> None)
                     | XH -> Some X4b)
                  | XH -> Some X2b)
               | XH -> Some X1b)
            | XO p3 ->
              (match p3 with
               | XI p4 ->
                 (match p4 with
                  | XI p5 ->
                    (match p5 with
                     | XI p6 -> (match p6 with
                                 | XH -> Some Xf3
                                 | _ -> None)
                     | XO p6 -> (match p6 with
                                 | XH -> Some Xb3
                                 | _ -> None)
                     | XH -> Some X73)
                  | XO p5 ->
                    (match p5 with
                     | XI p6 -> (match p6 with
                                 | XH -> Some Xd3
                                 | _ -> None)
                     | XO p6 -> (match p6 with
                                 | XH -> Some X93
                                 | _ -> None)
                     | XH -> Some X53)
                  | XH -> Some X33)
               | XO p4 ->
                 (match p4 with
                  | XI p5 ->
                    (match p5 with
                     | XI p6 -> (match p6 with
                                 | XH -> Some Xe3
                                 | _ -> None)
                     | XO p6 -> (match p6 with
                                 | XH -> Some Xa3
                                 | _ -> None)
                     | XH -> Some X63)
                  | XO p5 ->
                    (match p5 with
                     | XI p6 -> (match p6 with
                                 | XH -> Some Xc3
                                 | _ -> None)
                     | XO p6 -> (match p6 with
                                 | XH -> Some X83
                                 | _ -> None)
                     | XH -> Some X43)
                  | XH -> Some X23)
               | XH -> Some X13)
            | XH -> Some X0b)
         | XH -> Some X07)
      | XO p1 ->
        (match p1 with
         | XI p2 ->
           (match p2 with
            | XI p3 ->
              (match p3 with
               | XI p4 ->
                 (match p4 with
                  | XI p5 ->
                    (match p5 with
                     | XI p6 -> (match p6 with
                                 | XH -> Some Xfd
                                 | _ -> None)
                     | XO p6 -> (match p6 with
                                 | XH -> Some Xbd
                                 | _ -> None)
                     | XH -> Some X7d)
                  | XO p5 ->
                    (match p5 with
                     | XI p6 -> (match p6 with
                                 | XH -> Some Xdd
                                 | _ -> None)
                     | XO p6 -> (match p6 with
                                 | XH -> Some X9d
                                 | _ -> None)
                     | XH -> Some X5d)
                  | XH -> Some X3d)
               | XO p4 ->
                 (match p4 with
                  | XI p5 ->
                    (match p5 with
                     | XI p6 -> (match p6 with
                                 | XH -> Some Xed
                                 | _ -> None)
                     | XO p6 -> (match p6 with
                                 | XH -> Some Xad
                                 | _ -> None)
                     | XH -> Some X6d)
                  | XO p5 ->
                    (match p5 with
                     | XI p6 -> (match p6 with
                                 | XH -> Some Xcd
                                 | _ -> None)
                     | XO p6 -> (match p6 with
                                 | XH -> Some X8d
                                 | _ -> None)
                     | XH -> Some X4d)
                  | XH -> Some X2d)
               | XH -> Some X1d)
            | XO p3 ->
              (match p3 with
               | XI p4 ->
                 (match p4 with
                  | XI p5 ->
                    (match p5 with
                     | XI p6 -> (match p6 with
                                 | XH -> Some Xf5
                                 | _ -> None)
                     | XO p6 -> (match p6 with
                                 | XH -> Some Xb5
                                 | _ -> None)
                     | XH -> Some X75)
                  | XO p5 ->
                    (match p5 with
                     | XI p6 -> (match p6 with
                                 | XH -> Some Xd5
                                 | _ -> None)
                     | XO p6 -> (match p6 with
                                 | XH -> Some X95
                                 | _ -> None)
                     | XH -> Some X55)
                  | XH -> Some X35)
               | XO p4 ->
                 (match p4 with
                  | XI p5 ->
                    (match p5 with
                     | XI p6 -> (match p6 with
                                 | XH -> Some Xe5
                                 | _ -> None)
                     | XO p6 -> (match p6 with
                                 | XH -> Some Xa5
                                 | _ -> None)
                     | XH -> Some X65)
                  | XO p5 ->
                    (match p5 with
                     | XI p6 -> (match p6 with
                                 | XH -> Some Xc5
                                 | _ -> None)
                     | XO p6 -> (match p6 with
                                 | XH -> Some X85
                                 | _ -> None)
                     | XH -> Some X45)
                  | XH -> Some X25)
               | XH -> Some X15)
            | XH -> Some X0d)
         | XO p2 ->
           (match p2 with
            | XI p3 ->
              (match p3 with
               | XI p4 ->
                 (match p4 with
                  | XI p5 ->
                    (match p5 with
                     | XI p6 -> (match p6 with
                                 | XH -> Some Xf9
                                 | _ -> None)
                     | XO p6 -> (match p6 with
                                 | XH -> Some Xb9
                                 | _ -> None)
                     | XH -> Some X79)
                  | XO p5 ->
                    (match p5 with
                     | XI p6 -> (match p6 with
                                 | XH -> Some Xd9
                                 | _ -> None)
                     | XO p6 -> (match p6 with
                                 | XH -> Some X99
                                 | _ -> None)
                     | XH -> Some X59)
                  | XH -> Some X39)
               | XO p4 ->
                 (match p4 with
                  | XI p5 ->
                    (match p5 with
                     | XI p6 -> (match p6 with
                                 | XH -> Some Xe9
                                 | _ -> None)
                     | XO p6 -> (match p6 with
                                 | XH -> Some Xa9
                                 | _ -> None)
                     | XH -> Some X69)
                  | XO p5 ->
                    (match p5 with
                     | XI p6 -> (match p6 with
                                 | XH -> Some Xc9
                                 | _ -> None)
                     | XO p6 -> (match p6 with
                                 | XH -> Some X89
                                 | _ -> None)
                     | XH -> Some X49)
                  | XH -> Some X29)
               | XH -> Some X19)
            | XO p3 ->
              (match p3 with
               | XI p4 ->
                 (match p4 with
                  | XI p5 ->
                    (match p5 with
                     | XI p6 -> (match p6 with
                                 | XH -> Some Xf1
                                 | _ -> None)
                     | XO p6 -> (match p6 with
                                 | XH -> Some Xb1
                                 | _ -> None)
                     | XH -> Some X71)
                  | XO p5 ->
                    (match p5 with
                     | XI p6 -> (match p6 with
                                 | XH -> Some Xd1
                                 | _ -> None)
                     | XO p6 -> (match p6 with
                                 | XH -> Some X91
                                 | _ -> None)
                     | XH -> Some X51)
                  | XH -> Some X31)
               | XO p4 ->
                 (match p4 with
                  | XI p5 ->
                    (match p5 with
                     | XI p6 -> (match p6 with
                                 | XH -> Some Xe1
                                 | _ -> None)
                     | XO p6 -> (match p6 with
                                 | XH -> Some Xa1
                                 | _ -> None)
                     | XH -> Some X61)
                  | XO p5 ->
                    (match p5 with
                     | XI p6 -> (match p6 with
                                 | XH -> Some Xc1
                                 | _ -> None)
                     | XO p6 -> (match p6 with
                                 | XH -> Some X81
                                 | _ -> None)
                     | XH -> Some X41)
                  | XH -> Some X21)
               | XH -> Some X11)
            | XH -> Some X09)
         | XH -> Some X05)
      | XH -> Some X03)
   | XO p0 ->
     (match p0 with
      | XI p1 ->
        (match p1 with
         | XI p2 ->
           (match p2 with
            | XI p3 ->
              (match p3 with
               | XI p4 ->
                 (match p4 with
                  | XI p5 ->
                    (match p5 with
                     | XI p6 -> (match p6 with
                                 | XH -> Some Xfe
                                 | _ -> None)
                     | XO p6 -> (match p6 with
                                 | XH -> Some Xbe
                                 | _ -> None)
                     | XH -> Some X7e)
                  | XO p5 ->
                    (match p5 with
                     | XI p6 -> (match p6 with
                                 | XH -> Some Xde
                                 | _ -> None)
                     | XO p6 -> (match p6 with
                                 | XH -> Some X9e
                                 | _ -> None)
                     | XH -> Some X5e)
                  | XH -> Some X3e)
               | XO p4 ->
                 (match p4 with
                  | XI p5 ->
                    (match p5 with
                     | XI p6 -> (match p6 with
                                 | XH -> Some Xee
                                 | _ -> None)
                     | XO p6 -> (match p6 with
                                 | XH -> Some Xae
                                 | _ -> None)
                     | XH -> Some X6e)
                  | XO p5 ->
                    (match p5 with
                     | XI p6 -> (match p6 with
                                 | XH -> Some Xce
                                 | _ -> None)
                     | XO p6 -> (match p6 with
                                 | XH -> Some X8e
                                 | _ -> None)
                     | XH -> Some X4e)
                  | XH -> Some X2e)
               | XH -> Some X1e)
            | XO p3 ->
              (match p3 with
               | XI p4 ->
                 (match p4 with
                  | XI p5 ->
                    (match p5 with
                     | XI p6 -> (match p6 with
                                 | XH -> Some Xf6
                                 | _ -> None)
                     | XO p6 -> (match p6 with
                                 | XH -> Some Xb6
                                 | _ -> None)
                     | XH -> Some X76)
                  | XO p5 ->
                    (match p5 with
                     | XI p6 -> (match p6 with
                                 | XH -> Some Xd6
                                 | _ -> None)
                     | XO p6 -> (match p6 with
                                 | XH -> Some X96
                                 | _ -> None)
                     | XH -> Some X56)
                  | XH -> Some X36)
               | XO p4 ->
                 (match p4 with
                  | XI p5 ->
                    (match p5 with
                     | XI p6 -> (match p6 with
                                 | XH -> Some Xe6
                                 | _ -> None)
                     | XO p6 -> (match p6 with
                                 | XH -> Some Xa6
                                 | _ -> None)
                     | XH -> Some X66)
                  | XO p5 ->
                    (match p5 with
                     | XI p6 -> (match p6 with
                                 | XH -> Some Xc6
                                 | _ -> None)
                     | XO p6 -> (match p6 with
                                 | XH -> Some X86
                                 | _ -> None)
                     | XH -> Some X46)
                  | XH -> Some X26)
               | XH -> Some X16)
            | XH -> Some X0e)
         | XO p2 ->
           (match p2 with
            | XI p3 ->
              (match p3 with
               | XI p4 ->
                 (match p4 with
                  | XI p5 ->
                    (match p5 with
                     | XI p6 -> (match p6 with
                                 | XH -> Some Xfa
                                 | _ -> None)
                     | XO p6 -> (match p6 with
                                 | XH -> Some Xba
                                 | _ -> None)
                     | XH -> Some X7a)
                  | XO p5 ->
                    (match p5 with
                     | XI p6 -> (match p6 with
                                 | XH -> Some Xda
                                 | _ -> None)
                     | XO p6 -> (match p6 with
                                 | XH -> Some X9a
                                 | _ -> None)
                     | XH -> Some X5a)
                  | XH -> Some X3a)
               | XO p4 ->
                 (match p4 with
                  | XI p5 ->
                    (match p5 with
                     | XI p6 -> (match p6 with
                                 | XH -> Some Xea
                                 | _ -> None)
                     | XO p6 -> (match p6 with
                                 | XH -> Some Xaa
                                 | _ -> None)
                     | XH -> Some X6a)
                  | XO p5 ->
                    (match p5 with
                     | XI p6 -> (match p6 with
                                 | XH -> Some Xca
                                 | _ -> None)
                     | XO p6 -> (match p6 with
                                 | XH -> Some X8a
                                 | _ -> None)
                     | XH -> Some X4a)
                  | XH -> Some X2a)
               | XH -> Some X1a)
            | XO p3 ->
              (match p3 with
               | XI p4 ->
                 (match p4 with
                  | XI p5 ->
                    (match p5 with
                     | XI p6 -> (match p6 with
                                 | XH -> Some Xf2
                                 | _ -> None)
                     | XO p6 -> (match p6 with
                                 | XH -> Some Xb2
                                 | _ -> None)
                     | XH -> Some X72)
                  | XO p5 ->
                    (match p5 with
                     | XI p6 -> (match p6 with
                                 | XH -> Some Xd2
                                 | _ -> None)
                     | XO p6 -> (match p6 with
                                 | XH -> Some X92
                                 | _ -> None)
                     | XH -> Some X52)
                  | XH -> Some X32)
               | XO p4 ->
                 (match p4 with
                  | XI p5 ->
                    (match p5 with
                     | XI p6 -> (match p6 with
                                 | XH -> Some Xe2
                                 | _ -> None)
                     | XO p6 -> (match p6 with
                                 | XH -> Some Xa2
                                 | _ -> None)
                     | XH -> Some X62)
                  | XO p5 ->
                    (match p5 with
                     | XI p6 -> (match p6 with
                                 | XH -> Some Xc2
                                 | _ -> None)
                     | XO p6 -> (match p6 with
                                 | XH -> Some X82
                                 | _ -> None)
                     | XH -> Some X42)
                  | XH -> Some X22)
               | XH -> Some X12)
            | XH -> Some X0a)
         | XH -> Some X06)
      | XO p1 ->
        (match p1 with
         | XI p2 ->
           (match p2 with
            | XI p3 ->
              (match p3 with
               | XI p4 ->
                 (match p4 with
                  | XI p5 ->
                    (match p5 with
                     | XI p6 -> (match p6 with
                                 | XH -> Some Xfc
                                 | _ -> None)
                     | XO p6 -> (match p6 with
                                 | XH -> Some Xbc
                                 | _ -> None)
                     | XH -> Some X7c)
                  | XO p5 ->
                    (match p5 with
                     | XI p6 -> (match p6 with
                                 | XH -> Some Xdc
                                 | _ -> None)
                     | XO p6 -> (match p6 with
                                 | XH -> Some X9c
                                 | _ -> None)
                     | XH -> Some X5c)
                  | XH -> Some X3c)
               | XO p4 ->
                 (match p4 with
                  | XI p5 ->
                    (match p5 with
                     | XI p6 -> (match p6 with
                                 | XH -> Some Xec
                                 | _ -> None)
                     | XO p6 -> (match p6 with
                                 | XH -> Some Xac
                                 | _ -> None)
                     | XH -> Some X6c)
                  | XO p5 ->
                    (match p5 with
                     | XI p6 -> (match p6 with
                                 | XH -> Some Xcc
                                 | _ -> None)
                     | XO p6 -> (match p6 with
                                 | XH -> Some X8c
                                 | _ -> None)
                     | XH -> Some X4c)
                  | XH -> Some X2c)
               | XH -> Some X1c)
            | XO p3 ->
              (match p3 with
               | XI p4 ->
                 (match p4 with
                  | XI p5 ->
                    (match p5 with
                     | XI p6 -> (match p6 with
                                 | XH -> Some Xf4
                                 | _ -> None)
                     | XO p6 -> (match p6 with
                                 | XH -> Some Xb4
                                 | _ -> None)
                     | XH -> Some X74)
                  | XO p5 ->
                    (match p5 with
                     | XI p6 -> (match p6 with
                                 | XH -> Some Xd4
                                 | _ -> None)
                     | XO p6 -> (match p6 with
                                 | XH -> Some X94
                                 | _ -> None)
                     | XH -> Some X54)
                  | XH -> Some X34)
               | XO p4 ->
                 (match p4 with
                  | XI p5 ->
                    (match p5 with
                     | XI p6 -> (match p6 with
                                 | XH -> Some Xe4
                                 | _ -> None)
                     | XO p6 -> (match p6 with
                                 | XH -> Some Xa4
                                 | _ -> None)
                     | XH -> Some X64)
                  | XO p5 ->
                    (match p5 with
                     | XI p6 -> (match p6 with
                                 | XH -> Some Xc4
                                 | _ -> None)
                     | XO p6 -> (match p6 with
                                 | XH -> Some X84
                                 | _ -> None)
                     | XH -> Some X44)
                  | XH -> Some X24)
               | XH -> Some X14)
            | XH -> Some X0c)
         | XO p2 ->
           (match p2 with
            | XI p3 ->
              (match p3 with
               | XI p4 ->
                 (match p4 with
                  | XI p5 ->
                    (match p5 with
                     | XI p6 -> (match p6 with
                                 | XH -> Some Xf8
                                 | _ -> None)
                     | XO p6 -> (match p6 with
                                 | XH -> Some Xb8
                                 | _ -> None)
                     | XH -> Some X78)
                  | XO p5 ->
                    (match p5 with
                     | XI p6 -> (match p6 with
                                 | XH -> Some Xd8
                                 | _ -> None)
                     | XO p6 -> (match p6 with
                                 | XH -> Some X98
                                 | _ -> None)
                     | XH -> Some X58)
                  | XH -> Some X38)
               | XO p4 ->
                 (match p4 with
                  | XI p5 ->
                    (match p5 with
                     | XI p6 -> (match p6 with
                                 | XH -> Some Xe8
                                 | _ -> None)
                     | XO p6 -> (match p6 with
                                 | XH -> Some Xa8
                                 | _ -> None)
                     | XH -> Some X68)
                  | XO p5 ->
                    (match p5 with
                     | XI p6 -> (match p6 with
                                 | XH -> Some Xc8
                                 | _ -> None)
                     | XO p6 -> (match p6 with
                                 | XH -> Some X88
                                 | _ -> None)
                     | XH -> Some X48)
                  | XH -> Some X28)
               | XH -> Some X18)
            | XO p3 ->
              (match p3 with
               | XI p4 ->
                 (match p4 with
                  | XI p5 ->
                    (match p5 with
                     | XI p6 -> (match p6 with
                                 | XH -> Some Xf0
                                 | _ -> None)
                     | XO p6 -> (match p6 with
                                 | XH -> Some Xb0
                                 | _ -> None)
                     | XH -> Some X70)
                  | XO p5 ->
                    (match p5 with
                     | XI p6 -> (match p6 with
                                 | XH -> Some Xd0
                                 | _ -> None)
                     | XO p6 -> (match p6 with
                                 | XH -> Some X90
                                 | _ -> None)
                     | XH -> Some X50)
                  | XH -> Some X30)
               | XO p4 ->
                 (match p4 with
                  | XI p5 ->
                    (match p5 with
                     | XI p6 -> (match p6 with
                                 | XH -> Some Xe0
                                 | _ -> None)
                     | XO p6 -> (match p6 with
                                 | XH -> Some Xa0
                                 | _ -> None)
                     | XH -> Some X60)
                  | XO p5 ->
                    (match p5 with
                     | XI p6 -> (match p6 with
                                 | XH -> Some Xc0
                                 | _ -> None)
                     | XO p6 -> (match p6 with
                                 | XH -> Some X80
                                 | _ -> None)
                     | XH -> Some X40)
                  | XH -> Some X20)
               | XH -> Some X10)
            | XH -> Some X08)
         | XH -> Some X04)
      | XH -> Some X02)
   | XH -> Some X01)

type decision = bool

(** val decide : decision -> bool **)

let decide decision0 =
  decision0

type ('a, 'b) relDecision = 'a -> 'b -> decision

(** val decide_rel : ('a1, 'a2) relDecision -> 'a1 -> 'a2 -> decision **)

let decide_rel relDecision0 =
  relDecision0

type 'a empty = 'a

(** val empty0 : 'a1 empty -> 'a1 **)

let empty0 empty1 =
  empty1

type 'm mRet = __ -> __ -> 'm

(** val mret : 'a1 mRet -> 'a2 -> 'a1 **)

let mret mRet0 x =
  Obj.magic mRet0 __ x

type 'm mBind = __ -> __ -> (__ -> 'm) -> 'm -> 'm

(** val mbind : 'a1 mBind -> ('a2 -> 'a1) -> 'a1 -> 'a1 **)

let mbind mBind0 x x0 =
  Obj.magic mBind0 __ __ x x0

type 'm fMap = __ -> __ -> (__ -> __) -> 'm -> 'm

(** val fmap : 'a1 fMap -> ('a2 -> 'a3) -> 'a1 -> 'a1 **)

let fmap fMap0 x x0 =
  Obj.magic fMap0 __ __ x x0

type 'm oMap = __ -> __ -> (__ -> __ option) -> 'm -> 'm

(** val omap : 'a1 oMap -> ('a2 -> 'a3 option) -> 'a1 -> 'a1 **)

let omap oMap0 x x0 =
  Obj.magic oMap0 __ __ x x0

type ('k, 'a, 'm) insert = 'k -> 'a -> 'm -> 'm

(** val insert0 : ('a1, 'a2, 'a3) insert -> 'a1 -> 'a2 -> 'a3 -> 'a3 **)

let insert0 insert1 =
  insert1

type ('k, 'a, 'm) partialAlter = ('a option -> 'a option) -> 'k -> 'm -> 'm

(** val partial_alter :
    ('a1, 'a2, 'a3) partialAlter -> ('a2 option -> 'a2 option) -> 'a1 -> 'a3
    -> 'a3 **)

let partial_alter partialAlter0 =
  partialAlter0

(** val bool_decide : decision -> bool **)

let bool_decide = function
| true -> true
| false -> false

(** val from_option : ('a1 -> 'a2) -> 'a2 -> 'a1 option -> 'a2 **)

let from_option f y = function
| Some x -> f x
| None -> y

(** val option_ret : __ -> __ option **)

let option_ret x =
  Some x

(** val option_bind : (__ -> __ option) -> __ option -> __ option **)

let option_bind f = function
| Some x -> f x
| None -> None

(** val option_fmap : (__ -> __) -> __ option -> __ option **)

let option_fmap =
  option_map

module Coq0_Pos =
 struct
  (** val eq_dec : (positive, positive) relDecision **)

  let eq_dec =
    Coq_Pos.eq_dec

  (** val app : positive -> positive -> positive **)

  let rec app p1 = function
  | XI p3 -> XI (app p1 p3)
  | XO p3 -> XO (app p1 p3)
  | XH -> p1

  (** val reverse_go : positive -> positive -> positive **)

  let rec reverse_go p1 = function
  | XI p3 -> reverse_go (XI p1) p3
  | XO p3 -> reverse_go (XO p1) p3
  | XH -> p1

  (** val reverse : positive -> positive **)

  let reverse =
    reverse_go XH

  (** val dup : positive -> positive **)

  let rec dup = function
  | XI p' -> XI (XI (dup p'))
  | XO p' -> XO (XO (dup p'))
  | XH -> XH
 end

(** val n_eq_dec : (n, n) relDecision **)

let n_eq_dec =
  N.eq_dec

(** val foldl : ('a1 -> 'a2 -> 'a1) -> 'a1 -> 'a2 list -> 'a1 **)

let rec foldl f a = function
| [] -> a
| x :: l0 -> foldl f (f a x) l0

(** val list_fmap : (__ -> __) -> __ list -> __ list **)

let rec list_fmap f = function
| [] -> []
| x :: l0 -> (f x) :: (list_fmap f l0)

(** val list_omap : (__ -> __ option) -> __ list -> __ list **)

let rec list_omap f = function
| [] -> []
| x :: l0 ->
  (match f x with
   | Some y -> y :: (list_omap f l0)
   | None -> list_omap f l0)

(** val mapM : 'a1 mBind -> 'a1 mRet -> ('a2 -> 'a1) -> 'a2 list -> 'a1 **)

let rec mapM h h0 f = function
| [] -> mret h0 []
| x :: l0 ->
  mbind h (fun y -> mbind h (fun k -> mret h0 (y :: k)) (mapM h h0 f l0))
    (f x)

(** val positives_flatten_go : positive list -> positive -> positive **)

let rec positives_flatten_go xs acc =
  match xs with
  | [] -> acc
  | x :: xs0 ->
    positives_flatten_go xs0
      (Coq0_Pos.app (XO (XI acc)) (Coq0_Pos.reverse (Coq0_Pos.dup x)))

(** val positives_flatten : positive list -> positive **)

let positives_flatten xs =
  positives_flatten_go xs XH

(** val positives_unflatten_go :
    positive -> positive list -> positive -> positive list option **)

let rec positives_unflatten_go p acc_xs acc_elm =
  match p with
  | XI p0 ->
    (match p0 with
     | XI p' -> positives_unflatten_go p' acc_xs (XI acc_elm)
     | _ -> None)
  | XO p0 ->
    (match p0 with
     | XI p' -> positives_unflatten_go p' (acc_elm :: acc_xs) XH
     | XO p' -> positives_unflatten_go p' acc_xs (XO acc_elm)
     | XH -> None)
  | XH -> Some acc_xs

(** val positives_unflatten : positive -> positive list option **)

let positives_unflatten p =
  positives_unflatten_go p [] XH

(** val list_eq_dec0 :
    ('a1, 'a1) relDecision -> ('a1 list, 'a1 list) relDecision **)

let list_eq_dec0 =
  list_eq_dec

type 'a countable = { encode : ('a -> positive);
                      decode : (positive -> 'a option) }

(** val inj_countable :
    ('a1, 'a1) relDecision -> 'a1 countable -> ('a2, 'a2) relDecision -> ('a2
    -> 'a1) -> ('a1 -> 'a2 option) -> 'a2 countable **)

let inj_countable _ h _ f g =
  { encode = (fun y -> h.encode (f y)); decode = (fun p ->
    mbind (Obj.magic (fun _ _ -> option_bind)) g ((Obj.magic h).decode p)) }

(** val list_countable :
    ('a1, 'a1) relDecision -> 'a1 countable -> 'a1 list countable **)

let list_countable _ h =
  { encode = (fun xs ->
    positives_flatten
      (fmap (Obj.magic (fun _ _ -> list_fmap)) h.encode (Obj.magic xs)));
    decode = (fun p ->
    mbind (Obj.magic (fun _ _ -> option_bind)) (fun positives ->
      mapM (Obj.magic (fun _ _ -> option_bind))
        (Obj.magic (fun _ -> option_ret)) (Obj.magic h).decode positives)
      (Obj.magic positives_unflatten p)) }

(** val n_countable : n countable **)

let n_countable =
  { encode = (fun x -> match x with
                       | N0 -> XH
                       | Npos p -> Coq_Pos.succ p); decode = (fun p ->
    if decide (decide_rel Coq0_Pos.eq_dec p XH)
    then Some N0
    else Some (Npos (Coq_Pos.pred p))) }

type ('k, 'a, 'm) finMapToList = 'm -> ('k * 'a) list

(** val map_to_list :
    ('a1, 'a2, 'a3) finMapToList -> 'a3 -> ('a1 * 'a2) list **)

let map_to_list finMapToList0 =
  finMapToList0

(** val map_insert :
    ('a1, 'a2, 'a3) partialAlter -> ('a1, 'a2, 'a3) insert **)

let map_insert h i x =
  partial_alter h (fun _ -> Some x) i

type 'a pmap_raw =
| PLeaf
| PNode of 'a option * 'a pmap_raw * 'a pmap_raw

(** val pNode' :
    'a1 option -> 'a1 pmap_raw -> 'a1 pmap_raw -> 'a1 pmap_raw **)

let pNode' o l r =
  match l with
  | PLeaf ->
    (match o with
     | Some _ -> PNode (o, l, r)
     | None ->
       (match r with
        | PLeaf -> PLeaf
        | PNode (_, _, _) -> PNode (o, l, r)))
  | PNode (_, _, _) -> PNode (o, l, r)

(** val pempty_raw : 'a1 pmap_raw empty **)

let pempty_raw =
  PLeaf

(** val psingleton_raw : positive -> 'a1 -> 'a1 pmap_raw **)

let rec psingleton_raw i x =
  match i with
  | XI i0 -> PNode (None, PLeaf, (psingleton_raw i0 x))
  | XO i0 -> PNode (None, (psingleton_raw i0 x), PLeaf)
  | XH -> PNode ((Some x), PLeaf, PLeaf)

(** val ppartial_alter_raw :
    ('a1 option -> 'a1 option) -> positive -> 'a1 pmap_raw -> 'a1 pmap_raw **)

let rec ppartial_alter_raw f i = function
| PLeaf -> (match f None with
            | Some x -> psingleton_raw i x
            | None -> PLeaf)
| PNode (o, l, r) ->
  (match i with
   | XI i0 -> pNode' o l (ppartial_alter_raw f i0 r)
   | XO i0 -> pNode' o (ppartial_alter_raw f i0 l) r
   | XH -> pNode' (f o) l r)

(** val pto_list_raw :
    positive -> 'a1 pmap_raw -> (positive * 'a1) list -> (positive * 'a1) list **)

let rec pto_list_raw j t acc =
  match t with
  | PLeaf -> acc
  | PNode (o, l, r) ->
    app (from_option (fun x -> ((Coq0_Pos.reverse j), x) :: []) [] o)
      (pto_list_raw (XO j) l (pto_list_raw (XI j) r acc))

type 'a pmap =
  'a pmap_raw
  (* singleton inductive, whose constructor was PMap *)

(** val pempty : 'a1 pmap empty **)

let pempty =
  empty0 pempty_raw

(** val ppartial_alter : (positive, 'a1, 'a1 pmap) partialAlter **)

let ppartial_alter f i m =
  partial_alter ppartial_alter_raw f i m

(** val pto_list : (positive, 'a1, 'a1 pmap) finMapToList **)

let pto_list m =
  pto_list_raw XH m []

type ('k, 'a) gmap =
  'a pmap
  (* singleton inductive, whose constructor was GMap *)

(** val gmap_empty :
    ('a1, 'a1) relDecision -> 'a1 countable -> ('a1, 'a2) gmap empty **)

let gmap_empty _ _ =
  empty0 pempty

(** val gmap_partial_alter :
    ('a1, 'a1) relDecision -> 'a1 countable -> ('a1, 'a2, ('a1, 'a2) gmap)
    partialAlter **)

let gmap_partial_alter _ h f i pat =
  partial_alter ppartial_alter f (h.encode i) pat

(** val gmap_to_list :
    ('a1, 'a1) relDecision -> 'a1 countable -> ('a1, 'a2, ('a1, 'a2) gmap)
    finMapToList **)

let gmap_to_list _ h pat =
  omap (Obj.magic (fun _ _ -> list_omap)) (fun pat0 ->
    let (i, x) = pat0 in
    fmap (Obj.magic (fun _ _ -> option_fmap)) (fun x0 -> (x0, x)) (h.decode i))
    (map_to_list (Obj.magic pto_list) pat)

type str = byte list

(** val byte_eq_dec0 : (byte, byte) relDecision **)

let byte_eq_dec0 =
  byte_eq_dec

(** val byte_countable : byte countable **)

let byte_countable =
  inj_countable n_eq_dec n_countable byte_eq_dec0 to_N0 of_N0

type err_kind =
| EBufTooSmall
| EOverflow
| EVerifyMarshal

type panic_why =
| WhySliceBounds
| WhyMakeSliceLen
| WhyFuel

type 'a res =
| Ok of 'a
| Err of err_kind
| Panic of panic_why
| Alloc of n

(** val rbind : 'a1 res -> ('a1 -> 'a2 res) -> 'a2 res **)

let rbind m f =
  match m with
  | Ok a -> f a
  | Err e -> Err e
  | Panic w -> Panic w
  | Alloc s -> Alloc s

(** val rcast : 'a1 res -> 'a2 res -> 'a2 res **)

let rcast m dflt =
  match m with
  | Ok _ -> dflt
  | Err e -> Err e
  | Panic w -> Panic w
  | Alloc s -> Alloc s

type lock = (str * str) * z

type smap = (str, lock list) gmap

type entries = (str * lock list) list

type dec_result =
| DecOk of smap
| DecErr of err_kind
| DecPanic of panic_why
| DecAlloc of n

(** val blen : byte list -> n **)

let blen b =
  N.of_nat (length b)

(** val tail_at : byte list -> n -> byte list **)

let tail_at b n0 =
  skipn (N.to_nat n0) b

(** val byte_of_N : n -> byte **)

let byte_of_N v =
  match of_N0 v with
  | Some c -> c
  | None -> X00

(** val u64 : n -> n **)

let u64 v =
  N.modulo v (N.pow (Npos (XO XH)) (Npos (XO (XO (XO (XO (XO (XO XH))))))))

(** val to_int : n -> z **)

let to_int us =
  if N.ltb us (N.pow (Npos (XO XH)) (Npos (XI (XI (XI (XI (XI XH)))))))
  then Z.of_N us
  else Z.sub (Z.of_N us)
         (Z.pow (Zpos (XO XH)) (Zpos (XO (XO (XO (XO (XO (XO XH))))))))

(** val len_minus_lt : byte list -> n -> z -> bool **)

let len_minus_lt b n0 k =
  Z.ltb (Z.sub (Z.of_N (blen b)) (Z.of_N n0)) k

(** val max_varint_len : n **)

let max_varint_len =
  Npos (XO (XI (XO XH)))

(** val marshal_uint_loop : nat -> n -> byte list **)

let rec marshal_uint_loop fuel v =
  match fuel with
  | O -> []
  | S f ->
    if N.ltb v (Npos (XO (XO (XO (XO (XO (XO (XO XH))))))))
    then (byte_of_N v) :: []
    else (byte_of_N
           (N.coq_lor
             (N.modulo v (Npos (XO (XO (XO (XO (XO (XO (XO (XO XH))))))))))
             (Npos (XO (XO (XO (XO (XO (XO (XO XH)))))))))) :: (marshal_uint_loop
                                                                 f
                                                                 (N.shiftr v
                                                                   (Npos (XI
                                                                   (XI XH)))))

(** val marshal_uint : n -> byte list **)

let marshal_uint v =
  marshal_uint_loop (S (S (S (S (S (S (S (S (S (S O)))))))))) (u64 v)

(** val uvarint_loop : byte list -> n -> n -> n -> (n * n) res **)

let rec uvarint_loop buf i x s =
  match buf with
  | [] -> Err EBufTooSmall
  | c :: buf' ->
    if N.eqb i max_varint_len
    then Err EOverflow
    else let c0 = to_N0 c in
         if N.ltb c0 (Npos (XO (XO (XO (XO (XO (XO (XO XH))))))))
         then if (&&) (N.eqb i (N.sub max_varint_len (Npos XH)))
                   (N.ltb (Npos XH) c0)
              then Err EOverflow
              else Ok ((N.add i (Npos XH)),
                     (N.coq_lor x (u64 (N.shiftl c0 s))))
         else uvarint_loop buf' (N.add i (Npos XH))
                (N.coq_lor x
                  (u64
                    (N.shiftl
                      (N.coq_land c0 (Npos (XI (XI (XI (XI (XI (XI XH))))))))
                      s))) (N.add s (Npos (XI (XI XH))))

(** val unmarshal_uint : byte list -> n -> (n * n) res **)

let unmarshal_uint b n0 =
  if N.ltb (blen b) n0
  then Panic WhySliceBounds
  else rbind (uvarint_loop (tail_at b n0) N0 N0 N0) (fun pat ->
         let (i, v) = pat in Ok ((N.add n0 i), v))

(** val marshal_string : str -> byte list **)

let marshal_string s =
  app (marshal_uint (blen s)) s

(** val unmarshal_string : byte list -> n -> (n * str) res **)

let unmarshal_string b n0 =
  rbind (unmarshal_uint b n0) (fun pat ->
    let (n1, us) = pat in
    let s = to_int us in
    if len_minus_lt b n1 s
    then Err EBufTooSmall
    else if (||) (Z.ltb s Z0) (N.ltb (blen b) (N.add n1 us))
         then Panic WhySliceBounds
         else Ok ((N.add n1 us), (firstn (N.to_nat us) (tail_at b n1))))

(** val byte_of_Z : z -> byte **)

let byte_of_Z z0 =
  byte_of_N (Z.to_N z0)

(** val marshal_int32 : z -> byte list **)

let marshal_int32 v =
  (byte_of_Z (Z.modulo v (Zpos (XO (XO (XO (XO (XO (XO (XO (XO XH))))))))))) :: (
    (byte_of_Z
      (Z.modulo (Z.shiftr v (Zpos (XO (XO (XO XH))))) (Zpos (XO (XO (XO (XO
        (XO (XO (XO (XO XH))))))))))) :: ((byte_of_Z
                                            (Z.modulo
                                              (Z.shiftr v (Zpos (XO (XO (XO
                                                (XO XH)))))) (Zpos (XO (XO
                                              (XO (XO (XO (XO (XO (XO
                                              XH))))))))))) :: ((byte_of_Z
                                                                  (Z.modulo
                                                                    (Z.shiftr
                                                                    v (Zpos
                                                                    (XO (XO
                                                                    (XO (XI
                                                                    XH))))))
                                                                    (Zpos (XO
                                                                    (XO (XO
                                                                    (XO (XO
                                                                    (XO (XO
                                                                    (XO
                                                                    XH))))))))))) :: [])))

(** val wrap32 : z -> z **)

let wrap32 z0 =
  let u =
    Z.modulo z0 (Z.pow (Zpos (XO XH)) (Zpos (XO (XO (XO (XO (XO XH)))))))
  in
  if Z.ltb u (Z.pow (Zpos (XO XH)) (Zpos (XI (XI (XI (XI XH))))))
  then u
  else Z.sub u (Z.pow (Zpos (XO XH)) (Zpos (XO (XO (XO (XO (XO XH)))))))

(** val unmarshal_int32 : byte list -> n -> (n * z) res **)

let unmarshal_int32 b n0 =
  if len_minus_lt b n0 (Zpos (XO (XO XH)))
  then Err EBufTooSmall
  else (match tail_at b n0 with
        | [] -> Panic WhySliceBounds
        | u0 :: l ->
          (match l with
           | [] -> Panic WhySliceBounds
           | u1 :: l0 ->
             (match l0 with
              | [] -> Panic WhySliceBounds
              | u2 :: l1 ->
                (match l1 with
                 | [] -> Panic WhySliceBounds
                 | u3 :: _ ->
                   let z0 = fun c -> Z.of_N (to_N0 c) in
                   Ok ((N.add n0 (Npos (XO (XO XH)))),
                   (wrap32
                     (Z.coq_lor
                       (Z.coq_lor
                         (Z.coq_lor (z0 u0)
                           (Z.shiftl (z0 u1) (Zpos (XO (XO (XO XH))))))
                         (Z.shiftl (z0 u2) (Zpos (XO (XO (XO (XO XH)))))))
                       (Z.shiftl (z0 u3) (Zpos (XO (XO (XO (XI XH)))))))))))))

(** val skip_int32 : byte list -> n -> n res **)

let skip_int32 b n0 =
  if len_minus_lt b n0 (Zpos (XO (XO XH)))
  then Err EBufTooSmall
  else Ok (N.add n0 (Npos (XO (XO XH))))

(** val marshal_lock : lock -> byte list **)

let marshal_lock = function
| (p, size) ->
  let (name, key) = p in
  app (marshal_string name) (app (marshal_string key) (marshal_int32 size))

(** val unmarshal_lock : byte list -> n -> (n * lock) res **)

let unmarshal_lock b n0 =
  rbind (unmarshal_string b n0) (fun pat ->
    let (n1, name) = pat in
    rbind (unmarshal_string b n1) (fun pat0 ->
      let (n2, key) = pat0 in
      rbind (unmarshal_int32 b n2) (fun pat1 ->
        let (n3, size) = pat1 in Ok (n3, ((name, key), size)))))

(** val terminator : byte list **)

let terminator =
  X01 :: (X01 :: (X01 :: (X01 :: [])))

(** val marshal_slice : lock list -> byte list **)

let marshal_slice ls =
  app (marshal_uint (N.of_nat (length ls)))
    (app (concat (map marshal_lock ls)) terminator)

(** val marshal_entry : (str * lock list) -> byte list **)

let marshal_entry e =
  app (marshal_string (fst e)) (marshal_slice (snd e))

(** val encode0 : entries -> byte list **)

let encode0 es =
  app (marshal_uint (N.of_nat (length es)))
    (app (concat (map marshal_entry es)) terminator)

(** val to_map : entries -> smap **)

let to_map es =
  foldl (fun m e ->
    insert0
      (map_insert
        (gmap_partial_alter (list_eq_dec0 byte_eq_dec0)
          (list_countable byte_eq_dec0 byte_countable))) (fst e) (snd e) m)
    (empty0
      (gmap_empty (list_eq_dec0 byte_eq_dec0)
        (list_countable byte_eq_dec0 byte_countable))) es

(** val fuel_for : byte list -> nat **)

let fuel_for b =
  S (length b)

(** val check_count : byte list -> n -> n -> (n * n) res **)

let check_count b n0 min_size =
  rbind (unmarshal_uint b n0) (fun pat ->
    let (n1, count) = pat in
    if N.ltb (N.div (N.sub (blen b) n1) min_size) count
    then Err EBufTooSmall
    else Ok (n1, count))

(** val check_string : byte list -> n -> n res **)

let check_string b n0 =
  rbind (unmarshal_uint b n0) (fun pat ->
    let (n1, length0) = pat in
    if N.ltb (N.sub (blen b) n1) length0
    then Err EBufTooSmall
    else Ok (N.add n1 length0))

(** val check_terminator : byte list -> n -> n res **)

let check_terminator b n0 =
  if len_minus_lt b n0 (Zpos (XO (XO XH)))
  then Err EBufTooSmall
  else if bool_decide
            (decide_rel (list_eq_dec0 byte_eq_dec0)
              (firstn (S (S (S (S O)))) (tail_at b n0)) terminator)
       then Ok (N.add n0 (Npos (XO (XO XH))))
       else Err EVerifyMarshal

(** val min_lock_size : n **)

let min_lock_size =
  Npos (XO (XI XH))

(** val min_entry_size : n **)

let min_entry_size =
  Npos (XO (XI XH))

(** val check_locks_loop : nat -> byte list -> n -> n -> n res **)

let rec check_locks_loop fuel b locks n0 =
  if N.eqb locks N0
  then Ok n0
  else (match fuel with
        | O -> Panic WhyFuel
        | S f ->
          rbind (check_string b n0) (fun n1 ->
            rbind (check_string b n1) (fun n2 ->
              rbind (skip_int32 b n2) (fun n3 ->
                check_locks_loop f b (N.sub locks (Npos XH)) n3))))

(** val check_entries_loop : nat -> byte list -> n -> n -> n res **)

let rec check_entries_loop fuel b ents n0 =
  if N.eqb ents N0
  then Ok n0
  else (match fuel with
        | O -> Panic WhyFuel
        | S f ->
          rbind (check_string b n0) (fun n1 ->
            rbind (check_count b n1 min_lock_size) (fun pat ->
              let (n2, locks) = pat in
              rbind (check_locks_loop (fuel_for b) b locks n2) (fun n3 ->
                rbind (check_terminator b n3) (fun n4 ->
                  check_entries_loop f b (N.sub ents (Npos XH)) n4)))))

(** val verify_marshal : byte list -> n -> unit res **)

let verify_marshal b n0 =
  if N.eqb n0 (blen b) then Ok () else Err EVerifyMarshal

(** val check_encoding_r : byte list -> unit res **)

let check_encoding_r b =
  rbind (check_count b N0 min_entry_size) (fun pat ->
    let (n0, ents) = pat in
    rbind (check_entries_loop (fuel_for b) b ents n0) (fun n1 ->
      rbind (check_terminator b n1) (fun n2 -> verify_marshal b n2)))

(** val check_encoding : byte list -> err_kind option **)

let check_encoding b =
  match check_encoding_r b with
  | Ok _ -> None
  | Err e -> Some e
  | _ -> Some EBufTooSmall

(** val lock_mem : n **)

let lock_mem =
  Npos (XO (XO (XO (XI (XO XH)))))

(** val max_alloc : n **)

let max_alloc =
  N.pow (Npos (XO XH)) (Npos (XO (XO (XO (XO (XI XH))))))

(** val max_slice_len : n **)

let max_slice_len =
  N.div max_alloc lock_mem

(** val max_map_hint : n **)

let max_map_hint =
  N.mul (Npos (XI (XI XH)))
    (N.pow (Npos (XO XH)) (Npos (XO (XO (XI (XO (XO XH)))))))

(** val alloc_limit : n **)

let alloc_limit =
  N.pow (Npos (XO XH)) (Npos (XO (XO (XI (XO XH)))))

(** val unbacked : n -> n -> bool **)

let unbacked s rest =
  (&&) (N.ltb alloc_limit s) (N.ltb (N.div rest (Npos (XO (XI XH)))) s)

(** val unmarshal_locks_loop :
    nat -> byte list -> n -> n -> (n * lock list) res **)

let rec unmarshal_locks_loop fuel b cnt n0 =
  if N.eqb cnt N0
  then Ok (n0, [])
  else (match fuel with
        | O -> Panic WhyFuel
        | S f ->
          rbind (unmarshal_lock b n0) (fun pat ->
            let (n1, l) = pat in
            rbind (unmarshal_locks_loop f b (N.sub cnt (Npos XH)) n1)
              (fun pat0 -> let (n2, ls) = pat0 in Ok (n2, (l :: ls)))))

(** val unmarshal_slice : byte list -> n -> (n * lock list) res * n **)

let unmarshal_slice b n0 =
  match unmarshal_uint b n0 with
  | Ok a ->
    let (n1, us) = a in
    if (||)
         (N.leb (N.pow (Npos (XO XH)) (Npos (XI (XI (XI (XI (XI XH))))))) us)
         (N.ltb max_slice_len us)
    then ((Panic WhyMakeSliceLen), N0)
    else if unbacked us (N.sub (blen b) n1)
         then ((Alloc us), N0)
         else (match unmarshal_locks_loop (fuel_for b) b us n1 with
               | Ok a0 ->
                 let (n2, ls) = a0 in
                 ((Ok ((N.add n2 (Npos (XO (XO XH)))), ls)), us)
               | Err e -> ((rcast (Err e) (Panic WhyFuel)), us)
               | Panic w -> ((rcast (Panic w) (Panic WhyFuel)), us)
               | Alloc s -> ((rcast (Alloc s) (Panic WhyFuel)), us))
  | Err e -> ((rcast (Err e) (Panic WhyFuel)), N0)
  | Panic w -> ((rcast (Panic w) (Panic WhyFuel)), N0)
  | Alloc s -> ((rcast (Alloc s) (Panic WhyFuel)), N0)

(** val unmarshal_entries_loop :
    nat -> byte list -> n -> n -> smap -> (n * smap) res * n **)

let rec unmarshal_entries_loop fuel b cnt n0 m =
  if N.eqb cnt N0
  then ((Ok (n0, m)), N0)
  else (match fuel with
        | O -> ((Panic WhyFuel), N0)
        | S f ->
          (match unmarshal_string b n0 with
           | Ok a ->
             let (n1, k) = a in
             let (r, a0) = unmarshal_slice b n1 in
             (match r with
              | Ok a1 ->
                let (n2, v) = a1 in
                let (r0, a') =
                  unmarshal_entries_loop f b (N.sub cnt (Npos XH)) n2
                    (insert0
                      (map_insert
                        (gmap_partial_alter (list_eq_dec0 byte_eq_dec0)
                          (list_countable byte_eq_dec0 byte_countable))) k v
                      m)
                in
                (r0, (N.add a0 a'))
              | _ -> ((rcast r (Panic WhyFuel)), a0))
           | Err e -> ((rcast (Err e) (Panic WhyFuel)), N0)
           | Panic w -> ((rcast (Panic w) (Panic WhyFuel)), N0)
           | Alloc s -> ((rcast (Alloc s) (Panic WhyFuel)), N0)))

(** val unmarshal_map : byte list -> (n * smap) res * n **)

let unmarshal_map b =
  match unmarshal_uint b N0 with
  | Ok a ->
    let (n0, us) = a in
    if N.leb (N.pow (Npos (XO XH)) (Npos (XI (XI (XI (XI (XI XH))))))) us
    then ((Ok ((N.add n0 (Npos (XO (XO XH)))),
           (empty0
             (gmap_empty (list_eq_dec0 byte_eq_dec0)
               (list_countable byte_eq_dec0 byte_countable))))), N0)
    else let hint = if N.ltb max_map_hint us then N0 else us in
         if unbacked hint (N.sub (blen b) n0)
         then ((Alloc hint), N0)
         else let (r, a0) =
                unmarshal_entries_loop (fuel_for b) b us n0
                  (empty0
                    (gmap_empty (list_eq_dec0 byte_eq_dec0)
                      (list_countable byte_eq_dec0 byte_countable)))
              in
              (match r with
               | Ok a1 ->
                 let (n1, m) = a1 in
                 ((Ok ((N.add n1 (Npos (XO (XO XH)))), m)), (N.add hint a0))
               | _ -> (r, (N.add hint a0)))
  | Err e -> ((rcast (Err e) (Panic WhyFuel)), N0)
  | Panic w -> ((rcast (Panic w) (Panic WhyFuel)), N0)
  | Alloc s -> ((rcast (Alloc s) (Panic WhyFuel)), N0)

(** val benc_decode_i : byte list -> dec_result * n **)

let benc_decode_i b =
  let (r, a) = unmarshal_map b in
  (match r with
   | Ok a0 ->
     let (n0, m) = a0 in
     ((match verify_marshal b n0 with
       | Ok _ -> DecOk m
       | Err e -> DecErr e
       | Panic w -> DecPanic w
       | Alloc s -> DecAlloc s), a)
   | Err e -> ((DecErr e), a)
   | Panic w -> ((DecPanic w), a)
   | Alloc s -> ((DecAlloc s), a))

(** val decode_i : byte list -> dec_result * n **)

let decode_i b =
  match check_encoding_r b with
  | Ok _ -> benc_decode_i b
  | Err e -> ((DecErr e), N0)
  | Panic w -> ((DecPanic w), N0)
  | Alloc s -> ((DecAlloc s), N0)

(** val decode0 : byte list -> dec_result **)

let decode0 b =
  fst (decode_i b)

type fs = { state_file : byte list; tmp_file : byte list option }

type write_step =
| WOpenTrunc
| WData of byte list
| WRename

(** val fs_step : fs -> write_step -> fs **)

let fs_step f = function
| WOpenTrunc -> { state_file = f.state_file; tmp_file = (Some []) }
| WData d -> { state_file = f.state_file; tmp_file = (Some d) }
| WRename ->
  (match f.tmp_file with
   | Some d -> { state_file = d; tmp_file = None }
   | None -> f)

(** val write_steps : entries -> write_step list **)

let write_steps es =
  WOpenTrunc :: ((WData (encode0 es)) :: (WRename :: []))

(** val file_write : fs -> entries -> fs **)

let file_write f es =
  foldl fs_step f (write_steps es)

(** val file_read : fs -> dec_result **)

let file_read f =
  match f.state_file with
  | [] ->
    DecOk
      (empty0
        (gmap_empty (list_eq_dec0 byte_eq_dec0)
          (list_countable byte_eq_dec0 byte_countable)))
  | b0 :: l -> decode0 (b0 :: l)

(** val fs_new : fs **)

let fs_new =
  { state_file = []; tmp_file = None }

(** val mc_encode : entries -> byte list **)

let mc_encode =
  encode0

(** val mc_decode_i : byte list -> dec_result * n **)

let mc_decode_i =
  decode_i

(** val mc_benc_decode_i : byte list -> dec_result * n **)

let mc_benc_decode_i =
  benc_decode_i

(** val mc_check_encoding : byte list -> err_kind option **)

let mc_check_encoding =
  check_encoding

(** val mc_fs_new : fs **)

let mc_fs_new =
  fs_new

(** val mc_file_write : fs -> entries -> fs **)

let mc_file_write =
  file_write

(** val mc_file_read : fs -> dec_result **)

let mc_file_read =
  file_read

(** val mc_state_file : fs -> byte list **)

let mc_state_file f =
  f.state_file

(** val mc_fs_of : byte list -> fs **)

let mc_fs_of b =
  { state_file = b; tmp_file = None }

(** val mc_fs_make : byte list -> byte list option -> fs **)

let mc_fs_make b t =
  { state_file = b; tmp_file = t }

(** val mc_to_map : entries -> smap **)

let mc_to_map =
  to_map

(** val mc_smap_to_list : smap -> (str * lock list) list **)

let mc_smap_to_list m =
  map_to_list
    (gmap_to_list (list_eq_dec0 byte_eq_dec0)
      (list_countable byte_eq_dec0 byte_countable)) m

(** val mc_byte_of_n : n -> byte option **)

let mc_byte_of_n =
  of_N0

(** val mc_byte_to_n : byte -> n **)

let mc_byte_to_n =
  to_N0
