(** Extraction of the codec model (property C17) to OCaml.
    checks/c17.py copies this file into its work directory and runs
      coqc -Q /verif/coq Ldlm extract.v        (writes codec_model.ml / .mli into the cwd)
    ExtrOcamlBasic only: N, Z, positive, nat, byte stay the extracted inductives. *)
From Coq Require Extraction ExtrOcamlBasic.
From Ldlm Require Import Model.Base Model.Codec.

(** Entry points under names that cannot clash with anything in the libraries. *)
Definition mc_encode : entries -> list byte := encode.
Definition mc_decode_i : list byte -> dec_result * N := decode_i.
Definition mc_benc_decode_i : list byte -> dec_result * N := benc_decode_i.
Definition mc_check_encoding : list byte -> option err_kind := check_encoding.
Definition mc_fs_new : fs := fs_new.
Definition mc_file_write : fs -> entries -> fs := file_write.
Definition mc_file_read : fs -> dec_result := file_read.
Definition mc_state_file : fs -> list byte := state_file.
Definition mc_fs_of (b : list byte) : fs := Fs b None.
Definition mc_fs_make (b : list byte) (t : option (list byte)) : fs := Fs b t.
Definition mc_to_map : entries -> smap := to_map.
Definition mc_smap_to_list (m : smap) : list (str * list lock) := map_to_list m.
Definition mc_byte_of_n : N -> option byte := Byte.of_N.
Definition mc_byte_to_n : byte -> N := Byte.to_N.

Extraction Language OCaml.
Extraction "codec_model.ml"
  mc_encode mc_decode_i mc_benc_decode_i mc_check_encoding
  mc_fs_new mc_fs_of mc_fs_make mc_file_write mc_file_read mc_state_file mc_to_map
  mc_smap_to_list mc_byte_of_n mc_byte_to_n.
