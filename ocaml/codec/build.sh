#!/bin/sh
# Extracts the codec model (Model/Codec.v, property C17) from the compiled Coq development and
# builds the line-oriented driver ./codecdriver (see driver.ml for the protocol).
set -e
cd "$(dirname "$0")"
coqc -Q ../../coq Ldlm -w -notation-overridden,-extraction-opaque-accessed,-extraction-reserved-identifier extract.v >/dev/null
rm -f extract.vo extract.glob extract.vos extract.vok .extract.aux
ocamlfind ocamlopt -O2 -w -a codec_model.mli codec_model.ml driver.ml -o codecdriver 2>/dev/null || \
ocamlfind ocamlopt -w -a codec_model.mli codec_model.ml driver.ml -o codecdriver
