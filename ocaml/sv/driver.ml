(* Schedule driver for the extracted server model Msv (Model/Sv.v), tie T2 "sched-diff", layer 2.

   usage: svdriver gen <scenario file> <seed>     enumerate / sample schedules of the MODEL, print them with the spawn
                                                  annotations, the expected observation after every item and the ghost facts
          svdriver expand <plain schedule file>   corpus / replay schedules (items without annotations, forced items may be
                                                  missing): insert the forced items, print in the gen format
          svdriver check <observed file>          re-run the model on the items the harness echoed and compare with what
                                                  the real LockServer did after every item
          svdriver trace <observed file>          the REAL observations of every schedule (or, on a gen / expand file, the
                                                  observations the model predicts) as a list (item, observation after it) and
                                                  on it the extracted trace predicates of Model/SvTrace.v (sv_trace_verdict)

   Scenario file (line oriented; every name / key / session id hex encoded, "-" = empty string):
     scenario <id>
     noclear 0|1
     bound <int>                                  preemption bound
     pre <item>  |  pre finish <tid>              sequential prefix: the item alone; "finish" = run tid until it cannot move
     call <item tokens after "call"> [after <tid> ...]   issued as soon as the listed calls returned (and sitem_ok holds)
     env cancel <tid> <go error name>             the environment may end that call's context once
     env connend <sid> [after <tid> ...]          the connection of sid may end once
     env tick <ns> <max>                          time may advance by ns, at most max times
     env signal [after <tid> ...]                 SIGTERM may arrive once
     sample <n>  cap <n>  end
   Items:
     connect <sid> | call <tid> try|lock <sid> <name> <key> <size> <lease s|~> | call <tid> unl <name> <key>
     | call <tid> renew <name> <key> <lease s> | run <tid> | wake <tid> | cancel <tid> <err> | connend <sid> | tick <ns> | signal
     (wake = a FORCED VRun: VWoken -> VSessAdd / give back, VWait with its context ended -> error; the real goroutine makes
      this move by itself. Under no_clear_on_disconnect also VDsDestroy right after VDsNoClear: /repo does both in one
      critical section, Model/Sv.v still in two - tolerance pending the model update.)
   Schedule format (gen/expand output, and what harness/svsched echoes):
     S <sid>  /  C <noclear>
     I <k> <item> [spawn <tid>:x:<name>:<key> | <tid>:d:<sid> | <tid>:s ...]     goroutines the item starts on the model side
     X <k> <now>    observation after item k:
         T <tid> P <label> | B | F <ok> <err> | E | Z <panic>
         L <name> <size> <n> <key>...          lock table (objects with at least one key)
         A <name> <key>                        timer map entries
         P <sid> <n> (<name> <key> <size>)...  session table        G <n> (...)...  listing (flattened, sorted)
         F 0|1   Q <sid> <n> (...)...          decoded state file
         K <crashed>
     G ...          ghost facts
     Z
   check prints   R <sid> ok <items> <complete> | R <sid> diff <k> <kind> <ndiffs> <complete>
                  D <sid> <k> <kind> <who> exp=.. got=..   kind: label shlabel blocked bit err threads table timers sessions listing file now crash
                  G <sid> ...
                  V <sid> i <e|f> <model item>     every vstep the check performed, in order (e: the echoed item itself, f: forced move)
                  V <sid> o <k|end> N:<now> T:<tid>:<status> L:<name>:<size>:<key>,.. A:<name>:<key> P:<sid>:<n/k/size>,.. G:<n/k/size>,..
                                    F:<0|1> Q:<sid>:<n/k/size>,.. K:<crashed> R:<timer key>:<deadline>
                                                   the model's expectation at the moment it was compared with the real observation
                                                   after item k / at the end of the schedule (R = sv_armed)
                  V <sid> z <n>                    number of V i lines of the schedule
                  (V lines exist for lib/coqeval.py: the same model items are evaluated INSIDE Coq and compared)
   trace prints   Q <sid> <transitions> noclear=<0|1> unlock=<v> renew=<v> c06=<v> c06f=<v> live=<v> ended=<v> bound=<v> surplus=<v> over=<v>
                    keeps=<v> fleak=<0|1>       v: - (holds at every transition) or <index of the first offending transition>@<item k>
                  QB <sid> <text>               something in the block could not be represented (panic status, undecodable file, ...)
                  (thread ids are renumbered 1,2,.. in order of appearance: unary numbers on the Coq side; forced `wake` items are not
                   transitions of their own: the harness observes after them, Model/SvTrace.v's groups)
   Only enumeration, parsing and printing happen here; every state change and every enabledness / meaningfulness decision is
   made by extracted Coq code (vstep, sv_enabled, sv_forced, sitem_okb). *)
type ostring = string
open Svmodel

(* ---- numbers ---- *)
let rec pos_of_int (i : int) : positive =
  if i = 1 then XH else if i land 1 = 0 then XO (pos_of_int (i lsr 1)) else XI (pos_of_int (i lsr 1))
let z_of_int (i : int) : z = if i = 0 then Z0 else if i > 0 then Zpos (pos_of_int i) else Zneg (pos_of_int (-i))
let n_of_int (i : int) : n = if i = 0 then N0 else Npos (pos_of_int i)
let rec int_of_pos = function XH -> 1 | XO p -> 2 * int_of_pos p | XI p -> 2 * int_of_pos p + 1
let int_of_z = function Z0 -> 0 | Zpos p -> int_of_pos p | Zneg p -> - (int_of_pos p)
let int_of_n = function N0 -> 0 | Npos p -> int_of_pos p
let nat_of_int i = let rec go acc i = if i <= 0 then acc else go (S acc) (i - 1) in go O i
let int_of_nat n = let rec go acc = function O -> acc | S n -> go (acc + 1) n in go 0 n

(* ---- strings ---- *)
let byte_tbl : byte array = Array.init 256 (fun i -> match byte_of_N (n_of_int i) with Some b -> b | None -> assert false)
let str_of_hex (s : ostring) : byte list =
  if s = "-" then [] else
    let n = String.length s / 2 in
    List.init n (fun i -> byte_tbl.(int_of_string ("0x" ^ String.sub s (2 * i) 2)))
let hex_of_str (l : byte list) : ostring =
  if l = [] then "-" else String.concat "" (List.map (fun b -> Printf.sprintf "%02x" (int_of_n (byte_to_N b))) l)
let ocaml_string (l : byte list) : ostring =
  String.concat "" (List.map (fun b -> String.make 1 (Char.chr (int_of_n (byte_to_N b)))) l)

(* ---- errors ---- *)
let err_names : (ostring * err) list = List.map (fun e -> (ocaml_string (err_name_b e), e)) all_errs
let err_of_tok (t : ostring) : err option =
  if t = "~" then None else match List.assoc_opt t err_names with Some e -> Some e | None -> Some EOther
let tok_of_err = function None -> "~" | Some e -> ocaml_string (err_name_b e)

exception Bad of ostring
let split_ws s = List.filter (fun x -> x <> "") (String.split_on_char ' ' (String.trim s))

(* ---- harness-level items ---- *)
type hitem =
  | HConnect of byte list
  | HCall of int * sop
  | HRun of int
  | HWake of int
  | HCancel of int * err
  | HConnEnd of byte list
  | HTick of int
  | HSignal

let lt_of_tok t = if t = "~" then None else Some (z_of_int (int_of_string t))
let tok_of_lt = function None -> "~" | Some z -> string_of_int (int_of_z z)

let op_of_toks = function
  | ["try"; sid; name; key; size; lt] -> STry (str_of_hex sid, str_of_hex name, str_of_hex key, z_of_int (int_of_string size), lt_of_tok lt)
  | ["lock"; sid; name; key; size; lt] -> SLock (str_of_hex sid, str_of_hex name, str_of_hex key, z_of_int (int_of_string size), lt_of_tok lt)
  | ["unl"; name; key] -> SUnlock (str_of_hex name, str_of_hex key)
  | ["renew"; name; key; lt] -> SRenew (str_of_hex name, str_of_hex key, z_of_int (int_of_string lt))
  | l -> raise (Bad ("op: " ^ String.concat " " l))
let toks_of_op = function
  | STry (s, n, k, z, lt) -> Printf.sprintf "try %s %s %s %d %s" (hex_of_str s) (hex_of_str n) (hex_of_str k) (int_of_z z) (tok_of_lt lt)
  | SLock (s, n, k, z, lt) -> Printf.sprintf "lock %s %s %s %d %s" (hex_of_str s) (hex_of_str n) (hex_of_str k) (int_of_z z) (tok_of_lt lt)
  | SUnlock (n, k) -> Printf.sprintf "unl %s %s" (hex_of_str n) (hex_of_str k)
  | SRenew (n, k, lt) -> Printf.sprintf "renew %s %s %d" (hex_of_str n) (hex_of_str k) (int_of_z lt)
  | SExpire id -> Printf.sprintf "expire %d" (int_of_nat id)
  | SConnEnd sid -> Printf.sprintf "dsess %s" (hex_of_str sid)
  | SShutdown -> "closer"

let tok_of_hitem = function
  | HConnect sid -> "connect " ^ hex_of_str sid
  | HCall (t, op) -> Printf.sprintf "call %d %s" t (toks_of_op op)
  | HRun t -> Printf.sprintf "run %d" t
  | HWake t -> Printf.sprintf "wake %d" t
  | HCancel (t, e) -> Printf.sprintf "cancel %d %s" t (tok_of_err (Some e))
  | HConnEnd sid -> "connend " ^ hex_of_str sid
  | HTick d -> Printf.sprintf "tick %d" d
  | HSignal -> "signal"

let rec strip_spawn = function [] -> [] | "spawn" :: _ -> [] | x :: r -> x :: strip_spawn r

let hitem_of_toks (l : ostring list) : hitem =
  match strip_spawn l with
  | ["connect"; sid] -> HConnect (str_of_hex sid)
  | "call" :: t :: rest -> HCall (int_of_string t, op_of_toks rest)
  | ["run"; t] -> HRun (int_of_string t)
  | ["wake"; t] -> HWake (int_of_string t)
  | ["cancel"; t; e] -> HCancel (int_of_string t, (match err_of_tok e with Some e -> e | None -> ECtxCanceled))
  | ["connend"; sid] -> HConnEnd (str_of_hex sid)
  | ["tick"; d] -> HTick (int_of_string d)
  | ["signal"] -> HSignal
  | l -> raise (Bad ("item: " ^ String.concat " " l))

let to_model = function
  | HConnect sid -> VConnect sid
  | HCall (t, op) -> VCall (nat_of_int t, op)
  | HRun t | HWake t -> VRun (nat_of_int t)
  | HCancel (t, e) -> VCancel (nat_of_int t, e)
  | HConnEnd sid -> VConnEnd sid
  | HTick d -> VTick (z_of_int d)
  | HSignal -> VSignal

(* check mode: every model item handed to vstep, newest first, with its origin (see the V lines) *)
let log_items = ref false
let log_tag = ref 'e'
let applied : (char * sitem) list ref = ref []
let apply (cfg : svcfg) (s : svstate) (h : hitem) : svstate =
  let it = to_model h in
  if !log_items then applied := (!log_tag, it) :: !applied;
  vstep cfg s it
let okb (s : svstate) (h : hitem) : bool = sitem_okb s (to_model h)

let forced_of (cfg : svcfg) (s : svstate) : hitem list =
  List.map (fun t -> HWake t) (List.sort compare (List.map int_of_nat (sv_forced cfg s)))

(* ---- observations ---- *)
let label_names = [| "VMgrTry"; "VMgrLock"; "VWait"; "VWoken"; "VSessAdd"; "VTmAdd"; "VTmRemove"; "VMgrUnlock"; "VSessRemove"; "VTmReset";
                     "VCbUnlock"; "VCbSessRemove"; "VCbTmRemove"; "VDsFlag"; "VDsNoClear"; "VDsDestroy"; "VDsTmRemove"; "VDsUnlock";
                     "VShFlag"; "VShNet"; "VShTimers"; "VShMgr"; "VFin"; "VEnd" |]
type tstat = SP of ostring | SB | SF of bool * ostring | SE | SZ
type centry = ostring * ostring * int                       (* name, key, size (hex, hex, int) *)
type obs = { o_now : int; o_thr : (int * tstat) list; o_tab : (ostring * int * ostring list) list; o_tmr : (ostring * ostring) list;
             o_ses : (ostring * centry list) list; o_lst : centry list; o_file : (ostring * centry list) list option; o_crashed : bool }

let threads_sorted (s : svstate) : (int * sthread) list =
  List.sort (fun (a, _) (b, _) -> compare a b) (List.map (fun (t, th) -> (int_of_nat t, th)) (sv_threads s))

let centry_of (c : clock) : centry = (hex_of_str c.cl_name, hex_of_str c.cl_key, int_of_z c.cl_size)

let observe (s : svstate) : obs =
  let thr = List.map (fun (t, th) ->
      let st = match th.st_pc with
        | VFin r -> SF (r.sr_ok, tok_of_err r.sr_err)
        | VEnd -> SE
        | VWait -> SB
        | pc -> SP label_names.(int_of_nat (label_of pc)) in
      (t, st)) (threads_sorted s) in
  let tab = List.sort compare (List.filter_map (fun (n, (z, ks)) -> if ks = [] then None else Some (hex_of_str n, int_of_z z, List.map hex_of_str ks)) (sv_table s)) in
  let tmr = List.sort compare (List.map (fun ((n, k), _) -> (hex_of_str n, hex_of_str k)) (sv_tmkeys s)) in
  let ses = List.sort compare (List.map (fun (sid, l) -> (hex_of_str sid, List.map centry_of l)) (sv_sessions s)) in
  let lst = List.sort compare (List.map centry_of (sv_listing s)) in
  let file = match sv_file s with
    | None -> None
    | Some l -> Some (List.sort compare (List.map (fun (sid, l) -> (hex_of_str sid, List.map centry_of l)) l)) in
  { o_now = int_of_z s.v_now; o_thr = thr; o_tab = tab; o_tmr = tmr; o_ses = ses; o_lst = lst; o_file = file; o_crashed = s.v_crashed }

let tok_of_stat = function
  | SP l -> "P " ^ l | SB -> "B" | SF (ok, e) -> Printf.sprintf "F %d %s" (if ok then 1 else 0) e | SE -> "E" | SZ -> "Z"
let toks_of_centries (l : centry list) = String.concat "" (List.map (fun (n, k, z) -> Printf.sprintf " %s %s %d" n k z) l)
let print_obs oc (k : int) (o : obs) =
  Printf.fprintf oc "X %d %d\n" k o.o_now;
  List.iter (fun (t, st) -> Printf.fprintf oc "T %d %s\n" t (tok_of_stat st)) o.o_thr;
  List.iter (fun (n, z, ks) -> Printf.fprintf oc "L %s %d %d%s\n" n z (List.length ks) (String.concat "" (List.map (fun k -> " " ^ k) ks))) o.o_tab;
  List.iter (fun (n, k) -> Printf.fprintf oc "A %s %s\n" n k) o.o_tmr;
  List.iter (fun (sid, l) -> Printf.fprintf oc "P %s %d%s\n" sid (List.length l) (toks_of_centries l)) o.o_ses;
  Printf.fprintf oc "G %d%s\n" (List.length o.o_lst) (toks_of_centries o.o_lst);
  (match o.o_file with
   | None -> Printf.fprintf oc "F 0\n"
   | Some l -> Printf.fprintf oc "F 1\n"; List.iter (fun (sid, l) -> Printf.fprintf oc "Q %s %d%s\n" sid (List.length l) (toks_of_centries l)) l);
  Printf.fprintf oc "K %d\n" (if o.o_crashed then 1 else 0)

(* ---- V lines (lib/coqeval.py) ---- *)
let tok_of_sitem = function
  | VCall (t, op) -> Printf.sprintf "call %d %s" (int_of_nat t) (toks_of_op op)
  | VRun t -> Printf.sprintf "run %d" (int_of_nat t)
  | VCancel (t, e) -> Printf.sprintf "cancel %d %s" (int_of_nat t) (tok_of_err (Some e))
  | VConnect sid -> "connect " ^ hex_of_str sid
  | VConnEnd sid -> "connend " ^ hex_of_str sid
  | VTick d -> Printf.sprintf "tick %d" (int_of_z d)
  | VSignal -> "signal"
let obs_line (s : svstate) : ostring =
  let o = observe s in
  let us s = String.map (fun c -> if c = ' ' then '_' else c) s in
  let ces l = String.concat "," (List.map (fun (n, k, z) -> Printf.sprintf "%s/%s/%d" n k z) l) in
  String.concat " "
    ([Printf.sprintf "N:%d" o.o_now]
     @ List.map (fun (t, st) -> Printf.sprintf "T:%d:%s" t (us (tok_of_stat st))) o.o_thr
     @ List.map (fun (n, z, ks) -> Printf.sprintf "L:%s:%d:%s" n z (String.concat "," ks)) o.o_tab
     @ List.map (fun (n, k) -> Printf.sprintf "A:%s:%s" n k) o.o_tmr
     @ List.map (fun (sid, l) -> Printf.sprintf "P:%s:%s" sid (ces l)) o.o_ses
     @ [Printf.sprintf "G:%s" (ces o.o_lst)]
     @ (match o.o_file with None -> ["F:0"] | Some l -> "F:1" :: List.map (fun (sid, l) -> Printf.sprintf "Q:%s:%s" sid (ces l)) l)
     @ [Printf.sprintf "K:%d" (if o.o_crashed then 1 else 0)]
     @ List.map (fun (tk, d) -> Printf.sprintf "R:%s:%d" (hex_of_str tk) (int_of_z d)) (List.sort compare (sv_armed s)))

(* ---- spawn annotations: the goroutines an item starts on the model side ---- *)
let spawned (before : svstate) (after : svstate) : ostring list =
  let old = List.map fst (threads_sorted before) in
  List.filter_map (fun (t, th) ->
      if List.mem t old then None else
        match th.st_op with
        | SExpire id -> (match sv_timer_nk after id with
            | Some (n, k) -> Some (Printf.sprintf "%d:x:%s:%s" t (hex_of_str n) (hex_of_str k))
            | None -> Some (Printf.sprintf "%d:x:-:-" t))
        | SConnEnd sid -> Some (Printf.sprintf "%d:d:%s" t (hex_of_str sid))
        | SShutdown -> Some (Printf.sprintf "%d:s" t)
        | _ -> None) (threads_sorted after)

(* ---- ghost ---- *)
let rec take n l = if n <= 0 then [] else match l with [] -> [] | x :: r -> x :: take (n - 1) r
let new_events (before : svstate) (after : svstate) : sev list =
  let nb = List.length before.v_trace and na = List.length after.v_trace in
  List.rev (take (na - nb) after.v_trace)

let ghost_lines (pfx : ostring) (k : int) (evs : sev list) : ostring list =
  List.filter_map (function
      | SvInv _ | SvRes _ | SvConnect _ | SvConnEnd _ | SvSignal -> None
      | SvAcquired (t, n, key) -> Some (Printf.sprintf "G %sacquired %d %d %s %s" pfx k (int_of_nat t) (hex_of_str n) (hex_of_str key))
      | SvReleased (t, n, key) -> Some (Printf.sprintf "G %sreleased %d %d %s %s" pfx k (int_of_nat t) (hex_of_str n) (hex_of_str key))
      | SvSessAdd (t, sid, c) -> Some (Printf.sprintf "G %ssessadd %d %d %s %s %s" pfx k (int_of_nat t) (hex_of_str sid) (hex_of_str c.cl_name) (hex_of_str c.cl_key))
      | SvSessDestroy (t, sid) -> Some (Printf.sprintf "G %ssessdestroy %d %d %s" pfx k (int_of_nat t) (hex_of_str sid))
      | SvSessRemove (t, n, key) -> Some (Printf.sprintf "G %ssessremove %d %d %s %s" pfx k (int_of_nat t) (hex_of_str n) (hex_of_str key))
      | SvFired id -> Some (Printf.sprintf "G %sfired %d %d" pfx k (int_of_nat id))
      | SvPanic t -> Some (Printf.sprintf "G %spanic %d %d" pfx k (int_of_nat t))) evs

(* F-OVER on the model's own run: a session entry was WRITTEN (SvSessAdd) while another listed entry occupies no capacity *)
let over_lines (pfx : ostring) (k : int) (evs : sev list) (after : svstate) : ostring list =
  if List.exists (function SvSessAdd _ -> true | _ -> false) evs then
    List.map (fun (sid, c) -> Printf.sprintf "G %sover %d %s %s %s" pfx k (hex_of_str sid) (hex_of_str c.cl_name) (hex_of_str c.cl_key)) (sv_zombies after)
  else []

let final_ghost (pfx : ostring) (s : svstate) : ostring list =
  List.map (fun sid -> Printf.sprintf "G %sleak %s" pfx (hex_of_str sid)) (List.sort_uniq compare (leak_sids s))

(* ---- scenarios ---- *)
type pre = PItem of hitem | PFinish of int
type scenario = {
  sc_id : ostring; sc_noclear : bool; sc_bound : int;
  sc_pre : pre list;
  sc_calls : (int * sop * int list) list;
  sc_cancels : (int * err) list;
  sc_connends : (byte list * int list) list;
  sc_tick : (int * int) option; sc_signal : int list option;
  sc_sample : int; sc_cap : int;
}
let empty_sc id = { sc_id = id; sc_noclear = false; sc_bound = 2; sc_pre = []; sc_calls = []; sc_cancels = []; sc_connends = [];
                    sc_tick = None; sc_signal = None; sc_sample = 0; sc_cap = 200000 }

let split_after (l : ostring list) : ostring list * int list =
  let rec go acc = function
    | [] -> (List.rev acc, [])
    | "after" :: ds -> (List.rev acc, List.map int_of_string ds)
    | x :: r -> go (x :: acc) r in
  go [] l

let read_scenarios (file : ostring) : scenario list =
  let ic = open_in file in
  let out = ref [] and cur = ref None in
  (try
     while true do
       let line = input_line ic in
       match split_ws line, !cur with
       | [], _ -> ()
       | ("#" :: _), _ -> ()
       | ["scenario"; id], _ -> cur := Some (empty_sc id)
       | ["end"], Some sc ->
           out := { sc with sc_pre = List.rev sc.sc_pre; sc_calls = List.rev sc.sc_calls; sc_cancels = List.rev sc.sc_cancels;
                            sc_connends = List.rev sc.sc_connends } :: !out;
           cur := None
       | ["noclear"; v], Some sc -> cur := Some { sc with sc_noclear = (v = "1") }
       | ["bound"; v], Some sc -> cur := Some { sc with sc_bound = int_of_string v }
       | ["pre"; "finish"; t], Some sc -> cur := Some { sc with sc_pre = PFinish (int_of_string t) :: sc.sc_pre }
       | ("pre" :: rest), Some sc -> cur := Some { sc with sc_pre = PItem (hitem_of_toks rest) :: sc.sc_pre }
       | ("call" :: t :: rest), Some sc ->
           let (toks, deps) = split_after rest in
           cur := Some { sc with sc_calls = (int_of_string t, op_of_toks toks, deps) :: sc.sc_calls }
       | ["env"; "cancel"; t; e], Some sc ->
           cur := Some { sc with sc_cancels = (int_of_string t, (match err_of_tok e with Some e -> e | None -> ECtxCanceled)) :: sc.sc_cancels }
       | ("env" :: "connend" :: sid :: rest), Some sc ->
           let (_, deps) = split_after rest in
           cur := Some { sc with sc_connends = (str_of_hex sid, deps) :: sc.sc_connends }
       | ["env"; "tick"; d; n], Some sc -> cur := Some { sc with sc_tick = Some (int_of_string d, int_of_string n) }
       | ("env" :: "signal" :: rest), Some sc ->
           let (_, deps) = split_after rest in
           cur := Some { sc with sc_signal = Some deps }
       | ["sample"; n], Some sc -> cur := Some { sc with sc_sample = int_of_string n }
       | ["cap"; n], Some sc -> cur := Some { sc with sc_cap = int_of_string n }
       | _ -> raise (Bad ("scenario line: " ^ line))
     done
   with End_of_file -> ());
  close_in ic;
  List.rev !out

(* ---- enumeration ---- *)
type node = {
  st : svstate;
  items : hitem list;                (* reversed *)
  last : int option;                 (* thread of the last run item *)
  pre : int;                         (* preemptions used *)
  pending : (int * sop * int list) list;
  cancels_left : (int * err) list;
  connends_left : (byte list * int list) list;
  tick_left : int; signal_left : int list option;
}

let finished (s : svstate) (t : int) : bool =
  List.exists (fun (t', th) -> t' = t && (match th.st_pc with VFin _ | VEnd -> true | _ -> false)) (threads_sorted s)
let deps_done (s : svstate) (deps : int list) = List.for_all (finished s) deps

(* apply the forced moves, then issue the calls that became ready (and are meaningful: sitem_okb) *)
let rec settle (cfg : svcfg) (nd : node) : node =
  match forced_of cfg nd.st with
  | f :: _ -> settle cfg { nd with st = apply cfg nd.st f; items = f :: nd.items }
  | [] ->
    let ready, waiting = List.partition (fun (t, op, deps) -> deps_done nd.st deps && okb nd.st (HCall (t, op))) nd.pending in
    (match ready with
     | [] -> nd
     | (t, op, _) :: more ->
       let it = HCall (t, op) in
       settle cfg { nd with st = apply cfg nd.st it; items = it :: nd.items; pending = more @ waiting })

let do_item (cfg : svcfg) (nd : node) (it : hitem) : node =
  settle cfg { nd with st = apply cfg nd.st it; items = it :: nd.items }

type choice = CStop | CItem of hitem * int (* cost *)

let cancellable (s : svstate) (t : int) =
  List.exists (fun (t', th) -> t' = t && th.st_cancel = None && (match th.st_pc with VFin _ | VEnd -> false | _ -> true)) (threads_sorted s)

let choices (sc : scenario) (nd : node) : choice list =
  let s = nd.st in
  if s.v_crashed then [CStop] else
  let runs = List.filter (fun t -> sv_enabled s (nat_of_int t)) (List.map fst (threads_sorted s)) in
  let last_enabled = match nd.last with Some l -> List.mem l runs | None -> false in
  let run_choices = List.map (fun t -> CItem (HRun t, if last_enabled && nd.last <> Some t then 1 else 0)) runs in
  let ecost = if last_enabled then 1 else 0 in
  let env =
    List.filter_map (fun (t, e) -> if cancellable s t then Some (CItem (HCancel (t, e), ecost)) else None) nd.cancels_left
    @ List.filter_map (fun (sid, deps) -> if deps_done s deps then Some (CItem (HConnEnd sid, ecost)) else None) nd.connends_left
    @ (match sc.sc_tick with Some (d, _) when nd.tick_left > 0 -> [CItem (HTick d, ecost)] | _ -> [])
    @ (match nd.signal_left with Some deps when deps_done s deps -> [CItem (HSignal, ecost)] | _ -> []) in
  let env = List.filter (function CItem (it, _) -> okb s it | CStop -> true) env in
  (if runs = [] then [CStop] else []) @ run_choices @ env

let shuffle (rng : Random.State.t) (l : 'a list) : 'a list =
  let a = Array.of_list l in
  for i = Array.length a - 1 downto 1 do
    let j = Random.State.int rng (i + 1) in
    let x = a.(i) in a.(i) <- a.(j); a.(j) <- x
  done;
  Array.to_list a

exception Cap

let cfg_of (noclear : bool) : svcfg = { sc_noclear = noclear; sc_file = true }

let enumerate (sc : scenario) (rng : Random.State.t option) (emit : int -> hitem list -> int -> unit) : int * bool =
  let cfg = cfg_of sc.sc_noclear in
  let count = ref 0 in
  let nd0 = { st = sv_init; items = []; last = None; pre = 0; pending = []; cancels_left = sc.sc_cancels; connends_left = sc.sc_connends;
              tick_left = (match sc.sc_tick with Some (_, n) -> n | None -> 0); signal_left = sc.sc_signal } in
  let nd0 = List.fold_left (fun nd p ->
      match p with
      | PItem it -> if okb nd.st it then do_item cfg nd it else raise (Bad ("scenario " ^ sc.sc_id ^ ": pre item is not sitem_ok: " ^ tok_of_hitem it))
      | PFinish t ->
          let rec go nd fuel = if fuel = 0 || not (sv_enabled nd.st (nat_of_int t)) then nd else go (do_item cfg nd (HRun t)) (fuel - 1) in
          go nd 64) nd0 sc.sc_pre in
  let nd0 = settle cfg { nd0 with pending = sc.sc_calls; last = None } in
  let rec dfs (nd : node) (depth : int) =
    if depth > 400 then () else
    let cs = choices sc nd in
    let cs = match rng with Some r -> shuffle r cs | None -> cs in
    List.iter (fun c ->
        match c with
        | CStop ->
            emit !count (List.rev nd.items) nd.pre;
            incr count;
            if !count >= sc.sc_cap then raise Cap
        | CItem (it, cost) ->
            if nd.pre + cost <= sc.sc_bound then begin
              let nd' = match it with
                | HRun t -> { nd with last = Some t }
                | HCancel (t, e) -> { nd with last = None; cancels_left = List.filter (fun c -> c <> (t, e)) nd.cancels_left }
                | HConnEnd sid -> { nd with last = None; connends_left = List.filter (fun (s, _) -> s <> sid) nd.connends_left }
                | HTick _ -> { nd with last = None; tick_left = nd.tick_left - 1 }
                | HSignal -> { nd with last = None; signal_left = None }
                | _ -> nd in
              dfs (do_item cfg { nd' with pre = nd.pre + cost } it) (depth + 1)
            end) cs in
  let capped = (try dfs nd0 0; false with Cap -> true) in
  (!count, capped)

(* ---- printing one schedule (replay on the model) ---- *)
let is_forced = function HWake _ -> true | _ -> false

let print_schedule oc (sid : ostring) (noclear : bool) (items : hitem list) (pre : int) =
  let cfg = cfg_of noclear in
  Printf.fprintf oc "S %s\nC %d\n" sid (if noclear then 1 else 0);
  let ghost = ref [] in
  let rec go s k = function
    | [] -> s
    | it :: rest ->
        let s' = apply cfg s it in
        let sp = spawned s s' in
        Printf.fprintf oc "I %d %s%s\n" k (tok_of_hitem it) (if sp = [] then "" else " spawn " ^ String.concat " " sp);
        let evs = new_events s s' in
        ghost := List.rev_append (over_lines "" k evs s') (List.rev_append (ghost_lines "" k evs) !ghost);
        (match rest with
         | nx :: _ when is_forced nx -> ()
         | _ -> print_obs oc k (observe s'));
        go s' (k + 1) rest in
  let s = go sv_init 0 items in
  List.iter (fun l -> output_string oc (l ^ "\n")) (List.rev !ghost);
  List.iter (fun l -> output_string oc (l ^ "\n")) (final_ghost "" s);
  Printf.fprintf oc "G pre %d\nZ\n" pre

let gen (file : ostring) (seed : int) =
  let rng = Random.State.make [| seed; 0x7433 |] in
  let scs = read_scenarios file in
  List.iter (fun sc ->
      if sc.sc_sample = 0 then begin
        let (n, capped) = enumerate sc None (fun idx items pre ->
            print_schedule stdout (Printf.sprintf "%s#%d" sc.sc_id idx) sc.sc_noclear items pre) in
        Printf.printf "STAT %s enumerated %d printed %d capped %d bound %d\n" sc.sc_id n n (if capped then 1 else 0) sc.sc_bound
      end else begin
        let k = sc.sc_sample in
        let res : (int * hitem list * int) option array = Array.make k None in
        let (n, capped) = enumerate sc (Some rng) (fun idx items pre ->
            if idx < k then res.(idx) <- Some (idx, items, pre)
            else begin
              let j = Random.State.int rng (idx + 1) in
              if j < k then res.(j) <- Some (idx, items, pre)
            end) in
        let chosen = List.sort compare (List.filter_map (fun x -> x) (Array.to_list res)) in
        List.iter (fun (idx, items, pre) -> print_schedule stdout (Printf.sprintf "%s#%d" sc.sc_id idx) sc.sc_noclear items pre) chosen;
        Printf.printf "STAT %s enumerated %d printed %d capped %d bound %d\n" sc.sc_id n (List.length chosen) (if capped then 1 else 0) sc.sc_bound
      end) scs

(* ---- expand: plain item lists -> schedules with forced items and annotations ---- *)
let expand (file : ostring) =
  let ic = open_in file in
  let sid = ref "" and noclear = ref false and items = ref [] and active = ref false in
  let flush () =
    if !active then begin
      let cfg = cfg_of !noclear in
      (* insert the forced items the plain list lacks *)
      let rec go s acc = function
        | [] -> List.rev acc
        | it :: rest ->
            let s' = apply cfg s it in
            let rec force s acc = function
              | (HWake t) :: rest' when List.mem (HWake t) (forced_of cfg s) -> force (apply cfg s (HWake t)) (HWake t :: acc) rest'
              | rest' ->
                  (match forced_of cfg s with
                   | f :: _ -> force (apply cfg s f) (f :: acc) rest'
                   | [] -> (s, acc, rest')) in
            let (s'', acc', rest') = force s' (it :: acc) rest in
            go s'' acc' rest' in
      print_schedule stdout !sid !noclear (go sv_init [] (List.rev !items)) 0
    end;
    active := false; items := [] in
  (try
     while true do
       let line = input_line ic in
       match split_ws line with
       | ["S"; id] -> flush (); sid := id; noclear := false; active := true
       | ["C"; v] -> noclear := (v = "1")
       | "I" :: _ :: rest when !active -> (try items := hitem_of_toks rest :: !items with Bad m | Failure m -> prerr_endline ("bad item in " ^ !sid ^ ": " ^ m))
       | ["Z"] -> flush ()
       | _ -> ()
     done
   with End_of_file -> ());
  flush ();
  close_in ic

(* ---- check ---- *)
let stat_of_toks = function
  | ["P"; l] -> SP l
  | ["B"] -> SB
  | ["F"; ok; e] -> SF (ok = "1", e)
  | ["E"] -> SE
  | "Z" :: _ -> SZ
  | l -> raise (Bad ("status: " ^ String.concat " " l))

let rec centries_of_toks = function
  | [] -> []
  | n :: k :: z :: r -> (n, k, int_of_string z) :: centries_of_toks r
  | _ -> raise (Bad "entry list")

let show_centries l = "[" ^ String.concat ";" (List.map (fun (n, k, z) -> Printf.sprintf "%s/%s/%d" n k z) l) ^ "]"
let show_ses l = if l = [] then "empty" else String.concat "," (List.map (fun (sid, l) -> sid ^ ":" ^ show_centries l) l)

let compare_obs (sid : ostring) (k : int) (shut_tids : int list) (exp : obs) (got : obs) : (ostring * ostring) list =
  let out = ref [] in
  let add kind who e g = out := (kind, Printf.sprintf "D %s %d %s %s exp=%s got=%s" sid k kind who e g) :: !out in
  if exp.o_crashed <> got.o_crashed then
    add "crash" "-" (if exp.o_crashed then "1" else "0") (if got.o_crashed then "1" else "0");
  if not (exp.o_crashed && got.o_crashed) then begin
    let tids = List.sort_uniq compare (List.map fst exp.o_thr @ List.map fst got.o_thr) in
    let us s = String.map (fun c -> if c = ' ' then '_' else c) s in
    List.iter (fun t ->
        match List.assoc_opt t exp.o_thr, List.assoc_opt t got.o_thr with
        | Some (SF (ok1, e1)), Some (SF (ok2, e2)) ->
            if ok1 <> ok2 then add "bit" (string_of_int t) (us (tok_of_stat (SF (ok1, e1)))) (us (tok_of_stat (SF (ok2, e2))))
            else if e1 <> e2 then add "err" (string_of_int t) e1 e2
        | Some a, Some b ->
            if a <> b then
              add (if b = SZ then "crash" else if a = SB || b = SB then "blocked" else if List.mem t shut_tids then "shlabel" else "label")
                (string_of_int t) (us (tok_of_stat a)) (us (tok_of_stat b))
        | Some a, None -> add "threads" (string_of_int t) (us (tok_of_stat a)) "absent"
        | None, Some b -> add "threads" (string_of_int t) "absent" (us (tok_of_stat b))
        | None, None -> ()) tids;
    if exp.o_tab <> got.o_tab then begin
      let show tab = if tab = [] then "empty" else String.concat "," (List.map (fun (n, z, ks) -> Printf.sprintf "%s:%d:[%s]" n z (String.concat ";" ks)) tab) in
      add "table" "-" (show exp.o_tab) (show got.o_tab)
    end;
    if exp.o_tmr <> got.o_tmr then begin
      let show l = if l = [] then "empty" else String.concat "," (List.map (fun (n, k) -> n ^ "/" ^ k) l) in
      add "timers" "-" (show exp.o_tmr) (show got.o_tmr)
    end;
    if exp.o_ses <> got.o_ses then add "sessions" "-" (show_ses exp.o_ses) (show_ses got.o_ses);
    if exp.o_lst <> got.o_lst then add "listing" "-" (show_centries exp.o_lst) (show_centries got.o_lst);
    if exp.o_file <> got.o_file then begin
      let show = function None -> "none" | Some l -> show_ses l in
      add "file" "-" (show exp.o_file) (show got.o_file)
    end;
    if exp.o_now <> got.o_now then add "now" "-" (string_of_int exp.o_now) (string_of_int got.o_now)
  end;
  List.rev !out

let empty_obs = { o_now = 0; o_thr = []; o_tab = []; o_tmr = []; o_ses = []; o_lst = []; o_file = None; o_crashed = false }

let check (file : ostring) =
  let ic = open_in file in
  let sid = ref "" and cfg = ref (cfg_of false) in
  let s = ref sv_init in
  let cur_k = ref (-1) in
  let blk : obs option ref = ref None in
  let ndiff = ref 0 and first = ref None and nitems = ref 0 and bad = ref None in
  let active = ref false and comparing = ref true in
  let nlogged = ref 0 in
  let flush_items () =
    List.iter (fun (tag, it) -> incr nlogged; Printf.printf "V %s i %c %s\n" !sid tag (tok_of_sitem it)) (List.rev !applied);
    applied := [] in
  log_items := true;
  let settle_forced () =
    let rec go fuel = if fuel > 0 then match forced_of !cfg !s with
        | f :: _ ->
            log_tag := 'f';
            let s' = apply !cfg !s f in
            log_tag := 'e';
            List.iter print_endline (ghost_lines (!sid ^ " ") !cur_k (new_events !s s'));
            s := s'; go (fuel - 1)
        | [] -> () in
    go 64 in
  let shut_tids () = List.filter_map (fun (t, th) -> match th.st_op with SShutdown -> Some t | _ -> None) (threads_sorted !s) in
  let flush_block () =
    (match !blk with
     | Some got when !comparing ->
         settle_forced ();
         let norm l = List.sort compare l in
         let got = { got with o_thr = norm got.o_thr; o_tab = norm (List.filter (fun (_, _, ks) -> ks <> []) got.o_tab); o_tmr = norm got.o_tmr;
                              o_ses = norm got.o_ses; o_lst = norm got.o_lst;
                              o_file = (match got.o_file with Some l -> Some (norm l) | None -> None) } in
         flush_items ();
         Printf.printf "V %s o %d %s\n" !sid !cur_k (obs_line !s);
         let ds = compare_obs !sid !cur_k (shut_tids ()) (observe !s) got in
         List.iter (fun (kind, line) ->
             print_endline line; incr ndiff;
             if !first = None then first := Some (!cur_k, kind)) ds
     | _ -> ());
    blk := None in
  let finish complete =
    if !active then begin
      flush_block ();
      (match !bad with Some m -> Printf.printf "B %s %s\n" !sid m | None -> ());
      (match !first with
       | None -> Printf.printf "R %s ok %d %d\n" !sid !nitems (if complete then 1 else 0)
       | Some (k, kind) -> Printf.printf "R %s diff %d %s %d %d\n" !sid k kind !ndiff (if complete then 1 else 0));
      List.iter print_endline (final_ghost (!sid ^ " ") !s);
      Printf.printf "G %s crashed %d\n" !sid (if !s.v_crashed then 1 else 0);
      flush_items ();
      Printf.printf "V %s o end %s\n" !sid (obs_line !s);
      Printf.printf "V %s z %d\n" !sid !nlogged
    end;
    active := false in
  (try
     while true do
       let line = input_line ic in
       try
         match split_ws line with
         | ["S"; id] ->
             finish false;
             sid := id; s := sv_init; cfg := cfg_of false; cur_k := -1; blk := None; ndiff := 0; first := None; nitems := 0; bad := None;
             active := true; comparing := true; applied := []; nlogged := 0
         | ["C"; v] -> cfg := cfg_of (v = "1")
         | "I" :: k :: rest when !active && !comparing ->
             flush_block ();
             let it = hitem_of_toks rest in
             if not (is_forced it) then settle_forced ();
             let s' = apply !cfg !s it in
             let kk = int_of_string k in
             let evs = new_events !s s' in
             List.iter print_endline (ghost_lines (!sid ^ " ") kk evs);
             List.iter print_endline (over_lines (!sid ^ " ") kk evs s');
             s := s'; cur_k := kk; incr nitems
         | "J" :: _ when !active -> flush_block (); comparing := false      (* harness-only epilogue items: nothing to compare from here on *)
         | ["X"; k; now] when !active -> flush_block (); cur_k := int_of_string k; blk := Some { empty_obs with o_now = int_of_string now }
         | "T" :: t :: rest when !active ->
             (match !blk with Some b -> blk := Some { b with o_thr = (int_of_string t, stat_of_toks rest) :: b.o_thr } | None -> ())
         | "L" :: name :: size :: _ :: keys when !active ->
             (match !blk with Some b -> blk := Some { b with o_tab = (name, int_of_string size, keys) :: b.o_tab } | None -> ())
         | ["A"; name; key] when !active ->
             (match !blk with Some b -> blk := Some { b with o_tmr = (name, key) :: b.o_tmr } | None -> ())
         | "P" :: sid' :: _ :: rest when !active ->
             (match !blk with Some b -> blk := Some { b with o_ses = (sid', centries_of_toks rest) :: b.o_ses } | None -> ())
         | "G" :: _ :: rest when !active ->
             (match !blk with Some b -> blk := Some { b with o_lst = centries_of_toks rest } | None -> ())
         | ["F"; v] when !active ->
             (match !blk with Some b -> blk := Some { b with o_file = (if v = "1" then Some [] else None) } | None -> ())
         | "Q" :: sid' :: _ :: rest when !active ->
             (match !blk with
              | Some b -> blk := Some { b with o_file = Some ((sid', centries_of_toks rest) :: (match b.o_file with Some l -> l | None -> [])) }
              | None -> ())
         | ["K"; c] when !active ->
             (match !blk with Some b -> blk := Some { b with o_crashed = (c = "1") } | None -> ())
         | ["Z"] -> finish true
         | _ -> ()
       with Bad m | Failure m -> bad := Some ("parse:" ^ String.map (fun c -> if c = ' ' then '_' else c) m)
     done
   with End_of_file -> ());
  finish false;
  close_in ic


(* ---- trace: the extracted trace predicates on the observations ---- *)
let label_index (l : ostring) : int =
  let rec go i = if i >= Array.length label_names then 99 else if label_names.(i) = l then i else go (i + 1) in
  go 0

let trace (file : ostring) =
  let ic = open_in file in
  let sid = ref "" and active = ref false and noclear = ref false in
  let tr : (int * sitem * svobs) list ref = ref [] in                 (* newest first: item number, item, observation *)
  let tidmap : (int, int) Hashtbl.t = Hashtbl.create 16 in
  let kinds : (int, okind) Hashtbl.t = Hashtbl.create 16 in           (* real thread id -> what it is *)
  let pending : (int * hitem) option ref = ref None in
  let blk : (obs * bool) option ref = ref None in                     (* the open block, file undecodable *)
  let bad : ostring list ref = ref [] in
  let note m = if not (List.mem m !bad) then bad := m :: !bad in
  let small (t : int) : nat =
    match Hashtbl.find_opt tidmap t with
    | Some i -> nat_of_int i
    | None -> let i = Hashtbl.length tidmap + 1 in Hashtbl.replace tidmap t i; nat_of_int i in
  let centry (n, k, z) = { cl_name = str_of_hex n; cl_key = str_of_hex k; cl_size = z_of_int z } in
  let item_of (h : hitem) : sitem =
    match h with
    | HConnect s -> VConnect s
    | HCall (t, op) -> VCall (small t, op)
    | HRun t | HWake t -> VRun (small t)
    | HCancel (t, e) -> VCancel (small t, e)
    | HConnEnd s -> VConnEnd s
    | HTick d -> VTick (z_of_int d)
    | HSignal -> VSignal in
  let svobs_of (o : obs) : svobs =
    let thr = List.filter_map (fun (t, st) ->
        match Hashtbl.find_opt kinds t with
        | None -> note (Printf.sprintf "unknown-goroutine:%d" t); None
        | Some kind ->
            let st' = match st with
              | SP l -> OsP (nat_of_int (label_index l))
              | SB -> OsB
              | SF (ok, e) -> OsF { sr_ok = ok; sr_err = err_of_tok e }
              | SE -> OsE
              | SZ -> note (Printf.sprintf "panic:%d" t); OsE in
            Some (small t, { ot_kind = kind; ot_st = st' })) (List.rev o.o_thr) in
    { ob_thr = thr;
      ob_table = List.rev_map (fun (n, z, ks) -> (str_of_hex n, (z_of_int z, List.map str_of_hex ks))) o.o_tab;
      ob_tmkeys = List.rev_map (fun (n, k) -> (str_of_hex n, str_of_hex k)) o.o_tmr;
      ob_sess = List.rev_map (fun (s, l) -> (str_of_hex s, List.map centry l)) o.o_ses;
      ob_listing = List.map centry o.o_lst;
      ob_file = (match o.o_file with None -> None | Some l -> Some (List.rev_map (fun (s, l) -> (str_of_hex s, List.map centry l)) l)) } in
  let flush_block () =
    (match !blk, !pending with
     | Some (o, fbad), Some (k, h) ->
         if fbad then note (Printf.sprintf "file-undecodable:%d" k);
         tr := (k, item_of h, svobs_of o) :: !tr;
         pending := None
     | Some _, None -> note "block-without-item"
     | None, _ -> ());
    blk := None in
  let register_spawn (toks : ostring list) =
    let rec after = function [] -> [] | "spawn" :: r -> r | _ :: r -> after r in
    List.iter (fun a ->
        match String.split_on_char ':' a with
        | [t; "x"; n; k] -> Hashtbl.replace kinds (int_of_string t) (OkExp (str_of_hex n, str_of_hex k))
        | [t; "d"; s] -> Hashtbl.replace kinds (int_of_string t) (OkDs (str_of_hex s))
        | [t; "s"] -> Hashtbl.replace kinds (int_of_string t) OkSh
        | _ -> ()) (after toks) in
  let finish () =
    if !active then begin
      flush_block ();
      let l = List.rev !tr in
      let ks = Array.of_list (List.map (fun (k, _, _) -> k) l) in
      let h = List.map (fun (_, it, o) -> (it, o)) l in
      let show = function
        | None -> "-"
        | Some n -> let n = int_of_nat n in Printf.sprintf "%d@%d" n (if n >= 0 && n < Array.length ks then ks.(n) else -1) in
      List.iter (fun m -> Printf.printf "QB %s %s\n" !sid m) (List.rev !bad);
      (match sv_trace_verdict !noclear h with
       | [unl; ren; c06; c06f; live; ended; bound; surplus; over; keeps] ->
           Printf.printf "Q %s %d noclear=%d unlock=%s renew=%s c06=%s c06f=%s live=%s ended=%s bound=%s surplus=%s over=%s keeps=%s fleak=%d\n"
             !sid (List.length h) (if !noclear then 1 else 0) (show unl) (show ren) (show c06) (show c06f) (show live) (show ended) (show bound)
             (show surplus) (show over) (show keeps) (if sig_fleak h then 1 else 0)
       | _ -> Printf.printf "QB %s verdict-shape\n" !sid)
    end;
    active := false in
  (try
     while true do
       let line = input_line ic in
       try
         match split_ws line with
         | ["S"; id] ->
             finish ();
             sid := id; active := true; noclear := false; tr := []; Hashtbl.reset tidmap; Hashtbl.reset kinds; pending := None; blk := None; bad := []
         | ["C"; v] when !active -> noclear := (v = "1")
         | ("I" | "J") :: k :: rest when !active ->
             flush_block ();
             register_spawn rest;
             let it = hitem_of_toks rest in
             (match it with HCall (t, op) -> Hashtbl.replace kinds t (OkCall op) | _ -> ());
             if not (is_forced it) then begin
               (match !pending with Some (k0, _) -> note (Printf.sprintf "item-without-observation:%d" k0) | None -> ());
               pending := Some (int_of_string k, it)
             end
         | ["M"; "thr"; t; "x"; n; k] when !active -> Hashtbl.replace kinds (int_of_string t) (OkExp (str_of_hex n, str_of_hex k))
         | ["M"; "thr"; t; "d"; s] when !active -> Hashtbl.replace kinds (int_of_string t) (OkDs (str_of_hex s))
         | "M" :: "thr" :: t :: "s" :: _ when !active -> Hashtbl.replace kinds (int_of_string t) OkSh
         | "M" :: _ | "MQ" :: _ | "N" :: _ -> ()
         | [("X" | "Y"); _; now] when !active -> flush_block (); blk := Some ({ empty_obs with o_now = int_of_string now }, false)
         | "T" :: t :: rest when !active ->
             (match !blk with Some (b, f) -> blk := Some ({ b with o_thr = (int_of_string t, stat_of_toks rest) :: b.o_thr }, f) | None -> ())
         | "L" :: name :: size :: _ :: keys when !active ->
             (match !blk with Some (b, f) -> blk := Some ({ b with o_tab = (name, int_of_string size, keys) :: b.o_tab }, f) | None -> ())
         | ["A"; name; key] when !active ->
             (match !blk with Some (b, f) -> blk := Some ({ b with o_tmr = (name, key) :: b.o_tmr }, f) | None -> ())
         | "P" :: sid' :: _ :: rest when !active ->
             (match !blk with Some (b, f) -> blk := Some ({ b with o_ses = (sid', centries_of_toks rest) :: b.o_ses }, f) | None -> ())
         | "G" :: n :: rest when !active && (match int_of_string_opt n with Some _ -> true | None -> false) ->
             (match !blk with Some (b, f) -> blk := Some ({ b with o_lst = centries_of_toks rest }, f) | None -> ())
         | "F" :: v :: _ when !active ->
             (match !blk with Some (b, _) -> blk := Some ({ b with o_file = (if v = "1" then Some [] else None) }, v = "2") | None -> ())
         | "Q" :: sid' :: _ :: rest when !active ->
             (match !blk with
              | Some (b, f) -> blk := Some ({ b with o_file = Some ((sid', centries_of_toks rest) :: (match b.o_file with Some l -> l | None -> [])) }, f)
              | None -> ())
         | ["Z"] -> finish ()
         | _ -> ()
       with Bad m | Failure m -> note ("parse:" ^ String.map (fun c -> if c = ' ' then '_' else c) m)
     done
   with End_of_file -> ());
  finish ();
  close_in ic

let () =
  match Array.to_list Sys.argv with
  | [_; "gen"; file; seed] -> (try gen file (int_of_string seed) with Bad m -> prerr_endline ("bad input: " ^ m); exit 2)
  | [_; "expand"; file] -> (try expand file with Bad m -> prerr_endline ("bad input: " ^ m); exit 2)
  | [_; "check"; file] -> check file
  | [_; "trace"; file] -> trace file
  | _ -> prerr_endline "usage: svdriver gen <scenario file> <seed> | svdriver expand <plain schedules> | svdriver check <observed file> | svdriver trace <observed file>"; exit 2
