#!/bin/sh
# Extracts Msv (Model/Sv.v) from the compiled Coq development and builds the layer-2 schedule driver.
# The soundness lemmas of the generator's filter (sitem_okb_sound) follow the Extraction command in SvExtract.v: when they
# no longer check, the extraction has still been written; the status goes to okb_sound.status.
set -e
cd "$(dirname "$0")"
rm -f svmodel.ml svmodel.mli
if timeout 600 coqc -Q ../../coq Ldlm -w -notation-overridden,-extraction-opaque-accessed ../../coq/Extract/SvExtract.v >../../.work/sv-coqc.log 2>&1; then
  echo "checked" > okb_sound.status
else
  if [ -f svmodel.ml ]; then echo "NOT checked: $(tail -c 300 ../../.work/sv-coqc.log | tr '\n' ' ')" > okb_sound.status; else cat ../../.work/sv-coqc.log; exit 1; fi
fi
rm -f ../../coq/Extract/SvExtract.vo ../../coq/Extract/SvExtract.glob ../../coq/Extract/SvExtract.vos ../../coq/Extract/SvExtract.vok ../../coq/Extract/.SvExtract.aux
rm -f SvExtract.vo SvExtract.glob SvExtract.vos SvExtract.vok .SvExtract.aux
# the binary is replaced atomically: another check may be running the old one
timeout 600 ocamlfind ocamlopt -O2 -w -a svmodel.mli svmodel.ml driver.ml -o svdriver.new 2>/dev/null || \
timeout 600 ocamlfind ocamlopt -w -a svmodel.mli svmodel.ml driver.ml -o svdriver.new
mv -f svdriver.new svdriver
