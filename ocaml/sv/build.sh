#!/bin/sh
# Extracts Msv (Model/Sv.v) from the compiled Coq development and builds the layer-2 schedule driver.
set -e
cd "$(dirname "$0")"
timeout 600 coqc -Q ../../coq Ldlm -w -notation-overridden,-extraction-opaque-accessed ../../coq/Extract/SvExtract.v >/dev/null
rm -f ../../coq/Extract/SvExtract.vo ../../coq/Extract/SvExtract.glob ../../coq/Extract/SvExtract.vos ../../coq/Extract/SvExtract.vok ../../coq/Extract/.SvExtract.aux
rm -f SvExtract.vo SvExtract.glob SvExtract.vos SvExtract.vok .SvExtract.aux
timeout 600 ocamlfind ocamlopt -O2 -w -a svmodel.mli svmodel.ml driver.ml -o svdriver 2>/dev/null || \
timeout 600 ocamlfind ocamlopt -w -a svmodel.mli svmodel.ml driver.ml -o svdriver
