
type __ = Obj.t

val negb : bool -> bool

type nat =
| O
| S of nat

val option_map : ('a1 -> 'a2) -> 'a1 option -> 'a2 option

val fst : ('a1 * 'a2) -> 'a1

val app : 'a1 list -> 'a1 list -> 'a1 list

type comparison =
| Eq
| Lt
| Gt

val compOpp : comparison -> comparison

val id : __ -> __

val add : nat -> nat -> nat

type byte =
| X00
| X01
| X02
| X03
| X04
| X05
| X06
| X07
| X08
| X09
| X0a
| X0b
| X0c
| X0d
| X0e
| X0f
| X10
| X11
| X12
| X13
| X14
| X15
| X16
| X17
| X18
| X19
| X1a
| X1b
| X1c
| X1d
| X1e
| X1f
| X20
| X21
| X22
| X23
| X24
| X25
| X26
| X27
| X28
| X29
| X2a
| X2b
| X2c
| X2d
| X2e
| X2f
| X30
| X31
| X32
| X33
| X34
| X35
| X36
| X37
| X38
| X39
| X3a
| X3b
| X3c
| X3d
| X3e
| X3f
| X40
| X41
| X42
| X43
| X44
| X45
| X46
| X47
| X48
| X49
| X4a
| X4b
| X4c
| X4d
| X4e
| X4f
| X50
| X51
| X52
| X53
| X54
| X55
| X56
| X57
| X58
| X59
| X5a
| X5b
| X5c
| X5d
| X5e
| X5f
| X60
| X61
| X62
| X63
| X64
| X65
| X66
| X67
| X68
| X69
| X6a
| X6b
| X6c
| X6d
| X6e
| X6f
| X70
| X71
| X72
| X73
| X74
| X75
| X76
| X77
| X78
| X79
| X7a
| X7b
| X7c
| X7d
| X7e
| X7f
| X80
| X81
| X82
| X83
| X84
| X85
| X86
| X87
| X88
| X89
| X8a
| X8b
| X8c
| X8d
| X8e
| X8f
| X90
| X91
| X92
| X93
| X94
| X95
| X96
| X97
| X98
| X99
| X9a
| X9b
| X9c
| X9d
| X9e
| X9f
| Xa0
| Xa1
| Xa2
| Xa3
| Xa4
| Xa5
| Xa6
| Xa7
| Xa8
| Xa9
| Xaa
| Xab
| Xac
| Xad
| Xae
| Xaf
| Xb0
| Xb1
| Xb2
| Xb3
| Xb4
| Xb5
| Xb6
| Xb7
| Xb8
| Xb9
| Xba
| Xbb
| Xbc
| Xbd
| Xbe
| Xbf
| Xc0
| Xc1
| Xc2
| Xc3
| Xc4
| Xc5
| Xc6
| Xc7
| Xc8
| Xc9
| Xca
| Xcb
| Xcc
| Xcd
| Xce
| Xcf
| Xd0
| Xd1
| Xd2
| Xd3
| Xd4
| Xd5
| Xd6
| Xd7
| Xd8
| Xd9
| Xda
| Xdb
| Xdc
| Xdd
| Xde
| Xdf
| Xe0
| Xe1
| Xe2
| Xe3
| Xe4
| Xe5
| Xe6
| Xe7
| Xe8
| Xe9
| Xea
| Xeb
| Xec
| Xed
| Xee
| Xef
| Xf0
| Xf1
| Xf2
| Xf3
| Xf4
| Xf5
| Xf6
| Xf7
| Xf8
| Xf9
| Xfa
| Xfb
| Xfc
| Xfd
| Xfe
| Xff

val of_bits :
  (bool * (bool * (bool * (bool * (bool * (bool * (bool * bool))))))) -> byte

val to_bits :
  byte -> bool * (bool * (bool * (bool * (bool * (bool * (bool * bool))))))

val eqb : bool -> bool -> bool

module Nat :
 sig
  val eq_dec : nat -> nat -> bool
 end

type positive =
| XI of positive
| XO of positive
| XH

type n =
| N0
| Npos of positive

type z =
| Z0
| Zpos of positive
| Zneg of positive

module Pos :
 sig
  val succ : positive -> positive

  val add : positive -> positive -> positive

  val add_carry : positive -> positive -> positive

  val pred_double : positive -> positive

  val pred : positive -> positive

  val compare_cont : comparison -> positive -> positive -> comparison

  val compare : positive -> positive -> comparison

  val eqb : positive -> positive -> bool

  val iter_op : ('a1 -> 'a1 -> 'a1) -> positive -> 'a1 -> 'a1

  val to_nat : positive -> nat

  val of_succ_nat : nat -> positive

  val eq_dec : positive -> positive -> bool
 end

module N :
 sig
  val to_nat : n -> nat

  val of_nat : nat -> n

  val eq_dec : n -> n -> bool
 end

val list_eq_dec : ('a1 -> 'a1 -> bool) -> 'a1 list -> 'a1 list -> bool

val map : ('a1 -> 'a2) -> 'a1 list -> 'a2 list

val flat_map : ('a1 -> 'a2 list) -> 'a1 list -> 'a2 list

val fold_left : ('a1 -> 'a2 -> 'a1) -> 'a2 list -> 'a1 -> 'a1

val forallb : ('a1 -> bool) -> 'a1 list -> bool

module Z :
 sig
  val double : z -> z

  val succ_double : z -> z

  val pred_double : z -> z

  val pos_sub : positive -> positive -> z

  val add : z -> z -> z

  val opp : z -> z

  val sub : z -> z -> z

  val compare : z -> z -> comparison

  val leb : z -> z -> bool

  val ltb : z -> z -> bool

  val eqb : z -> z -> bool

  val max : z -> z -> z

  val eq_dec : z -> z -> bool
 end

val eqb0 : byte -> byte -> bool

val byte_eq_dec : byte -> byte -> bool

val to_N : byte -> n

val of_N : n -> byte option

type ascii =
| Ascii of bool * bool * bool * bool * bool * bool * bool * bool

val byte_of_ascii : ascii -> byte

type string =
| EmptyString
| String of ascii * string

val list_ascii_of_string : string -> ascii list

val list_byte_of_string : string -> byte list

type decision = bool

val decide : decision -> bool

type ('a, 'b) relDecision = 'a -> 'b -> decision

val decide_rel : ('a1, 'a2) relDecision -> 'a1 -> 'a2 -> decision

type 'a empty = 'a

val empty0 : 'a1 empty -> 'a1

type ('a, 'b) filter = __ -> ('a -> decision) -> 'b -> 'b

val filter0 : ('a1, 'a2) filter -> ('a1 -> decision) -> 'a2 -> 'a2

type 'm mRet = __ -> __ -> 'm

val mret : 'a1 mRet -> 'a2 -> 'a1

type 'm mBind = __ -> __ -> (__ -> 'm) -> 'm -> 'm

val mbind : 'a1 mBind -> ('a2 -> 'a1) -> 'a1 -> 'a1

type 'm fMap = __ -> __ -> (__ -> __) -> 'm -> 'm

val fmap : 'a1 fMap -> ('a2 -> 'a3) -> 'a1 -> 'a1

type 'm oMap = __ -> __ -> (__ -> __ option) -> 'm -> 'm

val omap : 'a1 oMap -> ('a2 -> 'a3 option) -> 'a1 -> 'a1

type ('k, 'a, 'm) lookup = 'k -> 'm -> 'a option

val lookup0 : ('a1, 'a2, 'a3) lookup -> 'a1 -> 'a3 -> 'a2 option

type ('k, 'a, 'm) insert = 'k -> 'a -> 'm -> 'm

val insert0 : ('a1, 'a2, 'a3) insert -> 'a1 -> 'a2 -> 'a3 -> 'a3

type ('k, 'm) delete = 'k -> 'm -> 'm

val delete0 : ('a1, 'a2) delete -> 'a1 -> 'a2 -> 'a2

type ('k, 'a, 'm) partialAlter = ('a option -> 'a option) -> 'k -> 'm -> 'm

val partial_alter :
  ('a1, 'a2, 'a3) partialAlter -> ('a2 option -> 'a2 option) -> 'a1 -> 'a3 ->
  'a3

val not_dec : decision -> decision

val bool_decide : decision -> bool

val from_option : ('a1 -> 'a2) -> 'a2 -> 'a1 option -> 'a2

val option_eq_None_dec : 'a1 option -> decision

val option_ret : __ -> __ option

val option_bind : (__ -> __ option) -> __ option -> __ option

val option_fmap : (__ -> __) -> __ option -> __ option

module Coq_Nat :
 sig
  val eq_dec : (nat, nat) relDecision
 end

module Coq_Pos :
 sig
  val eq_dec : (positive, positive) relDecision

  val app : positive -> positive -> positive

  val reverse_go : positive -> positive -> positive

  val reverse : positive -> positive

  val dup : positive -> positive
 end

val n_eq_dec : (n, n) relDecision

module Coq_Z :
 sig
  val eq_dec : (z, z) relDecision
 end

val list_filter : ('a1 -> decision) -> 'a1 list -> 'a1 list

val list_fmap : (__ -> __) -> __ list -> __ list

val list_omap : (__ -> __ option) -> __ list -> __ list

val mapM : 'a1 mBind -> 'a1 mRet -> ('a2 -> 'a1) -> 'a2 list -> 'a1

val elem_of_list_dec : ('a1, 'a1) relDecision -> ('a1, 'a1 list) relDecision

val positives_flatten_go : positive list -> positive -> positive

val positives_flatten : positive list -> positive

val positives_unflatten_go :
  positive -> positive list -> positive -> positive list option

val positives_unflatten : positive -> positive list option

val list_eq_dec0 : ('a1, 'a1) relDecision -> ('a1 list, 'a1 list) relDecision

val list_eq_nil_dec : 'a1 list -> decision

type 'a countable = { encode : ('a -> positive);
                      decode : (positive -> 'a option) }

val inj_countable :
  ('a1, 'a1) relDecision -> 'a1 countable -> ('a2, 'a2) relDecision -> ('a2
  -> 'a1) -> ('a1 -> 'a2 option) -> 'a2 countable

val list_countable :
  ('a1, 'a1) relDecision -> 'a1 countable -> 'a1 list countable

val n_countable : n countable

val nat_countable : nat countable

type ('k, 'a, 'm) finMapToList = 'm -> ('k * 'a) list

val map_to_list : ('a1, 'a2, 'a3) finMapToList -> 'a3 -> ('a1 * 'a2) list

val map_insert : ('a1, 'a2, 'a3) partialAlter -> ('a1, 'a2, 'a3) insert

val map_delete : ('a1, 'a2, 'a3) partialAlter -> ('a1, 'a3) delete

type 'a pmap_raw =
| PLeaf
| PNode of 'a option * 'a pmap_raw * 'a pmap_raw

val pNode' : 'a1 option -> 'a1 pmap_raw -> 'a1 pmap_raw -> 'a1 pmap_raw

val pempty_raw : 'a1 pmap_raw empty

val plookup_raw : (positive, 'a1, 'a1 pmap_raw) lookup

val psingleton_raw : positive -> 'a1 -> 'a1 pmap_raw

val ppartial_alter_raw :
  ('a1 option -> 'a1 option) -> positive -> 'a1 pmap_raw -> 'a1 pmap_raw

val pto_list_raw :
  positive -> 'a1 pmap_raw -> (positive * 'a1) list -> (positive * 'a1) list

type 'a pmap =
  'a pmap_raw
  (* singleton inductive, whose constructor was PMap *)

val pmap_car : 'a1 pmap -> 'a1 pmap_raw

val pempty : 'a1 pmap empty

val plookup : (positive, 'a1, 'a1 pmap) lookup

val ppartial_alter : (positive, 'a1, 'a1 pmap) partialAlter

val pto_list : (positive, 'a1, 'a1 pmap) finMapToList

type ('k, 'a) gmap =
  'a pmap
  (* singleton inductive, whose constructor was GMap *)

val gmap_lookup :
  ('a1, 'a1) relDecision -> 'a1 countable -> ('a1, 'a2, ('a1, 'a2) gmap)
  lookup

val gmap_empty :
  ('a1, 'a1) relDecision -> 'a1 countable -> ('a1, 'a2) gmap empty

val gmap_partial_alter :
  ('a1, 'a1) relDecision -> 'a1 countable -> ('a1, 'a2, ('a1, 'a2) gmap)
  partialAlter

val gmap_to_list :
  ('a1, 'a1) relDecision -> 'a1 countable -> ('a1, 'a2, ('a1, 'a2) gmap)
  finMapToList

type str = byte list

val byte_eq_dec0 : (byte, byte) relDecision

val byte_countable : byte countable

type err =
| ESrvEmptyName
| ESrvLockWaitTimeout
| ESrvDoesNotExistOrInvalidKey
| ESrvSessionDoesNotExist
| ESrvInvalidLockTimeout
| ESrvInvalidWaitTimeout
| ELockInvalidLockKey
| ELockNotLocked
| ELockDoesNotExist
| ELockManagerShutdown
| ELockSizeMismatch
| ELockInvalidLockSize
| ETimerDoesNotExist
| ECtxCanceled
| ECtxDeadlineExceeded
| EOther

val all_errs : err list

val err_go_name : err -> string

type ('r, 't) setter = ('t -> 't) -> 'r -> 'r

val set : ('a1 -> 'a2) -> ('a1, 'a2) setter -> ('a2 -> 'a2) -> 'a1 -> 'a1

type lop =
| OTry of str * str * z
| OLock of str * str * z
| OUnl of str * str

type lres = { r_ok : bool; r_err : err option }

val op_name : lop -> str

val op_key : lop -> str

val op_size : lop -> z

type lpc =
| PEnter
| PGet
| PChkDel of nat
| PTryAcq of nat
| PAcqEnter of nat
| PAcqWait of nat
| PAcqWoken of nat
| PAcqCancel of nat
| PRelCancel of nat
| PAddKey of nat
| PUnlChk of nat
| PUnlRem of nat
| PDone of nat * lres
| PFin of lres

type thread = { t_op : lop; t_pc : lpc; t_cancel : err option }

type lobj = { o_name : str; o_size : z; o_keys : str list; o_cur : z;
              o_waitq : nat list; o_ready : nat list; o_last : z;
              o_deleted : bool; o_users : z }

type linact =
| LaCreate of str * z
| LaGc of str
| LaErr of nat * err
| LaTryOk of nat * str * str
| LaTryBusy of nat * str
| LaEnq of nat * str
| LaGrant of nat * str * str
| LaLeave of nat * str * err
| LaGiveBack of nat * str * str * err
| LaUnlOk of nat * str * str
| LaUnlBad of nat * str * str

type lev =
| EvInv of nat * lop
| EvRes of nat * lres
| EvLin of linact
| EvPanic of nat
| EvShutdown

type lstate = { l_heap : (nat, lobj) gmap; l_map : (str, nat) gmap;
                l_next : nat; l_shut : bool; l_now : z;
                l_thr : (nat, thread) gmap; l_crashed : bool;
                l_trace : lev list }

val l_init : lstate

type item =
| ICall of nat * lop
| IRun of nat
| IRunCancel of nat
| ICancel of nat * err
| IGc of str
| ITick of z
| IShutdown

val emit : lev -> lstate -> lstate

val set_pc : nat -> lpc -> lstate -> lstate

val set_obj : nat -> lobj -> lstate -> lstate

val finish : nat -> lres -> lstate -> lstate

val res_err : err -> lres

val key_of : lstate -> nat -> str

val notify_loop : nat list -> z -> z -> nat list -> (nat list * z) * nat list

val notify : lobj -> lobj * nat list

val emit_grants : str -> nat list -> lstate -> lstate

val remove_first : str -> str list -> str list

val in_flight : lpc -> bool

val no_call_in_flight : lstate -> bool

val run_thread : z -> nat -> thread -> lstate -> lstate

val gc_one : z -> str -> lstate -> lstate

val shutdown_all : lstate -> lstate

val lstep : z -> lstate -> item -> lstate

val pc_label : lpc -> nat

val blocked : lstate -> nat -> bool

val l_table : lstate -> (str * (z * str list)) list

val lk_threads : lstate -> (nat * thread) list

val lk_objs : lstate -> (nat * lobj) list

val lk_names : lstate -> str list

val lk_table : lstate -> (str * (z * str list)) list

val lk_forced : lstate -> item list

val lk_gcpass : lstate -> item list

val lk_enabled : lstate -> nat -> bool

val lk_finished : lstate -> nat -> bool

val lk_result : lpc -> lres option

val byte_to_N : byte -> n

val byte_of_N : n -> byte option

val err_name_b : err -> byte list
