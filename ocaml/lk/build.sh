#!/bin/sh
# Extracts Mlk (Model/Lk.v) from the compiled Coq development and builds the schedule driver.
set -e
cd "$(dirname "$0")"
timeout 600 coqc -Q ../../coq Ldlm -w -notation-overridden,-extraction-opaque-accessed ../../coq/Extract/LkExtract.v >/dev/null
rm -f ../../coq/Extract/LkExtract.vo ../../coq/Extract/LkExtract.glob ../../coq/Extract/LkExtract.vos ../../coq/Extract/LkExtract.vok ../../coq/Extract/.LkExtract.aux
rm -f LkExtract.vo LkExtract.glob LkExtract.vos LkExtract.vok .LkExtract.aux
timeout 600 ocamlfind ocamlopt -O2 -w -a lkmodel.mli lkmodel.ml driver.ml -o lkdriver 2>/dev/null || \
timeout 600 ocamlfind ocamlopt -w -a lkmodel.mli lkmodel.ml driver.ml -o lkdriver
