
type __ = Obj.t
let __ = let rec f _ = Obj.repr f in Obj.repr f

(** val negb : bool -> bool **)

let negb = function
| true -> false
| false -> true

type nat =
| O
| S of nat

(** val option_map : ('a1 -> 'a2) -> 'a1 option -> 'a2 option **)

let option_map f = function
| Some a -> Some (f a)
| None -> None

(** val fst : ('a1 * 'a2) -> 'a1 **)

let fst = function
| (x, _) -> x

(** val app : 'a1 list -> 'a1 list -> 'a1 list **)

let rec app l m =
  match l with
  | [] -> m
  | a :: l1 -> a :: (app l1 m)

type comparison =
| Eq
| Lt
| Gt

(** val compOpp : comparison -> comparison **)

let compOpp = function
| Eq -> Eq
| Lt -> Gt
| Gt -> Lt

(** val id : __ -> __ **)

let id x =
  x

module Coq__1 = struct
 (** val add : nat -> nat -> nat **)
 let rec add n0 m =
   match n0 with
   | O -> m
   | S p -> S (add p m)
end
include Coq__1

type byte =
| X00
| X01
| X02
| X03
| X04
| X05
| X06
| X07
| X08
| X09
| X0a
| X0b
| X0c
| X0d
| X0e
| X0f
| X10
| X11
| X12
| X13
| X14
| X15
| X16
| X17
| X18
| X19
| X1a
| X1b
| X1c
| X1d
| X1e
| X1f
| X20
| X21
| X22
| X23
| X24
| X25
| X26
| X27
| X28
| X29
| X2a
| X2b
| X2c
| X2d
| X2e
| X2f
| X30
| X31
| X32
| X33
| X34
| X35
| X36
| X37
| X38
| X39
| X3a
| X3b
| X3c
| X3d
| X3e
| X3f
| X40
| X41
| X42
| X43
| X44
| X45
| X46
| X47
| X48
| X49
| X4a
| X4b
| X4c
| X4d
| X4e
| X4f
| X50
| X51
| X52
| X53
| X54
| X55
| X56
| X57
| X58
| X59
| X5a
| X5b
| X5c
| X5d
| X5e
| X5f
| X60
| X61
| X62
| X63
| X64
| X65
| X66
| X67
| X68
| X69
| X6a
| X6b
| X6c
| X6d
| X6e
| X6f
| X70
| X71
| X72
| X73
| X74
| X75
| X76
| X77
| X78
| X79
| X7a
| X7b
| X7c
| X7d
| X7e
| X7f
| X80
| X81
| X82
| X83
| X84
| X85
| X86
| X87
| X88
| X89
| X8a
| X8b
| X8c
| X8d
| X8e
| X8f
| X90
| X91
| X92
| X93
| X94
| X95
| X96
| X97
| X98
| X99
| X9a
| X9b
| X9c
| X9d
| X9e
| X9f
| Xa0
| Xa1
| Xa2
| Xa3
| Xa4
| Xa5
| Xa6
| Xa7
| Xa8
| Xa9
| Xaa
| Xab
| Xac
| Xad
| Xae
| Xaf
| Xb0
| Xb1
| Xb2
| Xb3
| Xb4
| Xb5
| Xb6
| Xb7
| Xb8
| Xb9
| Xba
| Xbb
| Xbc
| Xbd
| Xbe
| Xbf
| Xc0
| Xc1
| Xc2
| Xc3
| Xc4
| Xc5
| Xc6
| Xc7
| Xc8
| Xc9
| Xca
| Xcb
| Xcc
| Xcd
| Xce
| Xcf
| Xd0
| Xd1
| Xd2
| Xd3
| Xd4
| Xd5
| Xd6
| Xd7
| Xd8
| Xd9
| Xda
| Xdb
| Xdc
| Xdd
| Xde
| Xdf
| Xe0
| Xe1
| Xe2
| Xe3
| Xe4
| Xe5
| Xe6
| Xe7
| Xe8
| Xe9
| Xea
| Xeb
| Xec
| Xed
| Xee
| Xef
| Xf0
| Xf1
| Xf2
| Xf3
| Xf4
| Xf5
| Xf6
| Xf7
| Xf8
| Xf9
| Xfa
| Xfb
| Xfc
| Xfd
| Xfe
| Xff

(** val of_bits :
    (bool * (bool * (bool * (bool * (bool * (bool * (bool * bool))))))) ->
    byte **)

let of_bits = function
| (b0, p) ->
  if b0
  then let (b1, p0) = p in
       if b1
       then let (b2, p1) = p0 in
            if b2
            then let (b3, p2) = p1 in
                 if b3
                 then let (b4, p3) = p2 in
                      if b4
                      then let (b5, p4) = p3 in
                           if b5
                           then let (b6, b7) = p4 in
                                if b6
                                then if b7 then Xff else X7f
                                else if b7 then Xbf else X3f
                           else let (b6, b7) = p4 in
                                if b6
                                then if b7 then Xdf else X5f
                                else if b7 then X9f else X1f
                      else let (b5, p4) = p3 in
                           if b5
                           then let (b6, b7) = p4 in
                                if b6
                                then if b7 then Xef else X6f
                                else if b7 then Xaf else X2f
                           else let (b6, b7) = p4 in
                                if b6
                                then if b7 then Xcf else X4f
                                else if b7 then X8f else X0f
                 else let (b4, p3) = p2 in
                      if b4
                      then let (b5, p4) = p3 in
                           if b5
                           then let (b6, b7) = p4 in
                                if b6
                                then if b7 then Xf7 else X77
                                else if b7 then Xb7 else X37
                           else let (b6, b7) = p4 in
                                if b6
                                then if b7 then Xd7 else X57
                                else if b7 then X97 else X17
                      else let (b5, p4) = p3 in
                           if b5
                           then let (b6, b7) = p4 in
                                if b6
                                then if b7 then Xe7 else X67
                                else if b7 then Xa7 else X27
                           else let (b6, b7) = p4 in
                                if b6
                                then if b7 then Xc7 else X47
                                else if b7 then X87 else X07
            else let (b3, p2) = p1 in
                 if b3
                 then let (b4, p3) = p2 in
                      if b4
                      then let (b5, p4) = p3 in
                           if b5
                           then let (b6, b7) = p4 in
                                if b6
                                then if b7 then Xfb else X7b
                                else if b7 then Xbb else X3b
                           else let (b6, b7) = p4 in
                                if b6
                                then if b7 then Xdb else X5b
                                else if b7 then X9b else X1b
                      else let (b5, p4) = p3 in
                           if b5
                           then let (b6, b7) = p4 in
                                if b6
                                then if b7 then Xeb else X6b
                                else if b7 then Xab else X2b
                           else let (b6, b7) = p4 in
                                if b6
                                then if b7 then Xcb else X4b
                                else if b7 then X8b else X0b
                 else let (b4, p3) = p2 in
                      if b4
                      then let (b5, p4) = p3 in
                           if b5
                           then let (b6, b7) = p4 in
                                if b6
                                then if b7 then Xf3 else X73
                                else if b7 then Xb3 else X33
                           else let (b6, b7) = p4 in
                                if b6
                                then if b7 then Xd3 else X53
                                else if b7 then X93 else X13
                      else let (b5, p4) = p3 in
                           if b5
                           then let (b6, b7) = p4 in
                                if b6
                                then if b7 then Xe3 else X63
                                else if b7 then Xa3 else X23
                           else let (b6, b7) = p4 in
                                if b6
                                then if b7 then Xc3 else X43
                                else if b7 then X83 else X03
       else let (b2, p1) = p0 in
            if b2
            then let (b3, p2) = p1 in
                 if b3
                 then let (b4, p3) = p2 in
                      if b4
                      then let (b5, p4) = p3 in
                           if b5
                           then let (b6, b7) = p4 in
                                if b6
                                then if b7 then Xfd else X7d
                                else if b7 then Xbd else X3d
                           else let (b6, b7) = p4 in
                                if b6
                                then if b7 then Xdd else X5d
                                else if b7 then X9d else X1d
                      else let (b5, p4) = p3 in
                           if b5
                           then let (b6, b7) = p4 in
                                if b6
                                then if b7 then Xed else X6d
                                else if b7 then Xad else X2d
                           else let (b6, b7) = p4 in
                                if b6
                                then if b7 then Xcd else X4d
                                else if b7 then X8d else X0d
                 else let (b4, p3) = p2 in
                      if b4
                      then let (b5, p4) = p3 in
                           if b5
                           then let (b6, b7) = p4 in
                                if b6
                                then if b7 then Xf5 else X75
                                else if b7 then Xb5 else X35
                           else let (b6, b7) = p4 in
                                if b6
                                then if b7 then Xd5 else X55
                                else if b7 then X95 else X15
                      else let (b5, p4) = p3 in
                           if b5
                           then let (b6, b7) = p4 in
                                if b6
                                then if b7 then Xe5 else X65
                                else if b7 then Xa5 else X25
                           else let (b6, b7) = p4 in
                                if b6
                                then if b7 then Xc5 else X45
                                else if b7 then X85 else X05
            else let (b3, p2) = p1 in
                 if b3
                 then let (b4, p3) = p2 in
                      if b4
                      then let (b5, p4) = p3 in
                           if b5
                           then let (b6, b7) = p4 in
                                if b6
                                then if b7 then Xf9 else X79
                                else if b7 then Xb9 else X39
                           else let (b6, b7) = p4 in
                                if b6
                                then if b7 then Xd9 else X59
                                else if b7 then X99 else X19
                      else let (b5, p4) = p3 in
                           if b5
                           then let (b6, b7) = p4 in
                                if b6
                                then if b7 then Xe9 else X69
                                else if b7 then Xa9 else X29
                           else let (b6, b7) = p4 in
                                if b6
                                then if b7 then Xc9 else X49
                                else if b7 then X89 else X09
                 else let (b4, p3) = p2 in
                      if b4
                      then let (b5, p4) = p3 in
                           if b5
                           then let (b6, b7) = p4 in
                                if b6
                                then if b7 then Xf1 else X71
                                else if b7 then Xb1 else X31
                           else let (b6, b7) = p4 in
                                if b6
                                then if b7 then Xd1 else X51
                                else if b7 then X91 else X11
                      else let (b5, p4) = p3 in
                           if b5
                           then let (b6, b7) = p4 in
                                if b6
                                then if b7 then Xe1 else X61
                                else if b7 then Xa1 else X21
                           else let (b6, b7) = p4 in
                                if b6
                                then if b7 then Xc1 else X41
                                else if b7 then X81 else X01
  else let (b1, p0) = p in
       if b1
       then let (b2, p1) = p0 in
            if b2
            then let (b3, p2) = p1 in
                 if b3
                 then let (b4, p3) = p2 in
                      if b4
                      then let (b5, p4) = p3 in
                           if b5
                           then let (b6, b7) = p4 in
                                if b6
                                then if b7 then Xfe else X7e
                                else if b7 then Xbe else X3e
                           else let (b6, b7) = p4 in
                                if b6
                                then if b7 then Xde else X5e
                                else if b7 then X9e else X1e
                      else let (b5, p4) = p3 in
                           if b5
                           then let (b6, b7) = p4 in
                                if b6
                                then if b7 then Xee else X6e
                                else if b7 then Xae else X2e
                           else let (b6, b7) = p4 in
                                if b6
                                then if b7 then Xce else X4e
                                else if b7 then X8e else X0e
                 else let (b4, p3) = p2 in
                      if b4
                      then let (b5, p4) = p3 in
                           if b5
                           then let (b6, b7) = p4 in
                                if b6
                                then if b7 then Xf6 else X76
                                else if b7 then Xb6 else X36
                           else let (b6, b7) = p4 in
                                if b6
                                then if b7 then Xd6 else X56
                                else if b7 then X96 else X16
                      else let (b5, p4) = p3 in
                           if b5
                           then let (b6, b7) = p4 in
                                if b6
                                then if b7 then Xe6 else X66
                                else if b7 then Xa6 else X26
                           else let (b6, b7) = p4 in
                                if b6
                                then if b7 then Xc6 else X46
                                else if b7 then X86 else X06
            else let (b3, p2) = p1 in
                 if b3
                 then let (b4, p3) = p2 in
                      if b4
                      then let (b5, p4) = p3 in
                           if b5
                           then let (b6, b7) = p4 in
                                if b6
                                then if b7 then Xfa else X7a
                                else if b7 then Xba else X3a
                           else let (b6, b7) = p4 in
                                if b6
                                then if b7 then Xda else X5a
                                else if b7 then X9a else X1a
                      else let (b5, p4) = p3 in
                           if b5
                           then let (b6, b7) = p4 in
                                if b6
                                then if b7 then Xea else X6a
                                else if b7 then Xaa else X2a
                           else let (b6, b7) = p4 in
                                if b6
                                then if b7 then Xca else X4a
                                else if b7 then X8a else X0a
                 else let (b4, p3) = p2 in
                      if b4
                      then let (b5, p4) = p3 in
                           if b5
                           then let (b6, b7) = p4 in
                                if b6
                                then if b7 then Xf2 else X72
                                else if b7 then Xb2 else X32
                           else let (b6, b7) = p4 in
                                if b6
                                then if b7 then Xd2 else X52
                                else if b7 then X92 else X12
                      else let (b5, p4) = p3 in
                           if b5
                           then let (b6, b7) = p4 in
                                if b6
                                then if b7 then Xe2 else X62
                                else if b7 then Xa2 else X22
                           else let (b6, b7) = p4 in
                                if b6
                                then if b7 then Xc2 else X42
                                else if b7 then X82 else X02
       else let (b2, p1) = p0 in
            if b2
            then let (b3, p2) = p1 in
                 if b3
                 then let (b4, p3) = p2 in
                      if b4
                      then let (b5, p4) = p3 in
                           if b5
                           then let (b6, b7) = p4 in
                                if b6
                                then if b7 then Xfc else X7c
                                else if b7 then Xbc else X3c
                           else let (b6, b7) = p4 in
                                if b6
                                then if b7 then Xdc else X5c
                                else if b7 then X9c else X1c
                      else let (b5, p4) = p3 in
                           if b5
                           then let (b6, b7) = p4 in
                                if b6
                                then if b7 then Xec else X6c
                                else if b7 then Xac else X2c
                           else let (b6, b7) = p4 in
                                if b6
                                then if b7 then Xcc else X4c
                                else if b7 then X8c else X0c
                 else let (b4, p3) = p2 in
                      if b4
                      then let (b5, p4) = p3 in
                           if b5
                           then let (b6, b7) = p4 in
                                if b6
                                then if b7 then Xf4 else X74
                                else if b7 then Xb4 else X34
                           else let (b6, b7) = p4 in
                                if b6
                                then if b7 then Xd4 else X54
                                else if b7 then X94 else X14
                      else let (b5, p4) = p3 in
                           if b5
                           then let (b6, b7) = p4 in
                                if b6
                                then if b7 then Xe4 else X64
                                else if b7 then Xa4 else X24
                           else let (b6, b7) = p4 in
                                if b6
                                then if b7 then Xc4 else X44
                                else if b7 then X84 else X04
            else let (b3, p2) = p1 in
                 if b3
                 then let (b4, p3) = p2 in
                      if b4
                      then let (b5, p4) = p3 in
                           if b5
                           then let (b6, b7) = p4 in
                                if b6
                                then if b7 then Xf8 else X78
                                else if b7 then Xb8 else X38
                           else let (b6, b7) = p4 in
                                if b6
                                then if b7 then Xd8 else X58
                                else if b7 then X98 else X18
                      else let (b5, p4) = p3 in
                           if b5
                           then let (b6, b7) = p4 in
                                if b6
                                then if b7 then Xe8 else X68
                                else if b7 then Xa8 else X28
                           else let (b6, b7) = p4 in
                                if b6
                                then if b7 then Xc8 else X48
                                else if b7 then X88 else X08
                 else let (b4, p3) = p2 in
                      if b4
                      then let (b5, p4) = p3 in
                           if b5
                           then let (b6, b7) = p4 in
                                if b6
                                then if b7 then Xf0 else X70
                                else if b7 then Xb0 else X30
                           else let (b6, b7) = p4 in
                                if b6
                                then if b7 then Xd0 else X50
                                else if b7 then X90 else X10
                      else let (b5, p4) = p3 in
                           if b5
                           then let (b6, b7) = p4 in
                                if b6
                                then if b7 then Xe0 else X60
                                else if b7 then Xa0 else X20
                           else let (b6, b7) = p4 in
                                if b6
                                then if b7 then Xc0 else X40
                                else if b7 then X80 else X00

(** val to_bits :
    byte -> bool * (bool * (bool * (bool * (bool * (bool * (bool * bool)))))) **)

let to_bits = function
| X00 -> (false, (false, (false, (false, (false, (false, (false, false)))))))
| X01 -> (true, (false, (false, (false, (false, (false, (false, false)))))))
| X02 -> (false, (true, (false, (false, (false, (false, (false, false)))))))
| X03 -> (true, (true, (false, (false, (false, (false, (false, false)))))))
| X04 -> (false, (false, (true, (false, (false, (false, (false, false)))))))
| X05 -> (true, (false, (true, (false, (false, (false, (false, false)))))))
| X06 -> (false, (true, (true, (false, (false, (false, (false, false)))))))
| X07 -> (true, (true, (true, (false, (false, (false, (false, false)))))))
| X08 -> (false, (false, (false, (true, (false, (false, (false, false)))))))
| X09 -> (true, (false, (false, (true, (false, (false, (false, false)))))))
| X0a -> (false, (true, (false, (true, (false, (false, (false, false)))))))
| X0b -> (true, (true, (false, (true, (false, (false, (false, false)))))))
| X0c -> (false, (false, (true, (true, (false, (false, (false, false)))))))
| X0d -> (true, (false, (true, (true, (false, (false, (false, false)))))))
| X0e -> (false, (true, (true, (true, (false, (false, (false, false)))))))
| X0f -> (true, (true, (true, (true, (false, (false, (false, false)))))))
| X10 -> (false, (false, (false, (false, (true, (false, (false, false)))))))
| X11 -> (true, (false, (false, (false, (true, (false, (false, false)))))))
| X12 -> (false, (true, (false, (false, (true, (false, (false, false)))))))
| X13 -> (true, (true, (false, (false, (true, (false, (false, false)))))))
| X14 -> (false, (false, (true, (false, (true, (false, (false, false)))))))
| X15 -> (true, (false, (true, (false, (true, (false, (false, false)))))))
| X16 -> (false, (true, (true, (false, (true, (false, (false, false)))))))
| X17 -> (true, (true, (true, (false, (true, (false, (false, false)))))))
| X18 -> (false, (false, (false, (true, (true, (false, (false, false)))))))
| X19 -> (true, (false, (false, (true, (true, (false, (false, false)))))))
| X1a -> (false, (true, (false, (true, (true, (false, (false, false)))))))
| X1b -> (true, (true, (false, (true, (true, (false, (false, false)))))))
| X1c -> (false, (false, (true, (true, (true, (false, (false, false)))))))
| X1d -> (true, (false, (true, (true, (true, (false, (false, false)))))))
| X1e -> (false, (true, (true, (true, (true, (false, (false, false)))))))
| X1f -> (true, (true, (true, (true, (true, (false, (false, false)))))))
| X20 -> (false, (false, (false, (false, (false, (true, (false, false)))))))
| X21 -> (true, (false, (false, (false, (false, (true, (false, false)))))))
| X22 -> (false, (true, (false, (false, (false, (true, (false, false)))))))
| X23 -> (true, (true, (false, (false, (false, (true, (false, false)))))))
| X24 -> (false, (false, (true, (false, (false, (true, (false, false)))))))
| X25 -> (true, (false, (true, (false, (false, (true, (false, false)))))))
| X26 -> (false, (true, (true, (false, (false, (true, (false, false)))))))
| X27 -> (true, (true, (true, (false, (false, (true, (false, false)))))))
| X28 -> (false, (false, (false, (true, (false, (true, (false, false)))))))
| X29 -> (true, (false, (false, (true, (false, (true, (false, false)))))))
| X2a -> (false, (true, (false, (true, (false, (true, (false, false)))))))
| X2b -> (true, (true, (false, (true, (false, (true, (false, false)))))))
| X2c -> (false, (false, (true, (true, (false, (true, (false, false)))))))
| X2d -> (true, (false, (true, (true, (false, (true, (false, false)))))))
| X2e -> (false, (true, (true, (true, (false, (true, (false, false)))))))
| X2f -> (true, (true, (true, (true, (false, (true, (false, false)))))))
| X30 -> (false, (false, (false, (false, (true, (true, (false, false)))))))
| X31 -> (true, (false, (false, (false, (true, (true, (false, false)))))))
| X32 -> (false, (true, (false, (false, (true, (true, (false, false)))))))
| X33 -> (true, (true, (false, (false, (true, (true, (false, false)))))))
| X34 -> (false, (false, (true, (false, (true, (true, (false, false)))))))
| X35 -> (true, (false, (true, (false, (true, (true, (false, false)))))))
| X36 -> (false, (true, (true, (false, (true, (true, (false, false)))))))
| X37 -> (true, (true, (true, (false, (true, (true, (false, false)))))))
| X38 -> (false, (false, (false, (true, (true, (true, (false, false)))))))
| X39 -> (true, (false, (false, (true, (true, (true, (false, false)))))))
| X3a -> (false, (true, (false, (true, (true, (true, (false, false)))))))
| X3b -> (true, (true, (false, (true, (true, (true, (false, false)))))))
| X3c -> (false, (false, (true, (true, (true, (true, (false, false)))))))
| X3d -> (true, (false, (true, (true, (true, (true, (false, false)))))))
| X3e -> (false, (true, (true, (true, (true, (true, (false, false)))))))
| X3f -> (true, (true, (true, (true, (true, (true, (false, false)))))))
| X40 -> (false, (false, (false, (false, (false, (false, (true, false)))))))
| X41 -> (true, (false, (false, (false, (false, (false, (true, false)))))))
| X42 -> (false, (true, (false, (false, (false, (false, (true, false)))))))
| X43 -> (true, (true, (false, (false, (false, (false, (true, false)))))))
| X44 -> (false, (false, (true, (false, (false, (false, (true, false)))))))
| X45 -> (true, (false, (true, (false, (false, (false, (true, false)))))))
| X46 -> (false, (true, (true, (false, (false, (false, (true, false)))))))
| X47 -> (true, (true, (true, (false, (false, (false, (true, false)))))))
| X48 -> (false, (false, (false, (true, (false, (false, (true, false)))))))
| X49 -> (true, (false, (false, (true, (false, (false, (true, false)))))))
| X4a -> (false, (true, (false, (true, (false, (false, (true, false)))))))
| X4b -> (true, (true, (false, (true, (false, (false, (true, false)))))))
| X4c -> (false, (false, (true, (true, (false, (false, (true, false)))))))
| X4d -> (true, (false, (true, (true, (false, (false, (true, false)))))))
| X4e -> (false, (true, (true, (true, (false, (false, (true, false)))))))
| X4f -> (true, (true, (true, (true, (false, (false, (true, false)))))))
| X50 -> (false, (false, (false, (false, (true, (false, (true, false)))))))
| X51 -> (true, (false, (false, (false, (true, (false, (true, false)))))))
| X52 -> (false, (true, (false, (false, (true, (false, (true, false)))))))
| X53 -> (true, (true, (false, (false, (true, (false, (true, false)))))))
| X54 -> (false, (false, (true, (false, (true, (false, (true, false)))))))
| X55 -> (true, (false, (true, (false, (true, (false, (true, false)))))))
| X56 -> (false, (true, (true, (false, (true, (false, (true, false)))))))
| X57 -> (true, (true, (true, (false, (true, (false, (true, false)))))))
| X58 -> (false, (false, (false, (true, (true, (false, (true, false)))))))
| X59 -> (true, (false, (false, (true, (true, (false, (true, false)))))))
| X5a -> (false, (true, (false, (true, (true, (false, (true, false)))))))
| X5b -> (true, (true, (false, (true, (true, (false, (true, false)))))))
| X5c -> (false, (false, (true, (true, (true, (false, (true, false)))))))
| X5d -> (true, (false, (true, (true, (true, (false, (true, false)))))))
| X5e -> (false, (true, (true, (true, (true, (false, (true, false)))))))
| X5f -> (true, (true, (true, (true, (true, (false, (true, false)))))))
| X60 -> (false, (false, (false, (false, (false, (true, (true, false)))))))
| X61 -> (true, (false, (false, (false, (false, (true, (true, false)))))))
| X62 -> (false, (true, (false, (false, (false, (true, (true, false)))))))
| X63 -> (true, (true, (false, (false, (false, (true, (true, false)))))))
| X64 -> (false, (false, (true, (false, (false, (true, (true, false)))))))
| X65 -> (true, (false, (true, (false, (false, (true, (true, false)))))))
| X66 -> (false, (true, (true, (false, (false, (true, (true, false)))))))
| X67 -> (true, (true, (true, (false, (false, (true, (true, false)))))))
| X68 -> (false, (false, (false, (true, (false, (true, (true, false)))))))
| X69 -> (true, (false, (false, (true, (false, (true, (true, false)))))))
| X6a -> (false, (true, (false, (true, (false, (true, (true, false)))))))
| X6b -> (true, (true, (false, (true, (false, (true, (true, false)))))))
| X6c -> (false, (false, (true, (true, (false, (true, (true, false)))))))
| X6d -> (true, (false, (true, (true, (false, (true, (true, false)))))))
| X6e -> (false, (true, (true, (true, (false, (true, (true, false)))))))
| X6f -> (true, (true, (true, (true, (false, (true, (true, false)))))))
| X70 -> (false, (false, (false, (false, (true, (true, (true, false)))))))
| X71 -> (true, (false, (false, (false, (true, (true, (true, false)))))))
| X72 -> (false, (true, (false, (false, (true, (true, (true, false)))))))
| X73 -> (true, (true, (false, (false, (true, (true, (true, false)))))))
| X74 -> (false, (false, (true, (false, (true, (true, (true, false)))))))
| X75 -> (true, (false, (true, (false, (true, (true, (true, false)))))))
| X76 -> (false, (true, (true, (false, (true, (true, (true, false)))))))
| X77 -> (true, (true, (true, (false, (true, (true, (true, false)))))))
| X78 -> (false, (false, (false, (true, (true, (true, (true, false)))))))
| X79 -> (true, (false, (false, (true, (true, (true, (true, false)))))))
| X7a -> (false, (true, (false, (true, (true, (true, (true, false)))))))
| X7b -> (true, (true, (false, (true, (true, (true, (true, false)))))))
| X7c -> (false, (false, (true, (true, (true, (true, (true, false)))))))
| X7d -> (true, (false, (true, (true, (true, (true, (true, false)))))))
| X7e -> (false, (true, (true, (true, (true, (true, (true, false)))))))
| X7f -> (true, (true, (true, (true, (true, (true, (true, false)))))))
| X80 -> (false, (false, (false, (false, (false, (false, (false, true)))))))
| X81 -> (true, (false, (false, (false, (false, (false, (false, true)))))))
| X82 -> (false, (true, (false, (false, (false, (false, (false, true)))))))
| X83 -> (true, (true, (false, (false, (false, (false, (false, true)))))))
| X84 -> (false, (false, (true, (false, (false, (false, (false, true)))))))
| X85 -> (true, (false, (true, (false, (false, (false, (false, true)))))))
| X86 -> (false, (true, (true, (false, (false, (false, (false, true)))))))
| X87 -> (true, (true, (true, (false, (false, (false, (false, true)))))))
| X88 -> (false, (false, (false, (true, (false, (false, (false, true)))))))
| X89 -> (true, (false, (false, (true, (false, (false, (false, true)))))))
| X8a -> (false, (true, (false, (true, (false, (false, (false, true)))))))
| X8b -> (true, (true, (false, (true, (false, (false, (false, true)))))))
| X8c -> (false, (false, (true, (true, (false, (false, (false, true)))))))
| X8d -> (true, (false, (true, (true, (false, (false, (false, true)))))))
| X8e -> (false, (true, (true, (true, (false, (false, (false, true)))))))
| X8f -> (true, (true, (true, (true, (false, (false, (false, true)))))))
| X90 -> (false, (false, (false, (false, (true, (false, (false, true)))))))
| X91 -> (true, (false, (false, (false, (true, (false, (false, true)))))))
| X92 -> (false, (true, (false, (false, (true, (false, (false, true)))))))
| X93 -> (true, (true, (false, (false, (true, (false, (false, true)))))))
| X94 -> (false, (false, (true, (false, (true, (false, (false, true)))))))
| X95 -> (true, (false, (true, (false, (true, (false, (false, true)))))))
| X96 -> (false, (true, (true, (false, (true, (false, (false, true)))))))
| X97 -> (true, (true, (true, (false, (true, (false, (false, true)))))))
| X98 -> (false, (false, (false, (true, (true, (false, (false, true)))))))
| X99 -> (true, (false, (false, (true, (true, (false, (false, true)))))))
| X9a -> (false, (true, (false, (true, (true, (false, (false, true)))))))
| X9b -> (true, (true, (false, (true, (true, (false, (false, true)))))))
| X9c -> (false, (false, (true, (true, (true, (false, (false, true)))))))
| X9d -> (true, (false, (true, (true, (true, (false, (false, true)))))))
| X9e -> (false, (true, (true, (true, (true, (false, (false, true)))))))
| X9f -> (true, (true, (true, (true, (true, (false, (false, true)))))))
| Xa0 -> (false, (false, (false, (false, (false, (true, (false, true)))))))
| Xa1 -> (true, (false, (false, (false, (false, (true, (false, true)))))))
| Xa2 -> (false, (true, (false, (false, (false, (true, (false, true)))))))
| Xa3 -> (true, (true, (false, (false, (false, (true, (false, true)))))))
| Xa4 -> (false, (false, (true, (false, (false, (true, (false, true)))))))
| Xa5 -> (true, (false, (true, (false, (false, (true, (false, true)))))))
| Xa6 -> (false, (true, (true, (false, (false, (true, (false, true)))))))
| Xa7 -> (true, (true, (true, (false, (false, (true, (false, true)))))))
| Xa8 -> (false, (false, (false, (true, (false, (true, (false, true)))))))
| Xa9 -> (true, (false, (false, (true, (false, (true, (false, true)))))))
| Xaa -> (false, (true, (false, (true, (false, (true, (false, true)))))))
| Xab -> (true, (true, (false, (true, (false, (true, (false, true)))))))
| Xac -> (false, (false, (true, (true, (false, (true, (false, true)))))))
| Xad -> (true, (false, (true, (true, (false, (true, (false, true)))))))
| Xae -> (false, (true, (true, (true, (false, (true, (false, true)))))))
| Xaf -> (true, (true, (true, (true, (false, (true, (false, true)))))))
| Xb0 -> (false, (false, (false, (false, (true, (true, (false, true)))))))
| Xb1 -> (true, (false, (false, (false, (true, (true, (false, true)))))))
| Xb2 -> (false, (true, (false, (false, (true, (true, (false, true)))))))
| Xb3 -> (true, (true, (false, (false, (true, (true, (false, true)))))))
| Xb4 -> (false, (false, (true, (false, (true, (true, (false, true)))))))
| Xb5 -> (true, (false, (true, (false, (true, (true, (false, true)))))))
| Xb6 -> (false, (true, (true, (false, (true, (true, (false, true)))))))
| Xb7 -> (true, (true, (true, (false, (true, (true, (false, true)))))))
| Xb8 -> (false, (false, (false, (true, (true, (true, (false, true)))))))
| Xb9 -> (true, (false, (false, (true, (true, (true, (false, true)))))))
| Xba -> (false, (true, (false, (true, (true, (true, (false, true)))))))
| Xbb -> (true, (true, (false, (true, (true, (true, (false, true)))))))
| Xbc -> (false, (false, (true, (true, (true, (true, (false, true)))))))
| Xbd -> (true, (false, (true, (true, (true, (true, (false, true)))))))
| Xbe -> (false, (true, (true, (true, (true, (true, (false, true)))))))
| Xbf -> (true, (true, (true, (true, (true, (true, (false, true)))))))
| Xc0 -> (false, (false, (false, (false, (false, (false, (true, true)))))))
| Xc1 -> (true, (false, (false, (false, (false, (false, (true, true)))))))
| Xc2 -> (false, (true, (false, (false, (false, (false, (true, true)))))))
| Xc3 -> (true, (true, (false, (false, (false, (false, (true, true)))))))
| Xc4 -> (false, (false, (true, (false, (false, (false, (true, true)))))))
| Xc5 -> (true, (false, (true, (false, (false, (false, (true, true)))))))
| Xc6 -> (false, (true, (true, (false, (false, (false, (true, true)))))))
| Xc7 -> (true, (true, (true, (false, (false, (false, (true, true)))))))
| Xc8 -> (false, (false, (false, (true, (false, (false, (true, true)))))))
| Xc9 -> (true, (false, (false, (true, (false, (false, (true, true)))))))
| Xca -> (false, (true, (false, (true, (false, (false, (true, true)))))))
| Xcb -> (true, (true, (false, (true, (false, (false, (true, true)))))))
| Xcc -> (false, (false, (true, (true, (false, (false, (true, true)))))))
| Xcd -> (true, (false, (true, (true, (false, (false, (true, true)))))))
| Xce -> (false, (true, (true, (true, (false, (false, (true, true)))))))
| Xcf -> (true, (true, (true, (true, (false, (false, (true, true)))))))
| Xd0 -> (false, (false, (false, (false, (true, (false, (true, true)))))))
| Xd1 -> (true, (false, (false, (false, (true, (false, (true, true)))))))
| Xd2 -> (false, (true, (false, (false, (true, (false, (true, true)))))))
| Xd3 -> (true, (true, (false, (false, (true, (false, (true, true)))))))
| Xd4 -> (false, (false, (true, (false, (true, (false, (true, true)))))))
| Xd5 -> (true, (false, (true, (false, (true, (false, (true, true)))))))
| Xd6 -> (false, (true, (true, (false, (true, (false, (true, true)))))))
| Xd7 -> (true, (true, (true, (false, (true, (false, (true, true)))))))
| Xd8 -> (false, (false, (false, (true, (true, (false, (true, true)))))))
| Xd9 -> (true, (false, (false, (true, (true, (false, (true, true)))))))
| Xda -> (false, (true, (false, (true, (true, (false, (true, true)))))))
| Xdb -> (true, (true, (false, (true, (true, (false, (true, true)))))))
| Xdc -> (false, (false, (true, (true, (true, (false, (true, true)))))))
| Xdd -> (true, (false, (true, (true, (true, (false, (true, true)))))))
| Xde -> (false, (true, (true, (true, (true, (false, (true, true)))))))
| Xdf -> (true, (true, (true, (true, (true, (false, (true, true)))))))
| Xe0 -> (false, (false, (false, (false, (false, (true, (true, true)))))))
| Xe1 -> (true, (false, (false, (false, (false, (true, (true, true)))))))
| Xe2 -> (false, (true, (false, (false, (false, (true, (true, true)))))))
| Xe3 -> (true, (true, (false, (false, (false, (true, (true, true)))))))
| Xe4 -> (false, (false, (true, (false, (false, (true, (true, true)))))))
| Xe5 -> (true, (false, (true, (false, (false, (true, (true, true)))))))
| Xe6 -> (false, (true, (true, (false, (false, (true, (true, true)))))))
| Xe7 -> (true, (true, (true, (false, (false, (true, (true, true)))))))
| Xe8 -> (false, (false, (false, (true, (false, (true, (true, true)))))))
| Xe9 -> (true, (false, (false, (true, (false, (true, (true, true)))))))
| Xea -> (false, (true, (false, (true, (false, (true, (true, true)))))))
| Xeb -> (true, (true, (false, (true, (false, (true, (true, true)))))))
| Xec -> (false, (false, (true, (true, (false, (true, (true, true)))))))
| Xed -> (true, (false, (true, (true, (false, (true, (true, true)))))))
| Xee -> (false, (true, (true, (true, (false, (true, (true, true)))))))
| Xef -> (true, (true, (true, (true, (false, (true, (true, true)))))))
| Xf0 -> (false, (false, (false, (false, (true, (true, (true, true)))))))
| Xf1 -> (true, (false, (false, (false, (true, (true, (true, true)))))))
| Xf2 -> (false, (true, (false, (false, (true, (true, (true, true)))))))
| Xf3 -> (true, (true, (false, (false, (true, (true, (true, true)))))))
| Xf4 -> (false, (false, (true, (false, (true, (true, (true, true)))))))
| Xf5 -> (true, (false, (true, (false, (true, (true, (true, true)))))))
| Xf6 -> (false, (true, (true, (false, (true, (true, (true, true)))))))
| Xf7 -> (true, (true, (true, (false, (true, (true, (true, true)))))))
| Xf8 -> (false, (false, (false, (true, (true, (true, (true, true)))))))
| Xf9 -> (true, (false, (false, (true, (true, (true, (true, true)))))))
| Xfa -> (false, (true, (false, (true, (true, (true, (true, true)))))))
| Xfb -> (true, (true, (false, (true, (true, (true, (true, true)))))))
| Xfc -> (false, (false, (true, (true, (true, (true, (true, true)))))))
| Xfd -> (true, (false, (true, (true, (true, (true, (true, true)))))))
| Xfe -> (false, (true, (true, (true, (true, (true, (true, true)))))))
| Xff -> (true, (true, (true, (true, (true, (true, (true, true)))))))

(** val eqb : bool -> bool -> bool **)

let eqb b1 b2 =
  if b1 then b2 else if b2 then false else true

module Nat =
 struct
  (** val eq_dec : nat -> nat -> bool **)

  let rec eq_dec n0 m =
    match n0 with
    | O -> (match m with
            | O -> true
            | S _ -> false)
    | S n1 -> (match m with
               | O -> false
               | S n2 -> eq_dec n1 n2)
 end

type positive =
| XI of positive
| XO of positive
| XH

type n =
| N0
| Npos of positive

type z =
| Z0
| Zpos of positive
| Zneg of positive

module Pos =
 struct
  (** val succ : positive -> positive **)

  let rec succ = function
  | XI p -> XO (succ p)
  | XO p -> XI p
  | XH -> XO XH

  (** val add : positive -> positive -> positive **)

  let rec add x y =
    match x with
    | XI p ->
      (match y with
       | XI q -> XO (add_carry p q)
       | XO q -> XI (add p q)
       | XH -> XO (succ p))
    | XO p ->
      (match y with
       | XI q -> XI (add p q)
       | XO q -> XO (add p q)
       | XH -> XI p)
    | XH -> (match y with
             | XI q -> XO (succ q)
             | XO q -> XI q
             | XH -> XO XH)

  (** val add_carry : positive -> positive -> positive **)

  and add_carry x y =
    match x with
    | XI p ->
      (match y with
       | XI q -> XI (add_carry p q)
       | XO q -> XO (add_carry p q)
       | XH -> XI (succ p))
    | XO p ->
      (match y with
       | XI q -> XO (add_carry p q)
       | XO q -> XI (add p q)
       | XH -> XO (succ p))
    | XH ->
      (match y with
       | XI q -> XI (succ q)
       | XO q -> XO (succ q)
       | XH -> XI XH)

  (** val pred_double : positive -> positive **)

  let rec pred_double = function
  | XI p -> XI (XO p)
  | XO p -> XI (pred_double p)
  | XH -> XH

  (** val pred : positive -> positive **)

  let pred = function
  | XI p -> XO p
  | XO p -> pred_double p
  | XH -> XH

  (** val compare_cont : comparison -> positive -> positive -> comparison **)

  let rec compare_cont r x y =
    match x with
    | XI p ->
      (match y with
       | XI q -> compare_cont r p q
       | XO q -> compare_cont Gt p q
       | XH -> Gt)
    | XO p ->
      (match y with
       | XI q -> compare_cont Lt p q
       | XO q -> compare_cont r p q
       | XH -> Gt)
    | XH -> (match y with
             | XH -> r
             | _ -> Lt)

  (** val compare : positive -> positive -> comparison **)

  let compare =
    compare_cont Eq

  (** val eqb : positive -> positive -> bool **)

  let rec eqb p q =
    match p with
    | XI p0 -> (match q with
                | XI q0 -> eqb p0 q0
                | _ -> false)
    | XO p0 -> (match q with
                | XO q0 -> eqb p0 q0
                | _ -> false)
    | XH -> (match q with
             | XH -> true
             | _ -> false)

  (** val iter_op : ('a1 -> 'a1 -> 'a1) -> positive -> 'a1 -> 'a1 **)

  let rec iter_op op p a =
    match p with
    | XI p0 -> op a (iter_op op p0 (op a a))
    | XO p0 -> iter_op op p0 (op a a)
    | XH -> a

  (** val to_nat : positive -> nat **)

  let to_nat x =
    iter_op Coq__1.add x (S O)

  (** val of_succ_nat : nat -> positive **)

  let rec of_succ_nat = function
  | O -> XH
  | S x -> succ (of_succ_nat x)

  (** val eq_dec : positive -> positive -> bool **)

  let rec eq_dec p x0 =
    match p with
    | XI p0 -> (match x0 with
                | XI p1 -> eq_dec p0 p1
                | _ -> false)
    | XO p0 -> (match x0 with
                | XO p1 -> eq_dec p0 p1
                | _ -> false)
    | XH -> (match x0 with
             | XH -> true
             | _ -> false)
 end

module N =
 struct
  (** val to_nat : n -> nat **)

  let to_nat = function
  | N0 -> O
  | Npos p -> Pos.to_nat p

  (** val of_nat : nat -> n **)

  let of_nat = function
  | O -> N0
  | S n' -> Npos (Pos.of_succ_nat n')

  (** val eq_dec : n -> n -> bool **)

  let eq_dec n0 m =
    match n0 with
    | N0 -> (match m with
             | N0 -> true
             | Npos _ -> false)
    | Npos p -> (match m with
                 | N0 -> false
                 | Npos p0 -> Pos.eq_dec p p0)
 end

(** val list_eq_dec : ('a1 -> 'a1 -> bool) -> 'a1 list -> 'a1 list -> bool **)

let rec list_eq_dec eq_dec0 l l' =
  match l with
  | [] -> (match l' with
           | [] -> true
           | _ :: _ -> false)
  | y :: l0 ->
    (match l' with
     | [] -> false
     | a :: l1 -> if eq_dec0 y a then list_eq_dec eq_dec0 l0 l1 else false)

(** val map : ('a1 -> 'a2) -> 'a1 list -> 'a2 list **)

let rec map f = function
| [] -> []
| a :: t -> (f a) :: (map f t)

(** val flat_map : ('a1 -> 'a2 list) -> 'a1 list -> 'a2 list **)

let rec flat_map f = function
| [] -> []
| x :: t -> app (f x) (flat_map f t)

(** val fold_left : ('a1 -> 'a2 -> 'a1) -> 'a2 list -> 'a1 -> 'a1 **)

let rec fold_left f l a0 =
  match l with
  | [] -> a0
  | b :: t -> fold_left f t (f a0 b)

(** val forallb : ('a1 -> bool) -> 'a1 list -> bool **)

let rec forallb f = function
| [] -> true
| a :: l0 -> (&&) (f a) (forallb f l0)

module Z =
 struct
  (** val double : z -> z **)

  let double = function
  | Z0 -> Z0
  | Zpos p -> Zpos (XO p)
  | Zneg p -> Zneg (XO p)

  (** val succ_double : z -> z **)

  let succ_double = function
  | Z0 -> Zpos XH
  | Zpos p -> Zpos (XI p)
  | Zneg p -> Zneg (Pos.pred_double p)

  (** val pred_double : z -> z **)

  let pred_double = function
  | Z0 -> Zneg XH
  | Zpos p -> Zpos (Pos.pred_double p)
  | Zneg p -> Zneg (XI p)

  (** val pos_sub : positive -> positive -> z **)

  let rec pos_sub x y =
    match x with
    | XI p ->
      (match y with
       | XI q -> double (pos_sub p q)
       | XO q -> succ_double (pos_sub p q)
       | XH -> Zpos (XO p))
    | XO p ->
      (match y with
       | XI q -> pred_double (pos_sub p q)
       | XO q -> double (pos_sub p q)
       | XH -> Zpos (Pos.pred_double p))
    | XH ->
      (match y with
       | XI q -> Zneg (XO q)
       | XO q -> Zneg (Pos.pred_double q)
       | XH -> Z0)

  (** val add : z -> z -> z **)

  let add x y =
    match x with
    | Z0 -> y
    | Zpos x' ->
      (match y with
       | Z0 -> x
       | Zpos y' -> Zpos (Pos.add x' y')
       | Zneg y' -> pos_sub x' y')
    | Zneg x' ->
      (match y with
       | Z0 -> x
       | Zpos y' -> pos_sub y' x'
       | Zneg y' -> Zneg (Pos.add x' y'))

  (** val opp : z -> z **)

  let opp = function
  | Z0 -> Z0
  | Zpos x0 -> Zneg x0
  | Zneg x0 -> Zpos x0

  (** val sub : z -> z -> z **)

  let sub m n0 =
    add m (opp n0)

  (** val compare : z -> z -> comparison **)

  let compare x y =
    match x with
    | Z0 -> (match y with
             | Z0 -> Eq
             | Zpos _ -> Lt
             | Zneg _ -> Gt)
    | Zpos x' -> (match y with
                  | Zpos y' -> Pos.compare x' y'
                  | _ -> Gt)
    | Zneg x' ->
      (match y with
       | Zneg y' -> compOpp (Pos.compare x' y')
       | _ -> Lt)

  (** val leb : z -> z -> bool **)

  let leb x y =
    match compare x y with
    | Gt -> false
    | _ -> true

  (** val ltb : z -> z -> bool **)

  let ltb x y =
    match compare x y with
    | Lt -> true
    | _ -> false

  (** val eqb : z -> z -> bool **)

  let eqb x y =
    match x with
    | Z0 -> (match y with
             | Z0 -> true
             | _ -> false)
    | Zpos p -> (match y with
                 | Zpos q -> Pos.eqb p q
                 | _ -> false)
    | Zneg p -> (match y with
                 | Zneg q -> Pos.eqb p q
                 | _ -> false)

  (** val max : z -> z -> z **)

  let max n0 m =
    match compare n0 m with
    | Lt -> m
    | _ -> n0

  (** val eq_dec : z -> z -> bool **)

  let eq_dec x y =
    match x with
    | Z0 -> (match y with
             | Z0 -> true
             | _ -> false)
    | Zpos p -> (match y with
                 | Zpos p0 -> Pos.eq_dec p p0
                 | _ -> false)
    | Zneg p -> (match y with
                 | Zneg p0 -> Pos.eq_dec p p0
                 | _ -> false)
 end

(** val eqb0 : byte -> byte -> bool **)

let eqb0 a b =
  let (a0, p) = to_bits a in
  let (a1, p0) = p in
  let (a2, p1) = p0 in
  let (a3, p2) = p1 in
  let (a4, p3) = p2 in
  let (a5, p4) = p3 in
  let (a6, a7) = p4 in
  let (b0, p5) = to_bits b in
  let (b1, p6) = p5 in
  let (b2, p7) = p6 in
  let (b3, p8) = p7 in
  let (b4, p9) = p8 in
  let (b5, p10) = p9 in
  let (b6, b7) = p10 in
  (&&)
    ((&&)
      ((&&)
        ((&&)
          ((&&) ((&&) ((&&) (eqb a0 b0) (eqb a1 b1)) (eqb a2 b2)) (eqb a3 b3))
          (eqb a4 b4)) (eqb a5 b5)) (eqb a6 b6)) (eqb a7 b7)

(** val byte_eq_dec : byte -> byte -> bool **)

let byte_eq_dec x y =
  if eqb0 x y then true else false

(** val to_N : byte -> n **)

let to_N = function
| X00 -> N0
| X01 -> Npos XH
| X02 -> Npos (XO XH)
| X03 -> Npos (XI XH)
| X04 -> Npos (XO (XO XH))
| X05 -> Npos (XI (XO XH))
| X06 -> Npos (XO (XI XH))
| X07 -> Npos (XI (XI XH))
| X08 -> Npos (XO (XO (XO XH)))
| X09 -> Npos (XI (XO (XO XH)))
| X0a -> Npos (XO (XI (XO XH)))
| X0b -> Npos (XI (XI (XO XH)))
| X0c -> Npos (XO (XO (XI XH)))
| X0d -> Npos (XI (XO (XI XH)))
| X0e -> Npos (XO (XI (XI XH)))
| X0f -> Npos (XI (XI (XI XH)))
| X10 -> Npos (XO (XO (XO (XO XH))))
| X11 -> Npos (XI (XO (XO (XO XH))))
| X12 -> Npos (XO (XI (XO (XO XH))))
| X13 -> Npos (XI (XI (XO (XO XH))))
| X14 -> Npos (XO (XO (XI (XO XH))))
| X15 -> Npos (XI (XO (XI (XO XH))))
| X16 -> Npos (XO (XI (XI (XO XH))))
| X17 -> Npos (XI (XI (XI (XO XH))))
| X18 -> Npos (XO (XO (XO (XI XH))))
| X19 -> Npos (XI (XO (XO (XI XH))))
| X1a -> Npos (XO (XI (XO (XI XH))))
| X1b -> Npos (XI (XI (XO (XI XH))))
| X1c -> Npos (XO (XO (XI (XI XH))))
| X1d -> Npos (XI (XO (XI (XI XH))))
| X1e -> Npos (XO (XI (XI (XI XH))))
| X1f -> Npos (XI (XI (XI (XI XH))))
| X20 -> Npos (XO (XO (XO (XO (XO XH)))))
| X21 -> Npos (XI (XO (XO (XO (XO XH)))))
| X22 -> Npos (XO (XI (XO (XO (XO XH)))))
| X23 -> Npos (XI (XI (XO (XO (XO XH)))))
| X24 -> Npos (XO (XO (XI (XO (XO XH)))))
| X25 -> Npos (XI (XO (XI (XO (XO XH)))))
| X26 -> Npos (XO (XI (XI (XO (XO XH)))))
| X27 -> Npos (XI (XI (XI (XO (XO XH)))))
| X28 -> Npos (XO (XO (XO (XI (XO XH)))))
| X29 -> Npos (XI (XO (XO (XI (XO XH)))))
| X2a -> Npos (XO (XI (XO (XI (XO XH)))))
| X2b -> Npos (XI (XI (XO (XI (XO XH)))))
| X2c -> Npos (XO (XO (XI (XI (XO XH)))))
| X2d -> Npos (XI (XO (XI (XI (XO XH)))))
| X2e -> Npos (XO (XI (XI (XI (XO XH)))))
| X2f -> Npos (XI (XI (XI (XI (XO XH)))))
| X30 -> Npos (XO (XO (XO (XO (XI XH)))))
| X31 -> Npos (XI (XO (XO (XO (XI XH)))))
| X32 -> Npos (XO (XI (XO (XO (XI XH)))))
| X33 -> Npos (XI (XI (XO (XO (XI XH)))))
| X34 -> Npos (XO (XO (XI (XO (XI XH)))))
| X35 -> Npos (XI (XO (XI (XO (XI XH)))))
| X36 -> Npos (XO (XI (XI (XO (XI XH)))))
| X37 -> Npos (XI (XI (XI (XO (XI XH)))))
| X38 -> Npos (XO (XO (XO (XI (XI XH)))))
| X39 -> Npos (XI (XO (XO (XI (XI XH)))))
| X3a -> Npos (XO (XI (XO (XI (XI XH)))))
| X3b -> Npos (XI (XI (XO (XI (XI XH)))))
| X3c -> Npos (XO (XO (XI (XI (XI XH)))))
| X3d -> Npos (XI (XO (XI (XI (XI XH)))))
| X3e -> Npos (XO (XI (XI (XI (XI XH)))))
| X3f -> Npos (XI (XI (XI (XI (XI XH)))))
| X40 -> Npos (XO (XO (XO (XO (XO (XO XH))))))
| X41 -> Npos (XI (XO (XO (XO (XO (XO XH))))))
| X42 -> Npos (XO (XI (XO (XO (XO (XO XH))))))
| X43 -> Npos (XI (XI (XO (XO (XO (XO XH))))))
| X44 -> Npos (XO (XO (XI (XO (XO (XO XH))))))
| X45 -> Npos (XI (XO (XI (XO (XO (XO XH))))))
| X46 -> Npos (XO (XI (XI (XO (XO (XO XH))))))
| X47 -> Npos (XI (XI (XI (XO (XO (XO XH))))))
| X48 -> Npos (XO (XO (XO (XI (XO (XO XH))))))
| X49 -> Npos (XI (XO (XO (XI (XO (XO XH))))))
| X4a -> Npos (XO (XI (XO (XI (XO (XO XH))))))
| X4b -> Npos (XI (XI (XO (XI (XO (XO XH))))))
| X4c -> Npos (XO (XO (XI (XI (XO (XO XH))))))
| X4d -> Npos (XI (XO (XI (XI (XO (XO XH))))))
| X4e -> Npos (XO (XI (XI (XI (XO (XO XH))))))
| X4f -> Npos (XI (XI (XI (XI (XO (XO XH))))))
| X50 -> Npos (XO (XO (XO (XO (XI (XO XH))))))
| X51 -> Npos (XI (XO (XO (XO (XI (XO XH))))))
| X52 -> Npos (XO (XI (XO (XO (XI (XO XH))))))
| X53 -> Npos (XI (XI (XO (XO (XI (XO XH))))))
| X54 -> Npos (XO (XO (XI (XO (XI (XO XH))))))
| X55 -> Npos (XI (XO (XI (XO (XI (XO XH))))))
| X56 -> Npos (XO (XI (XI (XO (XI (XO XH))))))
| X57 -> Npos (XI (XI (XI (XO (XI (XO XH))))))
| X58 -> Npos (XO (XO (XO (XI (XI (XO XH))))))
| X59 -> Npos (XI (XO (XO (XI (XI (XO XH))))))
| X5a -> Npos (XO (XI (XO (XI (XI (XO XH))))))
| X5b -> Npos (XI (XI (XO (XI (XI (XO XH))))))
| X5c -> Npos (XO (XO (XI (XI (XI (XO XH))))))
| X5d -> Npos (XI (XO (XI (XI (XI (XO XH))))))
| X5e -> Npos (XO (XI (XI (XI (XI (XO XH))))))
| X5f -> Npos (XI (XI (XI (XI (XI (XO XH))))))
| X60 -> Npos (XO (XO (XO (XO (XO (XI XH))))))
| X61 -> Npos (XI (XO (XO (XO (XO (XI XH))))))
| X62 -> Npos (XO (XI (XO (XO (XO (XI XH))))))
| X63 -> Npos (XI (XI (XO (XO (XO (XI XH))))))
| X64 -> Npos (XO (XO (XI (XO (XO (XI XH))))))
| X65 -> Npos (XI (XO (XI (XO (XO (XI XH))))))
| X66 -> Npos (XO (XI (XI (XO (XO (XI XH))))))
| X67 -> Npos (XI (XI (XI (XO (XO (XI XH))))))
| X68 -> Npos (XO (XO (XO (XI (XO (XI XH))))))
| X69 -> Npos (XI (XO (XO (XI (XO (XI XH))))))
| X6a -> Npos (XO (XI (XO (XI (XO (XI XH))))))
| X6b -> Npos (XI (XI (XO (XI (XO (XI XH))))))
| X6c -> Npos (XO (XO (XI (XI (XO (XI XH))))))
| X6d -> Npos (XI (XO (XI (XI (XO (XI XH))))))
| X6e -> Npos (XO (XI (XI (XI (XO (XI XH))))))
| X6f -> Npos (XI (XI (XI (XI (XO (XI XH))))))
| X70 -> Npos (XO (XO (XO (XO (XI (XI XH))))))
| X71 -> Npos (XI (XO (XO (XO (XI (XI XH))))))
| X72 -> Npos (XO (XI (XO (XO (XI (XI XH))))))
| X73 -> Npos (XI (XI (XO (XO (XI (XI XH))))))
| X74 -> Npos (XO (XO (XI (XO (XI (XI XH))))))
| X75 -> Npos (XI (XO (XI (XO (XI (XI XH))))))
| X76 -> Npos (XO (XI (XI (XO (XI (XI XH))))))
| X77 -> Npos (XI (XI (XI (XO (XI (XI XH))))))
| X78 -> Npos (XO (XO (XO (XI (XI (XI XH))))))
| X79 -> Npos (XI (XO (XO (XI (XI (XI XH))))))
| X7a -> Npos (XO (XI (XO (XI (XI (XI XH))))))
| X7b -> Npos (XI (XI (XO (XI (XI (XI XH))))))
| X7c -> Npos (XO (XO (XI (XI (XI (XI XH))))))
| X7d -> Npos (XI (XO (XI (XI (XI (XI XH))))))
| X7e -> Npos (XO (XI (XI (XI (XI (XI XH))))))
| X7f -> Npos (XI (XI (XI (XI (XI (XI XH))))))
| X80 -> Npos (XO (XO (XO (XO (XO (XO (XO XH)))))))
| X81 -> Npos (XI (XO (XO (XO (XO (XO (XO XH)))))))
| X82 -> Npos (XO (XI (XO (XO (XO (XO (XO XH)))))))
| X83 -> Npos (XI (XI (XO (XO (XO (XO (XO XH)))))))
| X84 -> Npos (XO (XO (XI (XO (XO (XO (XO XH)))))))
| X85 -> Npos (XI (XO (XI (XO (XO (XO (XO XH)))))))
| X86 -> Npos (XO (XI (XI (XO (XO (XO (XO XH)))))))
| X87 -> Npos (XI (XI (XI (XO (XO (XO (XO XH)))))))
| X88 -> Npos (XO (XO (XO (XI (XO (XO (XO XH)))))))
| X89 -> Npos (XI (XO (XO (XI (XO (XO (XO XH)))))))
| X8a -> Npos (XO (XI (XO (XI (XO (XO (XO XH)))))))
| X8b -> Npos (XI (XI (XO (XI (XO (XO (XO XH)))))))
| X8c -> Npos (XO (XO (XI (XI (XO (XO (XO XH)))))))
| X8d -> Npos (XI (XO (XI (XI (XO (XO (XO XH)))))))
| X8e -> Npos (XO (XI (XI (XI (XO (XO (XO XH)))))))
| X8f -> Npos (XI (XI (XI (XI (XO (XO (XO XH)))))))
| X90 -> Npos (XO (XO (XO (XO (XI (XO (XO XH)))))))
| X91 -> Npos (XI (XO (XO (XO (XI (XO (XO XH)))))))
| X92 -> Npos (XO (XI (XO (XO (XI (XO (XO XH)))))))
| X93 -> Npos (XI (XI (XO (XO (XI (XO (XO XH)))))))
| X94 -> Npos (XO (XO (XI (XO (XI (XO (XO XH)))))))
| X95 -> Npos (XI (XO (XI (XO (XI (XO (XO XH)))))))
| X96 -> Npos (XO (XI (XI (XO (XI (XO (XO XH)))))))
| X97 -> Npos (XI (XI (XI (XO (XI (XO (XO XH)))))))
| X98 -> Npos (XO (XO (XO (XI (XI (XO (XO XH)))))))
| X99 -> Npos (XI (XO (XO (XI (XI (XO (XO XH)))))))
| X9a -> Npos (XO (XI (XO (XI (XI (XO (XO XH)))))))
| X9b -> Npos (XI (XI (XO (XI (XI (XO (XO XH)))))))
| X9c -> Npos (XO (XO (XI (XI (XI (XO (XO XH)))))))
| X9d -> Npos (XI (XO (XI (XI (XI (XO (XO XH)))))))
| X9e -> Npos (XO (XI (XI (XI (XI (XO (XO XH)))))))
| X9f -> Npos (XI (XI (XI (XI (XI (XO (XO XH)))))))
| Xa0 -> Npos (XO (XO (XO (XO (XO (XI (XO XH)))))))
| Xa1 -> Npos (XI (XO (XO (XO (XO (XI (XO XH)))))))
| Xa2 -> Npos (XO (XI (XO (XO (XO (XI (XO XH)))))))
| Xa3 -> Npos (XI (XI (XO (XO (XO (XI (XO XH)))))))
| Xa4 -> Npos (XO (XO (XI (XO (XO (XI (XO XH)))))))
| Xa5 -> Npos (XI (XO (XI (XO (XO (XI (XO XH)))))))
| Xa6 -> Npos (XO (XI (XI (XO (XO (XI (XO XH)))))))
| Xa7 -> Npos (XI (XI (XI (XO (XO (XI (XO XH)))))))
| Xa8 -> Npos (XO (XO (XO (XI (XO (XI (XO XH)))))))
| Xa9 -> Npos (XI (XO (XO (XI (XO (XI (XO XH)))))))
| Xaa -> Npos (XO (XI (XO (XI (XO (XI (XO XH)))))))
| Xab -> Npos (XI (XI (XO (XI (XO (XI (XO XH)))))))
| Xac -> Npos (XO (XO (XI (XI (XO (XI (XO XH)))))))
| Xad -> Npos (XI (XO (XI (XI (XO (XI (XO XH)))))))
| Xae -> Npos (XO (XI (XI (XI (XO (XI (XO XH)))))))
| Xaf -> Npos (XI (XI (XI (XI (XO (XI (XO XH)))))))
| Xb0 -> Npos (XO (XO (XO (XO (XI (XI (XO XH)))))))
| Xb1 -> Npos (XI (XO (XO (XO (XI (XI (XO XH)))))))
| Xb2 -> Npos (XO (XI (XO (XO (XI (XI (XO XH)))))))
| Xb3 -> Npos (XI (XI (XO (XO (XI (XI (XO XH)))))))
| Xb4 -> Npos (XO (XO (XI (XO (XI (XI (XO XH)))))))
| Xb5 -> Npos (XI (XO (XI (XO (XI (XI (XO XH)))))))
| Xb6 -> Npos (XO (XI (XI (XO (XI (XI (XO XH)))))))
| Xb7 -> Npos (XI (XI (XI (XO (XI (XI (XO XH)))))))
| Xb8 -> Npos (XO (XO (XO (XI (XI (XI (XO XH)))))))
| Xb9 -> Npos (XI (XO (XO (XI (XI (XI (XO XH)))))))
| Xba -> Npos (XO (XI (XO (XI (XI (XI (XO XH)))))))
| Xbb -> Npos (XI (XI (XO (XI (XI (XI (XO XH)))))))
| Xbc -> Npos (XO (XO (XI (XI (XI (XI (XO XH)))))))
| Xbd -> Npos (XI (XO (XI (XI (XI (XI (XO XH)))))))
| Xbe -> Npos (XO (XI (XI (XI (XI (XI (XO XH)))))))
| Xbf -> Npos (XI (XI (XI (XI (XI (XI (XO XH)))))))
| Xc0 -> Npos (XO (XO (XO (XO (XO (XO (XI XH)))))))
| Xc1 -> Npos (XI (XO (XO (XO (XO (XO (XI XH)))))))
| Xc2 -> Npos (XO (XI (XO (XO (XO (XO (XI XH)))))))
| Xc3 -> Npos (XI (XI (XO (XO (XO (XO (XI XH)))))))
| Xc4 -> Npos (XO (XO (XI (XO (XO (XO (XI XH)))))))
| Xc5 -> Npos (XI (XO (XI (XO (XO (XO (XI XH)))))))
| Xc6 -> Npos (XO (XI (XI (XO (XO (XO (XI XH)))))))
| Xc7 -> Npos (XI (XI (XI (XO (XO (XO (XI XH)))))))
| Xc8 -> Npos (XO (XO (XO (XI (XO (XO (XI XH)))))))
| Xc9 -> Npos (XI (XO (XO (XI (XO (XO (XI XH)))))))
| Xca -> Npos (XO (XI (XO (XI (XO (XO (XI XH)))))))
| Xcb -> Npos (XI (XI (XO (XI (XO (XO (XI XH)))))))
| Xcc -> Npos (XO (XO (XI (XI (XO (XO (XI XH)))))))
| Xcd -> Npos (XI (XO (XI (XI (XO (XO (XI XH)))))))
| Xce -> Npos (XO (XI (XI (XI (XO (XO (XI XH)))))))
| Xcf -> Npos (XI (XI (XI (XI (XO (XO (XI XH)))))))
| Xd0 -> Npos (XO (XO (XO (XO (XI (XO (XI XH)))))))
| Xd1 -> Npos (XI (XO (XO (XO (XI (XO (XI XH)))))))
| Xd2 -> Npos (XO (XI (XO (XO (XI (XO (XI XH)))))))
| Xd3 -> Npos (XI (XI (XO (XO (XI (XO (XI XH)))))))
| Xd4 -> Npos (XO (XO (XI (XO (XI (XO (XI XH)))))))
| Xd5 -> Npos (XI (XO (XI (XO (XI (XO (XI XH)))))))
| Xd6 -> Npos (XO (XI (XI (XO (XI (XO (XI XH)))))))
| Xd7 -> Npos (XI (XI (XI (XO (XI (XO (XI XH)))))))
| Xd8 -> Npos (XO (XO (XO (XI (XI (XO (XI XH)))))))
| Xd9 -> Npos (XI (XO (XO (XI (XI (XO (XI XH)))))))
| Xda -> Npos (XO (XI (XO (XI (XI (XO (XI XH)))))))
| Xdb -> Npos (XI (XI (XO (XI (XI (XO (XI XH)))))))
| Xdc -> Npos (XO (XO (XI (XI (XI (XO (XI XH)))))))
| Xdd -> Npos (XI (XO (XI (XI (XI (XO (XI XH)))))))
| Xde -> Npos (XO (XI (XI (XI (XI (XO (XI XH)))))))
| Xdf -> Npos (XI (XI (XI (XI (XI (XO (XI XH)))))))
| Xe0 -> Npos (XO (XO (XO (XO (XO (XI (XI XH)))))))
| Xe1 -> Npos (XI (XO (XO (XO (XO (XI (XI XH)))))))
| Xe2 -> Npos (XO (XI (XO (XO (XO (XI (XI XH)))))))
| Xe3 -> Npos (XI (XI (XO (XO (XO (XI (XI XH)))))))
| Xe4 -> Npos (XO (XO (XI (XO (XO (XI (XI XH)))))))
| Xe5 -> Npos (XI (XO (XI (XO (XO (XI (XI XH)))))))
| Xe6 -> Npos (XO (XI (XI (XO (XO (XI (XI XH)))))))
| Xe7 -> Npos (XI (XI (XI (XO (XO (XI (XI XH)))))))
| Xe8 -> Npos (XO (XO (XO (XI (XO (XI (XI XH)))))))
| Xe9 -> Npos (XI (XO (XO (XI (XO (XI (XI XH)))))))
| Xea -> Npos (XO (XI (XO (XI (XO (XI (XI XH)))))))
| Xeb -> Npos (XI (XI (XO (XI (XO (XI (XI XH)))))))
| Xec -> Npos (XO (XO (XI (XI (XO (XI (XI XH)))))))
| Xed -> Npos (XI (XO (XI (XI (XO (XI (XI XH)))))))
| Xee -> Npos (XO (XI (XI (XI (XO (XI (XI XH)))))))
| Xef -> Npos (XI (XI (XI (XI (XO (XI (XI XH)))))))
| Xf0 -> Npos (XO (XO (XO (XO (XI (XI (XI XH)))))))
| Xf1 -> Npos (XI (XO (XO (XO (XI (XI (XI XH)))))))
| Xf2 -> Npos (XO (XI (XO (XO (XI (XI (XI XH)))))))
| Xf3 -> Npos (XI (XI (XO (XO (XI (XI (XI XH)))))))
| Xf4 -> Npos (XO (XO (XI (XO (XI (XI (XI XH)))))))
| Xf5 -> Npos (XI (XO (XI (XO (XI (XI (XI XH)))))))
| Xf6 -> Npos (XO (XI (XI (XO (XI (XI (XI XH)))))))
| Xf7 -> Npos (XI (XI (XI (XO (XI (XI (XI XH)))))))
| Xf8 -> Npos (XO (XO (XO (XI (XI (XI (XI XH)))))))
| Xf9 -> Npos (XI (XO (XO (XI (XI (XI (XI XH)))))))
| Xfa -> Npos (XO (XI (XO (XI (XI (XI (XI XH)))))))
| Xfb -> Npos (XI (XI (XO (XI (XI (XI (XI XH)))))))
| Xfc -> Npos (XO (XO (XI (XI (XI (XI (XI XH)))))))
| Xfd -> Npos (XI (XO (XI (XI (XI (XI (XI XH)))))))
| Xfe -> Npos (XO (XI (XI (XI (XI (XI (XI XH)))))))
| Xff -> Npos (XI (XI (XI (XI (XI (XI (XI XH)))))))

(** val of_N : n -> byte option **)

let of_N = function
| N0 -> Some X00
| Npos p ->
  (match p with
   | XI p0 ->
     (match p0 with
      | XI p1 ->
        (match p1 with
         | XI p2 ->
           (match p2 with
            | XI p3 ->
              (match p3 with
               | XI p4 ->
                 (match p4 with
                  | XI p5 ->
                    (match p5 with
                     | XI p6 -> (match p6 with
                                 | XH -> Some Xff
                                 | _ -> None)
                     | XO p6 -> (match p6 with
                                 | XH -> Some Xbf
                                 | _ -> None)
                     | XH -> Some X7f)
                  | XO p5 ->
                    (match p5 with
                     | XI p6 -> (match p6 with
                                 | XH -> Some Xdf
                                 | _ -> None)
                     | XO p6 -> (match p6 with
                                 | XH -> Some X9f
                                 | _ -> None)
                     | XH -> Some X5f)
                  | XH -> Some X3f)
               | XO p4 ->
                 (match p4 with
                  | XI p5 ->
                    (match p5 with
                     | XI p6 -> (match p6 with
                                 | XH -> Some Xef
                                 | _ -> None)
                     | XO p6 -> (match p6 with
                                 | XH -> Some Xaf
                                 | _ -> None)
                     | XH -> Some X6f)
                  | XO p5 ->
                    (match p5 with
                     | XI p6 -> (match p6 with
                                 | XH -> Some Xcf
                                 | _ -> None)
                     | XO p6 -> (match p6 with
                                 | XH -> Some X8f
                                 | _ -> None)
                     | XH -> Some X4f)
                  | XH -> Some X2f)
               | XH -> Some X1f)
            | XO p3 ->
              (match p3 with
               | XI p4 ->
                 (match p4 with
                  | XI p5 ->
                    (match p5 with
                     | XI p6 -> (match p6 with
                                 | XH -> Some Xf7
                                 | _ -> None)
                     | XO p6 -> (match p6 with
                                 | XH -> Some Xb7
                                 | _ -> None)
                     | XH -> Some X77)
                  | XO p5 ->
                    (match p5 with
                     | XI p6 -> (match p6 with
                                 | XH -> Some Xd7
                                 | _ -> None)
                     | XO p6 -> (match p6 with
                                 | XH -> Some X97
                                 | _ -> None)
                     | XH -> Some X57)
                  | XH -> Some X37)
               | XO p4 ->
                 (match p4 with
                  | XI p5 ->
                    (match p5 with
                     | XI p6 -> (match p6 with
                                 | XH -> Some Xe7
                                 | _ -> None)
                     | XO p6 -> (match p6 with
                                 | XH -> Some Xa7
                                 | _ -> None)
                     | XH -> Some X67)
                  | XO p5 ->
                    (match p5 with
                     | XI p6 -> (match p6 with
                                 | XH -> Some Xc7
                                 | _ -> None)
                     | XO p6 -> (match p6 with
                                 | XH -> Some X87
                                 | _ -> None)
                     | XH -> Some X47)
                  | XH -> Some X27)
               | XH -> Some X17)
            | XH -> Some X0f)
         | XO p2 ->
           (match p2 with
            | XI p3 ->
              (match p3 with
               | XI p4 ->
                 (match p4 with
                  | XI p5 ->
                    (match p5 with
                     | XI p6 -> (match p6 with
                                 | XH -> Some Xfb
                                 | _ -> None)
                     | XO p6 -> (match p6 with
                                 | XH -> Some Xbb
                                 | _ -> None)
                     | XH -> Some X7b)
                  | XO p5 ->
                    (match p5 with
                     | XI p6 -> (match p6 with
                                 | XH -> Some Xdb
                                 | _ -> None)
                     | XO p6 -> (match p6 with
                                 | XH -> Some X9b
                                 | _ -> None)
                     | XH -> Some X5b)
                  | XH -> Some X3b)
               | XO p4 ->
                 (match p4 with
                  | XI p5 ->
                    (match p5 with
                     | XI p6 -> (match p6 with
                                 | XH -> Some Xeb
                                 | _ -> None)
                     | XO p6 -> (match p6 with
                                 | XH -> Some Xab
                                 | _ -> None)
                     | XH -> Some X6b)
                  | XO p5 ->
                    (match p5 with
                     | XI p6 -> (match p6 with
                                 | XH -> Some Xcb
                                 | _ -> None)
                     | XO p6 -> (match p6 with
                                 | XH -> Some X8b
                                 | _ -> None)
                     | XH -> Some X4b)
                  | XH -> Some X2b)
               | XH -> Some X1b)
            | XO p3 ->
              (match p3 with
               | XI p4 ->
                 (match p4 with
                  | XI p5 ->
                    (match p5 with
                     | XI p6 -> (match p6 with
                                 | XH -> Some Xf3
                                 | _ -> None)
                     | XO p6 -> (match p6 with
                                 | XH -> Some Xb3
                                 | _ -> None)
                     | XH -> Some X73)
                  | XO p5 ->
                    (match p5 with
                     | XI p6 -> (match p6 with
                                 | XH -> Some Xd3
                                 | _ -> None)
                     | XO p6 -> (match p6 with
                                 | XH -> Some X93
                                 | _ -> None)
                     | XH -> Some X53)
                  | XH -> Some X33)
               | XO p4 ->
                 (match p4 with
                  | XI p5 ->
                    (match p5 with
                     | XI p6 -> (match p6 with
                                 | XH -> Some Xe3
                                 | _ -> None)
                     | XO p6 -> (match p6 with
                                 | XH -> Some Xa3
                                 | _ -> None)
                     | XH -> Some X63)
                  | XO p5 ->
                    (match p5 with
                     | XI p6 -> (match p6 with
                                 | XH -> Some Xc3
                                 | _ -> None)
                     | XO p6 -> (match p6 with
                                 | XH -> Some X83
                                 | _ -> None)
                     | XH -> Some X43)
                  | XH -> Some X23)
               | XH -> Some X13)
            | XH -> Some X0b)
         | XH -> Some X07)
      | XO p1 ->
        (match p1 with
         | XI p2 ->
           (match p2 with
            | XI p3 ->
              (match p3 with
               | XI p4 ->
                 (match p4 with
                  | XI p5 ->
                    (match p5 with
                     | XI p6 -> (match p6 with
                                 | XH -> Some Xfd
                                 | _ -> None)
                     | XO p6 -> (match p6 with
                                 | XH -> Some Xbd
                                 | _ -> None)
                     | XH -> Some X7d)
                  | XO p5 ->
                    (match p5 with
                     | XI p6 -> (match p6 with
                                 | XH -> Some Xdd
                                 | _ -> None)
                     | XO p6 -> (match p6 with
                                 | XH -> Some X9d
                                 | _ -> None)
                     | XH -> Some X5d)
                  | XH -> Some X3d)
               | XO p4 ->
                 (match p4 with
                  | XI p5 ->
                    (match p5 with
                     | XI p6 -> (match p6 with
                                 | XH -> Some Xed
                                 | _ -> None)
                     | XO p6 -> (match p6 with
                                 | XH -> Some Xad
                                 | _ -> None)
                     | XH -> Some X6d)
                  | XO p5 ->
                    (match p5 with
                     | XI p6 -> (match p6 with
                                 | XH -> Some Xcd
                                 | _ -> None)
                     | XO p6 -> (match p6 with
                                 | XH -> Some X8d
                                 | _ -> None)
                     | XH -> Some X4d)
                  | XH -> Some X2d)
               | XH -> Some X1d)
            | XO p3 ->
              (match p3 with
               | XI p4 ->
                 (match p4 with
                  | XI p5 ->
                    (match p5 with
                     | XI p6 -> (match p6 with
                                 | XH -> Some Xf5
                                 | _ -> None)
                     | XO p6 -> (match p6 with
                                 | XH -> Some Xb5
                                 | _ -> None)
                     | XH -> Some X75)
                  | XO p5 ->
                    (match p5 with
                     | XI p6 -> (match p6 with
                                 | XH -> Some Xd5
                                 | _ -> None)
                     | XO p6 -> (match p6 with
                                 | XH -> Some X95
                                 | _ -> None)
                     | XH -> Some X55)
                  | XH -> Some X35)
               | XO p4 ->
                 (match p4 with
                  | XI p5 ->
                    (match p5 with
                     | XI p6 -> (match p6 with
                                 | XH -> Some Xe5
                                 | _ -> None)
                     | XO p6 -> (match p6 with
                                 | XH -> Some Xa5
                                 | _ -> None)
                     | XH -> Some X65)
                  | XO p5 ->
                    (match p5 with
                     | XI p6 -> (match p6 with
                                 | XH -> Some Xc5
                                 | _ -> None)
                     | XO p6 -> (match p6 with
                                 | XH -> Some X85
                                 | _ -> None)
                     | XH -> Some X45)
                  | XH -> Some X25)
               | XH -> Some X15)
            | XH -> Some X0d)
         | XO p2 ->
           (match p2 with
            | XI p3 ->
              (match p3 with
               | XI p4 ->
                 (match p4 with
                  | XI p5 ->
                    (match p5 with
                     | XI p6 -> (match p6 with
                                 | XH -> Some Xf9
                                 | _ -> None)
                     | XO p6 -> (match p6 with
                                 | XH -> Some Xb9
                                 | _ -> None)
                     | XH -> Some X79)
                  | XO p5 ->
                    (match p5 with
                     | XI p6 -> (match p6 with
                                 | XH -> Some Xd9
                                 | _ -> None)
                     | XO p6 -> (match p6 with
                                 | XH -> Some X99
                                 | _ -> None)
                     | XH -> Some X59)
                  | XH -> Some X39)
               | XO p4 ->
                 (match p4 with
                  | XI p5 ->
                    (match p5 with
                     | XI p6 -> (match p6 with
                                 | XH -> Some Xe9
                                 | _ -> None)
                     | XO p6 -> (match p6 with
                                 | XH -> Some Xa9
                                 | _ -> None)
                     | XH -> Some X69)
                  | XO p5 ->
                    (match p5 with
                     | XI p6 -> (match p6 with
                                 | XH -> Some Xc9
                                 | _ -> None)
                     | XO p6 -> (match p6 with
                                 | XH -> Some X89
                                 | _ -> None)
                     | XH -> Some X49)
                  | XH -> Some X29)
               | XH -> Some X19)
            | XO p3 ->
              (match p3 with
               | XI p4 ->
                 (match p4 with
                  | XI p5 ->
                    (match p5 with
                     | XI p6 -> (match p6 with
                                 | XH -> Some Xf1
                                 | _ -> None)
                     | XO p6 -> (match p6 with
                                 | XH -> Some Xb1
                                 | _ -> None)
                     | XH -> Some X71)
                  | XO p5 ->
                    (match p5 with
                     | XI p6 -> (match p6 with
                                 | XH -> Some Xd1
                                 | _ -> None)
                     | XO p6 -> (match p6 with
                                 | XH -> Some X91
                                 | _ -> None)
                     | XH -> Some X51)
                  | XH -> Some X31)
               | XO p4 ->
                 (match p4 with
                  | XI p5 ->
                    (match p5 with
                     | XI p6 -> (match p6 with
                                 | XH -> Some Xe1
                                 | _ -> None)
                     | XO p6 -> (match p6 with
                                 | XH -> Some Xa1
                                 | _ -> None)
                     | XH -> Some X61)
                  | XO p5 ->
                    (match p5 with
                     | XI p6 -> (match p6 with
                                 | XH -> Some Xc1
                                 | _ -> None)
                     | XO p6 -> (match p6 with
                                 | XH -> Some X81
                                 | _ -> None)
                     | XH -> Some X41)
                  | XH -> Some X21)
               | XH -> Some X11)
            | XH -> Some X09)
         | XH -> Some X05)
      | XH -> Some X03)
   | XO p0 ->
     (match p0 with
      | XI p1 ->
        (match p1 with
         | XI p2 ->
           (match p2 with
            | XI p3 ->
              (match p3 with
               | XI p4 ->
                 (match p4 with
                  | XI p5 ->
                    (match p5 with
                     | XI p6 -> (match p6 with
                                 | XH -> Some Xfe
                                 | _ -> None)
                     | XO p6 -> (match p6 with
                                 | XH -> Some Xbe
                                 | _ -> None)
                     | XH -> Some X7e)
                  | XO p5 ->
                    (match p5 with
                     | XI p6 -> (match p6 with
                                 | XH -> Some Xde
                                 | _ -> None)
                     | XO p6 -> (match p6 with
                                 | XH -> Some X9e
                                 | _ -> None)
                     | XH -> Some X5e)
                  | XH -> Some X3e)
               | XO p4 ->
                 (match p4 with
                  | XI p5 ->
                    (match p5 with
                     | XI p6 -> (match p6 with
                                 | XH -> Some Xee
                                 | _ -> None)
                     | XO p6 -> (match p6 with
                                 | XH -> Some Xae
                                 | _ -> None)
                     | XH -> Some X6e)
                  | XO p5 ->
                    (match p5 with
                     | XI p6 -> (match p6 with
                                 | XH -> Some Xce
                                 | _ -> None)
                     | XO p6 -> (match p6 with
                                 | XH -> Some X8e
                                 | _ -> None)
                     | XH -> Some X4e)
                  | XH -> Some X2e)
               | XH -> Some X1e)
            | XO p3 ->
              (match p3 with
               | XI p4 ->
                 (match p4 with
                  | XI p5 ->
                    (match p5 with
                     | XI p6 -> (match p6 with
                                 | XH -> Some Xf6
                                 | _ -> None)
                     | XO p6 -> (match p6 with
                                 | XH -> Some Xb6
                                 | _ -> None)
                     | XH -> Some X76)
                  | XO p5 ->
                    (match p5 with
                     | XI p6 -> (match p6 with
                                 | XH -> Some Xd6
                                 | _ -> None)
                     | XO p6 -> (match p6 with
                                 | XH -> Some X96
                                 | _ -> None)
                     | XH -> Some X56)
                  | XH -> Some X36)
               | XO p4 ->
                 (match p4 with
                  | XI p5 ->
                    (match p5 with
                     | XI p6 -> (match p6 with
                                 | XH -> Some Xe6
                                 | _ -> None)
                     | XO p6 -> (match p6 with
                                 | XH -> Some Xa6
                                 | _ -> None)
                     | XH -> Some X66)
                  | XO p5 ->
                    (match p5 with
                     | XI p6 -> (match p6 with
                                 | XH -> Some Xc6
                                 | _ -> None)
                     | XO p6 -> (match p6 with
                                 | XH -> Some X86
                                 | _ -> None)
                     | XH -> Some X46)
                  | XH -> Some X26)
               | XH -> Some X16)
            | XH -> Some X0e)
         | XO p2 ->
           (match p2 with
            | XI p3 ->
              (match p3 with
               | XI p4 ->
                 (match p4 with
                  | XI p5 ->
                    (match p5 with
                     | XI p6 -> (match p6 with
                                 | XH -> Some Xfa
                                 | _ -> None)
                     | XO p6 -> (match p6 with
                                 | XH -> Some Xba
                                 | _ -> None)
                     | XH -> Some X7a)
                  | XO p5 ->
                    (match p5 with
                     | XI p6 -> (match p6 with
                                 | XH -> Some Xda
                                 | _ -> None)
                     | XO p6 -> (match p6 with
                                 | XH -> Some X9a
                                 | _ -> None)
                     | XH -> Some X5a)
                  | XH -> Some X3a)
               | XO p4 ->
                 (match p4 with
                  | XI p5 ->
                    (match p5 with
                     | XI p6 -> (match p6 with
                                 | XH -> Some Xea
                                 | _ -> None)
                     | XO p6 -> (match p6 with
                                 | XH -> Some Xaa
                                 | _ -> None)
                     | XH -> Some X6a)
                  | XO p5 ->
                    (match p5 with
                     | XI p6 -> (match p6 with
                                 | XH -> Some Xca
                                 | _ -> None)
                     | XO p6 -> (match p6 with
                                 | XH -> Some X8a
                                 | _ -> None)
                     | XH -> Some X4a)
                  | XH -> Some X2a)
               | XH -> Some X1a)
            | XO p3 ->
              (match p3 with
               | XI p4 ->
                 (match p4 with
                  | XI p5 ->
                    (match p5 with
                     | XI p6 -> (match p6 with
                                 | XH -> Some Xf2
                                 | _ -> None)
                     | XO p6 -> (match p6 with
                                 | XH -> Some Xb2
                                 | _ -> None)
                     | XH -> Some X72)
                  | XO p5 ->
                    (match p5 with
                     | XI p6 -> (match p6 with
                                 | XH -> Some Xd2
                                 | _ -> None)
                     | XO p6 -> (match p6 with
                                 | XH -> Some X92
                                 | _ -> None)
                     | XH -> Some X52)
                  | XH -> Some X32)
               | XO p4 ->
                 (match p4 with
                  | XI p5 ->
                    (match p5 with
                     | XI p6 -> (match p6 with
                                 | XH -> Some Xe2
                                 | _ -> None)
                     | XO p6 -> (match p6 with
                                 | XH -> Some Xa2
                                 | _ -> None)
                     | XH -> Some X62)
                  | XO p5 ->
                    (match p5 with
                     | XI p6 -> (match p6 with
                                 | XH -> Some Xc2
                                 | _ -> None)
                     | XO p6 -> (match p6 with
                                 | XH -> Some X82
                                 | _ -> None)
                     | XH -> Some X42)
                  | XH -> Some X22)
               | XH -> Some X12)
            | XH -> Some X0a)
         | XH -> Some X06)
      | XO p1 ->
        (match p1 with
         | XI p2 ->
           (match p2 with
            | XI p3 ->
              (match p3 with
               | XI p4 ->
                 (match p4 with
                  | XI p5 ->
                    (match p5 with
                     | XI p6 -> (match p6 with
                                 | XH -> Some Xfc
                                 | _ -> None)
                     | XO p6 -> (match p6 with
                                 | XH -> Some Xbc
                                 | _ -> None)
                     | XH -> Some X7c)
                  | XO p5 ->
                    (match p5 with
                     | XI p6 -> (match p6 with
                                 | XH -> Some Xdc
                                 | _ -> None)
                     | XO p6 -> (match p6 with
                                 | XH -> Some X9c
                                 | _ -> None)
                     | XH -> Some X5c)
                  | XH -> Some X3c)
               | XO p4 ->
                 (match p4 with
                  | XI p5 ->
                    (match p5 with
                     | XI p6 -> (match p6 with
                                 | XH -> Some Xec
                                 | _ -> None)
                     | XO p6 -> (match p6 with
                                 | XH -> Some Xac
                                 | _ -> None)
                     | XH -> Some X6c)
                  | XO p5 ->
                    (match p5 with
                     | XI p6 -> (match p6 with
                                 | XH -> Some Xcc
                                 | _ -> None)
                     | XO p6 -> (match p6 with
                                 | XH -> Some X8c
                                 | _ -> None)
                     | XH -> Some X4c)
                  | XH -> Some X2c)
               | XH -> Some X1c)
            | XO p3 ->
              (match p3 with
               | XI p4 ->
                 (match p4 with
                  | XI p5 ->
                    (match p5 with
                     | XI p6 -> (match p6 with
                                 | XH -> Some Xf4
                                 | _ -> None)
                     | XO p6 -> (match p6 with
                                 | XH -> Some Xb4
                                 | _ -> None)
                     | XH -> Some X74)
                  | XO p5 ->
                    (match p5 with
                     | XI p6 -> (match p6 with
                                 | XH -> Some Xd4
                                 | _ -> None)
                     | XO p6 -> (match p6 with
                                 | XH -> Some X94
                                 | _ -> None)
                     | XH -> Some X54)
                  | XH -> Some X34)
               | XO p4 ->
                 (match p4 with
                  | XI p5 ->
                    (match p5 with
                     | XI p6 -> (match p6 with
                                 | XH -> Some Xe4
                                 | _ -> None)
                     | XO p6 -> (match p6 with
                                 | XH -> Some Xa4
                                 | _ -> None)
                     | XH -> Some X64)
                  | XO p5 ->
                    (match p5 with
                     | XI p6 -> (match p6 with
                                 | XH -> Some Xc4
                                 | _ -> None)
                     | XO p6 -> (match p6 with
                                 | XH -> Some X84
                                 | _ -> None)
                     | XH -> Some X44)
                  | XH -> Some X24)
               | XH -> Some X14)
            | XH -> Some X0c)
         | XO p2 ->
           (match p2 with
            | XI p3 ->
              (match p3 with
               | XI p4 ->
                 (match p4 with
                  | XI p5 ->
                    (match p5 with
                     | XI p6 -> (match p6 with
                                 | XH -> Some Xf8
                                 | _ -> None)
                     | XO p6 -> (match p6 with
                                 | XH -> Some Xb8
                                 | _ -> None)
                     | XH -> Some X78)
                  | XO p5 ->
                    (match p5 with
                     | XI p6 -> (match p6 with
                                 | XH -> Some Xd8
                                 | _ -> None)
                     | XO p6 -> (match p6 with
                                 | XH -> Some X98
                                 | _ -> None)
                     | XH -> Some X58)
                  | XH -> Some X38)
               | XO p4 ->
                 (match p4 with
                  | XI p5 ->
                    (match p5 with
                     | XI p6 -> (match p6 with
                                 | XH -> Some Xe8
                                 | _ -> None)
                     | XO p6 -> (match p6 with
                                 | XH -> Some Xa8
                                 | _ -> None)
                     | XH -> Some X68)
                  | XO p5 ->
                    (match p5 with
                     | XI p6 -> (match p6 with
                                 | XH -> Some Xc8
                                 | _ -> None)
                     | XO p6 -> (match p6 with
                                 | XH -> Some X88
                                 | _ -> None)
                     | XH -> Some X48)
                  | XH -> Some X28)
               | XH -> Some X18)
            | XO p3 ->
              (match p3 with
               | XI p4 ->
                 (match p4 with
                  | XI p5 ->
                    (match p5 with
                     | XI p6 -> (match p6 with
                                 | XH -> Some Xf0
                                 | _ -> None)
                     | XO p6 -> (match p6 with
                                 | XH -> Some Xb0
                                 | _ -> None)
                     | XH -> Some X70)
                  | XO p5 ->
                    (match p5 with
                     | XI p6 -> (match p6 with
                                 | XH -> Some Xd0
                                 | _ -> None)
                     | XO p6 -> (match p6 with
                                 | XH -> Some X90
                                 | _ -> None)
                     | XH -> Some X50)
                  | XH -> Some X30)
               | XO p4 ->
                 (match p4 with
                  | XI p5 ->
                    (match p5 with
                     | XI p6 -> (match p6 with
                                 | XH -> Some Xe0
                                 | _ -> None)
                     | XO p6 -> (match p6 with
                                 | XH -> Some Xa0
                                 | _ -> None)
                     | XH -> Some X60)
                  | XO p5 ->
                    (match p5 with
                     | XI p6 -> (match p6 with
                                 | XH -> Some Xc0
                                 | _ -> None)
                     | XO p6 -> (match p6 with
                                 | XH -> Some X80
                                 | _ -> None)
                     | XH -> Some X40)
                  | XH -> Some X20)
               | XH -> Some X10)
            | XH -> Some X08)
         | XH -> Some X04)
      | XH -> Some X02)
   | XH -> Some X01)

type ascii =
| Ascii of bool * bool * bool * bool * bool * bool * bool * bool

(** val byte_of_ascii : ascii -> byte **)

let byte_of_ascii = function
| Ascii (b0, b1, b2, b3, b4, b5, b6, b7) ->
  of_bits (b0, (b1, (b2, (b3, (b4, (b5, (b6, b7)))))))

type string =
| EmptyString
| String of ascii * string

(** val list_ascii_of_string : string -> ascii list **)

let rec list_ascii_of_string = function
| EmptyString -> []
| String (ch, s0) -> ch :: (list_ascii_of_string s0)

(** val list_byte_of_string : string -> byte list **)

let list_byte_of_string s =
  map byte_of_ascii (list_ascii_of_string s)

type decision = bool

(** val decide : decision -> bool **)

let decide decision0 =
  decision0

type ('a, 'b) relDecision = 'a -> 'b -> decision

(** val decide_rel : ('a1, 'a2) relDecision -> 'a1 -> 'a2 -> decision **)

let decide_rel relDecision0 =
  relDecision0

type 'a empty = 'a

(** val empty0 : 'a1 empty -> 'a1 **)

let empty0 empty1 =
  empty1

type ('a, 'b) filter = __ -> ('a -> decision) -> 'b -> 'b

(** val filter0 : ('a1, 'a2) filter -> ('a1 -> decision) -> 'a2 -> 'a2 **)

let filter0 filter1 h x =
  filter1 __ h x

type 'm mRet = __ -> __ -> 'm

(** val mret : 'a1 mRet -> 'a2 -> 'a1 **)

let mret mRet0 x =
  Obj.magic mRet0 __ x

type 'm mBind = __ -> __ -> (__ -> 'm) -> 'm -> 'm

(** val mbind : 'a1 mBind -> ('a2 -> 'a1) -> 'a1 -> 'a1 **)

let mbind mBind0 x x0 =
  Obj.magic mBind0 __ __ x x0

type 'm fMap = __ -> __ -> (__ -> __) -> 'm -> 'm

(** val fmap : 'a1 fMap -> ('a2 -> 'a3) -> 'a1 -> 'a1 **)

let fmap fMap0 x x0 =
  Obj.magic fMap0 __ __ x x0

type 'm oMap = __ -> __ -> (__ -> __ option) -> 'm -> 'm

(** val omap : 'a1 oMap -> ('a2 -> 'a3 option) -> 'a1 -> 'a1 **)

let omap oMap0 x x0 =
  Obj.magic oMap0 __ __ x x0

type ('k, 'a, 'm) lookup = 'k -> 'm -> 'a option

(** val lookup0 : ('a1, 'a2, 'a3) lookup -> 'a1 -> 'a3 -> 'a2 option **)

let lookup0 lookup1 =
  lookup1

type ('k, 'a, 'm) insert = 'k -> 'a -> 'm -> 'm

(** val insert0 : ('a1, 'a2, 'a3) insert -> 'a1 -> 'a2 -> 'a3 -> 'a3 **)

let insert0 insert1 =
  insert1

type ('k, 'm) delete = 'k -> 'm -> 'm

(** val delete0 : ('a1, 'a2) delete -> 'a1 -> 'a2 -> 'a2 **)

let delete0 delete1 =
  delete1

type ('k, 'a, 'm) partialAlter = ('a option -> 'a option) -> 'k -> 'm -> 'm

(** val partial_alter :
    ('a1, 'a2, 'a3) partialAlter -> ('a2 option -> 'a2 option) -> 'a1 -> 'a3
    -> 'a3 **)

let partial_alter partialAlter0 =
  partialAlter0

(** val not_dec : decision -> decision **)

let not_dec = function
| true -> false
| false -> true

(** val bool_decide : decision -> bool **)

let bool_decide = function
| true -> true
| false -> false

(** val from_option : ('a1 -> 'a2) -> 'a2 -> 'a1 option -> 'a2 **)

let from_option f y = function
| Some x -> f x
| None -> y

(** val option_eq_None_dec : 'a1 option -> decision **)

let option_eq_None_dec = function
| Some _ -> false
| None -> true

(** val option_ret : __ -> __ option **)

let option_ret x =
  Some x

(** val option_bind : (__ -> __ option) -> __ option -> __ option **)

let option_bind f = function
| Some x -> f x
| None -> None

(** val option_fmap : (__ -> __) -> __ option -> __ option **)

let option_fmap =
  option_map

module Coq_Nat =
 struct
  (** val eq_dec : (nat, nat) relDecision **)

  let eq_dec =
    Nat.eq_dec
 end

module Coq_Pos =
 struct
  (** val eq_dec : (positive, positive) relDecision **)

  let eq_dec =
    Pos.eq_dec

  (** val app : positive -> positive -> positive **)

  let rec app p1 = function
  | XI p3 -> XI (app p1 p3)
  | XO p3 -> XO (app p1 p3)
  | XH -> p1

  (** val reverse_go : positive -> positive -> positive **)

  let rec reverse_go p1 = function
  | XI p3 -> reverse_go (XI p1) p3
  | XO p3 -> reverse_go (XO p1) p3
  | XH -> p1

  (** val reverse : positive -> positive **)

  let reverse =
    reverse_go XH

  (** val dup : positive -> positive **)

  let rec dup = function
  | XI p' -> XI (XI (dup p'))
  | XO p' -> XO (XO (dup p'))
  | XH -> XH
 end

(** val n_eq_dec : (n, n) relDecision **)

let n_eq_dec =
  N.eq_dec

module Coq_Z =
 struct
  (** val eq_dec : (z, z) relDecision **)

  let eq_dec =
    Z.eq_dec
 end

(** val list_filter : ('a1 -> decision) -> 'a1 list -> 'a1 list **)

let rec list_filter x = function
| [] -> []
| x0 :: l0 ->
  if decide (x x0)
  then x0 :: (filter0 (fun _ -> list_filter) x l0)
  else filter0 (fun _ -> list_filter) x l0

(** val list_fmap : (__ -> __) -> __ list -> __ list **)

let rec list_fmap f = function
| [] -> []
| x :: l0 -> (f x) :: (list_fmap f l0)

(** val list_omap : (__ -> __ option) -> __ list -> __ list **)

let rec list_omap f = function
| [] -> []
| x :: l0 ->
  (match f x with
   | Some y -> y :: (list_omap f l0)
   | None -> list_omap f l0)

(** val mapM : 'a1 mBind -> 'a1 mRet -> ('a2 -> 'a1) -> 'a2 list -> 'a1 **)

let rec mapM h h0 f = function
| [] -> mret h0 []
| x :: l0 ->
  mbind h (fun y -> mbind h (fun k -> mret h0 (y :: k)) (mapM h h0 f l0))
    (f x)

(** val elem_of_list_dec :
    ('a1, 'a1) relDecision -> ('a1, 'a1 list) relDecision **)

let rec elem_of_list_dec dec x = function
| [] -> false
| y :: l0 ->
  if decide (decide_rel dec x y) then true else elem_of_list_dec dec x l0

(** val positives_flatten_go : positive list -> positive -> positive **)

let rec positives_flatten_go xs acc =
  match xs with
  | [] -> acc
  | x :: xs0 ->
    positives_flatten_go xs0
      (Coq_Pos.app (XO (XI acc)) (Coq_Pos.reverse (Coq_Pos.dup x)))

(** val positives_flatten : positive list -> positive **)

let positives_flatten xs =
  positives_flatten_go xs XH

(** val positives_unflatten_go :
    positive -> positive list -> positive -> positive list option **)

let rec positives_unflatten_go p acc_xs acc_elm =
  match p with
  | XI p0 ->
    (match p0 with
     | XI p' -> positives_unflatten_go p' acc_xs (XI acc_elm)
     | _ -> None)
  | XO p0 ->
    (match p0 with
     | XI p' -> positives_unflatten_go p' (acc_elm :: acc_xs) XH
     | XO p' -> positives_unflatten_go p' acc_xs (XO acc_elm)
     | XH -> None)
  | XH -> Some acc_xs

(** val positives_unflatten : positive -> positive list option **)

let positives_unflatten p =
  positives_unflatten_go p [] XH

(** val list_eq_dec0 :
    ('a1, 'a1) relDecision -> ('a1 list, 'a1 list) relDecision **)

let list_eq_dec0 =
  list_eq_dec

(** val list_eq_nil_dec : 'a1 list -> decision **)

let list_eq_nil_dec = function
| [] -> true
| _ :: _ -> false

type 'a countable = { encode : ('a -> positive);
                      decode : (positive -> 'a option) }

(** val inj_countable :
    ('a1, 'a1) relDecision -> 'a1 countable -> ('a2, 'a2) relDecision -> ('a2
    -> 'a1) -> ('a1 -> 'a2 option) -> 'a2 countable **)

let inj_countable _ h _ f g =
  { encode = (fun y -> h.encode (f y)); decode = (fun p ->
    mbind (Obj.magic (fun _ _ -> option_bind)) g ((Obj.magic h).decode p)) }

(** val list_countable :
    ('a1, 'a1) relDecision -> 'a1 countable -> 'a1 list countable **)

let list_countable _ h =
  { encode = (fun xs ->
    positives_flatten
      (fmap (Obj.magic (fun _ _ -> list_fmap)) h.encode (Obj.magic xs)));
    decode = (fun p ->
    mbind (Obj.magic (fun _ _ -> option_bind)) (fun positives ->
      mapM (Obj.magic (fun _ _ -> option_bind))
        (Obj.magic (fun _ -> option_ret)) (Obj.magic h).decode positives)
      (Obj.magic positives_unflatten p)) }

(** val n_countable : n countable **)

let n_countable =
  { encode = (fun x -> match x with
                       | N0 -> XH
                       | Npos p -> Pos.succ p); decode = (fun p ->
    if decide (decide_rel Coq_Pos.eq_dec p XH)
    then Some N0
    else Some (Npos (Pos.pred p))) }

(** val nat_countable : nat countable **)

let nat_countable =
  { encode = (fun x -> n_countable.encode (N.of_nat x)); decode = (fun p ->
    fmap (Obj.magic (fun _ _ -> option_fmap)) N.to_nat
      ((Obj.magic n_countable).decode p)) }

type ('k, 'a, 'm) finMapToList = 'm -> ('k * 'a) list

(** val map_to_list :
    ('a1, 'a2, 'a3) finMapToList -> 'a3 -> ('a1 * 'a2) list **)

let map_to_list finMapToList0 =
  finMapToList0

(** val map_insert :
    ('a1, 'a2, 'a3) partialAlter -> ('a1, 'a2, 'a3) insert **)

let map_insert h i x =
  partial_alter h (fun _ -> Some x) i

(** val map_delete : ('a1, 'a2, 'a3) partialAlter -> ('a1, 'a3) delete **)

let map_delete h =
  partial_alter h (fun _ -> None)

type 'a pmap_raw =
| PLeaf
| PNode of 'a option * 'a pmap_raw * 'a pmap_raw

(** val pNode' :
    'a1 option -> 'a1 pmap_raw -> 'a1 pmap_raw -> 'a1 pmap_raw **)

let pNode' o l r =
  match l with
  | PLeaf ->
    (match o with
     | Some _ -> PNode (o, l, r)
     | None ->
       (match r with
        | PLeaf -> PLeaf
        | PNode (_, _, _) -> PNode (o, l, r)))
  | PNode (_, _, _) -> PNode (o, l, r)

(** val pempty_raw : 'a1 pmap_raw empty **)

let pempty_raw =
  PLeaf

(** val plookup_raw : (positive, 'a1, 'a1 pmap_raw) lookup **)

let rec plookup_raw i = function
| PLeaf -> None
| PNode (o, l, r) ->
  (match i with
   | XI i0 -> lookup0 plookup_raw i0 r
   | XO i0 -> lookup0 plookup_raw i0 l
   | XH -> o)

(** val psingleton_raw : positive -> 'a1 -> 'a1 pmap_raw **)

let rec psingleton_raw i x =
  match i with
  | XI i0 -> PNode (None, PLeaf, (psingleton_raw i0 x))
  | XO i0 -> PNode (None, (psingleton_raw i0 x), PLeaf)
  | XH -> PNode ((Some x), PLeaf, PLeaf)

(** val ppartial_alter_raw :
    ('a1 option -> 'a1 option) -> positive -> 'a1 pmap_raw -> 'a1 pmap_raw **)

let rec ppartial_alter_raw f i = function
| PLeaf -> (match f None with
            | Some x -> psingleton_raw i x
            | None -> PLeaf)
| PNode (o, l, r) ->
  (match i with
   | XI i0 -> pNode' o l (ppartial_alter_raw f i0 r)
   | XO i0 -> pNode' o (ppartial_alter_raw f i0 l) r
   | XH -> pNode' (f o) l r)

(** val pto_list_raw :
    positive -> 'a1 pmap_raw -> (positive * 'a1) list -> (positive * 'a1) list **)

let rec pto_list_raw j t acc =
  match t with
  | PLeaf -> acc
  | PNode (o, l, r) ->
    app (from_option (fun x -> ((Coq_Pos.reverse j), x) :: []) [] o)
      (pto_list_raw (XO j) l (pto_list_raw (XI j) r acc))

type 'a pmap =
  'a pmap_raw
  (* singleton inductive, whose constructor was PMap *)

(** val pmap_car : 'a1 pmap -> 'a1 pmap_raw **)

let pmap_car p =
  p

(** val pempty : 'a1 pmap empty **)

let pempty =
  empty0 pempty_raw

(** val plookup : (positive, 'a1, 'a1 pmap) lookup **)

let plookup i m =
  lookup0 plookup_raw i (pmap_car m)

(** val ppartial_alter : (positive, 'a1, 'a1 pmap) partialAlter **)

let ppartial_alter f i m =
  partial_alter ppartial_alter_raw f i m

(** val pto_list : (positive, 'a1, 'a1 pmap) finMapToList **)

let pto_list m =
  pto_list_raw XH m []

type ('k, 'a) gmap =
  'a pmap
  (* singleton inductive, whose constructor was GMap *)

(** val gmap_lookup :
    ('a1, 'a1) relDecision -> 'a1 countable -> ('a1, 'a2, ('a1, 'a2) gmap)
    lookup **)

let gmap_lookup _ h i pat =
  lookup0 plookup (h.encode i) pat

(** val gmap_empty :
    ('a1, 'a1) relDecision -> 'a1 countable -> ('a1, 'a2) gmap empty **)

let gmap_empty _ _ =
  empty0 pempty

(** val gmap_partial_alter :
    ('a1, 'a1) relDecision -> 'a1 countable -> ('a1, 'a2, ('a1, 'a2) gmap)
    partialAlter **)

let gmap_partial_alter _ h f i pat =
  partial_alter ppartial_alter f (h.encode i) pat

(** val gmap_to_list :
    ('a1, 'a1) relDecision -> 'a1 countable -> ('a1, 'a2, ('a1, 'a2) gmap)
    finMapToList **)

let gmap_to_list _ h pat =
  omap (Obj.magic (fun _ _ -> list_omap)) (fun pat0 ->
    let (i, x) = pat0 in
    fmap (Obj.magic (fun _ _ -> option_fmap)) (fun x0 -> (x0, x)) (h.decode i))
    (map_to_list (Obj.magic pto_list) pat)

type str = byte list

(** val byte_eq_dec0 : (byte, byte) relDecision **)

let byte_eq_dec0 =
  byte_eq_dec

(** val byte_countable : byte countable **)

let byte_countable =
  inj_countable n_eq_dec n_countable byte_eq_dec0 to_N of_N

type err =
| ESrvEmptyName
| ESrvLockWaitTimeout
| ESrvDoesNotExistOrInvalidKey
| ESrvSessionDoesNotExist
| ESrvInvalidLockTimeout
| ESrvInvalidWaitTimeout
| ELockInvalidLockKey
| ELockNotLocked
| ELockDoesNotExist
| ELockManagerShutdown
| ELockSizeMismatch
| ELockInvalidLockSize
| ETimerDoesNotExist
| ECtxCanceled
| ECtxDeadlineExceeded
| EOther

(** val all_errs : err list **)

let all_errs =
  ESrvEmptyName :: (ESrvLockWaitTimeout :: (ESrvDoesNotExistOrInvalidKey :: (ESrvSessionDoesNotExist :: (ESrvInvalidLockTimeout :: (ESrvInvalidWaitTimeout :: (ELockInvalidLockKey :: (ELockNotLocked :: (ELockDoesNotExist :: (ELockManagerShutdown :: (ELockSizeMismatch :: (ELockInvalidLockSize :: (ETimerDoesNotExist :: (ECtxCanceled :: (ECtxDeadlineExceeded :: (EOther :: [])))))))))))))))

(** val err_go_name : err -> string **)

let err_go_name = function
| ESrvEmptyName ->
  String ((Ascii (true, true, false, false, true, true, true, false)),
    (String ((Ascii (true, false, true, false, false, true, true, false)),
    (String ((Ascii (false, true, false, false, true, true, true, false)),
    (String ((Ascii (false, true, true, false, true, true, true, false)),
    (String ((Ascii (true, false, true, false, false, true, true, false)),
    (String ((Ascii (false, true, false, false, true, true, true, false)),
    (String ((Ascii (false, true, true, true, false, true, false, false)),
    (String ((Ascii (true, false, true, false, false, false, true, false)),
    (String ((Ascii (false, true, false, false, true, true, true, false)),
    (String ((Ascii (false, true, false, false, true, true, true, false)),
    (String ((Ascii (true, false, true, false, false, false, true, false)),
    (String ((Ascii (true, false, true, true, false, true, true, false)),
    (String ((Ascii (false, false, false, false, true, true, true, false)),
    (String ((Ascii (false, false, true, false, true, true, true, false)),
    (String ((Ascii (true, false, false, true, true, true, true, false)),
    (String ((Ascii (false, true, true, true, false, false, true, false)),
    (String ((Ascii (true, false, false, false, false, true, true, false)),
    (String ((Ascii (true, false, true, true, false, true, true, false)),
    (String ((Ascii (true, false, true, false, false, true, true, false)),
    EmptyString)))))))))))))))))))))))))))))))))))))
| ESrvLockWaitTimeout ->
  String ((Ascii (true, true, false, false, true, true, true, false)),
    (String ((Ascii (true, false, true, false, false, true, true, false)),
    (String ((Ascii (false, true, false, false, true, true, true, false)),
    (String ((Ascii (false, true, true, false, true, true, true, false)),
    (String ((Ascii (true, false, true, false, false, true, true, false)),
    (String ((Ascii (false, true, false, false, true, true, true, false)),
    (String ((Ascii (false, true, true, true, false, true, false, false)),
    (String ((Ascii (true, false, true, false, false, false, true, false)),
    (String ((Ascii (false, true, false, false, true, true, true, false)),
    (String ((Ascii (false, true, false, false, true, true, true, false)),
    (String ((Ascii (false, false, true, true, false, false, true, false)),
    (String ((Ascii (true, true, true, true, false, true, true, false)),
    (String ((Ascii (true, true, false, false, false, true, true, false)),
    (String ((Ascii (true, true, false, true, false, true, true, false)),
    (String ((Ascii (true, true, true, false, true, false, true, false)),
    (String ((Ascii (true, false, false, false, false, true, true, false)),
    (String ((Ascii (true, false, false, true, false, true, true, false)),
    (String ((Ascii (false, false, true, false, true, true, true, false)),
    (String ((Ascii (false, false, true, false, true, false, true, false)),
    (String ((Ascii (true, false, false, true, false, true, true, false)),
    (String ((Ascii (true, false, true, true, false, true, true, false)),
    (String ((Ascii (true, false, true, false, false, true, true, false)),
    (String ((Ascii (true, true, true, true, false, true, true, false)),
    (String ((Ascii (true, false, true, false, true, true, true, false)),
    (String ((Ascii (false, false, true, false, true, true, true, false)),
    EmptyString)))))))))))))))))))))))))))))))))))))))))))))))))
| ESrvDoesNotExistOrInvalidKey ->
  String ((Ascii (true, true, false, false, true, true, true, false)),
    (String ((Ascii (true, false, true, false, false, true, true, false)),
    (String ((Ascii (false, true, false, false, true, true, true, false)),
    (String ((Ascii (false, true, true, false, true, true, true, false)),
    (String ((Ascii (true, false, true, false, false, true, true, false)),
    (String ((Ascii (false, true, false, false, true, true, true, false)),
    (String ((Ascii (false, true, true, true, false, true, false, false)),
    (String ((Ascii (true, false, true, false, false, false, true, false)),
    (String ((Ascii (false, true, false, false, true, true, true, false)),
    (String ((Ascii (false, true, false, false, true, true, true, false)),
    (String ((Ascii (false, false, true, true, false, false, true, false)),
    (String ((Ascii (true, true, true, true, false, true, true, false)),
    (String ((Ascii (true, true, false, false, false, true, true, false)),
    (String ((Ascii (true, true, false, true, false, true, true, false)),
    (String ((Ascii (false, false, true, false, false, false, true, false)),
    (String ((Ascii (true, true, true, true, false, true, true, false)),
    (String ((Ascii (true, false, true, false, false, true, true, false)),
    (String ((Ascii (true, true, false, false, true, true, true, false)),
    (String ((Ascii (false, true, true, true, false, false, true, false)),
    (String ((Ascii (true, true, true, true, false, true, true, false)),
    (String ((Ascii (false, false, true, false, true, true, true, false)),
    (String ((Ascii (true, false, true, false, false, false, true, false)),
    (String ((Ascii (false, false, false, true, true, true, true, false)),
    (String ((Ascii (true, false, false, true, false, true, true, false)),
    (String ((Ascii (true, true, false, false, true, true, true, false)),
    (String ((Ascii (false, false, true, false, true, true, true, false)),
    (String ((Ascii (true, true, true, true, false, false, true, false)),
    (String ((Ascii (false, true, false, false, true, true, true, false)),
    (String ((Ascii (true, false, false, true, false, false, true, false)),
    (String ((Ascii (false, true, true, true, false, true, true, false)),
    (String ((Ascii (false, true, true, false, true, true, true, false)),
    (String ((Ascii (true, false, false, false, false, true, true, false)),
    (String ((Ascii (false, false, true, true, false, true, true, false)),
    (String ((Ascii (true, false, false, true, false, true, true, false)),
    (String ((Ascii (false, false, true, false, false, true, true, false)),
    (String ((Ascii (true, true, false, true, false, false, true, false)),
    (String ((Ascii (true, false, true, false, false, true, true, false)),
    (String ((Ascii (true, false, false, true, true, true, true, false)),
    EmptyString)))))))))))))))))))))))))))))))))))))))))))))))))))))))))))))))))))))))))))
| ESrvSessionDoesNotExist ->
  String ((Ascii (true, true, false, false, true, true, true, false)),
    (String ((Ascii (true, false, true, false, false, true, true, false)),
    (String ((Ascii (false, true, false, false, true, true, true, false)),
    (String ((Ascii (false, true, true, false, true, true, true, false)),
    (String ((Ascii (true, false, true, false, false, true, true, false)),
    (String ((Ascii (false, true, false, false, true, true, true, false)),
    (String ((Ascii (false, true, true, true, false, true, false, false)),
    (String ((Ascii (true, false, true, false, false, false, true, false)),
    (String ((Ascii (false, true, false, false, true, true, true, false)),
    (String ((Ascii (false, true, false, false, true, true, true, false)),
    (String ((Ascii (true, true, false, false, true, false, true, false)),
    (String ((Ascii (true, false, true, false, false, true, true, false)),
    (String ((Ascii (true, true, false, false, true, true, true, false)),
    (String ((Ascii (true, true, false, false, true, true, true, false)),
    (String ((Ascii (true, false, false, true, false, true, true, false)),
    (String ((Ascii (true, true, true, true, false, true, true, false)),
    (String ((Ascii (false, true, true, true, false, true, true, false)),
    (String ((Ascii (false, false, true, false, false, false, true, false)),
    (String ((Ascii (true, true, true, true, false, true, true, false)),
    (String ((Ascii (true, false, true, false, false, true, true, false)),
    (String ((Ascii (true, true, false, false, true, true, true, false)),
    (String ((Ascii (false, true, true, true, false, false, true, false)),
    (String ((Ascii (true, true, true, true, false, true, true, false)),
    (String ((Ascii (false, false, true, false, true, true, true, false)),
    (String ((Ascii (true, false, true, false, false, false, true, false)),
    (String ((Ascii (false, false, false, true, true, true, true, false)),
    (String ((Ascii (true, false, false, true, false, true, true, false)),
    (String ((Ascii (true, true, false, false, true, true, true, false)),
    (String ((Ascii (false, false, true, false, true, true, true, false)),
    EmptyString)))))))))))))))))))))))))))))))))))))))))))))))))))))))))
| ESrvInvalidLockTimeout ->
  String ((Ascii (true, true, false, false, true, true, true, false)),
    (String ((Ascii (true, false, true, false, false, true, true, false)),
    (String ((Ascii (false, true, false, false, true, true, true, false)),
    (String ((Ascii (false, true, true, false, true, true, true, false)),
    (String ((Ascii (true, false, true, false, false, true, true, false)),
    (String ((Ascii (false, true, false, false, true, true, true, false)),
    (String ((Ascii (false, true, true, true, false, true, false, false)),
    (String ((Ascii (true, false, true, false, false, false, true, false)),
    (String ((Ascii (false, true, false, false, true, true, true, false)),
    (String ((Ascii (false, true, false, false, true, true, true, false)),
    (String ((Ascii (true, false, false, true, false, false, true, false)),
    (String ((Ascii (false, true, true, true, false, true, true, false)),
    (String ((Ascii (false, true, true, false, true, true, true, false)),
    (String ((Ascii (true, false, false, false, false, true, true, false)),
    (String ((Ascii (false, false, true, true, false, true, true, false)),
    (String ((Ascii (true, false, false, true, false, true, true, false)),
    (String ((Ascii (false, false, true, false, false, true, true, false)),
    (String ((Ascii (false, false, true, true, false, false, true, false)),
    (String ((Ascii (true, true, true, true, false, true, true, false)),
    (String ((Ascii (true, true, false, false, false, true, true, false)),
    (String ((Ascii (true, true, false, true, false, true, true, false)),
    (String ((Ascii (false, false, true, false, true, false, true, false)),
    (String ((Ascii (true, false, false, true, false, true, true, false)),
    (String ((Ascii (true, false, true, true, false, true, true, false)),
    (String ((Ascii (true, false, true, false, false, true, true, false)),
    (String ((Ascii (true, true, true, true, false, true, true, false)),
    (String ((Ascii (true, false, true, false, true, true, true, false)),
    (String ((Ascii (false, false, true, false, true, true, true, false)),
    EmptyString)))))))))))))))))))))))))))))))))))))))))))))))))))))))
| ESrvInvalidWaitTimeout ->
  String ((Ascii (true, true, false, false, true, true, true, false)),
    (String ((Ascii (true, false, true, false, false, true, true, false)),
    (String ((Ascii (false, true, false, false, true, true, true, false)),
    (String ((Ascii (false, true, true, false, true, true, true, false)),
    (String ((Ascii (true, false, true, false, false, true, true, false)),
    (String ((Ascii (false, true, false, false, true, true, true, false)),
    (String ((Ascii (false, true, true, true, false, true, false, false)),
    (String ((Ascii (true, false, true, false, false, false, true, false)),
    (String ((Ascii (false, true, false, false, true, true, true, false)),
    (String ((Ascii (false, true, false, false, true, true, true, false)),
    (String ((Ascii (true, false, false, true, false, false, true, false)),
    (String ((Ascii (false, true, true, true, false, true, true, false)),
    (String ((Ascii (false, true, true, false, true, true, true, false)),
    (String ((Ascii (true, false, false, false, false, true, true, false)),
    (String ((Ascii (false, false, true, true, false, true, true, false)),
    (String ((Ascii (true, false, false, true, false, true, true, false)),
    (String ((Ascii (false, false, true, false, false, true, true, false)),
    (String ((Ascii (true, true, true, false, true, false, true, false)),
    (String ((Ascii (true, false, false, false, false, true, true, false)),
    (String ((Ascii (true, false, false, true, false, true, true, false)),
    (String ((Ascii (false, false, true, false, true, true, true, false)),
    (String ((Ascii (false, false, true, false, true, false, true, false)),
    (String ((Ascii (true, false, false, true, false, true, true, false)),
    (String ((Ascii (true, false, true, true, false, true, true, false)),
    (String ((Ascii (true, false, true, false, false, true, true, false)),
    (String ((Ascii (true, true, true, true, false, true, true, false)),
    (String ((Ascii (true, false, true, false, true, true, true, false)),
    (String ((Ascii (false, false, true, false, true, true, true, false)),
    EmptyString)))))))))))))))))))))))))))))))))))))))))))))))))))))))
| ELockInvalidLockKey ->
  String ((Ascii (false, false, true, true, false, true, true, false)),
    (String ((Ascii (true, true, true, true, false, true, true, false)),
    (String ((Ascii (true, true, false, false, false, true, true, false)),
    (String ((Ascii (true, true, false, true, false, true, true, false)),
    (String ((Ascii (false, true, true, true, false, true, false, false)),
    (String ((Ascii (true, false, true, false, false, false, true, false)),
    (String ((Ascii (false, true, false, false, true, true, true, false)),
    (String ((Ascii (false, true, false, false, true, true, true, false)),
    (String ((Ascii (true, false, false, true, false, false, true, false)),
    (String ((Ascii (false, true, true, true, false, true, true, false)),
    (String ((Ascii (false, true, true, false, true, true, true, false)),
    (String ((Ascii (true, false, false, false, false, true, true, false)),
    (String ((Ascii (false, false, true, true, false, true, true, false)),
    (String ((Ascii (true, false, false, true, false, true, true, false)),
    (String ((Ascii (false, false, true, false, false, true, true, false)),
    (String ((Ascii (false, false, true, true, false, false, true, false)),
    (String ((Ascii (true, true, true, true, false, true, true, false)),
    (String ((Ascii (true, true, false, false, false, true, true, false)),
    (String ((Ascii (true, true, false, true, false, true, true, false)),
    (String ((Ascii (true, true, false, true, false, false, true, false)),
    (String ((Ascii (true, false, true, false, false, true, true, false)),
    (String ((Ascii (true, false, false, true, true, true, true, false)),
    EmptyString)))))))))))))))))))))))))))))))))))))))))))
| ELockNotLocked ->
  String ((Ascii (false, false, true, true, false, true, true, false)),
    (String ((Ascii (true, true, true, true, false, true, true, false)),
    (String ((Ascii (true, true, false, false, false, true, true, false)),
    (String ((Ascii (true, true, false, true, false, true, true, false)),
    (String ((Ascii (false, true, true, true, false, true, false, false)),
    (String ((Ascii (true, false, true, false, false, false, true, false)),
    (String ((Ascii (false, true, false, false, true, true, true, false)),
    (String ((Ascii (false, true, false, false, true, true, true, false)),
    (String ((Ascii (false, false, true, true, false, false, true, false)),
    (String ((Ascii (true, true, true, true, false, true, true, false)),
    (String ((Ascii (true, true, false, false, false, true, true, false)),
    (String ((Ascii (true, true, false, true, false, true, true, false)),
    (String ((Ascii (false, true, true, true, false, false, true, false)),
    (String ((Ascii (true, true, true, true, false, true, true, false)),
    (String ((Ascii (false, false, true, false, true, true, true, false)),
    (String ((Ascii (false, false, true, true, false, false, true, false)),
    (String ((Ascii (true, true, true, true, false, true, true, false)),
    (String ((Ascii (true, true, false, false, false, true, true, false)),
    (String ((Ascii (true, true, false, true, false, true, true, false)),
    (String ((Ascii (true, false, true, false, false, true, true, false)),
    (String ((Ascii (false, false, true, false, false, true, true, false)),
    EmptyString)))))))))))))))))))))))))))))))))))))))))
| ELockDoesNotExist ->
  String ((Ascii (false, false, true, true, false, true, true, false)),
    (String ((Ascii (true, true, true, true, false, true, true, false)),
    (String ((Ascii (true, true, false, false, false, true, true, false)),
    (String ((Ascii (true, true, false, true, false, true, true, false)),
    (String ((Ascii (false, true, true, true, false, true, false, false)),
    (String ((Ascii (true, false, true, false, false, false, true, false)),
    (String ((Ascii (false, true, false, false, true, true, true, false)),
    (String ((Ascii (false, true, false, false, true, true, true, false)),
    (String ((Ascii (false, false, true, true, false, false, true, false)),
    (String ((Ascii (true, true, true, true, false, true, true, false)),
    (String ((Ascii (true, true, false, false, false, true, true, false)),
    (String ((Ascii (true, true, false, true, false, true, true, false)),
    (String ((Ascii (false, false, true, false, false, false, true, false)),
    (String ((Ascii (true, true, true, true, false, true, true, false)),
    (String ((Ascii (true, false, true, false, false, true, true, false)),
    (String ((Ascii (true, true, false, false, true, true, true, false)),
    (String ((Ascii (false, true, true, true, false, false, true, false)),
    (String ((Ascii (true, true, true, true, false, true, true, false)),
    (String ((Ascii (false, false, true, false, true, true, true, false)),
    (String ((Ascii (true, false, true, false, false, false, true, false)),
    (String ((Ascii (false, false, false, true, true, true, true, false)),
    (String ((Ascii (true, false, false, true, false, true, true, false)),
    (String ((Ascii (true, true, false, false, true, true, true, false)),
    (String ((Ascii (false, false, true, false, true, true, true, false)),
    EmptyString)))))))))))))))))))))))))))))))))))))))))))))))
| ELockManagerShutdown ->
  String ((Ascii (false, false, true, true, false, true, true, false)),
    (String ((Ascii (true, true, true, true, false, true, true, false)),
    (String ((Ascii (true, true, false, false, false, true, true, false)),
    (String ((Ascii (true, true, false, true, false, true, true, false)),
    (String ((Ascii (false, true, true, true, false, true, false, false)),
    (String ((Ascii (true, false, true, false, false, false, true, false)),
    (String ((Ascii (false, true, false, false, true, true, true, false)),
    (String ((Ascii (false, true, false, false, true, true, true, false)),
    (String ((Ascii (true, false, true, true, false, false, true, false)),
    (String ((Ascii (true, false, false, false, false, true, true, false)),
    (String ((Ascii (false, true, true, true, false, true, true, false)),
    (String ((Ascii (true, false, false, false, false, true, true, false)),
    (String ((Ascii (true, true, true, false, false, true, true, false)),
    (String ((Ascii (true, false, true, false, false, true, true, false)),
    (String ((Ascii (false, true, false, false, true, true, true, false)),
    (String ((Ascii (true, true, false, false, true, false, true, false)),
    (String ((Ascii (false, false, false, true, false, true, true, false)),
    (String ((Ascii (true, false, true, false, true, true, true, false)),
    (String ((Ascii (false, false, true, false, true, true, true, false)),
    (String ((Ascii (false, false, true, false, false, true, true, false)),
    (String ((Ascii (true, true, true, true, false, true, true, false)),
    (String ((Ascii (true, true, true, false, true, true, true, false)),
    (String ((Ascii (false, true, true, true, false, true, true, false)),
    EmptyString)))))))))))))))))))))))))))))))))))))))))))))
| ELockSizeMismatch ->
  String ((Ascii (false, false, true, true, false, true, true, false)),
    (String ((Ascii (true, true, true, true, false, true, true, false)),
    (String ((Ascii (true, true, false, false, false, true, true, false)),
    (String ((Ascii (true, true, false, true, false, true, true, false)),
    (String ((Ascii (false, true, true, true, false, true, false, false)),
    (String ((Ascii (true, false, true, false, false, false, true, false)),
    (String ((Ascii (false, true, false, false, true, true, true, false)),
    (String ((Ascii (false, true, false, false, true, true, true, false)),
    (String ((Ascii (false, false, true, true, false, false, true, false)),
    (String ((Ascii (true, true, true, true, false, true, true, false)),
    (String ((Ascii (true, true, false, false, false, true, true, false)),
    (String ((Ascii (true, true, false, true, false, true, true, false)),
    (String ((Ascii (true, true, false, false, true, false, true, false)),
    (String ((Ascii (true, false, false, true, false, true, true, false)),
    (String ((Ascii (false, true, false, true, true, true, true, false)),
    (String ((Ascii (true, false, true, false, false, true, true, false)),
    (String ((Ascii (true, false, true, true, false, false, true, false)),
    (String ((Ascii (true, false, false, true, false, true, true, false)),
    (String ((Ascii (true, true, false, false, true, true, true, false)),
    (String ((Ascii (true, false, true, true, false, true, true, false)),
    (String ((Ascii (true, false, false, false, false, true, true, false)),
    (String ((Ascii (false, false, true, false, true, true, true, false)),
    (String ((Ascii (true, true, false, false, false, true, true, false)),
    (String ((Ascii (false, false, false, true, false, true, true, false)),
    EmptyString)))))))))))))))))))))))))))))))))))))))))))))))
| ELockInvalidLockSize ->
  String ((Ascii (false, false, true, true, false, true, true, false)),
    (String ((Ascii (true, true, true, true, false, true, true, false)),
    (String ((Ascii (true, true, false, false, false, true, true, false)),
    (String ((Ascii (true, true, false, true, false, true, true, false)),
    (String ((Ascii (false, true, true, true, false, true, false, false)),
    (String ((Ascii (true, false, true, false, false, false, true, false)),
    (String ((Ascii (false, true, false, false, true, true, true, false)),
    (String ((Ascii (false, true, false, false, true, true, true, false)),
    (String ((Ascii (true, false, false, true, false, false, true, false)),
    (String ((Ascii (false, true, true, true, false, true, true, false)),
    (String ((Ascii (false, true, true, false, true, true, true, false)),
    (String ((Ascii (true, false, false, false, false, true, true, false)),
    (String ((Ascii (false, false, true, true, false, true, true, false)),
    (String ((Ascii (true, false, false, true, false, true, true, false)),
    (String ((Ascii (false, false, true, false, false, true, true, false)),
    (String ((Ascii (false, false, true, true, false, false, true, false)),
    (String ((Ascii (true, true, true, true, false, true, true, false)),
    (String ((Ascii (true, true, false, false, false, true, true, false)),
    (String ((Ascii (true, true, false, true, false, true, true, false)),
    (String ((Ascii (true, true, false, false, true, false, true, false)),
    (String ((Ascii (true, false, false, true, false, true, true, false)),
    (String ((Ascii (false, true, false, true, true, true, true, false)),
    (String ((Ascii (true, false, true, false, false, true, true, false)),
    EmptyString)))))))))))))))))))))))))))))))))))))))))))))
| ETimerDoesNotExist ->
  String ((Ascii (false, false, true, false, true, true, true, false)),
    (String ((Ascii (true, false, false, true, false, true, true, false)),
    (String ((Ascii (true, false, true, true, false, true, true, false)),
    (String ((Ascii (true, false, true, false, false, true, true, false)),
    (String ((Ascii (false, true, false, false, true, true, true, false)),
    (String ((Ascii (true, false, true, true, false, true, true, false)),
    (String ((Ascii (true, false, false, false, false, true, true, false)),
    (String ((Ascii (false, false, false, false, true, true, true, false)),
    (String ((Ascii (false, true, true, true, false, true, false, false)),
    (String ((Ascii (true, false, true, false, false, false, true, false)),
    (String ((Ascii (false, true, false, false, true, true, true, false)),
    (String ((Ascii (false, true, false, false, true, true, true, false)),
    (String ((Ascii (false, false, true, false, true, false, true, false)),
    (String ((Ascii (true, false, false, true, false, true, true, false)),
    (String ((Ascii (true, false, true, true, false, true, true, false)),
    (String ((Ascii (true, false, true, false, false, true, true, false)),
    (String ((Ascii (false, true, false, false, true, true, true, false)),
    (String ((Ascii (false, false, true, false, false, false, true, false)),
    (String ((Ascii (true, true, true, true, false, true, true, false)),
    (String ((Ascii (true, false, true, false, false, true, true, false)),
    (String ((Ascii (true, true, false, false, true, true, true, false)),
    (String ((Ascii (false, true, true, true, false, false, true, false)),
    (String ((Ascii (true, true, true, true, false, true, true, false)),
    (String ((Ascii (false, false, true, false, true, true, true, false)),
    (String ((Ascii (true, false, true, false, false, false, true, false)),
    (String ((Ascii (false, false, false, true, true, true, true, false)),
    (String ((Ascii (true, false, false, true, false, true, true, false)),
    (String ((Ascii (true, true, false, false, true, true, true, false)),
    (String ((Ascii (false, false, true, false, true, true, true, false)),
    EmptyString)))))))))))))))))))))))))))))))))))))))))))))))))))))))))
| ECtxCanceled ->
  String ((Ascii (true, true, false, false, false, true, true, false)),
    (String ((Ascii (true, true, true, true, false, true, true, false)),
    (String ((Ascii (false, true, true, true, false, true, true, false)),
    (String ((Ascii (false, false, true, false, true, true, true, false)),
    (String ((Ascii (true, false, true, false, false, true, true, false)),
    (String ((Ascii (false, false, false, true, true, true, true, false)),
    (String ((Ascii (false, false, true, false, true, true, true, false)),
    (String ((Ascii (false, true, true, true, false, true, false, false)),
    (String ((Ascii (true, true, false, false, false, false, true, false)),
    (String ((Ascii (true, false, false, false, false, true, true, false)),
    (String ((Ascii (false, true, true, true, false, true, true, false)),
    (String ((Ascii (true, true, false, false, false, true, true, false)),
    (String ((Ascii (true, false, true, false, false, true, true, false)),
    (String ((Ascii (false, false, true, true, false, true, true, false)),
    (String ((Ascii (true, false, true, false, false, true, true, false)),
    (String ((Ascii (false, false, true, false, false, true, true, false)),
    EmptyString)))))))))))))))))))))))))))))))
| ECtxDeadlineExceeded ->
  String ((Ascii (true, true, false, false, false, true, true, false)),
    (String ((Ascii (true, true, true, true, false, true, true, false)),
    (String ((Ascii (false, true, true, true, false, true, true, false)),
    (String ((Ascii (false, false, true, false, true, true, true, false)),
    (String ((Ascii (true, false, true, false, false, true, true, false)),
    (String ((Ascii (false, false, false, true, true, true, true, false)),
    (String ((Ascii (false, false, true, false, true, true, true, false)),
    (String ((Ascii (false, true, true, true, false, true, false, false)),
    (String ((Ascii (false, false, true, false, false, false, true, false)),
    (String ((Ascii (true, false, true, false, false, true, true, false)),
    (String ((Ascii (true, false, false, false, false, true, true, false)),
    (String ((Ascii (false, false, true, false, false, true, true, false)),
    (String ((Ascii (false, false, true, true, false, true, true, false)),
    (String ((Ascii (true, false, false, true, false, true, true, false)),
    (String ((Ascii (false, true, true, true, false, true, true, false)),
    (String ((Ascii (true, false, true, false, false, true, true, false)),
    (String ((Ascii (true, false, true, false, false, false, true, false)),
    (String ((Ascii (false, false, false, true, true, true, true, false)),
    (String ((Ascii (true, true, false, false, false, true, true, false)),
    (String ((Ascii (true, false, true, false, false, true, true, false)),
    (String ((Ascii (true, false, true, false, false, true, true, false)),
    (String ((Ascii (false, false, true, false, false, true, true, false)),
    (String ((Ascii (true, false, true, false, false, true, true, false)),
    (String ((Ascii (false, false, true, false, false, true, true, false)),
    EmptyString)))))))))))))))))))))))))))))))))))))))))))))))
| EOther ->
  String ((Ascii (true, true, true, true, false, true, true, false)), (String
    ((Ascii (false, false, true, false, true, true, true, false)), (String
    ((Ascii (false, false, false, true, false, true, true, false)), (String
    ((Ascii (true, false, true, false, false, true, true, false)), (String
    ((Ascii (false, true, false, false, true, true, true, false)),
    EmptyString)))))))))

type ('r, 't) setter = ('t -> 't) -> 'r -> 'r

(** val set :
    ('a1 -> 'a2) -> ('a1, 'a2) setter -> ('a2 -> 'a2) -> 'a1 -> 'a1 **)

let set _ setter0 =
  setter0

type lop =
| OTry of str * str * z
| OLock of str * str * z
| OUnl of str * str

type lres = { r_ok : bool; r_err : err option }

(** val op_name : lop -> str **)

let op_name = function
| OTry (n0, _, _) -> n0
| OLock (n0, _, _) -> n0
| OUnl (n0, _) -> n0

(** val op_key : lop -> str **)

let op_key = function
| OTry (_, k, _) -> k
| OLock (_, k, _) -> k
| OUnl (_, k) -> k

(** val op_size : lop -> z **)

let op_size = function
| OTry (_, _, z0) -> z0
| OLock (_, _, z0) -> z0
| OUnl (_, _) -> Zpos XH

type lpc =
| PEnter
| PGet
| PChkDel of nat
| PTryAcq of nat
| PAcqEnter of nat
| PAcqWait of nat
| PAcqWoken of nat
| PAcqCancel of nat
| PRelCancel of nat
| PAddKey of nat
| PUnlChk of nat
| PUnlRem of nat
| PDone of nat * lres
| PFin of lres

type thread = { t_op : lop; t_pc : lpc; t_cancel : err option }

type lobj = { o_name : str; o_size : z; o_keys : str list; o_cur : z;
              o_waitq : nat list; o_ready : nat list; o_last : z;
              o_deleted : bool; o_users : z }

type linact =
| LaCreate of str * z
| LaGc of str
| LaErr of nat * err
| LaTryOk of nat * str * str
| LaTryBusy of nat * str
| LaEnq of nat * str
| LaGrant of nat * str * str
| LaLeave of nat * str * err
| LaGiveBack of nat * str * str * err
| LaUnlOk of nat * str * str
| LaUnlBad of nat * str * str

type lev =
| EvInv of nat * lop
| EvRes of nat * lres
| EvLin of linact
| EvPanic of nat
| EvShutdown

type lstate = { l_heap : (nat, lobj) gmap; l_map : (str, nat) gmap;
                l_next : nat; l_shut : bool; l_now : z;
                l_thr : (nat, thread) gmap; l_crashed : bool;
                l_trace : lev list }

(** val l_init : lstate **)

let l_init =
  { l_heap = (empty0 (gmap_empty Coq_Nat.eq_dec nat_countable)); l_map =
    (empty0
      (gmap_empty (list_eq_dec0 byte_eq_dec0)
        (list_countable byte_eq_dec0 byte_countable))); l_next = O; l_shut =
    false; l_now = Z0; l_thr =
    (empty0 (gmap_empty Coq_Nat.eq_dec nat_countable)); l_crashed = false;
    l_trace = [] }

type item =
| ICall of nat * lop
| IRun of nat
| IRunCancel of nat
| ICancel of nat * err
| IGc of str
| ITick of z
| IShutdown

(** val emit : lev -> lstate -> lstate **)

let emit e s =
  set (fun l -> l.l_trace) (fun f ->
    let l = fun r -> f r.l_trace in
    (fun x -> { l_heap = x.l_heap; l_map = x.l_map; l_next = x.l_next;
    l_shut = x.l_shut; l_now = x.l_now; l_thr = x.l_thr; l_crashed =
    x.l_crashed; l_trace = (l x) })) (fun _ -> e :: s.l_trace) s

(** val set_pc : nat -> lpc -> lstate -> lstate **)

let set_pc tid pc s =
  match lookup0 (gmap_lookup Coq_Nat.eq_dec nat_countable) tid s.l_thr with
  | Some t ->
    set (fun l -> l.l_thr) (fun f ->
      let g = fun r -> f r.l_thr in
      (fun x -> { l_heap = x.l_heap; l_map = x.l_map; l_next = x.l_next;
      l_shut = x.l_shut; l_now = x.l_now; l_thr = (g x); l_crashed =
      x.l_crashed; l_trace = x.l_trace })) (fun _ ->
      insert0 (map_insert (gmap_partial_alter Coq_Nat.eq_dec nat_countable))
        tid
        (set (fun t0 -> t0.t_pc) (fun f ->
          let l = fun r -> f r.t_pc in
          (fun x -> { t_op = x.t_op; t_pc = (l x); t_cancel = x.t_cancel }))
          (fun _ -> pc) t) s.l_thr) s
  | None -> s

(** val set_obj : nat -> lobj -> lstate -> lstate **)

let set_obj oid o s =
  set (fun l -> l.l_heap) (fun f ->
    let g = fun r -> f r.l_heap in
    (fun x -> { l_heap = (g x); l_map = x.l_map; l_next = x.l_next; l_shut =
    x.l_shut; l_now = x.l_now; l_thr = x.l_thr; l_crashed = x.l_crashed;
    l_trace = x.l_trace })) (fun _ ->
    insert0 (map_insert (gmap_partial_alter Coq_Nat.eq_dec nat_countable))
      oid o s.l_heap) s

(** val finish : nat -> lres -> lstate -> lstate **)

let finish tid r s =
  emit (EvRes (tid, r)) (set_pc tid (PFin r) s)

(** val res_err : err -> lres **)

let res_err e =
  { r_ok = false; r_err = (Some e) }

(** val key_of : lstate -> nat -> str **)

let key_of s tid =
  match lookup0 (gmap_lookup Coq_Nat.eq_dec nat_countable) tid s.l_thr with
  | Some t -> op_key t.t_op
  | None -> []

(** val notify_loop :
    nat list -> z -> z -> nat list -> (nat list * z) * nat list **)

let rec notify_loop q cur size ready =
  match q with
  | [] -> (([], cur), ready)
  | w :: q' ->
    if Z.ltb cur size
    then notify_loop q' (Z.add cur (Zpos XH)) size (app ready (w :: []))
    else ((q, cur), ready)

(** val notify : lobj -> lobj * nat list **)

let notify o =
  let (p, ready) = notify_loop o.o_waitq o.o_cur o.o_size [] in
  let (q, cur) = p in
  ((set (fun l -> l.o_ready) (fun f ->
     let l = fun r -> f r.o_ready in
     (fun x -> { o_name = x.o_name; o_size = x.o_size; o_keys = x.o_keys;
     o_cur = x.o_cur; o_waitq = x.o_waitq; o_ready = (l x); o_last =
     x.o_last; o_deleted = x.o_deleted; o_users = x.o_users })) (fun _ ->
     app o.o_ready ready)
     (set (fun l -> l.o_cur) (fun f ->
       let z0 = fun r -> f r.o_cur in
       (fun x -> { o_name = x.o_name; o_size = x.o_size; o_keys = x.o_keys;
       o_cur = (z0 x); o_waitq = x.o_waitq; o_ready = x.o_ready; o_last =
       x.o_last; o_deleted = x.o_deleted; o_users = x.o_users })) (fun _ ->
       cur)
       (set (fun l -> l.o_waitq) (fun f ->
         let l = fun r -> f r.o_waitq in
         (fun x -> { o_name = x.o_name; o_size = x.o_size; o_keys = x.o_keys;
         o_cur = x.o_cur; o_waitq = (l x); o_ready = x.o_ready; o_last =
         x.o_last; o_deleted = x.o_deleted; o_users = x.o_users })) (fun _ ->
         q) o))), ready)

(** val emit_grants : str -> nat list -> lstate -> lstate **)

let emit_grants name woken s =
  fold_left (fun s0 w -> emit (EvLin (LaGrant (w, name, (key_of s0 w)))) s0)
    woken s

(** val remove_first : str -> str list -> str list **)

let rec remove_first k = function
| [] -> []
| x :: l' ->
  if bool_decide (decide_rel (list_eq_dec0 byte_eq_dec0) x k)
  then l'
  else x :: (remove_first k l')

(** val in_flight : lpc -> bool **)

let in_flight = function
| PEnter -> false
| PFin _ -> false
| _ -> true

(** val no_call_in_flight : lstate -> bool **)

let no_call_in_flight s =
  forallb (fun pat -> let (_, t) = pat in negb (in_flight t.t_pc))
    (map_to_list (gmap_to_list Coq_Nat.eq_dec nat_countable) s.l_thr)

(** val run_thread : z -> nat -> thread -> lstate -> lstate **)

let run_thread _ tid t s =
  let name = op_name t.t_op in
  let key = op_key t.t_op in
  let size = op_size t.t_op in
  (match t.t_pc with
   | PEnter ->
     if s.l_shut
     then finish tid (res_err ELockManagerShutdown)
            (emit (EvLin (LaErr (tid, ELockManagerShutdown))) s)
     else set_pc tid PGet s
   | PGet ->
     let create = match t.t_op with
                  | OUnl (_, _) -> false
                  | _ -> true in
     if Z.leb size Z0
     then finish tid (res_err ELockInvalidLockSize)
            (emit (EvLin (LaErr (tid, ELockInvalidLockSize))) s)
     else (match lookup0
                   (gmap_lookup (list_eq_dec0 byte_eq_dec0)
                     (list_countable byte_eq_dec0 byte_countable)) name
                   s.l_map with
           | Some oid ->
             (match lookup0 (gmap_lookup Coq_Nat.eq_dec nat_countable) oid
                      s.l_heap with
              | Some o ->
                if (&&) create
                     (negb
                       (bool_decide (decide_rel Coq_Z.eq_dec size o.o_size)))
                then finish tid (res_err ELockSizeMismatch)
                       (emit (EvLin (LaErr (tid, ELockSizeMismatch))) s)
                else let s1 =
                       set_obj oid
                         (set (fun l -> l.o_users) (fun f ->
                           let z0 = fun r -> f r.o_users in
                           (fun x -> { o_name = x.o_name; o_size = x.o_size;
                           o_keys = x.o_keys; o_cur = x.o_cur; o_waitq =
                           x.o_waitq; o_ready = x.o_ready; o_last = x.o_last;
                           o_deleted = x.o_deleted; o_users = (z0 x) }))
                           (fun _ -> Z.add o.o_users (Zpos XH))
                           (set (fun l -> l.o_last) (fun f ->
                             let z0 = fun r -> f r.o_last in
                             (fun x -> { o_name = x.o_name; o_size =
                             x.o_size; o_keys = x.o_keys; o_cur = x.o_cur;
                             o_waitq = x.o_waitq; o_ready = x.o_ready;
                             o_last = (z0 x); o_deleted = x.o_deleted;
                             o_users = x.o_users })) (fun _ -> s.l_now) o)) s
                     in
                     set_pc tid (if create then PChkDel oid else PUnlChk oid)
                       s1
              | None -> s)
           | None ->
             if create
             then let oid = s.l_next in
                  let o = { o_name = name; o_size = size; o_keys = [];
                    o_cur = Z0; o_waitq = []; o_ready = []; o_last = s.l_now;
                    o_deleted = false; o_users = (Zpos XH) }
                  in
                  set_pc tid (PChkDel oid)
                    (emit (EvLin (LaCreate (name, size)))
                      (set (fun l -> l.l_next) (fun f ->
                        let n0 = fun r -> f r.l_next in
                        (fun x -> { l_heap = x.l_heap; l_map = x.l_map;
                        l_next = (n0 x); l_shut = x.l_shut; l_now = x.l_now;
                        l_thr = x.l_thr; l_crashed = x.l_crashed; l_trace =
                        x.l_trace })) (fun _ -> S oid)
                        (set (fun l -> l.l_map) (fun f ->
                          let g = fun r -> f r.l_map in
                          (fun x -> { l_heap = x.l_heap; l_map = (g x);
                          l_next = x.l_next; l_shut = x.l_shut; l_now =
                          x.l_now; l_thr = x.l_thr; l_crashed = x.l_crashed;
                          l_trace = x.l_trace })) (fun _ ->
                          insert0
                            (map_insert
                              (gmap_partial_alter (list_eq_dec0 byte_eq_dec0)
                                (list_countable byte_eq_dec0 byte_countable)))
                            name oid s.l_map)
                          (set (fun l -> l.l_heap) (fun f ->
                            let g = fun r -> f r.l_heap in
                            (fun x -> { l_heap = (g x); l_map = x.l_map;
                            l_next = x.l_next; l_shut = x.l_shut; l_now =
                            x.l_now; l_thr = x.l_thr; l_crashed =
                            x.l_crashed; l_trace = x.l_trace })) (fun _ ->
                            insert0
                              (map_insert
                                (gmap_partial_alter Coq_Nat.eq_dec
                                  nat_countable)) oid o s.l_heap) s))))
             else finish tid (res_err ELockDoesNotExist)
                    (emit (EvLin (LaErr (tid, ELockDoesNotExist))) s))
   | PChkDel oid ->
     (match lookup0 (gmap_lookup Coq_Nat.eq_dec nat_countable) oid s.l_heap with
      | Some o ->
        if o.o_deleted
        then emit (EvPanic tid)
               (set (fun l -> l.l_crashed) (fun f ->
                 let b = fun r -> f r.l_crashed in
                 (fun x -> { l_heap = x.l_heap; l_map = x.l_map; l_next =
                 x.l_next; l_shut = x.l_shut; l_now = x.l_now; l_thr =
                 x.l_thr; l_crashed = (b x); l_trace = x.l_trace }))
                 (fun _ -> true) s)
        else set_pc tid
               (match t.t_op with
                | OLock (_, _, _) -> PAcqEnter oid
                | _ -> PTryAcq oid) s
      | None -> s)
   | PTryAcq oid ->
     (match lookup0 (gmap_lookup Coq_Nat.eq_dec nat_countable) oid s.l_heap with
      | Some o ->
        if (&&) (Z.ltb o.o_cur o.o_size)
             (bool_decide (list_eq_nil_dec o.o_waitq))
        then set_pc tid (PAddKey oid)
               (emit (EvLin (LaTryOk (tid, name, key)))
                 (set_obj oid
                   (set (fun l -> l.o_cur) (fun f ->
                     let z0 = fun r -> f r.o_cur in
                     (fun x -> { o_name = x.o_name; o_size = x.o_size;
                     o_keys = x.o_keys; o_cur = (z0 x); o_waitq = x.o_waitq;
                     o_ready = x.o_ready; o_last = x.o_last; o_deleted =
                     x.o_deleted; o_users = x.o_users })) (fun _ ->
                     Z.add o.o_cur (Zpos XH)) o) s))
        else set_pc tid (PDone (oid, { r_ok = false; r_err = None }))
               (emit (EvLin (LaTryBusy (tid, name))) s)
      | None -> s)
   | PAcqEnter oid ->
     (match lookup0 (gmap_lookup Coq_Nat.eq_dec nat_countable) oid s.l_heap with
      | Some o ->
        (match t.t_cancel with
         | Some e ->
           set_pc tid (PDone (oid, (res_err e)))
             (emit (EvLin (LaErr (tid, e))) s)
         | None ->
           if (&&) (Z.ltb o.o_cur o.o_size)
                (bool_decide (list_eq_nil_dec o.o_waitq))
           then set_pc tid (PAddKey oid)
                  (emit (EvLin (LaTryOk (tid, name, key)))
                    (set_obj oid
                      (set (fun l -> l.o_cur) (fun f ->
                        let z0 = fun r -> f r.o_cur in
                        (fun x -> { o_name = x.o_name; o_size = x.o_size;
                        o_keys = x.o_keys; o_cur = (z0 x); o_waitq =
                        x.o_waitq; o_ready = x.o_ready; o_last = x.o_last;
                        o_deleted = x.o_deleted; o_users = x.o_users }))
                        (fun _ -> Z.add o.o_cur (Zpos XH)) o) s))
           else set_pc tid (PAcqWait oid)
                  (emit (EvLin (LaEnq (tid, name)))
                    (set_obj oid
                      (set (fun l -> l.o_waitq) (fun f ->
                        let l = fun r -> f r.o_waitq in
                        (fun x -> { o_name = x.o_name; o_size = x.o_size;
                        o_keys = x.o_keys; o_cur = x.o_cur; o_waitq = 
                        (l x); o_ready = x.o_ready; o_last = x.o_last;
                        o_deleted = x.o_deleted; o_users = x.o_users }))
                        (fun _ -> app o.o_waitq (tid :: [])) o) s)))
      | None -> s)
   | PAcqWait oid ->
     (match lookup0 (gmap_lookup Coq_Nat.eq_dec nat_countable) oid s.l_heap with
      | Some o ->
        if bool_decide
             (decide_rel (elem_of_list_dec Coq_Nat.eq_dec) tid o.o_ready)
        then set_pc tid (PAcqWoken oid)
               (set_obj oid
                 (set (fun l -> l.o_ready) (fun f ->
                   let l = fun r -> f r.o_ready in
                   (fun x -> { o_name = x.o_name; o_size = x.o_size; o_keys =
                   x.o_keys; o_cur = x.o_cur; o_waitq = x.o_waitq; o_ready =
                   (l x); o_last = x.o_last; o_deleted = x.o_deleted;
                   o_users = x.o_users })) (fun _ ->
                   filter0 (fun _ -> list_filter) (fun x ->
                     not_dec (decide_rel Coq_Nat.eq_dec x tid)) o.o_ready) o)
                 s)
        else (match t.t_cancel with
              | Some _ -> set_pc tid (PAcqCancel oid) s
              | None -> s)
      | None -> s)
   | PAcqWoken oid ->
     (match t.t_cancel with
      | Some _ -> set_pc tid (PRelCancel oid) s
      | None -> set_pc tid (PAddKey oid) s)
   | PAcqCancel oid ->
     let e = from_option (Obj.magic id) ECtxCanceled t.t_cancel in
     (match lookup0 (gmap_lookup Coq_Nat.eq_dec nat_countable) oid s.l_heap with
      | Some o ->
        if bool_decide
             (decide_rel (elem_of_list_dec Coq_Nat.eq_dec) tid o.o_ready)
        then let o1 =
               set (fun l -> l.o_cur) (fun f ->
                 let z0 = fun r -> f r.o_cur in
                 (fun x -> { o_name = x.o_name; o_size = x.o_size; o_keys =
                 x.o_keys; o_cur = (z0 x); o_waitq = x.o_waitq; o_ready =
                 x.o_ready; o_last = x.o_last; o_deleted = x.o_deleted;
                 o_users = x.o_users })) (fun _ -> Z.sub o.o_cur (Zpos XH))
                 (set (fun l -> l.o_ready) (fun f ->
                   let l = fun r -> f r.o_ready in
                   (fun x -> { o_name = x.o_name; o_size = x.o_size; o_keys =
                   x.o_keys; o_cur = x.o_cur; o_waitq = x.o_waitq; o_ready =
                   (l x); o_last = x.o_last; o_deleted = x.o_deleted;
                   o_users = x.o_users })) (fun _ ->
                   filter0 (fun _ -> list_filter) (fun x ->
                     not_dec (decide_rel Coq_Nat.eq_dec x tid)) o.o_ready) o)
             in
             let (o2, woken) = notify o1 in
             set_pc tid (PDone (oid, (res_err e)))
               (emit_grants name woken
                 (emit (EvLin (LaGiveBack (tid, name, key, e)))
                   (set_obj oid o2 s)))
        else let front =
               match o.o_waitq with
               | [] -> false
               | w :: _ -> bool_decide (decide_rel Coq_Nat.eq_dec w tid)
             in
             let o1 =
               set (fun l -> l.o_waitq) (fun f ->
                 let l = fun r -> f r.o_waitq in
                 (fun x -> { o_name = x.o_name; o_size = x.o_size; o_keys =
                 x.o_keys; o_cur = x.o_cur; o_waitq = (l x); o_ready =
                 x.o_ready; o_last = x.o_last; o_deleted = x.o_deleted;
                 o_users = x.o_users })) (fun _ ->
                 filter0 (fun _ -> list_filter) (fun x ->
                   not_dec (decide_rel Coq_Nat.eq_dec x tid)) o.o_waitq) o
             in
             let (o2, woken) =
               if (&&) front (Z.ltb o1.o_cur o1.o_size)
               then notify o1
               else (o1, [])
             in
             set_pc tid (PDone (oid, (res_err e)))
               (emit_grants name woken
                 (emit (EvLin (LaLeave (tid, name, e))) (set_obj oid o2 s)))
      | None -> s)
   | PRelCancel oid ->
     let e = from_option (Obj.magic id) ECtxCanceled t.t_cancel in
     (match lookup0 (gmap_lookup Coq_Nat.eq_dec nat_countable) oid s.l_heap with
      | Some o ->
        if Z.ltb (Z.sub o.o_cur (Zpos XH)) Z0
        then emit (EvPanic tid)
               (set (fun l -> l.l_crashed) (fun f ->
                 let b = fun r -> f r.l_crashed in
                 (fun x -> { l_heap = x.l_heap; l_map = x.l_map; l_next =
                 x.l_next; l_shut = x.l_shut; l_now = x.l_now; l_thr =
                 x.l_thr; l_crashed = (b x); l_trace = x.l_trace }))
                 (fun _ -> true) s)
        else let (o2, woken) =
               notify
                 (set (fun l -> l.o_cur) (fun f ->
                   let z0 = fun r -> f r.o_cur in
                   (fun x -> { o_name = x.o_name; o_size = x.o_size; o_keys =
                   x.o_keys; o_cur = (z0 x); o_waitq = x.o_waitq; o_ready =
                   x.o_ready; o_last = x.o_last; o_deleted = x.o_deleted;
                   o_users = x.o_users })) (fun _ -> Z.sub o.o_cur (Zpos XH))
                   o)
             in
             set_pc tid (PDone (oid, (res_err e)))
               (emit_grants name woken
                 (emit (EvLin (LaGiveBack (tid, name, key, e)))
                   (set_obj oid o2 s)))
      | None -> s)
   | PAddKey oid ->
     (match lookup0 (gmap_lookup Coq_Nat.eq_dec nat_countable) oid s.l_heap with
      | Some o ->
        set_pc tid (PDone (oid, { r_ok = true; r_err = None }))
          (set_obj oid
            (set (fun l -> l.o_keys) (fun f ->
              let l = fun r -> f r.o_keys in
              (fun x -> { o_name = x.o_name; o_size = x.o_size; o_keys =
              (l x); o_cur = x.o_cur; o_waitq = x.o_waitq; o_ready =
              x.o_ready; o_last = x.o_last; o_deleted = x.o_deleted;
              o_users = x.o_users })) (fun _ -> app o.o_keys (key :: [])) o)
            s)
      | None -> s)
   | PUnlChk oid ->
     (match lookup0 (gmap_lookup Coq_Nat.eq_dec nat_countable) oid s.l_heap with
      | Some o ->
        if o.o_deleted
        then set_pc tid (PDone (oid, (res_err ELockDoesNotExist)))
               (emit (EvLin (LaErr (tid, ELockDoesNotExist))) s)
        else set_pc tid (PUnlRem oid) s
      | None -> s)
   | PUnlRem oid ->
     (match lookup0 (gmap_lookup Coq_Nat.eq_dec nat_countable) oid s.l_heap with
      | Some o ->
        if bool_decide
             (decide_rel (elem_of_list_dec (list_eq_dec0 byte_eq_dec0)) key
               o.o_keys)
        then if Z.ltb (Z.sub o.o_cur (Zpos XH)) Z0
             then emit (EvPanic tid)
                    (set (fun l -> l.l_crashed) (fun f ->
                      let b = fun r -> f r.l_crashed in
                      (fun x -> { l_heap = x.l_heap; l_map = x.l_map;
                      l_next = x.l_next; l_shut = x.l_shut; l_now = x.l_now;
                      l_thr = x.l_thr; l_crashed = (b x); l_trace =
                      x.l_trace })) (fun _ -> true) s)
             else let (o2, woken) =
                    notify
                      (set (fun l -> l.o_cur) (fun f ->
                        let z0 = fun r -> f r.o_cur in
                        (fun x -> { o_name = x.o_name; o_size = x.o_size;
                        o_keys = x.o_keys; o_cur = (z0 x); o_waitq =
                        x.o_waitq; o_ready = x.o_ready; o_last = x.o_last;
                        o_deleted = x.o_deleted; o_users = x.o_users }))
                        (fun _ -> Z.sub o.o_cur (Zpos XH))
                        (set (fun l -> l.o_keys) (fun f ->
                          let l = fun r -> f r.o_keys in
                          (fun x -> { o_name = x.o_name; o_size = x.o_size;
                          o_keys = (l x); o_cur = x.o_cur; o_waitq =
                          x.o_waitq; o_ready = x.o_ready; o_last = x.o_last;
                          o_deleted = x.o_deleted; o_users = x.o_users }))
                          (fun _ -> remove_first key o.o_keys) o))
                  in
                  set_pc tid (PDone (oid, { r_ok = true; r_err = None }))
                    (emit_grants name woken
                      (emit (EvLin (LaUnlOk (tid, name, key)))
                        (set_obj oid o2 s)))
        else set_pc tid (PDone (oid, (res_err ELockInvalidLockKey)))
               (emit (EvLin (LaUnlBad (tid, name, key))) s)
      | None -> s)
   | PDone (oid, r) ->
     (match lookup0 (gmap_lookup Coq_Nat.eq_dec nat_countable) oid s.l_heap with
      | Some o ->
        finish tid r
          (set_obj oid
            (set (fun l -> l.o_users) (fun f ->
              let z0 = fun r0 -> f r0.o_users in
              (fun x -> { o_name = x.o_name; o_size = x.o_size; o_keys =
              x.o_keys; o_cur = x.o_cur; o_waitq = x.o_waitq; o_ready =
              x.o_ready; o_last = x.o_last; o_deleted = x.o_deleted;
              o_users = (z0 x) })) (fun _ -> Z.sub o.o_users (Zpos XH)) o) s)
      | None -> s)
   | PFin _ -> s)

(** val gc_one : z -> str -> lstate -> lstate **)

let gc_one minidle name s =
  match lookup0
          (gmap_lookup (list_eq_dec0 byte_eq_dec0)
            (list_countable byte_eq_dec0 byte_countable)) name s.l_map with
  | Some oid ->
    (match lookup0 (gmap_lookup Coq_Nat.eq_dec nat_countable) oid s.l_heap with
     | Some o ->
       if (&&)
            ((&&) (bool_decide (list_eq_nil_dec o.o_keys))
              (Z.eqb o.o_users Z0)) (Z.ltb minidle (Z.sub s.l_now o.o_last))
       then emit (EvLin (LaGc name))
              (set (fun l -> l.l_map) (fun f ->
                let g = fun r -> f r.l_map in
                (fun x -> { l_heap = x.l_heap; l_map = (g x); l_next =
                x.l_next; l_shut = x.l_shut; l_now = x.l_now; l_thr =
                x.l_thr; l_crashed = x.l_crashed; l_trace = x.l_trace }))
                (fun _ ->
                delete0
                  (map_delete
                    (gmap_partial_alter (list_eq_dec0 byte_eq_dec0)
                      (list_countable byte_eq_dec0 byte_countable))) name
                  s.l_map)
                (set_obj oid
                  (set (fun l -> l.o_deleted) (fun f ->
                    let b = fun r -> f r.o_deleted in
                    (fun x -> { o_name = x.o_name; o_size = x.o_size;
                    o_keys = x.o_keys; o_cur = x.o_cur; o_waitq = x.o_waitq;
                    o_ready = x.o_ready; o_last = x.o_last; o_deleted =
                    (b x); o_users = x.o_users })) (fun _ -> true) o) s))
       else s
     | None -> s)
  | None -> s

(** val shutdown_all : lstate -> lstate **)

let shutdown_all s =
  let s1 =
    fold_left (fun s0 pat -> let (name, _) = pat in gc_one Z0 name s0)
      (map_to_list
        (gmap_to_list (list_eq_dec0 byte_eq_dec0)
          (list_countable byte_eq_dec0 byte_countable)) s.l_map) s
  in
  emit EvShutdown
    (set (fun l -> l.l_shut) (fun f ->
      let b = fun r -> f r.l_shut in
      (fun x -> { l_heap = x.l_heap; l_map = x.l_map; l_next = x.l_next;
      l_shut = (b x); l_now = x.l_now; l_thr = x.l_thr; l_crashed =
      x.l_crashed; l_trace = x.l_trace })) (fun _ -> true) s1)

(** val lstep : z -> lstate -> item -> lstate **)

let lstep minidle s it =
  if s.l_crashed
  then s
  else (match it with
        | ICall (tid, op) ->
          (match lookup0 (gmap_lookup Coq_Nat.eq_dec nat_countable) tid
                   s.l_thr with
           | Some _ -> s
           | None ->
             emit (EvInv (tid, op))
               (set (fun l -> l.l_thr) (fun f ->
                 let g = fun r -> f r.l_thr in
                 (fun x -> { l_heap = x.l_heap; l_map = x.l_map; l_next =
                 x.l_next; l_shut = x.l_shut; l_now = x.l_now; l_thr = 
                 (g x); l_crashed = x.l_crashed; l_trace = x.l_trace }))
                 (fun _ ->
                 insert0
                   (map_insert
                     (gmap_partial_alter Coq_Nat.eq_dec nat_countable)) tid
                   { t_op = op; t_pc = PEnter; t_cancel = None } s.l_thr) s))
        | IRun tid ->
          (match lookup0 (gmap_lookup Coq_Nat.eq_dec nat_countable) tid
                   s.l_thr with
           | Some t -> run_thread minidle tid t s
           | None -> s)
        | IRunCancel tid ->
          (match lookup0 (gmap_lookup Coq_Nat.eq_dec nat_countable) tid
                   s.l_thr with
           | Some t ->
             (match t.t_pc with
              | PAcqWait oid ->
                (match t.t_cancel with
                 | Some _ -> set_pc tid (PAcqCancel oid) s
                 | None -> s)
              | _ -> s)
           | None -> s)
        | ICancel (tid, cause) ->
          (match lookup0 (gmap_lookup Coq_Nat.eq_dec nat_countable) tid
                   s.l_thr with
           | Some t ->
             (match t.t_cancel with
              | Some _ -> s
              | None ->
                (match t.t_op with
                 | OLock (_, _, _) ->
                   set (fun l -> l.l_thr) (fun f ->
                     let g = fun r -> f r.l_thr in
                     (fun x -> { l_heap = x.l_heap; l_map = x.l_map; l_next =
                     x.l_next; l_shut = x.l_shut; l_now = x.l_now; l_thr =
                     (g x); l_crashed = x.l_crashed; l_trace = x.l_trace }))
                     (fun _ ->
                     insert0
                       (map_insert
                         (gmap_partial_alter Coq_Nat.eq_dec nat_countable))
                       tid
                       (set (fun t0 -> t0.t_cancel) (fun f ->
                         let o = fun r -> f r.t_cancel in
                         (fun x -> { t_op = x.t_op; t_pc = x.t_pc; t_cancel =
                         (o x) })) (fun _ -> Some cause) t) s.l_thr) s
                 | _ -> s))
           | None -> s)
        | IGc name -> gc_one minidle name s
        | ITick dt ->
          set (fun l -> l.l_now) (fun f ->
            let z0 = fun r -> f r.l_now in
            (fun x -> { l_heap = x.l_heap; l_map = x.l_map; l_next =
            x.l_next; l_shut = x.l_shut; l_now = (z0 x); l_thr = x.l_thr;
            l_crashed = x.l_crashed; l_trace = x.l_trace })) (fun _ ->
            Z.add s.l_now (Z.max Z0 dt)) s
        | IShutdown ->
          if s.l_shut
          then s
          else if no_call_in_flight s then shutdown_all s else s)

(** val pc_label : lpc -> nat **)

let pc_label = function
| PEnter -> O
| PGet -> S O
| PChkDel _ -> S (S O)
| PTryAcq _ -> S (S (S O))
| PAcqEnter _ -> S (S (S (S O)))
| PAcqWait _ -> S (S (S (S (S O))))
| PAcqWoken _ -> S (S (S (S (S (S O)))))
| PAcqCancel _ -> S (S (S (S (S (S (S O))))))
| PRelCancel _ -> S (S (S (S (S (S (S (S O)))))))
| PAddKey _ -> S (S (S (S (S (S (S (S (S O))))))))
| PUnlChk _ -> S (S (S (S (S (S (S (S (S (S O)))))))))
| PUnlRem _ -> S (S (S (S (S (S (S (S (S (S (S O))))))))))
| PDone (_, _) -> S (S (S (S (S (S (S (S (S (S (S (S O)))))))))))
| PFin _ -> S (S (S (S (S (S (S (S (S (S (S (S (S O))))))))))))

(** val blocked : lstate -> nat -> bool **)

let blocked s tid =
  match lookup0 (gmap_lookup Coq_Nat.eq_dec nat_countable) tid s.l_thr with
  | Some t ->
    (match t.t_pc with
     | PAcqWait oid ->
       (match lookup0 (gmap_lookup Coq_Nat.eq_dec nat_countable) oid s.l_heap with
        | Some o ->
          (&&)
            (negb
              (bool_decide
                (decide_rel (elem_of_list_dec Coq_Nat.eq_dec) tid o.o_ready)))
            (negb (bool_decide (not_dec (option_eq_None_dec t.t_cancel))))
        | None -> true)
     | PFin _ -> true
     | _ -> false)
  | None -> true

(** val l_table : lstate -> (str * (z * str list)) list **)

let l_table s =
  omap (Obj.magic (fun _ _ -> list_omap)) (fun pat ->
    let (n0, oid) = pat in
    fmap (Obj.magic (fun _ _ -> option_fmap)) (fun o -> (n0, (o.o_size,
      o.o_keys)))
      (lookup0 (gmap_lookup Coq_Nat.eq_dec nat_countable) oid s.l_heap))
    (map_to_list
      (Obj.magic gmap_to_list (list_eq_dec0 byte_eq_dec0)
        (list_countable byte_eq_dec0 byte_countable)) s.l_map)

(** val lk_threads : lstate -> (nat * thread) list **)

let lk_threads s =
  map_to_list (gmap_to_list Coq_Nat.eq_dec nat_countable) s.l_thr

(** val lk_objs : lstate -> (nat * lobj) list **)

let lk_objs s =
  map_to_list (gmap_to_list Coq_Nat.eq_dec nat_countable) s.l_heap

(** val lk_names : lstate -> str list **)

let lk_names s =
  map fst
    (map_to_list
      (gmap_to_list (list_eq_dec0 byte_eq_dec0)
        (list_countable byte_eq_dec0 byte_countable)) s.l_map)

(** val lk_table : lstate -> (str * (z * str list)) list **)

let lk_table =
  l_table

(** val lk_forced : lstate -> item list **)

let lk_forced s =
  flat_map (fun pat ->
    let (tid, t) = pat in
    (match t.t_pc with
     | PAcqWait oid ->
       (match lookup0 (gmap_lookup Coq_Nat.eq_dec nat_countable) oid s.l_heap with
        | Some o ->
          if bool_decide
               (decide_rel (elem_of_list_dec Coq_Nat.eq_dec) tid o.o_ready)
          then (IRun tid) :: []
          else (match t.t_cancel with
                | Some _ -> (IRunCancel tid) :: []
                | None -> [])
        | None -> [])
     | _ -> [])) (lk_threads s)

(** val lk_gcpass : lstate -> item list **)

let lk_gcpass s =
  map (fun x -> IGc x) (lk_names s)

(** val lk_enabled : lstate -> nat -> bool **)

let lk_enabled s tid =
  negb (blocked s tid)

(** val lk_finished : lstate -> nat -> bool **)

let lk_finished s tid =
  match lookup0 (gmap_lookup Coq_Nat.eq_dec nat_countable) tid s.l_thr with
  | Some t -> (match t.t_pc with
               | PFin _ -> true
               | _ -> false)
  | None -> false

(** val lk_result : lpc -> lres option **)

let lk_result = function
| PFin r -> Some r
| _ -> None

(** val byte_to_N : byte -> n **)

let byte_to_N =
  to_N

(** val byte_of_N : n -> byte option **)

let byte_of_N =
  of_N

(** val err_name_b : err -> byte list **)

let err_name_b e =
  list_byte_of_string (err_go_name e)
