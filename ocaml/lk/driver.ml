(* Schedule driver for the extracted lock-package model Mlk (Model/Lk.v), tie T2 "sched-diff".

   usage: lkdriver gen <scenario file> <seed>      enumerate / sample schedules of the MODEL, print them with the
                                                   expected observation after every item and the ghost facts
          lkdriver check <observed file>           re-run the model on the items the harness echoed and compare
                                                   with what the real lock.Manager did after every item
          lkdriver trace <observed file>           the REAL call/return history of every schedule (invocations = the echoed
                                                   call items and the epilogue's calls, responses = first F status of a thread /
                                                   late line / the epilogue call's own result, in item order) judged by the
                                                   extracted trace predicates of Model/LkTrace.v (lk_trace_verdict)

   Scenario file (line oriented, strings hex encoded, "-" = empty string), any number of scenarios:
     scenario <id>
     minidle <int>                                GC min-idle in model time units (-1 = "always idle long enough")
     bound <int>                                  preemption bound
     setup <tid> try|lock|unl <name> <key> <size> call executed alone, to completion, before the concurrent part
     call  <tid> try|lock|unl <name> <key> <size> [after <tid> ...]   issued as soon as the listed calls returned
     cancel <tid> <go error name>                 the environment may end that call's context once, with that cause
     gc <max>   tick <dt> <max>   shutdown        further environment items that may be inserted
     shards <n>                                   number of lock shards of the manager (default 1)
     sample <n>                                   0 = print every schedule, else a uniform sample of n (reservoir)
     cap <n>                                      stop the enumeration after n complete schedules
     end

   Schedule format (gen output, and what harness/sched echoes):
     S <sid>  /  C <minidle>  /  H <shards>
     I <k> call <tid> <kind> <name> <key> <size> | run <tid> | wake <tid> | fcancel <tid> | cancel <tid> <err>
           | gcpass | gcstart | gcrun | resume <tid> | tick <dt> | shutdown
         (wake/fcancel are the FORCED pure pc moves PAcqWait->PAcqWoken / PAcqWait->PAcqCancel: the real goroutine
          performs them by itself. `check` performs them by itself too, after every item, and skips the echoed ones:
          a schedule with inserted items stays in step.
          gcpass = IGc n for every currently mapped name n (a whole pass, atomically).
          gcstart = a GC pass begins in a goroutine of its own and parks before its first shard.Lock() (no model step);
          the i-th gcrun after it = IGc n for every mapped name n of shard i (FNV-1 32 of the name mod <shards>, as
          Manager.getShard); after <shards> of them the pass has ended; further gcrun items are no-ops.
          resume <tid> = a real thread parked at a window yield point goes on: no model step.)
     X <k>                 observation after item k:  T <tid> P <label> | T <tid> B | T <tid> F <ok> <err>
                                                      L <name> <size> <nkeys> <key>...      K <crashed>
     G ...                 ghost facts (gen): inv/res with item index, linearisation actions, giveback, preemptions
     Z
   check prints   R <sid> ok <items> <complete> | R <sid> diff <k> <kind> <ndiffs> <complete>
                  D <sid> <k> <kind> <tid|-> exp=.. got=..     kind: label (parked at another yield point / finished vs parked),
                                                               blocked (blocked in Acquire on one side only), bit (ok differs),
                                                               err (same bit, other error variable), table, crash
                  G <sid> ...                                  ghost facts of the model run over the echoed items
                  V <sid> i <e|f|g> <model item>               every lstep the check performed, in order (e: the echoed item itself,
                                                               f: forced pure pc move, g: IGc of a gcpass/gcrun item)
                  V <sid> o <k|end> T:<tid>:<status> L:<name>:<size>:<key>,.. K:<crashed> G:<giveback>
                                                               the model's expectation at the moment it was compared with the real
                                                               observation after item k / at the end of the schedule
                  V <sid> z <n>                                number of V i lines of the schedule
                  M <line>                                     the MODEL's own run of the schedule rendered in the harness's observed.txt
                                                               format (S C H I X T L K E Z lines): the expected observation after every
                                                               item, and an epilogue: the calls the harness made in its epilogue (echoed
                                                               E .. call lines) are made on the model, one at a time, each to completion,
                                                               every enabled thread running to completion in between (E begin/late/call/
                                                               probe/final/stuck/tab lines with the model's results). lib/schedtie.py
                                                               evaluates the property oracles on these traces of the proved model
                                                               (oracle self-test). A model/real difference in an epilogue call: D kind epi.
                  (V lines exist for lib/coqeval.py: the same model items are evaluated INSIDE Coq and compared)
   trace prints   P <sid> <events> fresh=<v> wf=<v> c01=<v> once=<v> fail=<v> giveup=<v>      v: - (holds at every prefix) or
                                                               <n>@<k>: shortest offending prefix has n events, its last event
                                                               happened at item / epilogue index k
                  PL <sid> <pred> <n> <tid>:<kind>:<name>:<key>:<size> ...   c01 only: the live holds at that prefix
                  PH <sid> <k>:<inv|res>:<tid>:...             the history itself (only for schedules with a failing predicate)
                  (p_fresh = the model's key assumption read off the history; when it fails the schedule is outside what the
                   theorems of Proofs/LkTraceP.v speak about)
   Only enumeration, parsing and printing happen here; every state change and every enabledness decision is made by
   extracted Coq code (lstep, lk_enabled, lk_forced, lk_gcpass, no_call_in_flight). *)
type ostring = string
open Lkmodel

(* ---- numbers ---- *)
let rec pos_of_int (i : int) : positive =
  if i = 1 then XH else if i land 1 = 0 then XO (pos_of_int (i lsr 1)) else XI (pos_of_int (i lsr 1))
let z_of_int (i : int) : z = if i = 0 then Z0 else if i > 0 then Zpos (pos_of_int i) else Zneg (pos_of_int (-i))
let n_of_int (i : int) : n = if i = 0 then N0 else Npos (pos_of_int i)
let rec int_of_pos = function XH -> 1 | XO p -> 2 * int_of_pos p | XI p -> 2 * int_of_pos p + 1
let int_of_z = function Z0 -> 0 | Zpos p -> int_of_pos p | Zneg p -> - (int_of_pos p)
let int_of_n = function N0 -> 0 | Npos p -> int_of_pos p
let rec nat_of_int i = if i <= 0 then O else S (nat_of_int (i - 1))
let rec int_of_nat = function O -> 0 | S n -> 1 + int_of_nat n

(* ---- strings ---- *)
let byte_tbl : byte array = Array.init 256 (fun i -> match byte_of_N (n_of_int i) with Some b -> b | None -> assert false)
let str_of_hex (s : ostring) : byte list =
  if s = "-" then [] else
    let n = String.length s / 2 in
    List.init n (fun i -> byte_tbl.(int_of_string ("0x" ^ String.sub s (2 * i) 2)))
let hex_of_str (l : byte list) : ostring =
  if l = [] then "-" else String.concat "" (List.map (fun b -> Printf.sprintf "%02x" (int_of_n (byte_to_N b))) l)
let ocaml_string (l : byte list) : ostring =
  String.concat "" (List.map (fun b -> String.make 1 (Char.chr (int_of_n (byte_to_N b)))) l)

(* ---- errors ---- *)
let err_names : (ostring * err) list = List.map (fun e -> (ocaml_string (err_name_b e), e)) all_errs
let err_of_tok (t : ostring) : err option =
  if t = "~" then None else match List.assoc_opt t err_names with Some e -> Some e | None -> Some EOther
let tok_of_err = function None -> "~" | Some e -> ocaml_string (err_name_b e)

exception Bad of ostring
let split_ws s = List.filter (fun x -> x <> "") (String.split_on_char ' ' (String.trim s))

(* ---- harness-level items ---- *)
type hitem =
  | HCall of int * lop
  | HRun of int
  | HWake of int            (* forced IRun at PAcqWait *)
  | HFCancel of int         (* forced IRunCancel *)
  | HCancel of int * err
  | HGc
  | HGcStart
  | HGcRun
  | HResume of int          (* exhibit runs: the real thread leaves a window yield point; no model step *)
  | HTick of int
  | HShutdown

let op_of_toks kind name key size : lop =
  match kind with
  | "try" -> OTry (str_of_hex name, str_of_hex key, z_of_int (int_of_string size))
  | "lock" -> OLock (str_of_hex name, str_of_hex key, z_of_int (int_of_string size))
  | "unl" -> OUnl (str_of_hex name, str_of_hex key)
  | _ -> raise (Bad ("op kind " ^ kind))
let toks_of_op = function
  | OTry (n, k, z) -> Printf.sprintf "try %s %s %d" (hex_of_str n) (hex_of_str k) (int_of_z z)
  | OLock (n, k, z) -> Printf.sprintf "lock %s %s %d" (hex_of_str n) (hex_of_str k) (int_of_z z)
  | OUnl (n, k) -> Printf.sprintf "unl %s %s 1" (hex_of_str n) (hex_of_str k)

let tok_of_hitem = function
  | HCall (t, op) -> Printf.sprintf "call %d %s" t (toks_of_op op)
  | HRun t -> Printf.sprintf "run %d" t
  | HWake t -> Printf.sprintf "wake %d" t
  | HFCancel t -> Printf.sprintf "fcancel %d" t
  | HCancel (t, e) -> Printf.sprintf "cancel %d %s" t (tok_of_err (Some e))
  | HGc -> "gcpass"
  | HGcStart -> "gcstart"
  | HGcRun -> "gcrun"
  | HResume t -> Printf.sprintf "resume %d" t
  | HTick d -> Printf.sprintf "tick %d" d
  | HShutdown -> "shutdown"

let hitem_of_toks = function
  | ["call"; t; kind; name; key; size] -> HCall (int_of_string t, op_of_toks kind name key size)
  | ["run"; t] -> HRun (int_of_string t)
  | ["wake"; t] -> HWake (int_of_string t)
  | ["fcancel"; t] -> HFCancel (int_of_string t)
  | ["cancel"; t; e] -> HCancel (int_of_string t, (match err_of_tok e with Some e -> e | None -> ECtxCanceled))
  | "gcpass" :: _ -> HGc
  | ["gcstart"] -> HGcStart
  | ["gcrun"] -> HGcRun
  | ["resume"; t] -> HResume (int_of_string t)
  | ["tick"; d] -> HTick (int_of_string d)
  | ["shutdown"] -> HShutdown
  | l -> raise (Bad ("item: " ^ String.concat " " l))

(* Manager.getShard: hash/fnv New32 = FNV-1 (multiply, then xor), 32 bit, modulo the number of shards *)
let fnv1_32 (name : byte list) : int =
  List.fold_left (fun h b -> ((h * 16777619) land 0xFFFFFFFF) lxor (int_of_n (byte_to_N b))) 2166136261 name
let shard_of (nsh : int) (name : byte list) : int = if nsh <= 1 then 0 else fnv1_32 name mod nsh

(* the model state together with the position of the GC pass that runs as a goroutine of its own:
   gp = next shard of the pass in progress (-1: none), ngc = passes started so far *)
type mstate = { s : lstate; gp : int; ngc : int }
let m_init = { s = l_init; gp = -1; ngc = 0 }
type menv = { mi : z; nsh : int }
let gc_tid0 = 90

(* check mode: every model item handed to lstep, newest first, with its origin (see the V lines) *)
let log_items = ref false
let applied : (char * item) list ref = ref []
let lstep_raw = lstep

let apply (env : menv) (m : mstate) (h : hitem) : mstate =
  let minidle = env.mi in
  let s = m.s in
  let tag = match h with HWake _ | HFCancel _ -> 'f' | HGc | HGcRun -> 'g' | _ -> 'e' in
  let lstep mi s it = (if !log_items then applied := (tag, it) :: !applied); lstep_raw mi s it in
  match h with
  | HCall (t, op) -> { m with s = lstep minidle s (ICall (nat_of_int t, op)) }
  | HRun t | HWake t -> { m with s = lstep minidle s (IRun (nat_of_int t)) }
  | HFCancel t -> { m with s = lstep minidle s (IRunCancel (nat_of_int t)) }
  | HCancel (t, e) -> { m with s = lstep minidle s (ICancel (nat_of_int t, e)) }
  | HGc -> { m with s = List.fold_left (lstep minidle) s (lk_gcpass s) }
  | HGcStart -> { m with gp = 0; ngc = m.ngc + 1 }
  | HGcRun ->
      if m.gp < 0 then m else
        let names = List.filter (fun n -> shard_of env.nsh n = m.gp) (lk_names s) in
        { m with s = List.fold_left (fun s n -> lstep minidle s (IGc n)) s names; gp = (if m.gp + 1 >= env.nsh then -1 else m.gp + 1) }
  | HResume _ -> m
  | HTick d -> { m with s = lstep minidle s (ITick (z_of_int d)) }
  | HShutdown -> { m with s = lstep minidle s IShutdown }

let forced_of (s : lstate) : hitem list =
  List.sort compare
    (List.filter_map (function IRun t -> Some (HWake (int_of_nat t)) | IRunCancel t -> Some (HFCancel (int_of_nat t)) | _ -> None)
       (lk_forced s))

(* the pure pc moves the real goroutines make by themselves, until there is none left *)
let rec settle_forced (env : menv) (m : mstate) (fuel : int) : mstate =
  if fuel = 0 then m else
  match forced_of m.s with
  | f :: _ -> settle_forced env (apply env m f) (fuel - 1)
  | [] -> m

(* ---- observations ---- *)
let label_names = [| "PEnter"; "PGet"; "PChkDel"; "PTryAcq"; "PAcqEnter"; "PAcqWait"; "PAcqWoken"; "PAcqCancel"; "PRelCancel";
                     "PAddKey"; "PUnlChk"; "PUnlRem"; "PDone"; "PFin" |]
type tstat = SP of ostring | SB | SF of bool * ostring | SZ   (* parked at label, blocked, finished, panicked (real side only) *)
type obs = { o_thr : (int * tstat) list; o_tab : (ostring * int * ostring list) list; o_crashed : bool }

let threads_sorted (s : lstate) : (int * thread) list =
  List.sort (fun (a, _) (b, _) -> compare a b) (List.map (fun (t, th) -> (int_of_nat t, th)) (lk_threads s))

let observe (m : mstate) : obs =
  let s = m.s in
  let thr = List.map (fun (t, th) ->
      let st = match th.t_pc with
        | PFin r -> SF (r.r_ok, tok_of_err r.r_err)
        | PAcqWait _ -> SB
        | pc -> SP label_names.(int_of_nat (pc_label pc)) in
      (t, st)) (threads_sorted s) in
  (* the GC pass in progress is parked at its (only) yield point *)
  let thr = if m.gp >= 0 then thr @ [(gc_tid0 + m.ngc - 1, SP "GcShard1")] else thr in
  let tab = List.sort compare (List.map (fun (n, (z, ks)) -> (hex_of_str n, int_of_z z, List.map hex_of_str ks)) (lk_table s)) in
  { o_thr = thr; o_tab = tab; o_crashed = s.l_crashed }

let tok_of_stat = function
  | SP l -> "P " ^ l | SB -> "B" | SF (ok, e) -> Printf.sprintf "F %d %s" (if ok then 1 else 0) e | SZ -> "Z"
let print_obs oc (k : int) (o : obs) =
  Printf.fprintf oc "X %d\n" k;
  List.iter (fun (t, st) -> Printf.fprintf oc "T %d %s\n" t (tok_of_stat st)) o.o_thr;
  List.iter (fun (n, z, ks) -> Printf.fprintf oc "L %s %d %d%s\n" n z (List.length ks) (String.concat "" (List.map (fun k -> " " ^ k) ks))) o.o_tab;
  Printf.fprintf oc "K %d\n" (if o.o_crashed then 1 else 0)

(* ---- ghost ---- *)
let tok_of_lin = function
  | LaCreate (n, z) -> Printf.sprintf "Create - %s %d" (hex_of_str n) (int_of_z z)
  | LaGc n -> Printf.sprintf "Gc - %s" (hex_of_str n)
  | LaErr (t, e) -> Printf.sprintf "Err %d %s" (int_of_nat t) (tok_of_err (Some e))
  | LaTryOk (t, n, k) -> Printf.sprintf "TryOk %d %s %s" (int_of_nat t) (hex_of_str n) (hex_of_str k)
  | LaTryBusy (t, n) -> Printf.sprintf "TryBusy %d %s" (int_of_nat t) (hex_of_str n)
  | LaEnq (t, n) -> Printf.sprintf "Enq %d %s" (int_of_nat t) (hex_of_str n)
  | LaGrant (t, n, k) -> Printf.sprintf "Grant %d %s %s" (int_of_nat t) (hex_of_str n) (hex_of_str k)
  | LaLeave (t, n, e) -> Printf.sprintf "Leave %d %s %s" (int_of_nat t) (hex_of_str n) (tok_of_err (Some e))
  | LaGiveBack (t, n, k, e) -> Printf.sprintf "GiveBack %d %s %s %s" (int_of_nat t) (hex_of_str n) (hex_of_str k) (tok_of_err (Some e))
  | LaUnlOk (t, n, k) -> Printf.sprintf "UnlOk %d %s %s" (int_of_nat t) (hex_of_str n) (hex_of_str k)
  | LaUnlBad (t, n, k) -> Printf.sprintf "UnlBad %d %s %s" (int_of_nat t) (hex_of_str n) (hex_of_str k)

let rec take n l = if n <= 0 then [] else match l with [] -> [] | x :: r -> x :: take (n - 1) r

(* events appended to the trace by the last item, oldest first *)
let new_events (before : lstate) (after : lstate) : lev list =
  let nb = List.length before.l_trace and na = List.length after.l_trace in
  List.rev (take (na - nb) after.l_trace)

let ghost_lines (pfx : ostring) (k : int) (evs : lev list) : ostring list =
  List.map (function
      | EvInv (t, op) -> Printf.sprintf "G %sinv %d %d %s" pfx k (int_of_nat t) (toks_of_op op)
      | EvRes (t, r) -> Printf.sprintf "G %sres %d %d %d %s" pfx k (int_of_nat t) (if r.r_ok then 1 else 0) (tok_of_err r.r_err)
      | EvLin a -> Printf.sprintf "G %slin %d %s" pfx k (tok_of_lin a)
      | EvPanic t -> Printf.sprintf "G %spanic %d %d" pfx k (int_of_nat t)
      | EvShutdown -> Printf.sprintf "G %sshutdown %d" pfx k) evs

let has_giveback (s : lstate) = List.exists (function EvLin (LaGiveBack _) -> true | _ -> false) s.l_trace

(* ---- V lines (lib/coqeval.py) ---- *)
let tok_of_item = function
  | ICall (t, op) -> Printf.sprintf "call %d %s" (int_of_nat t) (toks_of_op op)
  | IRun t -> Printf.sprintf "run %d" (int_of_nat t)
  | IRunCancel t -> Printf.sprintf "runcancel %d" (int_of_nat t)
  | ICancel (t, e) -> Printf.sprintf "cancel %d %s" (int_of_nat t) (tok_of_err (Some e))
  | IGc n -> Printf.sprintf "gc %s" (hex_of_str n)
  | ITick d -> Printf.sprintf "tick %d" (int_of_z d)
  | IShutdown -> "shutdown"
let obs_line (m : mstate) : ostring =
  let o = observe { m with gp = -1 } in
  let us s = String.map (fun c -> if c = ' ' then '_' else c) s in
  String.concat " "
    (List.map (fun (t, st) -> Printf.sprintf "T:%d:%s" t (us (tok_of_stat st))) o.o_thr
     @ List.map (fun (n, z, ks) -> Printf.sprintf "L:%s:%d:%s" n z (String.concat "," ks)) o.o_tab
     @ [Printf.sprintf "K:%d" (if o.o_crashed then 1 else 0); Printf.sprintf "G:%d" (if has_giveback m.s then 1 else 0)])

(* ---- scenarios ---- *)
type scenario = {
  sc_id : ostring; sc_minidle : int; sc_bound : int;
  sc_setup : (int * lop) list;
  sc_calls : (int * lop * int list) list;
  sc_cancels : (int * err) list;
  sc_gc : int; sc_tick : (int * int) option; sc_shutdown : bool;
  sc_sample : int; sc_cap : int; sc_shards : int;
}
let empty_sc id = { sc_id = id; sc_minidle = 0; sc_bound = 2; sc_setup = []; sc_calls = []; sc_cancels = []; sc_gc = 0;
                    sc_tick = None; sc_shutdown = false; sc_sample = 0; sc_cap = 200000; sc_shards = 1 }

let read_scenarios (file : ostring) : scenario list =
  let ic = open_in file in
  let out = ref [] and cur = ref None in
  (try
     while true do
       let line = input_line ic in
       match split_ws line, !cur with
       | [], _ -> ()
       | ("#" :: _), _ -> ()
       | ["scenario"; id], _ -> cur := Some (empty_sc id)
       | ["end"], Some sc ->
           out := { sc with sc_setup = List.rev sc.sc_setup; sc_calls = List.rev sc.sc_calls; sc_cancels = List.rev sc.sc_cancels } :: !out;
           cur := None
       | ["minidle"; v], Some sc -> cur := Some { sc with sc_minidle = int_of_string v }
       | ["bound"; v], Some sc -> cur := Some { sc with sc_bound = int_of_string v }
       | ["setup"; t; kind; name; key; size], Some sc ->
           cur := Some { sc with sc_setup = (int_of_string t, op_of_toks kind name key size) :: sc.sc_setup }
       | ("call" :: t :: kind :: name :: key :: size :: rest), Some sc ->
           let deps = match rest with "after" :: ds -> List.map int_of_string ds | [] -> [] | _ -> raise (Bad line) in
           cur := Some { sc with sc_calls = (int_of_string t, op_of_toks kind name key size, deps) :: sc.sc_calls }
       | ["cancel"; t; e], Some sc ->
           cur := Some { sc with sc_cancels = (int_of_string t, (match err_of_tok e with Some e -> e | None -> ECtxCanceled)) :: sc.sc_cancels }
       | ["gc"; n], Some sc -> cur := Some { sc with sc_gc = int_of_string n }
       | ["tick"; d; n], Some sc -> cur := Some { sc with sc_tick = Some (int_of_string d, int_of_string n) }
       | ["shutdown"], Some sc -> cur := Some { sc with sc_shutdown = true }
       | ["shards"; n], Some sc -> cur := Some { sc with sc_shards = max 1 (int_of_string n) }
       | ["sample"; n], Some sc -> cur := Some { sc with sc_sample = int_of_string n }
       | ["cap"; n], Some sc -> cur := Some { sc with sc_cap = int_of_string n }
       | _ -> raise (Bad ("scenario line: " ^ line))
     done
   with End_of_file -> ());
  close_in ic;
  List.rev !out

(* ---- enumeration ---- *)
let gc_thread = -1                    (* the GC pass as a "thread" of the preemption count *)
type node = {
  st : mstate;
  items : hitem list;                (* reversed *)
  last : int option;                 (* thread of the last run item *)
  pre : int;                         (* preemptions used *)
  pending : (int * lop * int list) list;
  cancels_left : (int * err) list;
  gc_left : int; tick_left : int; shut_left : bool;
}

(* apply an item, then the forced moves, then issue the calls that became ready *)
let rec settle (mi : menv) (nd : node) : node =
  match forced_of nd.st.s with
  | f :: _ -> settle mi { nd with st = apply mi nd.st f; items = f :: nd.items }
  | [] ->
    let ready, waiting = List.partition (fun (_, _, deps) -> List.for_all (fun d -> lk_finished nd.st.s (nat_of_int d)) deps) nd.pending in
    (match ready with
     | [] -> nd
     | _ ->
       let nd' = List.fold_left (fun nd (t, op, _) -> let it = HCall (t, op) in { nd with st = apply mi nd.st it; items = it :: nd.items }) nd ready in
       settle mi { nd' with pending = waiting })

let do_item (mi : menv) (nd : node) (it : hitem) : node =
  settle mi { nd with st = apply mi nd.st it; items = it :: nd.items }

type choice = CStop | CItem of hitem * int (* cost *)

let thread_is_lock (s : lstate) (t : int) =
  List.exists (fun (t', th) -> t' = t && (match th.t_op with OLock _ -> true | _ -> false) && th.t_cancel = None
                               && (match th.t_pc with PFin _ -> false | _ -> true)) (threads_sorted s)

let choices (sc : scenario) (nd : node) : choice list =
  let s = nd.st.s in
  if s.l_crashed then [CStop] else
  let runs = List.filter (fun t -> lk_enabled s (nat_of_int t)) (List.map fst (threads_sorted s)) in
  let gc_running = nd.st.gp >= 0 in
  let last_enabled = match nd.last with Some l -> List.mem l runs || (l = gc_thread && gc_running) | None -> false in
  let run_choices = List.map (fun t -> CItem (HRun t, if last_enabled && nd.last <> Some t then 1 else 0)) runs in
  let ecost = if last_enabled then 1 else 0 in
  (* the GC pass is a goroutine of its own: "gcstart" parks it, the other threads' steps interleave with its "gcrun" items.
     Shutdown never overlaps a pass (the GC goroutine itself takes the stop request, between two passes). *)
  let env =
    List.filter_map (fun (t, e) -> if thread_is_lock s t then Some (CItem (HCancel (t, e), ecost)) else None) nd.cancels_left
    @ (if gc_running then [CItem (HGcRun, if last_enabled && nd.last <> Some gc_thread then 1 else 0)]
       else if nd.gc_left > 0 then [CItem (HGcStart, ecost)] else [])
    @ (match sc.sc_tick with Some (d, _) when nd.tick_left > 0 -> [CItem (HTick d, ecost)] | _ -> [])
    @ (if nd.shut_left && not s.l_shut && no_call_in_flight s && not gc_running then [CItem (HShutdown, ecost)] else []) in
  (if runs = [] && not gc_running then [CStop] else []) @ run_choices @ env

let shuffle (rng : Random.State.t) (l : 'a list) : 'a list =
  let a = Array.of_list l in
  for i = Array.length a - 1 downto 1 do
    let j = Random.State.int rng (i + 1) in
    let x = a.(i) in a.(i) <- a.(j); a.(j) <- x
  done;
  Array.to_list a

exception Cap

(* calls [emit idx items pre] for every complete schedule within the preemption bound *)
let enumerate (sc : scenario) (rng : Random.State.t option) (emit : int -> hitem list -> int -> unit) : int * bool =
  let mi = { mi = z_of_int sc.sc_minidle; nsh = sc.sc_shards } in
  let count = ref 0 in
  (* setup: each call alone, to completion *)
  let nd0 = { st = m_init; items = []; last = None; pre = 0; pending = sc.sc_calls; cancels_left = sc.sc_cancels;
              gc_left = sc.sc_gc; tick_left = (match sc.sc_tick with Some (_, n) -> n | None -> 0); shut_left = sc.sc_shutdown } in
  let nd0 = { nd0 with pending = [] } in
  let nd0 = List.fold_left (fun nd (t, op) ->
      let nd = do_item mi nd (HCall (t, op)) in
      let rec go nd fuel = if fuel = 0 || not (lk_enabled nd.st.s (nat_of_int t)) then nd else go (do_item mi nd (HRun t)) (fuel - 1) in
      go nd 64) nd0 sc.sc_setup in
  let nd0 = settle mi { nd0 with pending = sc.sc_calls; last = None } in
  let rec dfs (nd : node) (depth : int) =
    if depth > 400 then () else
    let cs = choices sc nd in
    let cs = match rng with Some r -> shuffle r cs | None -> cs in
    List.iter (fun c ->
        match c with
        | CStop ->
            emit !count (List.rev nd.items) nd.pre;
            incr count;
            if !count >= sc.sc_cap then raise Cap
        | CItem (it, cost) ->
            if nd.pre + cost <= sc.sc_bound then begin
              let nd' = match it with
                | HRun t -> { nd with last = Some t }
                | HCancel (t, e) -> { nd with last = None; cancels_left = List.filter (fun c -> c <> (t, e)) nd.cancels_left }
                | HGc | HGcStart -> { nd with last = None; gc_left = nd.gc_left - 1 }
                | HGcRun -> { nd with last = Some gc_thread }
                | HTick _ -> { nd with last = None; tick_left = nd.tick_left - 1 }
                | HShutdown -> { nd with last = None; shut_left = false }
                | _ -> nd in
              dfs (do_item mi { nd' with pre = nd.pre + cost } it) (depth + 1)
            end) cs in
  let capped = (try dfs nd0 0; false with Cap -> true) in
  (!count, capped)

(* ---- printing one schedule (replay on the model) ---- *)
let is_forced = function HWake _ | HFCancel _ -> true | _ -> false

let print_schedule oc (sid : ostring) (minidle : int) (nsh : int) (items : hitem list) (pre : int) =
  let mi = { mi = z_of_int minidle; nsh = nsh } in
  Printf.fprintf oc "S %s\nC %d\nH %d\n" sid minidle nsh;
  let ghost = ref [] in
  let rec go s k = function
    | [] -> s
    | it :: rest ->
        let s' = apply mi s it in
        Printf.fprintf oc "I %d %s\n" k (tok_of_hitem it);
        ghost := List.rev_append (ghost_lines "" k (new_events s.s s'.s)) !ghost;
        (match rest with
         | nx :: _ when is_forced nx -> ()
         | _ -> print_obs oc k (observe s'));
        go s' (k + 1) rest in
  let s = go m_init 0 items in
  List.iter (fun l -> output_string oc (l ^ "\n")) (List.rev !ghost);
  Printf.fprintf oc "G giveback %d\nG pre %d\nZ\n" (if has_giveback s.s then 1 else 0) pre

let gen (file : ostring) (seed : int) =
  let rng = Random.State.make [| seed; 0x7432 |] in
  let scs = read_scenarios file in
  List.iter (fun sc ->
      if sc.sc_sample = 0 then begin
        let (n, capped) = enumerate sc None (fun idx items pre ->
            print_schedule stdout (Printf.sprintf "%s#%d" sc.sc_id idx) sc.sc_minidle sc.sc_shards items pre) in
        Printf.printf "Q %s enumerated %d printed %d capped %d bound %d\n" sc.sc_id n n (if capped then 1 else 0) sc.sc_bound
      end else begin
        (* reservoir sample of sc_sample schedules out of the (randomly ordered, possibly capped) enumeration *)
        let k = sc.sc_sample in
        let res : (int * hitem list * int) option array = Array.make k None in
        let (n, capped) = enumerate sc (Some rng) (fun idx items pre ->
            if idx < k then res.(idx) <- Some (idx, items, pre)
            else begin
              let j = Random.State.int rng (idx + 1) in
              if j < k then res.(j) <- Some (idx, items, pre)
            end) in
        let chosen = List.sort compare (List.filter_map (fun x -> x) (Array.to_list res)) in
        List.iter (fun (idx, items, pre) -> print_schedule stdout (Printf.sprintf "%s#%d" sc.sc_id idx) sc.sc_minidle sc.sc_shards items pre) chosen;
        Printf.printf "Q %s enumerated %d printed %d capped %d bound %d\n" sc.sc_id n (List.length chosen) (if capped then 1 else 0) sc.sc_bound
      end) scs

(* ---- check ---- *)
let stat_of_toks = function
  | ["P"; l] -> SP l
  | ["B"] -> SB
  | ["F"; ok; e] -> SF (ok = "1", e)
  | "Z" :: _ -> SZ
  | l -> raise (Bad ("status: " ^ String.concat " " l))

let compare_obs (sid : ostring) (k : int) (exp : obs) (got : obs) : (ostring * ostring) list =
  (* returns (kind, line) *)
  let out = ref [] in
  let add kind who e g = out := (kind, Printf.sprintf "D %s %d %s %s exp=%s got=%s" sid k kind who e g) :: !out in
  if exp.o_crashed <> got.o_crashed then
    add "crash" "-" (if exp.o_crashed then "1" else "0") (if got.o_crashed then "1" else "0");
  if not (exp.o_crashed && got.o_crashed) then begin
    let tids = List.sort_uniq compare (List.map fst exp.o_thr @ List.map fst got.o_thr) in
    let us s = String.map (fun c -> if c = ' ' then '_' else c) s in
    List.iter (fun t ->
        match List.assoc_opt t exp.o_thr, List.assoc_opt t got.o_thr with
        | Some (SF (ok1, e1)), Some (SF (ok2, e2)) ->
            if ok1 <> ok2 then add "bit" (string_of_int t) (us (tok_of_stat (SF (ok1, e1)))) (us (tok_of_stat (SF (ok2, e2))))
            else if e1 <> e2 then add "err" (string_of_int t) e1 e2
        | Some a, Some b ->
            if a <> b then add (if a = SB || b = SB then "blocked" else "label") (string_of_int t) (us (tok_of_stat a)) (us (tok_of_stat b))
        | Some a, None -> add "label" (string_of_int t) (us (tok_of_stat a)) "absent"
        | None, Some b -> add "label" (string_of_int t) "absent" (us (tok_of_stat b))
        | None, None -> ()) tids;
    if exp.o_tab <> got.o_tab then begin
      let show tab = if tab = [] then "empty" else String.concat "," (List.map (fun (n, z, ks) -> Printf.sprintf "%s:%d:[%s]" n z (String.concat ";" ks)) tab) in
      add "table" "-" (show exp.o_tab) (show got.o_tab)
    end
  end;
  List.rev !out

let check (file : ostring) =
  let ic = open_in file in
  let sid = ref "" and mi = ref { mi = Z0; nsh = 1 } in
  let s = ref m_init in
  let cur_k = ref (-1) in
  let blk : obs option ref = ref None in
  let ndiff = ref 0 and first = ref None and nitems = ref 0 and bad = ref None in
  let active = ref false in
  let nlogged = ref 0 in
  let flush_items () =
    List.iter (fun (tag, it) -> incr nlogged; Printf.printf "V %s i %c %s\n" !sid tag (tok_of_item it)) (List.rev !applied);
    applied := [] in
  log_items := true;
  (* -- the model's own trace in the harness's format (M lines) -- *)
  let order : int list ref = ref [] in             (* call threads in the order they were issued *)
  let es : mstate option ref = ref None in         (* epilogue state of the model (the compared state !s is left alone) *)
  let eidx = ref 0 and seen : int list ref = ref [] and ecalls = ref 0 and got_m = ref 0 in
  let stuck_done = ref false and last_tab = ref (-1) in
  let m_obs k (o : obs) =
    Printf.printf "M X %d\n" k;
    List.iter (fun (t, st) -> Printf.printf "M T %d %s\n" t (tok_of_stat st)) o.o_thr;
    List.iter (fun (n, z, ks) -> Printf.printf "M L %s %d %d%s\n" n z (List.length ks) (String.concat "" (List.map (fun k -> " " ^ k) ks))) o.o_tab;
    Printf.printf "M K %d\n" (if o.o_crashed then 1 else 0) in
  let ev () = let k = !eidx in incr eidx; k in
  let quiet f = let l = !log_items in log_items := false; let r = (try f () with e -> log_items := l; raise e) in log_items := l; r in
  let finished_tids (m : mstate) = List.filter_map (fun (t, th) -> match th.t_pc with PFin _ -> Some t | _ -> None) (threads_sorted m.s) in
  (* every enabled thread (and a GC pass in progress) runs until nothing moves *)
  let free_run (m : mstate) : mstate =
    let rec go m fuel =
      if fuel = 0 then m else
      let m = if m.gp >= 0 then settle_forced !mi (apply !mi m HGcRun) 64 else m in
      match List.filter (fun t -> lk_enabled m.s (nat_of_int t)) (List.map fst (threads_sorted m.s)) with
      | [] -> if m.gp >= 0 then go m (fuel - 1) else m
      | t :: _ -> go (settle_forced !mi (apply !mi m (HRun t)) 64) (fuel - 1) in
    go m 2000 in
  let late (m : mstate) =
    List.iter (fun t ->
        if not (List.mem t !seen) then
          match List.assoc_opt t (threads_sorted m.s) with
          | Some { t_pc = PFin r; _ } -> seen := t :: !seen; Printf.printf "M E %d late %d %d %s\n" (ev ()) t (if r.r_ok then 1 else 0) (tok_of_err r.r_err)
          | _ -> ()) (List.rev !order) in
  let stuck (m : mstate) =
    if not !stuck_done then begin
      stuck_done := true;
      if not m.s.l_shut then
        List.iter (fun (t, th) -> match th.t_pc with PAcqWait _ -> Printf.printf "M E %d stuck %d\n" (ev ()) t | _ -> ()) (threads_sorted m.s)
    end in
  let epilogue_line (toks : ostring list) =
    match toks, !es with
    | [_; "begin"], _ ->
        eidx := !cur_k + 1; seen := finished_tids !s; stuck_done := false; last_tab := -1; got_m := 0;
        Printf.printf "M E %d begin\n" (ev ());
        let m = quiet (fun () -> free_run !s) in
        late m; es := Some m
    | [rk; "call"; op; name; key; size; rok; rerr; tag], Some m when not m.s.l_crashed ->
        if tag = "final" || tag = "unfinal" then stuck m;
        let t = 100 + !ecalls in incr ecalls;   (* small: thread ids are unary nats in the extracted model *)
        let m = quiet (fun () ->
            let m = settle_forced !mi (apply !mi m (HCall (t, op_of_toks op name key size))) 64 in
            let rec go m fuel = if fuel = 0 || lk_finished m.s (nat_of_int t) || not (lk_enabled m.s (nat_of_int t)) then m
              else go (settle_forced !mi (apply !mi m (HRun t)) 64) (fuel - 1) in
            go m 64) in
        let (ok, err) = match List.assoc_opt t (threads_sorted m.s) with
          | Some { t_pc = PFin r; _ } -> (r.r_ok, tok_of_err r.r_err) | _ -> (false, "pending") in
        Printf.printf "M E %d call %s %s %s %s %d %s %s\n" (ev ()) op name key size (if ok then 1 else 0) err tag;
        if ok && (tag = "probe" || tag = "final") then incr got_m;
        if (ok <> (rok = "1")) || err <> rerr then begin
          Printf.printf "D %s %s epi e%s exp=%d_%s got=%s_%s\n" !sid rk rk (if ok then 1 else 0) err rok rerr; incr ndiff;
          if !first = None then first := Some (int_of_string rk, "epi")
        end;
        let m = quiet (fun () -> free_run m) in
        late m; es := Some m
    | [_; ("probe" | "final" as what); name; rsize; _; _], Some m ->
        let (size, nkeys) = match List.filter (fun (n, _, _) -> n = name) (observe m).o_tab with
          | (_, z, ks) :: _ -> (z, List.length ks) | [] -> (int_of_string rsize, 0) in
        Printf.printf "M E %d %s %s %d %d %d\n" (ev ()) what name size (max 0 (nkeys - !got_m)) !got_m;
        got_m := 0
    | rk :: "tab" :: _, Some m ->
        if int_of_string rk <> !last_tab then begin
          last_tab := int_of_string rk;
          stuck m;
          let k = ev () in
          List.iter (fun (n, z, ks) -> Printf.printf "M E %d tab %s %d %d%s\n" k n z (List.length ks) (String.concat "" (List.map (fun k -> " " ^ k) ks))) (observe m).o_tab
        end
    | _ -> () in
  let flush_block () =
    (match !blk with
     | Some got ->
         flush_items ();
         m_obs !cur_k (observe !s);
         Printf.printf "V %s o %d %s\n" !sid !cur_k (obs_line !s);
         let got = { got with o_thr = List.sort compare got.o_thr; o_tab = List.sort compare got.o_tab } in
         let ds = compare_obs !sid !cur_k (observe !s) got in
         List.iter (fun (kind, line) ->
             print_endline line; incr ndiff;
             if !first = None then first := Some (!cur_k, kind)) ds
     | None -> ());
    blk := None in
  let finish complete =
    if !active then begin
      flush_block ();
      (match !es with Some m when complete -> stuck m | _ -> ());
      if complete then print_endline "M Z";
      (match !bad with Some m -> Printf.printf "B %s %s\n" !sid m | None -> ());
      (match !first with
       | None -> Printf.printf "R %s ok %d %d\n" !sid !nitems (if complete then 1 else 0)
       | Some (k, kind) -> Printf.printf "R %s diff %d %s %d %d\n" !sid k kind !ndiff (if complete then 1 else 0));
      Printf.printf "G %s giveback %d\n" !sid (if has_giveback !s.s then 1 else 0);
      Printf.printf "G %s crashed %d\n" !sid (if !s.s.l_crashed then 1 else 0);
      flush_items ();
      Printf.printf "V %s o end %s\n" !sid (obs_line !s);
      Printf.printf "V %s z %d\n" !sid !nlogged
    end;
    active := false in
  (try
     while true do
       let line = input_line ic in
       try
         match split_ws line with
         | ["S"; id] ->
             finish false;
             sid := id; s := m_init; mi := { mi = Z0; nsh = 1 }; cur_k := -1; blk := None; ndiff := 0; first := None; nitems := 0; bad := None; active := true;
             applied := []; nlogged := 0;
             order := []; es := None; ecalls := 0;
             Printf.printf "M S %s\n" id
         | ["C"; v] -> mi := { !mi with mi = z_of_int (int_of_string v) }; Printf.printf "M C %s\n" v
         | ["H"; v] -> mi := { !mi with nsh = max 1 (int_of_string v) }; Printf.printf "M H %s\n" v
         | "E" :: rest when !active -> flush_block (); epilogue_line rest
         | "I" :: k :: rest when !active ->
             flush_block ();
             let it = hitem_of_toks rest in
             (match it with HCall (t, _) -> order := t :: !order | _ -> ());
             Printf.printf "M I %s %s\n" k (String.concat " " rest);
             (* forced moves are made here after every item (as the real goroutines make them); the echoed ones are skipped *)
             let s' = if is_forced it then !s else settle_forced !mi (apply !mi !s it) 64 in
             List.iter print_endline (ghost_lines (!sid ^ " ") (int_of_string k) (new_events !s.s s'.s));
             s := s'; cur_k := int_of_string k; incr nitems
         | ["X"; k] when !active -> flush_block (); cur_k := int_of_string k; blk := Some { o_thr = []; o_tab = []; o_crashed = false }
         | "T" :: t :: rest when !active ->
             (match !blk with Some b -> blk := Some { b with o_thr = (int_of_string t, stat_of_toks rest) :: b.o_thr } | None -> ())
         | "L" :: name :: size :: _ :: keys when !active ->
             (match !blk with Some b -> blk := Some { b with o_tab = (name, int_of_string size, keys) :: b.o_tab } | None -> ())
         | ["K"; c] when !active ->
             (match !blk with Some b -> blk := Some { b with o_crashed = (c = "1") } | None -> ())
         | ["Z"] -> finish true
         | _ -> ()
       with Bad m | Failure m -> bad := Some ("parse:" ^ String.map (fun c -> if c = ' ' then '_' else c) m)
     done
   with End_of_file -> ());
  finish false;
  close_in ic


(* ---- trace: the extracted trace predicates on the real call/return history ---- *)
(* thread ids of the epilogue's sequential calls: the numbers after the largest thread id of the schedule's own calls
   (kept small: thread ids are unary numbers on the Coq side) *)

let tok_of_lev = function
  | EvInv (t, op) -> Printf.sprintf "inv:%d:%s" (int_of_nat t) (String.map (fun c -> if c = ' ' then ':' else c) (toks_of_op op))
  | EvRes (t, r) -> Printf.sprintf "res:%d:%d:%s" (int_of_nat t) (if r.r_ok then 1 else 0) (tok_of_err r.r_err)
  | _ -> "?"

let trace (file : ostring) =
  let ic = open_in file in
  let sid = ref "" and active = ref false in
  let evs : (int * lev) list ref = ref [] in        (* newest first *)
  let called : (int, unit) Hashtbl.t = Hashtbl.create 16 and seen : (int, unit) Hashtbl.t = Hashtbl.create 16 in
  let cur_k = ref (-1) and in_block = ref false in
  let bad = ref None and next_tid = ref 1 in
  let res_of ok e = { r_ok = (ok = "1"); r_err = err_of_tok e } in
  let finish () =
    if !active then begin
      let l = List.rev !evs in
      let h = List.map snd l in
      let idx = Array.of_list (List.map fst l) in
      let show = function
        | None -> "-"
        | Some n -> let n = int_of_nat n in Printf.sprintf "%d@%d" n (if n >= 1 && n <= Array.length idx then idx.(n - 1) else -1) in
      (match !bad with Some m -> Printf.printf "PB %s %s\n" !sid m | None -> ());
      (match lk_trace_verdict h with
       | [fr; wf; c01; once; fl; gu] ->
           Printf.printf "P %s %d fresh=%s wf=%s c01=%s once=%s fail=%s giveup=%s\n" !sid (List.length h)
             (show fr) (show wf) (show c01) (show once) (show fl) (show gu);
           (match c01 with
            | Some n ->
                let pre = take (int_of_nat n) (obsh h) in
                Printf.printf "PL %s c01 %d%s\n" !sid (int_of_nat n)
                  (String.concat "" (List.map (fun (t, op) ->
                       " " ^ string_of_int (int_of_nat t) ^ ":" ^ String.map (fun c -> if c = ' ' then ':' else c) (toks_of_op op))
                       (live_holds pre)))
            | None -> ());
           if List.exists (fun v -> v <> None) [wf; c01; once; fl; gu] then
             Printf.printf "PH %s%s\n" !sid (String.concat "" (List.map (fun (k, e) -> Printf.sprintf " %d:%s" k (tok_of_lev e)) l))
       | _ -> Printf.printf "PB %s verdict-shape\n" !sid)
    end;
    active := false in
  (try
     while true do
       let line = input_line ic in
       try
         match split_ws line with
         | ["S"; id] ->
             finish ();
             sid := id; active := true; evs := []; Hashtbl.reset called; Hashtbl.reset seen; cur_k := -1; in_block := false; bad := None; next_tid := 1
         | "I" :: k :: "call" :: t :: kind :: name :: key :: size :: _ when !active ->
             in_block := false;
             let tid = int_of_string t in
             Hashtbl.replace called tid ();
             if tid >= !next_tid then next_tid := tid + 1;
             evs := (int_of_string k, EvInv (nat_of_int tid, op_of_toks kind name key size)) :: !evs
         | "I" :: _ when !active -> in_block := false
         | ["X"; k] when !active -> cur_k := int_of_string k; in_block := true
         | ["T"; t; "F"; ok; e] when !active && !in_block ->
             let tid = int_of_string t in
             if Hashtbl.mem called tid && not (Hashtbl.mem seen tid) then begin
               Hashtbl.replace seen tid ();
               evs := (!cur_k, EvRes (nat_of_int tid, res_of ok e)) :: !evs
             end
         | ["E"; k; "late"; t; ok; e] when !active ->
             in_block := false;
             let tid = int_of_string t in
             if Hashtbl.mem called tid && not (Hashtbl.mem seen tid) then begin
               Hashtbl.replace seen tid ();
               evs := (int_of_string k, EvRes (nat_of_int tid, res_of ok e)) :: !evs
             end
         | "E" :: k :: "call" :: kind :: name :: key :: size :: ok :: e :: _ when !active ->
             in_block := false;
             let k = int_of_string k in
             let tid = nat_of_int !next_tid in
             incr next_tid;
             evs := (k, EvRes (tid, res_of ok e)) :: (k, EvInv (tid, op_of_toks kind name key size)) :: !evs
         | "E" :: _ when !active -> in_block := false
         | ["Z"] -> finish ()
         | _ -> ()
       with Bad m | Failure m -> bad := Some ("parse:" ^ String.map (fun c -> if c = ' ' then '_' else c) m)
     done
   with End_of_file -> ());
  finish ();
  close_in ic

let () =
  match Array.to_list Sys.argv with
  | [_; "gen"; file; seed] -> (try gen file (int_of_string seed) with Bad m -> prerr_endline ("bad input: " ^ m); exit 2)
  | [_; "check"; file] -> check file
  | [_; "trace"; file] -> trace file
  | _ -> prerr_endline "usage: lkdriver gen <scenario file> <seed> | lkdriver check <observed file> | lkdriver trace <observed file>"; exit 2
