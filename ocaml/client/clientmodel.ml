
type __ = Obj.t
let __ = let rec f _ = Obj.repr f in Obj.repr f

(** val xorb : bool -> bool -> bool **)

let xorb b1 b2 =
  if b1 then if b2 then false else true else b2

(** val negb : bool -> bool **)

let negb = function
| true -> false
| false -> true

type nat =
| O
| S of nat

(** val option_map : ('a1 -> 'a2) -> 'a1 option -> 'a2 option **)

let option_map f = function
| Some a -> Some (f a)
| None -> None

type ('a, 'b) sum =
| Inl of 'a
| Inr of 'b

(** val fst : ('a1 * 'a2) -> 'a1 **)

let fst = function
| (x, _) -> x

(** val snd : ('a1 * 'a2) -> 'a2 **)

let snd = function
| (_, y) -> y

(** val uncurry : ('a1 -> 'a2 -> 'a3) -> ('a1 * 'a2) -> 'a3 **)

let uncurry f = function
| (x, y) -> f x y

(** val prod_curry_subdef : ('a1 -> 'a2 -> 'a3) -> ('a1 * 'a2) -> 'a3 **)

let prod_curry_subdef =
  uncurry

(** val length : 'a1 list -> nat **)

let rec length = function
| [] -> O
| _ :: l' -> S (length l')

(** val app : 'a1 list -> 'a1 list -> 'a1 list **)

let rec app l m =
  match l with
  | [] -> m
  | a :: l1 -> a :: (app l1 m)

type comparison =
| Eq
| Lt
| Gt

(** val compOpp : comparison -> comparison **)

let compOpp = function
| Eq -> Eq
| Lt -> Gt
| Gt -> Lt

type compareSpecT =
| CompEqT
| CompLtT
| CompGtT

(** val compareSpec2Type : comparison -> compareSpecT **)

let compareSpec2Type = function
| Eq -> CompEqT
| Lt -> CompLtT
| Gt -> CompGtT

type 'a compSpecT = compareSpecT

(** val compSpec2Type : 'a1 -> 'a1 -> comparison -> 'a1 compSpecT **)

let compSpec2Type _ _ =
  compareSpec2Type

(** val id : __ -> __ **)

let id x =
  x

type 'a sig0 = 'a
  (* singleton inductive, whose constructor was exist *)



type uint =
| Nil
| D0 of uint
| D1 of uint
| D2 of uint
| D3 of uint
| D4 of uint
| D5 of uint
| D6 of uint
| D7 of uint
| D8 of uint
| D9 of uint

type signed_int =
| Pos of uint
| Neg of uint

(** val nzhead : uint -> uint **)

let rec nzhead d = match d with
| D0 d0 -> nzhead d0
| _ -> d

(** val unorm : uint -> uint **)

let unorm d =
  match nzhead d with
  | Nil -> D0 Nil
  | x -> x

(** val norm : signed_int -> signed_int **)

let norm = function
| Pos d0 -> Pos (unorm d0)
| Neg d0 -> (match nzhead d0 with
             | Nil -> Pos (D0 Nil)
             | x -> Neg x)

(** val revapp : uint -> uint -> uint **)

let rec revapp d d' =
  match d with
  | Nil -> d'
  | D0 d0 -> revapp d0 (D0 d')
  | D1 d0 -> revapp d0 (D1 d')
  | D2 d0 -> revapp d0 (D2 d')
  | D3 d0 -> revapp d0 (D3 d')
  | D4 d0 -> revapp d0 (D4 d')
  | D5 d0 -> revapp d0 (D5 d')
  | D6 d0 -> revapp d0 (D6 d')
  | D7 d0 -> revapp d0 (D7 d')
  | D8 d0 -> revapp d0 (D8 d')
  | D9 d0 -> revapp d0 (D9 d')

(** val rev : uint -> uint **)

let rev d =
  revapp d Nil

module Little =
 struct
  (** val succ : uint -> uint **)

  let rec succ = function
  | Nil -> D1 Nil
  | D0 d0 -> D1 d0
  | D1 d0 -> D2 d0
  | D2 d0 -> D3 d0
  | D3 d0 -> D4 d0
  | D4 d0 -> D5 d0
  | D5 d0 -> D6 d0
  | D6 d0 -> D7 d0
  | D7 d0 -> D8 d0
  | D8 d0 -> D9 d0
  | D9 d0 -> D0 (succ d0)
 end

type uint0 =
| Nil0
| D10 of uint0
| D11 of uint0
| D12 of uint0
| D13 of uint0
| D14 of uint0
| D15 of uint0
| D16 of uint0
| D17 of uint0
| D18 of uint0
| D19 of uint0
| Da of uint0
| Db of uint0
| Dc of uint0
| Dd of uint0
| De of uint0
| Df of uint0

type signed_int0 =
| Pos0 of uint0
| Neg0 of uint0

(** val nzhead0 : uint0 -> uint0 **)

let rec nzhead0 d = match d with
| D10 d0 -> nzhead0 d0
| _ -> d

(** val unorm0 : uint0 -> uint0 **)

let unorm0 d =
  match nzhead0 d with
  | Nil0 -> D10 Nil0
  | x -> x

(** val norm0 : signed_int0 -> signed_int0 **)

let norm0 = function
| Pos0 d0 -> Pos0 (unorm0 d0)
| Neg0 d0 -> (match nzhead0 d0 with
              | Nil0 -> Pos0 (D10 Nil0)
              | x -> Neg0 x)

(** val revapp0 : uint0 -> uint0 -> uint0 **)

let rec revapp0 d d' =
  match d with
  | Nil0 -> d'
  | D10 d0 -> revapp0 d0 (D10 d')
  | D11 d0 -> revapp0 d0 (D11 d')
  | D12 d0 -> revapp0 d0 (D12 d')
  | D13 d0 -> revapp0 d0 (D13 d')
  | D14 d0 -> revapp0 d0 (D14 d')
  | D15 d0 -> revapp0 d0 (D15 d')
  | D16 d0 -> revapp0 d0 (D16 d')
  | D17 d0 -> revapp0 d0 (D17 d')
  | D18 d0 -> revapp0 d0 (D18 d')
  | D19 d0 -> revapp0 d0 (D19 d')
  | Da d0 -> revapp0 d0 (Da d')
  | Db d0 -> revapp0 d0 (Db d')
  | Dc d0 -> revapp0 d0 (Dc d')
  | Dd d0 -> revapp0 d0 (Dd d')
  | De d0 -> revapp0 d0 (De d')
  | Df d0 -> revapp0 d0 (Df d')

(** val rev0 : uint0 -> uint0 **)

let rev0 d =
  revapp0 d Nil0

module Coq_Little =
 struct
  (** val succ : uint0 -> uint0 **)

  let rec succ = function
  | Nil0 -> D11 Nil0
  | D10 d0 -> D11 d0
  | D11 d0 -> D12 d0
  | D12 d0 -> D13 d0
  | D13 d0 -> D14 d0
  | D14 d0 -> D15 d0
  | D15 d0 -> D16 d0
  | D16 d0 -> D17 d0
  | D17 d0 -> D18 d0
  | D18 d0 -> D19 d0
  | D19 d0 -> Da d0
  | Da d0 -> Db d0
  | Db d0 -> Dc d0
  | Dc d0 -> Dd d0
  | Dd d0 -> De d0
  | De d0 -> Df d0
  | Df d0 -> D10 (succ d0)
 end

type uint1 =
| UIntDecimal of uint
| UIntHexadecimal of uint0

type signed_int1 =
| IntDecimal of signed_int
| IntHexadecimal of signed_int0

module Coq__1 = struct
 (** val add : nat -> nat -> nat **)
 let rec add n0 m =
   match n0 with
   | O -> m
   | S p -> S (add p m)
end
include Coq__1

(** val mul : nat -> nat -> nat **)

let rec mul n0 m =
  match n0 with
  | O -> O
  | S p -> add m (mul p m)

type byte =
| X00
| X01
| X02
| X03
| X04
| X05
| X06
| X07
| X08
| X09
| X0a
| X0b
| X0c
| X0d
| X0e
| X0f
| X10
| X11
| X12
| X13
| X14
| X15
| X16
| X17
| X18
| X19
| X1a
| X1b
| X1c
| X1d
| X1e
| X1f
| X20
| X21
| X22
| X23
| X24
| X25
| X26
| X27
| X28
| X29
| X2a
| X2b
| X2c
| X2d
| X2e
| X2f
| X30
| X31
| X32
| X33
| X34
| X35
| X36
| X37
| X38
| X39
| X3a
| X3b
| X3c
| X3d
| X3e
| X3f
| X40
| X41
| X42
| X43
| X44
| X45
| X46
| X47
| X48
| X49
| X4a
| X4b
| X4c
| X4d
| X4e
| X4f
| X50
| X51
| X52
| X53
| X54
| X55
| X56
| X57
| X58
| X59
| X5a
| X5b
| X5c
| X5d
| X5e
| X5f
| X60
| X61
| X62
| X63
| X64
| X65
| X66
| X67
| X68
| X69
| X6a
| X6b
| X6c
| X6d
| X6e
| X6f
| X70
| X71
| X72
| X73
| X74
| X75
| X76
| X77
| X78
| X79
| X7a
| X7b
| X7c
| X7d
| X7e
| X7f
| X80
| X81
| X82
| X83
| X84
| X85
| X86
| X87
| X88
| X89
| X8a
| X8b
| X8c
| X8d
| X8e
| X8f
| X90
| X91
| X92
| X93
| X94
| X95
| X96
| X97
| X98
| X99
| X9a
| X9b
| X9c
| X9d
| X9e
| X9f
| Xa0
| Xa1
| Xa2
| Xa3
| Xa4
| Xa5
| Xa6
| Xa7
| Xa8
| Xa9
| Xaa
| Xab
| Xac
| Xad
| Xae
| Xaf
| Xb0
| Xb1
| Xb2
| Xb3
| Xb4
| Xb5
| Xb6
| Xb7
| Xb8
| Xb9
| Xba
| Xbb
| Xbc
| Xbd
| Xbe
| Xbf
| Xc0
| Xc1
| Xc2
| Xc3
| Xc4
| Xc5
| Xc6
| Xc7
| Xc8
| Xc9
| Xca
| Xcb
| Xcc
| Xcd
| Xce
| Xcf
| Xd0
| Xd1
| Xd2
| Xd3
| Xd4
| Xd5
| Xd6
| Xd7
| Xd8
| Xd9
| Xda
| Xdb
| Xdc
| Xdd
| Xde
| Xdf
| Xe0
| Xe1
| Xe2
| Xe3
| Xe4
| Xe5
| Xe6
| Xe7
| Xe8
| Xe9
| Xea
| Xeb
| Xec
| Xed
| Xee
| Xef
| Xf0
| Xf1
| Xf2
| Xf3
| Xf4
| Xf5
| Xf6
| Xf7
| Xf8
| Xf9
| Xfa
| Xfb
| Xfc
| Xfd
| Xfe
| Xff

(** val to_bits :
    byte -> bool * (bool * (bool * (bool * (bool * (bool * (bool * bool)))))) **)

let to_bits = function
| X00 -> (false, (false, (false, (false, (false, (false, (false, false)))))))
| X01 -> (true, (false, (false, (false, (false, (false, (false, false)))))))
| X02 -> (false, (true, (false, (false, (false, (false, (false, false)))))))
| X03 -> (true, (true, (false, (false, (false, (false, (false, false)))))))
| X04 -> (false, (false, (true, (false, (false, (false, (false, false)))))))
| X05 -> (true, (false, (true, (false, (false, (false, (false, false)))))))
| X06 -> (false, (true, (true, (false, (false, (false, (false, false)))))))
| X07 -> (true, (true, (true, (false, (false, (false, (false, false)))))))
| X08 -> (false, (false, (false, (true, (false, (false, (false, false)))))))
| X09 -> (true, (false, (false, (true, (false, (false, (false, false)))))))
| X0a -> (false, (true, (false, (true, (false, (false, (false, false)))))))
| X0b -> (true, (true, (false, (true, (false, (false, (false, false)))))))
| X0c -> (false, (false, (true, (true, (false, (false, (false, false)))))))
| X0d -> (true, (false, (true, (true, (false, (false, (false, false)))))))
| X0e -> (false, (true, (true, (true, (false, (false, (false, false)))))))
| X0f -> (true, (true, (true, (true, (false, (false, (false, false)))))))
| X10 -> (false, (false, (false, (false, (true, (false, (false, false)))))))
| X11 -> (true, (false, (false, (false, (true, (false, (false, false)))))))
| X12 -> (false, (true, (false, (false, (true, (false, (false, false)))))))
| X13 -> (true, (true, (false, (false, (true, (false, (false, false)))))))
| X14 -> (false, (false, (true, (false, (true, (false, (false, false)))))))
| X15 -> (true, (false, (true, (false, (true, (false, (false, false)))))))
| X16 -> (false, (true, (true, (false, (true, (false, (false, false)))))))
| X17 -> (true, (true, (true, (false, (true, (false, (false, false)))))))
| X18 -> (false, (false, (false, (true, (true, (false, (false, false)))))))
| X19 -> (true, (false, (false, (true, (true, (false, (false, false)))))))
| X1a -> (false, (true, (false, (true, (true, (false, (false, false)))))))
| X1b -> (true, (true, (false, (true, (true, (false, (false, false)))))))
| X1c -> (false, (false, (true, (true, (true, (false, (false, false)))))))
| X1d -> (true, (false, (true, (true, (true, (false, (false, false)))))))
| X1e -> (false, (true, (true, (true, (true, (false, (false, false)))))))
| X1f -> (true, (true, (true, (true, (true, (false, (false, false)))))))
| X20 -> (false, (false, (false, (false, (false, (true, (false, false)))))))
| X21 -> (true, (false, (false, (false, (false, (true, (false, false)))))))
| X22 -> (false, (true, (false, (false, (false, (true, (false, false)))))))
| X23 -> (true, (true, (false, (false, (false, (true, (false, false)))))))
| X24 -> (false, (false, (true, (false, (false, (true, (false, false)))))))
| X25 -> (true, (false, (true, (false, (false, (true, (false, false)))))))
| X26 -> (false, (true, (true, (false, (false, (true, (false, false)))))))
| X27 -> (true, (true, (true, (false, (false, (true, (false, false)))))))
| X28 -> (false, (false, (false, (true, (false, (true, (false, false)))))))
| X29 -> (true, (false, (false, (true, (false, (true, (false, false)))))))
| X2a -> (false, (true, (false, (true, (false, (true, (false, false)))))))
| X2b -> (true, (true, (false, (true, (false, (true, (false, false)))))))
| X2c -> (false, (false, (true, (true, (false, (true, (false, false)))))))
| X2d -> (true, (false, (true, (true, (false, (true, (false, false)))))))
| X2e -> (false, (true, (true, (true, (false, (true, (false, false)))))))
| X2f -> (true, (true, (true, (true, (false, (true, (false, false)))))))
| X30 -> (false, (false, (false, (false, (true, (true, (false, false)))))))
| X31 -> (true, (false, (false, (false, (true, (true, (false, false)))))))
| X32 -> (false, (true, (false, (false, (true, (true, (false, false)))))))
| X33 -> (true, (true, (false, (false, (true, (true, (false, false)))))))
| X34 -> (false, (false, (true, (false, (true, (true, (false, false)))))))
| X35 -> (true, (false, (true, (false, (true, (true, (false, false)))))))
| X36 -> (false, (true, (true, (false, (true, (true, (false, false)))))))
| X37 -> (true, (true, (true, (false, (true, (true, (false, false)))))))
| X38 -> (false, (false, (false, (true, (true, (true, (false, false)))))))
| X39 -> (true, (false, (false, (true, (true, (true, (false, false)))))))
| X3a -> (false, (true, (false, (true, (true, (true, (false, false)))))))
| X3b -> (true, (true, (false, (true, (true, (true, (false, false)))))))
| X3c -> (false, (false, (true, (true, (true, (true, (false, false)))))))
| X3d -> (true, (false, (true, (true, (true, (true, (false, false)))))))
| X3e -> (false, (true, (true, (true, (true, (true, (false, false)))))))
| X3f -> (true, (true, (true, (true, (true, (true, (false, false)))))))
| X40 -> (false, (false, (false, (false, (false, (false, (true, false)))))))
| X41 -> (true, (false, (false, (false, (false, (false, (true, false)))))))
| X42 -> (false, (true, (false, (false, (false, (false, (true, false)))))))
| X43 -> (true, (true, (false, (false, (false, (false, (true, false)))))))
| X44 -> (false, (false, (true, (false, (false, (false, (true, false)))))))
| X45 -> (true, (false, (true, (false, (false, (false, (true, false)))))))
| X46 -> (false, (true, (true, (false, (false, (false, (true, false)))))))
| X47 -> (true, (true, (true, (false, (false, (false, (true, false)))))))
| X48 -> (false, (false, (false, (true, (false, (false, (true, false)))))))
| X49 -> (true, (false, (false, (true, (false, (false, (true, false)))))))
| X4a -> (false, (true, (false, (true, (false, (false, (true, false)))))))
| X4b -> (true, (true, (false, (true, (false, (false, (true, false)))))))
| X4c -> (false, (false, (true, (true, (false, (false, (true, false)))))))
| X4d -> (true, (false, (true, (true, (false, (false, (true, false)))))))
| X4e -> (false, (true, (true, (true, (false, (false, (true, false)))))))
| X4f -> (true, (true, (true, (true, (false, (false, (true, false)))))))
| X50 -> (false, (false, (false, (false, (true, (false, (true, false)))))))
| X51 -> (true, (false, (false, (false, (true, (false, (true, false)))))))
| X52 -> (false, (true, (false, (false, (true, (false, (true, false)))))))
| X53 -> (true, (true, (false, (false, (true, (false, (true, false)))))))
| X54 -> (false, (false, (true, (false, (true, (false, (true, false)))))))
| X55 -> (true, (false, (true, (false, (true, (false, (true, false)))))))
| X56 -> (false, (true, (true, (false, (true, (false, (true, false)))))))
| X57 -> (true, (true, (true, (false, (true, (false, (true, false)))))))
| X58 -> (false, (false, (false, (true, (true, (false, (true, false)))))))
| X59 -> (true, (false, (false, (true, (true, (false, (true, false)))))))
| X5a -> (false, (true, (false, (true, (true, (false, (true, false)))))))
| X5b -> (true, (true, (false, (true, (true, (false, (true, false)))))))
| X5c -> (false, (false, (true, (true, (true, (false, (true, false)))))))
| X5d -> (true, (false, (true, (true, (true, (false, (true, false)))))))
| X5e -> (false, (true, (true, (true, (true, (false, (true, false)))))))
| X5f -> (true, (true, (true, (true, (true, (false, (true, false)))))))
| X60 -> (false, (false, (false, (false, (false, (true, (true, false)))))))
| X61 -> (true, (false, (false, (false, (false, (true, (true, false)))))))
| X62 -> (false, (true, (false, (false, (false, (true, (true, false)))))))
| X63 -> (true, (true, (false, (false, (false, (true, (true, false)))))))
| X64 -> (false, (false, (true, (false, (false, (true, (true, false)))))))
| X65 -> (true, (false, (true, (false, (false, (true, (true, false)))))))
| X66 -> (false, (true, (true, (false, (false, (true, (true, false)))))))
| X67 -> (true, (true, (true, (false, (false, (true, (true, false)))))))
| X68 -> (false, (false, (false, (true, (false, (true, (true, false)))))))
| X69 -> (true, (false, (false, (true, (false, (true, (true, false)))))))
| X6a -> (false, (true, (false, (true, (false, (true, (true, false)))))))
| X6b -> (true, (true, (false, (true, (false, (true, (true, false)))))))
| X6c -> (false, (false, (true, (true, (false, (true, (true, false)))))))
| X6d -> (true, (false, (true, (true, (false, (true, (true, false)))))))
| X6e -> (false, (true, (true, (true, (false, (true, (true, false)))))))
| X6f -> (true, (true, (true, (true, (false, (true, (true, false)))))))
| X70 -> (false, (false, (false, (false, (true, (true, (true, false)))))))
| X71 -> (true, (false, (false, (false, (true, (true, (true, false)))))))
| X72 -> (false, (true, (false, (false, (true, (true, (true, false)))))))
| X73 -> (true, (true, (false, (false, (true, (true, (true, false)))))))
| X74 -> (false, (false, (true, (false, (true, (true, (true, false)))))))
| X75 -> (true, (false, (true, (false, (true, (true, (true, false)))))))
| X76 -> (false, (true, (true, (false, (true, (true, (true, false)))))))
| X77 -> (true, (true, (true, (false, (true, (true, (true, false)))))))
| X78 -> (false, (false, (false, (true, (true, (true, (true, false)))))))
| X79 -> (true, (false, (false, (true, (true, (true, (true, false)))))))
| X7a -> (false, (true, (false, (true, (true, (true, (true, false)))))))
| X7b -> (true, (true, (false, (true, (true, (true, (true, false)))))))
| X7c -> (false, (false, (true, (true, (true, (true, (true, false)))))))
| X7d -> (true, (false, (true, (true, (true, (true, (true, false)))))))
| X7e -> (false, (true, (true, (true, (true, (true, (true, false)))))))
| X7f -> (true, (true, (true, (true, (true, (true, (true, false)))))))
| X80 -> (false, (false, (false, (false, (false, (false, (false, true)))))))
| X81 -> (true, (false, (false, (false, (false, (false, (false, true)))))))
| X82 -> (false, (true, (false, (false, (false, (false, (false, true)))))))
| X83 -> (true, (true, (false, (false, (false, (false, (false, true)))))))
| X84 -> (false, (false, (true, (false, (false, (false, (false, true)))))))
| X85 -> (true, (false, (true, (false, (false, (false, (false, true)))))))
| X86 -> (false, (true, (true, (false, (false, (false, (false, true)))))))
| X87 -> (true, (true, (true, (false, (false, (false, (false, true)))))))
| X88 -> (false, (false, (false, (true, (false, (false, (false, true)))))))
| X89 -> (true, (false, (false, (true, (false, (false, (false, true)))))))
| X8a -> (false, (true, (false, (true, (false, (false, (false, true)))))))
| X8b -> (true, (true, (false, (true, (false, (false, (false, true)))))))
| X8c -> (false, (false, (true, (true, (false, (false, (false, true)))))))
| X8d -> (true, (false, (true, (true, (false, (false, (false, true)))))))
| X8e -> (false, (true, (true, (true, (false, (false, (false, true)))))))
| X8f -> (true, (true, (true, (true, (false, (false, (false, true)))))))
| X90 -> (false, (false, (false, (false, (true, (false, (false, true)))))))
| X91 -> (true, (false, (false, (false, (true, (false, (false, true)))))))
| X92 -> (false, (true, (false, (false, (true, (false, (false, true)))))))
| X93 -> (true, (true, (false, (false, (true, (false, (false, true)))))))
| X94 -> (false, (false, (true, (false, (true, (false, (false, true)))))))
| X95 -> (true, (false, (true, (false, (true, (false, (false, true)))))))
| X96 -> (false, (true, (true, (false, (true, (false, (false, true)))))))
| X97 -> (true, (true, (true, (false, (true, (false, (false, true)))))))
| X98 -> (false, (false, (false, (true, (true, (false, (false, true)))))))
| X99 -> (true, (false, (false, (true, (true, (false, (false, true)))))))
| X9a -> (false, (true, (false, (true, (true, (false, (false, true)))))))
| X9b -> (true, (true, (false, (true, (true, (false, (false, true)))))))
| X9c -> (false, (false, (true, (true, (true, (false, (false, true)))))))
| X9d -> (true, (false, (true, (true, (true, (false, (false, true)))))))
| X9e -> (false, (true, (true, (true, (true, (false, (false, true)))))))
| X9f -> (true, (true, (true, (true, (true, (false, (false, true)))))))
| Xa0 -> (false, (false, (false, (false, (false, (true, (false, true)))))))
| Xa1 -> (true, (false, (false, (false, (false, (true, (false, true)))))))
| Xa2 -> (false, (true, (false, (false, (false, (true, (false, true)))))))
| Xa3 -> (true, (true, (false, (false, (false, (true, (false, true)))))))
| Xa4 -> (false, (false, (true, (false, (false, (true, (false, true)))))))
| Xa5 -> (true, (false, (true, (false, (false, (true, (false, true)))))))
| Xa6 -> (false, (true, (true, (false, (false, (true, (false, true)))))))
| Xa7 -> (true, (true, (true, (false, (false, (true, (false, true)))))))
| Xa8 -> (false, (false, (false, (true, (false, (true, (false, true)))))))
| Xa9 -> (true, (false, (false, (true, (false, (true, (false, true)))))))
| Xaa -> (false, (true, (false, (true, (false, (true, (false, true)))))))
| Xab -> (true, (true, (false, (true, (false, (true, (false, true)))))))
| Xac -> (false, (false, (true, (true, (false, (true, (false, true)))))))
| Xad -> (true, (false, (true, (true, (false, (true, (false, true)))))))
| Xae -> (false, (true, (true, (true, (false, (true, (false, true)))))))
| Xaf -> (true, (true, (true, (true, (false, (true, (false, true)))))))
| Xb0 -> (false, (false, (false, (false, (true, (true, (false, true)))))))
| Xb1 -> (true, (false, (false, (false, (true, (true, (false, true)))))))
| Xb2 -> (false, (true, (false, (false, (true, (true, (false, true)))))))
| Xb3 -> (true, (true, (false, (false, (true, (true, (false, true)))))))
| Xb4 -> (false, (false, (true, (false, (true, (true, (false, true)))))))
| Xb5 -> (true, (false, (true, (false, (true, (true, (false, true)))))))
| Xb6 -> (false, (true, (true, (false, (true, (true, (false, true)))))))
| Xb7 -> (true, (true, (true, (false, (true, (true, (false, true)))))))
| Xb8 -> (false, (false, (false, (true, (true, (true, (false, true)))))))
| Xb9 -> (true, (false, (false, (true, (true, (true, (false, true)))))))
| Xba -> (false, (true, (false, (true, (true, (true, (false, true)))))))
| Xbb -> (true, (true, (false, (true, (true, (true, (false, true)))))))
| Xbc -> (false, (false, (true, (true, (true, (true, (false, true)))))))
| Xbd -> (true, (false, (true, (true, (true, (true, (false, true)))))))
| Xbe -> (false, (true, (true, (true, (true, (true, (false, true)))))))
| Xbf -> (true, (true, (true, (true, (true, (true, (false, true)))))))
| Xc0 -> (false, (false, (false, (false, (false, (false, (true, true)))))))
| Xc1 -> (true, (false, (false, (false, (false, (false, (true, true)))))))
| Xc2 -> (false, (true, (false, (false, (false, (false, (true, true)))))))
| Xc3 -> (true, (true, (false, (false, (false, (false, (true, true)))))))
| Xc4 -> (false, (false, (true, (false, (false, (false, (true, true)))))))
| Xc5 -> (true, (false, (true, (false, (false, (false, (true, true)))))))
| Xc6 -> (false, (true, (true, (false, (false, (false, (true, true)))))))
| Xc7 -> (true, (true, (true, (false, (false, (false, (true, true)))))))
| Xc8 -> (false, (false, (false, (true, (false, (false, (true, true)))))))
| Xc9 -> (true, (false, (false, (true, (false, (false, (true, true)))))))
| Xca -> (false, (true, (false, (true, (false, (false, (true, true)))))))
| Xcb -> (true, (true, (false, (true, (false, (false, (true, true)))))))
| Xcc -> (false, (false, (true, (true, (false, (false, (true, true)))))))
| Xcd -> (true, (false, (true, (true, (false, (false, (true, true)))))))
| Xce -> (false, (true, (true, (true, (false, (false, (true, true)))))))
| Xcf -> (true, (true, (true, (true, (false, (false, (true, true)))))))
| Xd0 -> (false, (false, (false, (false, (true, (false, (true, true)))))))
| Xd1 -> (true, (false, (false, (false, (true, (false, (true, true)))))))
| Xd2 -> (false, (true, (false, (false, (true, (false, (true, true)))))))
| Xd3 -> (true, (true, (false, (false, (true, (false, (true, true)))))))
| Xd4 -> (false, (false, (true, (false, (true, (false, (true, true)))))))
| Xd5 -> (true, (false, (true, (false, (true, (false, (true, true)))))))
| Xd6 -> (false, (true, (true, (false, (true, (false, (true, true)))))))
| Xd7 -> (true, (true, (true, (false, (true, (false, (true, true)))))))
| Xd8 -> (false, (false, (false, (true, (true, (false, (true, true)))))))
| Xd9 -> (true, (false, (false, (true, (true, (false, (true, true)))))))
| Xda -> (false, (true, (false, (true, (true, (false, (true, true)))))))
| Xdb -> (true, (true, (false, (true, (true, (false, (true, true)))))))
| Xdc -> (false, (false, (true, (true, (true, (false, (true, true)))))))
| Xdd -> (true, (false, (true, (true, (true, (false, (true, true)))))))
| Xde -> (false, (true, (true, (true, (true, (false, (true, true)))))))
| Xdf -> (true, (true, (true, (true, (true, (false, (true, true)))))))
| Xe0 -> (false, (false, (false, (false, (false, (true, (true, true)))))))
| Xe1 -> (true, (false, (false, (false, (false, (true, (true, true)))))))
| Xe2 -> (false, (true, (false, (false, (false, (true, (true, true)))))))
| Xe3 -> (true, (true, (false, (false, (false, (true, (true, true)))))))
| Xe4 -> (false, (false, (true, (false, (false, (true, (true, true)))))))
| Xe5 -> (true, (false, (true, (false, (false, (true, (true, true)))))))
| Xe6 -> (false, (true, (true, (false, (false, (true, (true, true)))))))
| Xe7 -> (true, (true, (true, (false, (false, (true, (true, true)))))))
| Xe8 -> (false, (false, (false, (true, (false, (true, (true, true)))))))
| Xe9 -> (true, (false, (false, (true, (false, (true, (true, true)))))))
| Xea -> (false, (true, (false, (true, (false, (true, (true, true)))))))
| Xeb -> (true, (true, (false, (true, (false, (true, (true, true)))))))
| Xec -> (false, (false, (true, (true, (false, (true, (true, true)))))))
| Xed -> (true, (false, (true, (true, (false, (true, (true, true)))))))
| Xee -> (false, (true, (true, (true, (false, (true, (true, true)))))))
| Xef -> (true, (true, (true, (true, (false, (true, (true, true)))))))
| Xf0 -> (false, (false, (false, (false, (true, (true, (true, true)))))))
| Xf1 -> (true, (false, (false, (false, (true, (true, (true, true)))))))
| Xf2 -> (false, (true, (false, (false, (true, (true, (true, true)))))))
| Xf3 -> (true, (true, (false, (false, (true, (true, (true, true)))))))
| Xf4 -> (false, (false, (true, (false, (true, (true, (true, true)))))))
| Xf5 -> (true, (false, (true, (false, (true, (true, (true, true)))))))
| Xf6 -> (false, (true, (true, (false, (true, (true, (true, true)))))))
| Xf7 -> (true, (true, (true, (false, (true, (true, (true, true)))))))
| Xf8 -> (false, (false, (false, (true, (true, (true, (true, true)))))))
| Xf9 -> (true, (false, (false, (true, (true, (true, (true, true)))))))
| Xfa -> (false, (true, (false, (true, (true, (true, (true, true)))))))
| Xfb -> (true, (true, (false, (true, (true, (true, (true, true)))))))
| Xfc -> (false, (false, (true, (true, (true, (true, (true, true)))))))
| Xfd -> (true, (false, (true, (true, (true, (true, (true, true)))))))
| Xfe -> (false, (true, (true, (true, (true, (true, (true, true)))))))
| Xff -> (true, (true, (true, (true, (true, (true, (true, true)))))))

(** val eqb : bool -> bool -> bool **)

let eqb b1 b2 =
  if b1 then b2 else if b2 then false else true

type reflect =
| ReflectT
| ReflectF

(** val iff_reflect : bool -> reflect **)

let iff_reflect = function
| true -> ReflectT
| false -> ReflectF

(** val compose : ('a2 -> 'a3) -> ('a1 -> 'a2) -> 'a1 -> 'a3 **)

let compose g f x =
  g (f x)

module Nat =
 struct
  type t = nat

  (** val zero : nat **)

  let zero =
    O

  (** val one : nat **)

  let one =
    S O

  (** val two : nat **)

  let two =
    S (S O)

  (** val succ : nat -> nat **)

  let succ x =
    S x

  (** val pred : nat -> nat **)

  let pred n0 = match n0 with
  | O -> n0
  | S u -> u

  (** val add : nat -> nat -> nat **)

  let rec add n0 m =
    match n0 with
    | O -> m
    | S p -> S (add p m)

  (** val double : nat -> nat **)

  let double n0 =
    add n0 n0

  (** val mul : nat -> nat -> nat **)

  let rec mul n0 m =
    match n0 with
    | O -> O
    | S p -> add m (mul p m)

  (** val sub : nat -> nat -> nat **)

  let rec sub n0 m =
    match n0 with
    | O -> n0
    | S k -> (match m with
              | O -> n0
              | S l -> sub k l)

  (** val eqb : nat -> nat -> bool **)

  let rec eqb n0 m =
    match n0 with
    | O -> (match m with
            | O -> true
            | S _ -> false)
    | S n' -> (match m with
               | O -> false
               | S m' -> eqb n' m')

  (** val leb : nat -> nat -> bool **)

  let rec leb n0 m =
    match n0 with
    | O -> true
    | S n' -> (match m with
               | O -> false
               | S m' -> leb n' m')

  (** val ltb : nat -> nat -> bool **)

  let ltb n0 m =
    leb (S n0) m

  (** val compare : nat -> nat -> comparison **)

  let rec compare n0 m =
    match n0 with
    | O -> (match m with
            | O -> Eq
            | S _ -> Lt)
    | S n' -> (match m with
               | O -> Gt
               | S m' -> compare n' m')

  (** val max : nat -> nat -> nat **)

  let rec max n0 m =
    match n0 with
    | O -> m
    | S n' -> (match m with
               | O -> n0
               | S m' -> S (max n' m'))

  (** val min : nat -> nat -> nat **)

  let rec min n0 m =
    match n0 with
    | O -> O
    | S n' -> (match m with
               | O -> O
               | S m' -> S (min n' m'))

  (** val even : nat -> bool **)

  let rec even = function
  | O -> true
  | S n1 -> (match n1 with
             | O -> false
             | S n' -> even n')

  (** val odd : nat -> bool **)

  let odd n0 =
    negb (even n0)

  (** val pow : nat -> nat -> nat **)

  let rec pow n0 = function
  | O -> S O
  | S m0 -> mul n0 (pow n0 m0)

  (** val tail_add : nat -> nat -> nat **)

  let rec tail_add n0 m =
    match n0 with
    | O -> m
    | S n1 -> tail_add n1 (S m)

  (** val tail_addmul : nat -> nat -> nat -> nat **)

  let rec tail_addmul r n0 m =
    match n0 with
    | O -> r
    | S n1 -> tail_addmul (tail_add m r) n1 m

  (** val tail_mul : nat -> nat -> nat **)

  let tail_mul n0 m =
    tail_addmul O n0 m

  (** val of_uint_acc : uint -> nat -> nat **)

  let rec of_uint_acc d acc =
    match d with
    | Nil -> acc
    | D0 d0 ->
      of_uint_acc d0 (tail_mul (S (S (S (S (S (S (S (S (S (S O)))))))))) acc)
    | D1 d0 ->
      of_uint_acc d0 (S
        (tail_mul (S (S (S (S (S (S (S (S (S (S O)))))))))) acc))
    | D2 d0 ->
      of_uint_acc d0 (S (S
        (tail_mul (S (S (S (S (S (S (S (S (S (S O)))))))))) acc)))
    | D3 d0 ->
      of_uint_acc d0 (S (S (S
        (tail_mul (S (S (S (S (S (S (S (S (S (S O)))))))))) acc))))
    | D4 d0 ->
      of_uint_acc d0 (S (S (S (S
        (tail_mul (S (S (S (S (S (S (S (S (S (S O)))))))))) acc)))))
    | D5 d0 ->
      of_uint_acc d0 (S (S (S (S (S
        (tail_mul (S (S (S (S (S (S (S (S (S (S O)))))))))) acc))))))
    | D6 d0 ->
      of_uint_acc d0 (S (S (S (S (S (S
        (tail_mul (S (S (S (S (S (S (S (S (S (S O)))))))))) acc)))))))
    | D7 d0 ->
      of_uint_acc d0 (S (S (S (S (S (S (S
        (tail_mul (S (S (S (S (S (S (S (S (S (S O)))))))))) acc))))))))
    | D8 d0 ->
      of_uint_acc d0 (S (S (S (S (S (S (S (S
        (tail_mul (S (S (S (S (S (S (S (S (S (S O)))))))))) acc)))))))))
    | D9 d0 ->
      of_uint_acc d0 (S (S (S (S (S (S (S (S (S
        (tail_mul (S (S (S (S (S (S (S (S (S (S O)))))))))) acc))))))))))

  (** val of_uint : uint -> nat **)

  let of_uint d =
    of_uint_acc d O

  (** val of_hex_uint_acc : uint0 -> nat -> nat **)

  let rec of_hex_uint_acc d acc =
    match d with
    | Nil0 -> acc
    | D10 d0 ->
      of_hex_uint_acc d0
        (tail_mul (S (S (S (S (S (S (S (S (S (S (S (S (S (S (S (S
          O)))))))))))))))) acc)
    | D11 d0 ->
      of_hex_uint_acc d0 (S
        (tail_mul (S (S (S (S (S (S (S (S (S (S (S (S (S (S (S (S
          O)))))))))))))))) acc))
    | D12 d0 ->
      of_hex_uint_acc d0 (S (S
        (tail_mul (S (S (S (S (S (S (S (S (S (S (S (S (S (S (S (S
          O)))))))))))))))) acc)))
    | D13 d0 ->
      of_hex_uint_acc d0 (S (S (S
        (tail_mul (S (S (S (S (S (S (S (S (S (S (S (S (S (S (S (S
          O)))))))))))))))) acc))))
    | D14 d0 ->
      of_hex_uint_acc d0 (S (S (S (S
        (tail_mul (S (S (S (S (S (S (S (S (S (S (S (S (S (S (S (S
          O)))))))))))))))) acc)))))
    | D15 d0 ->
      of_hex_uint_acc d0 (S (S (S (S (S
        (tail_mul (S (S (S (S (S (S (S (S (S (S (S (S (S (S (S (S
          O)))))))))))))))) acc))))))
    | D16 d0 ->
      of_hex_uint_acc d0 (S (S (S (S (S (S
        (tail_mul (S (S (S (S (S (S (S (S (S (S (S (S (S (S (S (S
          O)))))))))))))))) acc)))))))
    | D17 d0 ->
      of_hex_uint_acc d0 (S (S (S (S (S (S (S
        (tail_mul (S (S (S (S (S (S (S (S (S (S (S (S (S (S (S (S
          O)))))))))))))))) acc))))))))
    | D18 d0 ->
      of_hex_uint_acc d0 (S (S (S (S (S (S (S (S
        (tail_mul (S (S (S (S (S (S (S (S (S (S (S (S (S (S (S (S
          O)))))))))))))))) acc)))))))))
    | D19 d0 ->
      of_hex_uint_acc d0 (S (S (S (S (S (S (S (S (S
        (tail_mul (S (S (S (S (S (S (S (S (S (S (S (S (S (S (S (S
          O)))))))))))))))) acc))))))))))
    | Da d0 ->
      of_hex_uint_acc d0 (S (S (S (S (S (S (S (S (S (S
        (tail_mul (S (S (S (S (S (S (S (S (S (S (S (S (S (S (S (S
          O)))))))))))))))) acc)))))))))))
    | Db d0 ->
      of_hex_uint_acc d0 (S (S (S (S (S (S (S (S (S (S (S
        (tail_mul (S (S (S (S (S (S (S (S (S (S (S (S (S (S (S (S
          O)))))))))))))))) acc))))))))))))
    | Dc d0 ->
      of_hex_uint_acc d0 (S (S (S (S (S (S (S (S (S (S (S (S
        (tail_mul (S (S (S (S (S (S (S (S (S (S (S (S (S (S (S (S
          O)))))))))))))))) acc)))))))))))))
    | Dd d0 ->
      of_hex_uint_acc d0 (S (S (S (S (S (S (S (S (S (S (S (S (S
        (tail_mul (S (S (S (S (S (S (S (S (S (S (S (S (S (S (S (S
          O)))))))))))))))) acc))))))))))))))
    | De d0 ->
      of_hex_uint_acc d0 (S (S (S (S (S (S (S (S (S (S (S (S (S (S
        (tail_mul (S (S (S (S (S (S (S (S (S (S (S (S (S (S (S (S
          O)))))))))))))))) acc)))))))))))))))
    | Df d0 ->
      of_hex_uint_acc d0 (S (S (S (S (S (S (S (S (S (S (S (S (S (S (S
        (tail_mul (S (S (S (S (S (S (S (S (S (S (S (S (S (S (S (S
          O)))))))))))))))) acc))))))))))))))))

  (** val of_hex_uint : uint0 -> nat **)

  let of_hex_uint d =
    of_hex_uint_acc d O

  (** val of_num_uint : uint1 -> nat **)

  let of_num_uint = function
  | UIntDecimal d0 -> of_uint d0
  | UIntHexadecimal d0 -> of_hex_uint d0

  (** val to_little_uint : nat -> uint -> uint **)

  let rec to_little_uint n0 acc =
    match n0 with
    | O -> acc
    | S n1 -> to_little_uint n1 (Little.succ acc)

  (** val to_uint : nat -> uint **)

  let to_uint n0 =
    rev (to_little_uint n0 (D0 Nil))

  (** val to_little_hex_uint : nat -> uint0 -> uint0 **)

  let rec to_little_hex_uint n0 acc =
    match n0 with
    | O -> acc
    | S n1 -> to_little_hex_uint n1 (Coq_Little.succ acc)

  (** val to_hex_uint : nat -> uint0 **)

  let to_hex_uint n0 =
    rev0 (to_little_hex_uint n0 (D10 Nil0))

  (** val to_num_uint : nat -> uint1 **)

  let to_num_uint n0 =
    UIntDecimal (to_uint n0)

  (** val to_num_hex_uint : nat -> uint1 **)

  let to_num_hex_uint n0 =
    UIntHexadecimal (to_hex_uint n0)

  (** val of_int : signed_int -> nat option **)

  let of_int d =
    match norm d with
    | Pos u -> Some (of_uint u)
    | Neg _ -> None

  (** val of_hex_int : signed_int0 -> nat option **)

  let of_hex_int d =
    match norm0 d with
    | Pos0 u -> Some (of_hex_uint u)
    | Neg0 _ -> None

  (** val of_num_int : signed_int1 -> nat option **)

  let of_num_int = function
  | IntDecimal d0 -> of_int d0
  | IntHexadecimal d0 -> of_hex_int d0

  (** val to_int : nat -> signed_int **)

  let to_int n0 =
    Pos (to_uint n0)

  (** val to_hex_int : nat -> signed_int0 **)

  let to_hex_int n0 =
    Pos0 (to_hex_uint n0)

  (** val to_num_int : nat -> signed_int1 **)

  let to_num_int n0 =
    IntDecimal (to_int n0)

  (** val divmod : nat -> nat -> nat -> nat -> nat * nat **)

  let rec divmod x y q u =
    match x with
    | O -> (q, u)
    | S x' ->
      (match u with
       | O -> divmod x' y (S q) y
       | S u' -> divmod x' y q u')

  (** val div : nat -> nat -> nat **)

  let div x y = match y with
  | O -> y
  | S y' -> fst (divmod x y' O y')

  (** val modulo : nat -> nat -> nat **)

  let modulo x = function
  | O -> x
  | S y' -> sub y' (snd (divmod x y' O y'))

  (** val gcd : nat -> nat -> nat **)

  let rec gcd a b =
    match a with
    | O -> b
    | S a' -> gcd (modulo b (S a')) (S a')

  (** val square : nat -> nat **)

  let square n0 =
    mul n0 n0

  (** val sqrt_iter : nat -> nat -> nat -> nat -> nat **)

  let rec sqrt_iter k p q r =
    match k with
    | O -> p
    | S k' ->
      (match r with
       | O -> sqrt_iter k' (S p) (S (S q)) (S (S q))
       | S r' -> sqrt_iter k' p q r')

  (** val sqrt : nat -> nat **)

  let sqrt n0 =
    sqrt_iter n0 O O O

  (** val log2_iter : nat -> nat -> nat -> nat -> nat **)

  let rec log2_iter k p q r =
    match k with
    | O -> p
    | S k' ->
      (match r with
       | O -> log2_iter k' (S p) (S q) q
       | S r' -> log2_iter k' p (S q) r')

  (** val log2 : nat -> nat **)

  let log2 n0 =
    log2_iter (pred n0) O (S O) O

  (** val iter : nat -> ('a1 -> 'a1) -> 'a1 -> 'a1 **)

  let rec iter n0 f x =
    match n0 with
    | O -> x
    | S n1 -> f (iter n1 f x)

  (** val div2 : nat -> nat **)

  let rec div2 = function
  | O -> O
  | S n1 -> (match n1 with
             | O -> O
             | S n' -> S (div2 n'))

  (** val testbit : nat -> nat -> bool **)

  let rec testbit a = function
  | O -> odd a
  | S n1 -> testbit (div2 a) n1

  (** val shiftl : nat -> nat -> nat **)

  let rec shiftl a = function
  | O -> a
  | S n1 -> double (shiftl a n1)

  (** val shiftr : nat -> nat -> nat **)

  let rec shiftr a = function
  | O -> a
  | S n1 -> div2 (shiftr a n1)

  (** val bitwise : (bool -> bool -> bool) -> nat -> nat -> nat -> nat **)

  let rec bitwise op n0 a b =
    match n0 with
    | O -> O
    | S n' ->
      add (if op (odd a) (odd b) then S O else O)
        (mul (S (S O)) (bitwise op n' (div2 a) (div2 b)))

  (** val coq_land : nat -> nat -> nat **)

  let coq_land a b =
    bitwise (&&) a a b

  (** val coq_lor : nat -> nat -> nat **)

  let coq_lor a b =
    bitwise (||) (max a b) a b

  (** val ldiff : nat -> nat -> nat **)

  let ldiff a b =
    bitwise (fun b0 b' -> (&&) b0 (negb b')) a a b

  (** val coq_lxor : nat -> nat -> nat **)

  let coq_lxor a b =
    bitwise xorb (max a b) a b

  (** val recursion : 'a1 -> (nat -> 'a1 -> 'a1) -> nat -> 'a1 **)

  let rec recursion x f0 = function
  | O -> x
  | S n1 -> f0 n1 (recursion x f0 n1)

  (** val eq_dec : nat -> nat -> bool **)

  let rec eq_dec n0 m =
    match n0 with
    | O -> (match m with
            | O -> true
            | S _ -> false)
    | S n1 -> (match m with
               | O -> false
               | S n2 -> eq_dec n1 n2)

  (** val leb_spec0 : nat -> nat -> reflect **)

  let leb_spec0 x y =
    iff_reflect (leb x y)

  (** val ltb_spec0 : nat -> nat -> reflect **)

  let ltb_spec0 x y =
    iff_reflect (ltb x y)

  module Private_OrderTac =
   struct
    module IsTotal =
     struct
     end

    module Tac =
     struct
     end
   end

  module Private_Tac =
   struct
   end

  module Private_Dec =
   struct
    (** val max_case_strong :
        nat -> nat -> (nat -> nat -> __ -> 'a1 -> 'a1) -> (__ -> 'a1) -> (__
        -> 'a1) -> 'a1 **)

    let max_case_strong n0 m compat hl hr =
      let c = compSpec2Type n0 m (compare n0 m) in
      (match c with
       | CompGtT -> compat n0 (max n0 m) __ (hl __)
       | _ -> compat m (max n0 m) __ (hr __))

    (** val max_case :
        nat -> nat -> (nat -> nat -> __ -> 'a1 -> 'a1) -> 'a1 -> 'a1 -> 'a1 **)

    let max_case n0 m x x0 x1 =
      max_case_strong n0 m x (fun _ -> x0) (fun _ -> x1)

    (** val max_dec : nat -> nat -> bool **)

    let max_dec n0 m =
      max_case n0 m (fun _ _ _ h0 -> h0) true false

    (** val min_case_strong :
        nat -> nat -> (nat -> nat -> __ -> 'a1 -> 'a1) -> (__ -> 'a1) -> (__
        -> 'a1) -> 'a1 **)

    let min_case_strong n0 m compat hl hr =
      let c = compSpec2Type n0 m (compare n0 m) in
      (match c with
       | CompGtT -> compat m (min n0 m) __ (hr __)
       | _ -> compat n0 (min n0 m) __ (hl __))

    (** val min_case :
        nat -> nat -> (nat -> nat -> __ -> 'a1 -> 'a1) -> 'a1 -> 'a1 -> 'a1 **)

    let min_case n0 m x x0 x1 =
      min_case_strong n0 m x (fun _ -> x0) (fun _ -> x1)

    (** val min_dec : nat -> nat -> bool **)

    let min_dec n0 m =
      min_case n0 m (fun _ _ _ h0 -> h0) true false
   end

  (** val max_case_strong :
      nat -> nat -> (__ -> 'a1) -> (__ -> 'a1) -> 'a1 **)

  let max_case_strong n0 m x x0 =
    Private_Dec.max_case_strong n0 m (fun _ _ _ x1 -> x1) x x0

  (** val max_case : nat -> nat -> 'a1 -> 'a1 -> 'a1 **)

  let max_case n0 m x x0 =
    max_case_strong n0 m (fun _ -> x) (fun _ -> x0)

  (** val max_dec : nat -> nat -> bool **)

  let max_dec =
    Private_Dec.max_dec

  (** val min_case_strong :
      nat -> nat -> (__ -> 'a1) -> (__ -> 'a1) -> 'a1 **)

  let min_case_strong n0 m x x0 =
    Private_Dec.min_case_strong n0 m (fun _ _ _ x1 -> x1) x x0

  (** val min_case : nat -> nat -> 'a1 -> 'a1 -> 'a1 **)

  let min_case n0 m x x0 =
    min_case_strong n0 m (fun _ -> x) (fun _ -> x0)

  (** val min_dec : nat -> nat -> bool **)

  let min_dec =
    Private_Dec.min_dec

  module Private_Parity =
   struct
   end

  module Private_NZPow =
   struct
   end

  module Private_NZSqrt =
   struct
   end

  (** val sqrt_up : nat -> nat **)

  let sqrt_up a =
    match compare O a with
    | Lt -> S (sqrt (pred a))
    | _ -> O

  (** val log2_up : nat -> nat **)

  let log2_up a =
    match compare (S O) a with
    | Lt -> S (log2 (pred a))
    | _ -> O

  module Private_NZDiv =
   struct
   end

  (** val lcm : nat -> nat -> nat **)

  let lcm a b =
    mul a (div b (gcd a b))

  (** val eqb_spec : nat -> nat -> reflect **)

  let eqb_spec x y =
    iff_reflect (eqb x y)

  (** val b2n : bool -> nat **)

  let b2n = function
  | true -> S O
  | false -> O

  (** val setbit : nat -> nat -> nat **)

  let setbit a n0 =
    coq_lor a (shiftl (S O) n0)

  (** val clearbit : nat -> nat -> nat **)

  let clearbit a n0 =
    ldiff a (shiftl (S O) n0)

  (** val ones : nat -> nat **)

  let ones n0 =
    pred (shiftl (S O) n0)

  (** val lnot : nat -> nat -> nat **)

  let lnot a n0 =
    coq_lxor a (ones n0)

  (** val coq_Even_Odd_dec : nat -> bool **)

  let rec coq_Even_Odd_dec = function
  | O -> true
  | S n1 -> if coq_Even_Odd_dec n1 then false else true

  type coq_EvenT = nat

  type coq_OddT = nat

  (** val coq_EvenT_0 : coq_EvenT **)

  let coq_EvenT_0 =
    O

  (** val coq_EvenT_2 : nat -> coq_EvenT -> coq_EvenT **)

  let coq_EvenT_2 _ h0 =
    S h0

  (** val coq_OddT_1 : coq_OddT **)

  let coq_OddT_1 =
    O

  (** val coq_OddT_2 : nat -> coq_OddT -> coq_OddT **)

  let coq_OddT_2 _ h0 =
    S h0

  (** val coq_EvenT_S_OddT : nat -> coq_EvenT -> coq_OddT **)

  let coq_EvenT_S_OddT _ = function
  | O -> assert false (* absurd case *)
  | S n0 -> n0

  (** val coq_OddT_S_EvenT : nat -> coq_OddT -> coq_EvenT **)

  let coq_OddT_S_EvenT _ h =
    h

  (** val even_EvenT : nat -> coq_EvenT **)

  let rec even_EvenT = function
  | O -> coq_EvenT_0
  | S n1 ->
    (match n1 with
     | O -> assert false (* absurd case *)
     | S n2 -> let he = even_EvenT n2 in coq_EvenT_2 n2 he)

  (** val odd_OddT : nat -> coq_OddT **)

  let rec odd_OddT = function
  | O -> assert false (* absurd case *)
  | S n1 ->
    (match n1 with
     | O -> coq_OddT_1
     | S n2 -> let he = odd_OddT n2 in coq_OddT_2 n2 he)

  (** val coq_Even_EvenT : nat -> coq_EvenT **)

  let coq_Even_EvenT =
    even_EvenT

  (** val coq_Odd_OddT : nat -> coq_OddT **)

  let coq_Odd_OddT =
    odd_OddT

  (** val coq_EvenT_OddT_dec : nat -> (coq_EvenT, coq_OddT) sum **)

  let coq_EvenT_OddT_dec n0 =
    if even n0 then Inl (even_EvenT n0) else Inr (odd_OddT n0)

  (** val coq_OddT_EvenT_rect :
      (nat -> coq_EvenT -> 'a2 -> 'a1) -> 'a2 -> (nat -> coq_OddT -> 'a1 ->
      'a2) -> nat -> coq_OddT -> 'a1 **)

  let rec coq_OddT_EvenT_rect hQP hQ0 hPQ n0 h =
    match n0 with
    | O -> assert false (* absurd case *)
    | S n1 ->
      (match n1 with
       | O -> hQP O coq_EvenT_0 hQ0
       | S n2 ->
         let hES = coq_OddT_S_EvenT (S n2) h in
         let hO = coq_EvenT_S_OddT n2 hES in
         hQP (S n2) hES (hPQ n2 hO (coq_OddT_EvenT_rect hQP hQ0 hPQ n2 hO)))

  (** val coq_EvenT_OddT_rect :
      (nat -> coq_EvenT -> 'a2 -> 'a1) -> 'a2 -> (nat -> coq_OddT -> 'a1 ->
      'a2) -> nat -> coq_EvenT -> 'a2 **)

  let coq_EvenT_OddT_rect hQP hQ0 hPQ n0 hES =
    match n0 with
    | O -> hQ0
    | S n1 ->
      let hO = coq_EvenT_S_OddT n1 hES in
      hPQ n1 hO (coq_OddT_EvenT_rect hQP hQ0 hPQ n1 hO)
 end

type positive =
| XI of positive
| XO of positive
| XH

type n =
| N0
| Npos of positive

type z =
| Z0
| Zpos of positive
| Zneg of positive

module Pos =
 struct
  (** val succ : positive -> positive **)

  let rec succ = function
  | XI p -> XO (succ p)
  | XO p -> XI p
  | XH -> XO XH

  (** val add : positive -> positive -> positive **)

  let rec add x y =
    match x with
    | XI p ->
      (match y with
       | XI q -> XO (add_carry p q)
       | XO q -> XI (add p q)
       | XH -> XO (succ p))
    | XO p ->
      (match y with
       | XI q -> XI (add p q)
       | XO q -> XO (add p q)
       | XH -> XI p)
    | XH -> (match y with
             | XI q -> XO (succ q)
             | XO q -> XI q
             | XH -> XO XH)

  (** val add_carry : positive -> positive -> positive **)

  and add_carry x y =
    match x with
    | XI p ->
      (match y with
       | XI q -> XI (add_carry p q)
       | XO q -> XO (add_carry p q)
       | XH -> XI (succ p))
    | XO p ->
      (match y with
       | XI q -> XO (add_carry p q)
       | XO q -> XI (add p q)
       | XH -> XO (succ p))
    | XH ->
      (match y with
       | XI q -> XI (succ q)
       | XO q -> XO (succ q)
       | XH -> XI XH)

  (** val pred_double : positive -> positive **)

  let rec pred_double = function
  | XI p -> XI (XO p)
  | XO p -> XI (pred_double p)
  | XH -> XH

  (** val pred : positive -> positive **)

  let pred = function
  | XI p -> XO p
  | XO p -> pred_double p
  | XH -> XH

  (** val mul : positive -> positive -> positive **)

  let rec mul x y =
    match x with
    | XI p -> add y (XO (mul p y))
    | XO p -> XO (mul p y)
    | XH -> y

  (** val compare_cont : comparison -> positive -> positive -> comparison **)

  let rec compare_cont r x y =
    match x with
    | XI p ->
      (match y with
       | XI q -> compare_cont r p q
       | XO q -> compare_cont Gt p q
       | XH -> Gt)
    | XO p ->
      (match y with
       | XI q -> compare_cont Lt p q
       | XO q -> compare_cont r p q
       | XH -> Gt)
    | XH -> (match y with
             | XH -> r
             | _ -> Lt)

  (** val compare : positive -> positive -> comparison **)

  let compare =
    compare_cont Eq

  (** val eqb : positive -> positive -> bool **)

  let rec eqb p q =
    match p with
    | XI p0 -> (match q with
                | XI q0 -> eqb p0 q0
                | _ -> false)
    | XO p0 -> (match q with
                | XO q0 -> eqb p0 q0
                | _ -> false)
    | XH -> (match q with
             | XH -> true
             | _ -> false)

  (** val iter_op : ('a1 -> 'a1 -> 'a1) -> positive -> 'a1 -> 'a1 **)

  let rec iter_op op p a =
    match p with
    | XI p0 -> op a (iter_op op p0 (op a a))
    | XO p0 -> iter_op op p0 (op a a)
    | XH -> a

  (** val to_nat : positive -> nat **)

  let to_nat x =
    iter_op Coq__1.add x (S O)

  (** val of_succ_nat : nat -> positive **)

  let rec of_succ_nat = function
  | O -> XH
  | S x -> succ (of_succ_nat x)

  (** val eq_dec : positive -> positive -> bool **)

  let rec eq_dec p x0 =
    match p with
    | XI p0 -> (match x0 with
                | XI p1 -> eq_dec p0 p1
                | _ -> false)
    | XO p0 -> (match x0 with
                | XO p1 -> eq_dec p0 p1
                | _ -> false)
    | XH -> (match x0 with
             | XH -> true
             | _ -> false)
 end

module N =
 struct
  (** val eq_dec : n -> n -> bool **)

  let eq_dec n0 m =
    match n0 with
    | N0 -> (match m with
             | N0 -> true
             | Npos _ -> false)
    | Npos p -> (match m with
                 | N0 -> false
                 | Npos p0 -> Pos.eq_dec p p0)
 end

(** val concat : 'a1 list list -> 'a1 list **)

let rec concat = function
| [] -> []
| x :: l0 -> app x (concat l0)

(** val list_eq_dec : ('a1 -> 'a1 -> bool) -> 'a1 list -> 'a1 list -> bool **)

let rec list_eq_dec eq_dec0 l l' =
  match l with
  | [] -> (match l' with
           | [] -> true
           | _ :: _ -> false)
  | y :: l0 ->
    (match l' with
     | [] -> false
     | a :: l1 -> if eq_dec0 y a then list_eq_dec eq_dec0 l0 l1 else false)

(** val map : ('a1 -> 'a2) -> 'a1 list -> 'a2 list **)

let rec map f = function
| [] -> []
| a :: t0 -> (f a) :: (map f t0)

(** val flat_map : ('a1 -> 'a2 list) -> 'a1 list -> 'a2 list **)

let rec flat_map f = function
| [] -> []
| x :: t0 -> app (f x) (flat_map f t0)

(** val fold_left : ('a1 -> 'a2 -> 'a1) -> 'a2 list -> 'a1 -> 'a1 **)

let rec fold_left f l a0 =
  match l with
  | [] -> a0
  | b :: t0 -> fold_left f t0 (f a0 b)

(** val fold_right : ('a2 -> 'a1 -> 'a1) -> 'a1 -> 'a2 list -> 'a1 **)

let rec fold_right f a0 = function
| [] -> a0
| b :: t0 -> f b (fold_right f a0 t0)

(** val existsb : ('a1 -> bool) -> 'a1 list -> bool **)

let rec existsb f = function
| [] -> false
| a :: l0 -> (||) (f a) (existsb f l0)

(** val forallb : ('a1 -> bool) -> 'a1 list -> bool **)

let rec forallb f = function
| [] -> true
| a :: l0 -> (&&) (f a) (forallb f l0)

module Z =
 struct
  (** val double : z -> z **)

  let double = function
  | Z0 -> Z0
  | Zpos p -> Zpos (XO p)
  | Zneg p -> Zneg (XO p)

  (** val succ_double : z -> z **)

  let succ_double = function
  | Z0 -> Zpos XH
  | Zpos p -> Zpos (XI p)
  | Zneg p -> Zneg (Pos.pred_double p)

  (** val pred_double : z -> z **)

  let pred_double = function
  | Z0 -> Zneg XH
  | Zpos p -> Zpos (Pos.pred_double p)
  | Zneg p -> Zneg (XI p)

  (** val pos_sub : positive -> positive -> z **)

  let rec pos_sub x y =
    match x with
    | XI p ->
      (match y with
       | XI q -> double (pos_sub p q)
       | XO q -> succ_double (pos_sub p q)
       | XH -> Zpos (XO p))
    | XO p ->
      (match y with
       | XI q -> pred_double (pos_sub p q)
       | XO q -> double (pos_sub p q)
       | XH -> Zpos (Pos.pred_double p))
    | XH ->
      (match y with
       | XI q -> Zneg (XO q)
       | XO q -> Zneg (Pos.pred_double q)
       | XH -> Z0)

  (** val add : z -> z -> z **)

  let add x y =
    match x with
    | Z0 -> y
    | Zpos x' ->
      (match y with
       | Z0 -> x
       | Zpos y' -> Zpos (Pos.add x' y')
       | Zneg y' -> pos_sub x' y')
    | Zneg x' ->
      (match y with
       | Z0 -> x
       | Zpos y' -> pos_sub y' x'
       | Zneg y' -> Zneg (Pos.add x' y'))

  (** val opp : z -> z **)

  let opp = function
  | Z0 -> Z0
  | Zpos x0 -> Zneg x0
  | Zneg x0 -> Zpos x0

  (** val sub : z -> z -> z **)

  let sub m n0 =
    add m (opp n0)

  (** val mul : z -> z -> z **)

  let mul x y =
    match x with
    | Z0 -> Z0
    | Zpos x' ->
      (match y with
       | Z0 -> Z0
       | Zpos y' -> Zpos (Pos.mul x' y')
       | Zneg y' -> Zneg (Pos.mul x' y'))
    | Zneg x' ->
      (match y with
       | Z0 -> Z0
       | Zpos y' -> Zneg (Pos.mul x' y')
       | Zneg y' -> Zpos (Pos.mul x' y'))

  (** val compare : z -> z -> comparison **)

  let compare x y =
    match x with
    | Z0 -> (match y with
             | Z0 -> Eq
             | Zpos _ -> Lt
             | Zneg _ -> Gt)
    | Zpos x' -> (match y with
                  | Zpos y' -> Pos.compare x' y'
                  | _ -> Gt)
    | Zneg x' ->
      (match y with
       | Zneg y' -> compOpp (Pos.compare x' y')
       | _ -> Lt)

  (** val leb : z -> z -> bool **)

  let leb x y =
    match compare x y with
    | Gt -> false
    | _ -> true

  (** val ltb : z -> z -> bool **)

  let ltb x y =
    match compare x y with
    | Lt -> true
    | _ -> false

  (** val eqb : z -> z -> bool **)

  let eqb x y =
    match x with
    | Z0 -> (match y with
             | Z0 -> true
             | _ -> false)
    | Zpos p -> (match y with
                 | Zpos q -> Pos.eqb p q
                 | _ -> false)
    | Zneg p -> (match y with
                 | Zneg q -> Pos.eqb p q
                 | _ -> false)

  (** val max : z -> z -> z **)

  let max n0 m =
    match compare n0 m with
    | Lt -> m
    | _ -> n0

  (** val min : z -> z -> z **)

  let min n0 m =
    match compare n0 m with
    | Gt -> m
    | _ -> n0

  (** val to_nat : z -> nat **)

  let to_nat = function
  | Zpos p -> Pos.to_nat p
  | _ -> O

  (** val of_nat : nat -> z **)

  let of_nat = function
  | O -> Z0
  | S n1 -> Zpos (Pos.of_succ_nat n1)

  (** val pos_div_eucl : positive -> z -> z * z **)

  let rec pos_div_eucl a b =
    match a with
    | XI a' ->
      let (q, r) = pos_div_eucl a' b in
      let r' = add (mul (Zpos (XO XH)) r) (Zpos XH) in
      if ltb r' b
      then ((mul (Zpos (XO XH)) q), r')
      else ((add (mul (Zpos (XO XH)) q) (Zpos XH)), (sub r' b))
    | XO a' ->
      let (q, r) = pos_div_eucl a' b in
      let r' = mul (Zpos (XO XH)) r in
      if ltb r' b
      then ((mul (Zpos (XO XH)) q), r')
      else ((add (mul (Zpos (XO XH)) q) (Zpos XH)), (sub r' b))
    | XH -> if leb (Zpos (XO XH)) b then (Z0, (Zpos XH)) else ((Zpos XH), Z0)

  (** val div_eucl : z -> z -> z * z **)

  let div_eucl a b =
    match a with
    | Z0 -> (Z0, Z0)
    | Zpos a' ->
      (match b with
       | Z0 -> (Z0, a)
       | Zpos _ -> pos_div_eucl a' b
       | Zneg b' ->
         let (q, r) = pos_div_eucl a' (Zpos b') in
         (match r with
          | Z0 -> ((opp q), Z0)
          | _ -> ((opp (add q (Zpos XH))), (add b r))))
    | Zneg a' ->
      (match b with
       | Z0 -> (Z0, a)
       | Zpos _ ->
         let (q, r) = pos_div_eucl a' b in
         (match r with
          | Z0 -> ((opp q), Z0)
          | _ -> ((opp (add q (Zpos XH))), (sub b r)))
       | Zneg b' -> let (q, r) = pos_div_eucl a' (Zpos b') in (q, (opp r)))

  (** val div : z -> z -> z **)

  let div a b =
    let (q, _) = div_eucl a b in q

  (** val eq_dec : z -> z -> bool **)

  let eq_dec x y =
    match x with
    | Z0 -> (match y with
             | Z0 -> true
             | _ -> false)
    | Zpos p -> (match y with
                 | Zpos p0 -> Pos.eq_dec p p0
                 | _ -> false)
    | Zneg p -> (match y with
                 | Zneg p0 -> Pos.eq_dec p p0
                 | _ -> false)
 end

(** val z_lt_dec : z -> z -> bool **)

let z_lt_dec x y =
  match Z.compare x y with
  | Lt -> true
  | _ -> false

(** val eqb0 : byte -> byte -> bool **)

let eqb0 a b =
  let (a0, p) = to_bits a in
  let (a1, p0) = p in
  let (a2, p1) = p0 in
  let (a3, p2) = p1 in
  let (a4, p3) = p2 in
  let (a5, p4) = p3 in
  let (a6, a7) = p4 in
  let (b0, p5) = to_bits b in
  let (b1, p6) = p5 in
  let (b2, p7) = p6 in
  let (b3, p8) = p7 in
  let (b4, p9) = p8 in
  let (b5, p10) = p9 in
  let (b6, b7) = p10 in
  (&&)
    ((&&)
      ((&&)
        ((&&)
          ((&&) ((&&) ((&&) (eqb a0 b0) (eqb a1 b1)) (eqb a2 b2)) (eqb a3 b3))
          (eqb a4 b4)) (eqb a5 b5)) (eqb a6 b6)) (eqb a7 b7)

(** val byte_eq_dec : byte -> byte -> bool **)

let byte_eq_dec x y =
  if eqb0 x y then true else false

(** val to_N : byte -> n **)

let to_N = function
| X00 -> N0
| X01 -> Npos XH
| X02 -> Npos (XO XH)
| X03 -> Npos (XI XH)
| X04 -> Npos (XO (XO XH))
| X05 -> Npos (XI (XO XH))
| X06 -> Npos (XO (XI XH))
| X07 -> Npos (XI (XI XH))
| X08 -> Npos (XO (XO (XO XH)))
| X09 -> Npos (XI (XO (XO XH)))
| X0a -> Npos (XO (XI (XO XH)))
| X0b -> Npos (XI (XI (XO XH)))
| X0c -> Npos (XO (XO (XI XH)))
| X0d -> Npos (XI (XO (XI XH)))
| X0e -> Npos (XO (XI (XI XH)))
| X0f -> Npos (XI (XI (XI XH)))
| X10 -> Npos (XO (XO (XO (XO XH))))
| X11 -> Npos (XI (XO (XO (XO XH))))
| X12 -> Npos (XO (XI (XO (XO XH))))
| X13 -> Npos (XI (XI (XO (XO XH))))
| X14 -> Npos (XO (XO (XI (XO XH))))
| X15 -> Npos (XI (XO (XI (XO XH))))
| X16 -> Npos (XO (XI (XI (XO XH))))
| X17 -> Npos (XI (XI (XI (XO XH))))
| X18 -> Npos (XO (XO (XO (XI XH))))
| X19 -> Npos (XI (XO (XO (XI XH))))
| X1a -> Npos (XO (XI (XO (XI XH))))
| X1b -> Npos (XI (XI (XO (XI XH))))
| X1c -> Npos (XO (XO (XI (XI XH))))
| X1d -> Npos (XI (XO (XI (XI XH))))
| X1e -> Npos (XO (XI (XI (XI XH))))
| X1f -> Npos (XI (XI (XI (XI XH))))
| X20 -> Npos (XO (XO (XO (XO (XO XH)))))
| X21 -> Npos (XI (XO (XO (XO (XO XH)))))
| X22 -> Npos (XO (XI (XO (XO (XO XH)))))
| X23 -> Npos (XI (XI (XO (XO (XO XH)))))
| X24 -> Npos (XO (XO (XI (XO (XO XH)))))
| X25 -> Npos (XI (XO (XI (XO (XO XH)))))
| X26 -> Npos (XO (XI (XI (XO (XO XH)))))
| X27 -> Npos (XI (XI (XI (XO (XO XH)))))
| X28 -> Npos (XO (XO (XO (XI (XO XH)))))
| X29 -> Npos (XI (XO (XO (XI (XO XH)))))
| X2a -> Npos (XO (XI (XO (XI (XO XH)))))
| X2b -> Npos (XI (XI (XO (XI (XO XH)))))
| X2c -> Npos (XO (XO (XI (XI (XO XH)))))
| X2d -> Npos (XI (XO (XI (XI (XO XH)))))
| X2e -> Npos (XO (XI (XI (XI (XO XH)))))
| X2f -> Npos (XI (XI (XI (XI (XO XH)))))
| X30 -> Npos (XO (XO (XO (XO (XI XH)))))
| X31 -> Npos (XI (XO (XO (XO (XI XH)))))
| X32 -> Npos (XO (XI (XO (XO (XI XH)))))
| X33 -> Npos (XI (XI (XO (XO (XI XH)))))
| X34 -> Npos (XO (XO (XI (XO (XI XH)))))
| X35 -> Npos (XI (XO (XI (XO (XI XH)))))
| X36 -> Npos (XO (XI (XI (XO (XI XH)))))
| X37 -> Npos (XI (XI (XI (XO (XI XH)))))
| X38 -> Npos (XO (XO (XO (XI (XI XH)))))
| X39 -> Npos (XI (XO (XO (XI (XI XH)))))
| X3a -> Npos (XO (XI (XO (XI (XI XH)))))
| X3b -> Npos (XI (XI (XO (XI (XI XH)))))
| X3c -> Npos (XO (XO (XI (XI (XI XH)))))
| X3d -> Npos (XI (XO (XI (XI (XI XH)))))
| X3e -> Npos (XO (XI (XI (XI (XI XH)))))
| X3f -> Npos (XI (XI (XI (XI (XI XH)))))
| X40 -> Npos (XO (XO (XO (XO (XO (XO XH))))))
| X41 -> Npos (XI (XO (XO (XO (XO (XO XH))))))
| X42 -> Npos (XO (XI (XO (XO (XO (XO XH))))))
| X43 -> Npos (XI (XI (XO (XO (XO (XO XH))))))
| X44 -> Npos (XO (XO (XI (XO (XO (XO XH))))))
| X45 -> Npos (XI (XO (XI (XO (XO (XO XH))))))
| X46 -> Npos (XO (XI (XI (XO (XO (XO XH))))))
| X47 -> Npos (XI (XI (XI (XO (XO (XO XH))))))
| X48 -> Npos (XO (XO (XO (XI (XO (XO XH))))))
| X49 -> Npos (XI (XO (XO (XI (XO (XO XH))))))
| X4a -> Npos (XO (XI (XO (XI (XO (XO XH))))))
| X4b -> Npos (XI (XI (XO (XI (XO (XO XH))))))
| X4c -> Npos (XO (XO (XI (XI (XO (XO XH))))))
| X4d -> Npos (XI (XO (XI (XI (XO (XO XH))))))
| X4e -> Npos (XO (XI (XI (XI (XO (XO XH))))))
| X4f -> Npos (XI (XI (XI (XI (XO (XO XH))))))
| X50 -> Npos (XO (XO (XO (XO (XI (XO XH))))))
| X51 -> Npos (XI (XO (XO (XO (XI (XO XH))))))
| X52 -> Npos (XO (XI (XO (XO (XI (XO XH))))))
| X53 -> Npos (XI (XI (XO (XO (XI (XO XH))))))
| X54 -> Npos (XO (XO (XI (XO (XI (XO XH))))))
| X55 -> Npos (XI (XO (XI (XO (XI (XO XH))))))
| X56 -> Npos (XO (XI (XI (XO (XI (XO XH))))))
| X57 -> Npos (XI (XI (XI (XO (XI (XO XH))))))
| X58 -> Npos (XO (XO (XO (XI (XI (XO XH))))))
| X59 -> Npos (XI (XO (XO (XI (XI (XO XH))))))
| X5a -> Npos (XO (XI (XO (XI (XI (XO XH))))))
| X5b -> Npos (XI (XI (XO (XI (XI (XO XH))))))
| X5c -> Npos (XO (XO (XI (XI (XI (XO XH))))))
| X5d -> Npos (XI (XO (XI (XI (XI (XO XH))))))
| X5e -> Npos (XO (XI (XI (XI (XI (XO XH))))))
| X5f -> Npos (XI (XI (XI (XI (XI (XO XH))))))
| X60 -> Npos (XO (XO (XO (XO (XO (XI XH))))))
| X61 -> Npos (XI (XO (XO (XO (XO (XI XH))))))
| X62 -> Npos (XO (XI (XO (XO (XO (XI XH))))))
| X63 -> Npos (XI (XI (XO (XO (XO (XI XH))))))
| X64 -> Npos (XO (XO (XI (XO (XO (XI XH))))))
| X65 -> Npos (XI (XO (XI (XO (XO (XI XH))))))
| X66 -> Npos (XO (XI (XI (XO (XO (XI XH))))))
| X67 -> Npos (XI (XI (XI (XO (XO (XI XH))))))
| X68 -> Npos (XO (XO (XO (XI (XO (XI XH))))))
| X69 -> Npos (XI (XO (XO (XI (XO (XI XH))))))
| X6a -> Npos (XO (XI (XO (XI (XO (XI XH))))))
| X6b -> Npos (XI (XI (XO (XI (XO (XI XH))))))
| X6c -> Npos (XO (XO (XI (XI (XO (XI XH))))))
| X6d -> Npos (XI (XO (XI (XI (XO (XI XH))))))
| X6e -> Npos (XO (XI (XI (XI (XO (XI XH))))))
| X6f -> Npos (XI (XI (XI (XI (XO (XI XH))))))
| X70 -> Npos (XO (XO (XO (XO (XI (XI XH))))))
| X71 -> Npos (XI (XO (XO (XO (XI (XI XH))))))
| X72 -> Npos (XO (XI (XO (XO (XI (XI XH))))))
| X73 -> Npos (XI (XI (XO (XO (XI (XI XH))))))
| X74 -> Npos (XO (XO (XI (XO (XI (XI XH))))))
| X75 -> Npos (XI (XO (XI (XO (XI (XI XH))))))
| X76 -> Npos (XO (XI (XI (XO (XI (XI XH))))))
| X77 -> Npos (XI (XI (XI (XO (XI (XI XH))))))
| X78 -> Npos (XO (XO (XO (XI (XI (XI XH))))))
| X79 -> Npos (XI (XO (XO (XI (XI (XI XH))))))
| X7a -> Npos (XO (XI (XO (XI (XI (XI XH))))))
| X7b -> Npos (XI (XI (XO (XI (XI (XI XH))))))
| X7c -> Npos (XO (XO (XI (XI (XI (XI XH))))))
| X7d -> Npos (XI (XO (XI (XI (XI (XI XH))))))
| X7e -> Npos (XO (XI (XI (XI (XI (XI XH))))))
| X7f -> Npos (XI (XI (XI (XI (XI (XI XH))))))
| X80 -> Npos (XO (XO (XO (XO (XO (XO (XO XH)))))))
| X81 -> Npos (XI (XO (XO (XO (XO (XO (XO XH)))))))
| X82 -> Npos (XO (XI (XO (XO (XO (XO (XO XH)))))))
| X83 -> Npos (XI (XI (XO (XO (XO (XO (XO XH)))))))
| X84 -> Npos (XO (XO (XI (XO (XO (XO (XO XH)))))))
| X85 -> Npos (XI (XO (XI (XO (XO (XO (XO XH)))))))
| X86 -> Npos (XO (XI (XI (XO (XO (XO (XO XH)))))))
| X87 -> Npos (XI (XI (XI (XO (XO (XO (XO XH)))))))
| X88 -> Npos (XO (XO (XO (XI (XO (XO (XO XH)))))))
| X89 -> Npos (XI (XO (XO (XI (XO (XO (XO XH)))))))
| X8a -> Npos (XO (XI (XO (XI (XO (XO (XO XH)))))))
| X8b -> Npos (XI (XI (XO (XI (XO (XO (XO XH)))))))
| X8c -> Npos (XO (XO (XI (XI (XO (XO (XO XH)))))))
| X8d -> Npos (XI (XO (XI (XI (XO (XO (XO XH)))))))
| X8e -> Npos (XO (XI (XI (XI (XO (XO (XO XH)))))))
| X8f -> Npos (XI (XI (XI (XI (XO (XO (XO XH)))))))
| X90 -> Npos (XO (XO (XO (XO (XI (XO (XO XH)))))))
| X91 -> Npos (XI (XO (XO (XO (XI (XO (XO XH)))))))
| X92 -> Npos (XO (XI (XO (XO (XI (XO (XO XH)))))))
| X93 -> Npos (XI (XI (XO (XO (XI (XO (XO XH)))))))
| X94 -> Npos (XO (XO (XI (XO (XI (XO (XO XH)))))))
| X95 -> Npos (XI (XO (XI (XO (XI (XO (XO XH)))))))
| X96 -> Npos (XO (XI (XI (XO (XI (XO (XO XH)))))))
| X97 -> Npos (XI (XI (XI (XO (XI (XO (XO XH)))))))
| X98 -> Npos (XO (XO (XO (XI (XI (XO (XO XH)))))))
| X99 -> Npos (XI (XO (XO (XI (XI (XO (XO XH)))))))
| X9a -> Npos (XO (XI (XO (XI (XI (XO (XO XH)))))))
| X9b -> Npos (XI (XI (XO (XI (XI (XO (XO XH)))))))
| X9c -> Npos (XO (XO (XI (XI (XI (XO (XO XH)))))))
| X9d -> Npos (XI (XO (XI (XI (XI (XO (XO XH)))))))
| X9e -> Npos (XO (XI (XI (XI (XI (XO (XO XH)))))))
| X9f -> Npos (XI (XI (XI (XI (XI (XO (XO XH)))))))
| Xa0 -> Npos (XO (XO (XO (XO (XO (XI (XO XH)))))))
| Xa1 -> Npos (XI (XO (XO (XO (XO (XI (XO XH)))))))
| Xa2 -> Npos (XO (XI (XO (XO (XO (XI (XO XH)))))))
| Xa3 -> Npos (XI (XI (XO (XO (XO (XI (XO XH)))))))
| Xa4 -> Npos (XO (XO (XI (XO (XO (XI (XO XH)))))))
| Xa5 -> Npos (XI (XO (XI (XO (XO (XI (XO XH)))))))
| Xa6 -> Npos (XO (XI (XI (XO (XO (XI (XO XH)))))))
| Xa7 -> Npos (XI (XI (XI (XO (XO (XI (XO XH)))))))
| Xa8 -> Npos (XO (XO (XO (XI (XO (XI (XO XH)))))))
| Xa9 -> Npos (XI (XO (XO (XI (XO (XI (XO XH)))))))
| Xaa -> Npos (XO (XI (XO (XI (XO (XI (XO XH)))))))
| Xab -> Npos (XI (XI (XO (XI (XO (XI (XO XH)))))))
| Xac -> Npos (XO (XO (XI (XI (XO (XI (XO XH)))))))
| Xad -> Npos (XI (XO (XI (XI (XO (XI (XO XH)))))))
| Xae -> Npos (XO (XI (XI (XI (XO (XI (XO XH)))))))
| Xaf -> Npos (XI (XI (XI (XI (XO (XI (XO XH)))))))
| Xb0 -> Npos (XO (XO (XO (XO (XI (XI (XO XH)))))))
| Xb1 -> Npos (XI (XO (XO (XO (XI (XI (XO XH)))))))
| Xb2 -> Npos (XO (XI (XO (XO (XI (XI (XO XH)))))))
| Xb3 -> Npos (XI (XI (XO (XO (XI (XI (XO XH)))))))
| Xb4 -> Npos (XO (XO (XI (XO (XI (XI (XO XH)))))))
| Xb5 -> Npos (XI (XO (XI (XO (XI (XI (XO XH)))))))
| Xb6 -> Npos (XO (XI (XI (XO (XI (XI (XO XH)))))))
| Xb7 -> Npos (XI (XI (XI (XO (XI (XI (XO XH)))))))
| Xb8 -> Npos (XO (XO (XO (XI (XI (XI (XO XH)))))))
| Xb9 -> Npos (XI (XO (XO (XI (XI (XI (XO XH)))))))
| Xba -> Npos (XO (XI (XO (XI (XI (XI (XO XH)))))))
| Xbb -> Npos (XI (XI (XO (XI (XI (XI (XO XH)))))))
| Xbc -> Npos (XO (XO (XI (XI (XI (XI (XO XH)))))))
| Xbd -> Npos (XI (XO (XI (XI (XI (XI (XO XH)))))))
| Xbe -> Npos (XO (XI (XI (XI (XI (XI (XO XH)))))))
| Xbf -> Npos (XI (XI (XI (XI (XI (XI (XO XH)))))))
| Xc0 -> Npos (XO (XO (XO (XO (XO (XO (XI XH)))))))
| Xc1 -> Npos (XI (XO (XO (XO (XO (XO (XI XH)))))))
| Xc2 -> Npos (XO (XI (XO (XO (XO (XO (XI XH)))))))
| Xc3 -> Npos (XI (XI (XO (XO (XO (XO (XI XH)))))))
| Xc4 -> Npos (XO (XO (XI (XO (XO (XO (XI XH)))))))
| Xc5 -> Npos (XI (XO (XI (XO (XO (XO (XI XH)))))))
| Xc6 -> Npos (XO (XI (XI (XO (XO (XO (XI XH)))))))
| Xc7 -> Npos (XI (XI (XI (XO (XO (XO (XI XH)))))))
| Xc8 -> Npos (XO (XO (XO (XI (XO (XO (XI XH)))))))
| Xc9 -> Npos (XI (XO (XO (XI (XO (XO (XI XH)))))))
| Xca -> Npos (XO (XI (XO (XI (XO (XO (XI XH)))))))
| Xcb -> Npos (XI (XI (XO (XI (XO (XO (XI XH)))))))
| Xcc -> Npos (XO (XO (XI (XI (XO (XO (XI XH)))))))
| Xcd -> Npos (XI (XO (XI (XI (XO (XO (XI XH)))))))
| Xce -> Npos (XO (XI (XI (XI (XO (XO (XI XH)))))))
| Xcf -> Npos (XI (XI (XI (XI (XO (XO (XI XH)))))))
| Xd0 -> Npos (XO (XO (XO (XO (XI (XO (XI XH)))))))
| Xd1 -> Npos (XI (XO (XO (XO (XI (XO (XI XH)))))))
| Xd2 -> Npos (XO (XI (XO (XO (XI (XO (XI XH)))))))
| Xd3 -> Npos (XI (XI (XO (XO (XI (XO (XI XH)))))))
| Xd4 -> Npos (XO (XO (XI (XO (XI (XO (XI XH)))))))
| Xd5 -> Npos (XI (XO (XI (XO (XI (XO (XI XH)))))))
| Xd6 -> Npos (XO (XI (XI (XO (XI (XO (XI XH)))))))
| Xd7 -> Npos (XI (XI (XI (XO (XI (XO (XI XH)))))))
| Xd8 -> Npos (XO (XO (XO (XI (XI (XO (XI XH)))))))
| Xd9 -> Npos (XI (XO (XO (XI (XI (XO (XI XH)))))))
| Xda -> Npos (XO (XI (XO (XI (XI (XO (XI XH)))))))
| Xdb -> Npos (XI (XI (XO (XI (XI (XO (XI XH)))))))
| Xdc -> Npos (XO (XO (XI (XI (XI (XO (XI XH)))))))
| Xdd -> Npos (XI (XO (XI (XI (XI (XO (XI XH)))))))
| Xde -> Npos (XO (XI (XI (XI (XI (XO (XI XH)))))))
| Xdf -> Npos (XI (XI (XI (XI (XI (XO (XI XH)))))))
| Xe0 -> Npos (XO (XO (XO (XO (XO (XI (XI XH)))))))
| Xe1 -> Npos (XI (XO (XO (XO (XO (XI (XI XH)))))))
| Xe2 -> Npos (XO (XI (XO (XO (XO (XI (XI XH)))))))
| Xe3 -> Npos (XI (XI (XO (XO (XO (XI (XI XH)))))))
| Xe4 -> Npos (XO (XO (XI (XO (XO (XI (XI XH)))))))
| Xe5 -> Npos (XI (XO (XI (XO (XO (XI (XI XH)))))))
| Xe6 -> Npos (XO (XI (XI (XO (XO (XI (XI XH)))))))
| Xe7 -> Npos (XI (XI (XI (XO (XO (XI (XI XH)))))))
| Xe8 -> Npos (XO (XO (XO (XI (XO (XI (XI XH)))))))
| Xe9 -> Npos (XI (XO (XO (XI (XO (XI (XI XH)))))))
| Xea -> Npos (XO (XI (XO (XI (XO (XI (XI XH)))))))
| Xeb -> Npos (XI (XI (XO (XI (XO (XI (XI XH)))))))
| Xec -> Npos (XO (XO (XI (XI (XO (XI (XI XH)))))))
| Xed -> Npos (XI (XO (XI (XI (XO (XI (XI XH)))))))
| Xee -> Npos (XO (XI (XI (XI (XO (XI (XI XH)))))))
| Xef -> Npos (XI (XI (XI (XI (XO (XI (XI XH)))))))
| Xf0 -> Npos (XO (XO (XO (XO (XI (XI (XI XH)))))))
| Xf1 -> Npos (XI (XO (XO (XO (XI (XI (XI XH)))))))
| Xf2 -> Npos (XO (XI (XO (XO (XI (XI (XI XH)))))))
| Xf3 -> Npos (XI (XI (XO (XO (XI (XI (XI XH)))))))
| Xf4 -> Npos (XO (XO (XI (XO (XI (XI (XI XH)))))))
| Xf5 -> Npos (XI (XO (XI (XO (XI (XI (XI XH)))))))
| Xf6 -> Npos (XO (XI (XI (XO (XI (XI (XI XH)))))))
| Xf7 -> Npos (XI (XI (XI (XO (XI (XI (XI XH)))))))
| Xf8 -> Npos (XO (XO (XO (XI (XI (XI (XI XH)))))))
| Xf9 -> Npos (XI (XO (XO (XI (XI (XI (XI XH)))))))
| Xfa -> Npos (XO (XI (XO (XI (XI (XI (XI XH)))))))
| Xfb -> Npos (XI (XI (XO (XI (XI (XI (XI XH)))))))
| Xfc -> Npos (XO (XO (XI (XI (XI (XI (XI XH)))))))
| Xfd -> Npos (XI (XO (XI (XI (XI (XI (XI XH)))))))
| Xfe -> Npos (XO (XI (XI (XI (XI (XI (XI XH)))))))
| Xff -> Npos (XI (XI (XI (XI (XI (XI (XI XH)))))))

(** val of_N : n -> byte option **)

let of_N = function
| N0 -> Some X00
| Npos p ->
  (match p with
   | XI p0 ->
     (match p0 with
      | XI p1 ->
        (match p1 with
         | XI p2 ->
           (match p2 with
            | XI p3 ->
              (match p3 with
               | XI p4 ->
                 (match p4 with
                  | XI p5 ->
                    (match p5 with
                     | XI p6 -> (match p6 with
                                 | XH -> Some Xff
                                 | _ -> None)
                     | XO p6 -> (match p6 with
                                 | XH -> Some Xbf
                                 | _ -> None)
                     | XH -> Some X7f)
                  | XO p5 ->
                    (match p5 with
                     | XI p6 -> (match p6 with
                                 | XH -> Some Xdf
                                 | _ -> None)
                     | XO p6 -> (match p6 with
                                 | XH -> Some X9f
                                 | _ -> None)
                     | XH -> Some X5f)
                  | XH -> Some X3f)
               | XO p4 ->
                 (match p4 with
                  | XI p5 ->
                    (match p5 with
                     | XI p6 -> (match p6 with
                                 | XH -> Some Xef
                                 | _ -> None)
                     | XO p6 -> (match p6 with
                                 | XH -> Some Xaf
                                 | _ -> None)
                     | XH -> Some X6f)
                  | XO p5 ->
                    (match p5 with
                     | XI p6 -> (match p6 with
                                 | XH -> Some Xcf
                                 | _ -> None)
                     | XO p6 -> (match p6 with
                                 | XH -> Some X8f
                                 | _ -> None)
                     | XH -> Some X4f)
                  | XH -> Some X2f)
               | XH -> Some X1f)
            | XO p3 ->
              (match p3 with
               | XI p4 ->
                 (match p4 with
                  | XI p5 ->
                    (match p5 with
                     | XI p6 -> (match p6 with
                                 | XH -> Some Xf7
                                 | _ -> None)
                     | XO p6 -> (match p6 with
                                 | XH -> Some Xb7
                                 | _ -> None)
                     | XH -> Some X77)
                  | XO p5 ->
                    (match p5 with
                     | XI p6 -> (match p6 with
                                 | XH -> Some Xd7
                                 | _ -> None)
                     | XO p6 -> (match p6 with
                                 | XH -> Some X97
                                 | _ -> None)
                     | XH -> Some X57)
                  | XH -> Some X37)
               | XO p4 ->
                 (match p4 with
                  | XI p5 ->
                    (match p5 with
                     | XI p6 -> (match p6 with
                                 | XH -> Some Xe7
                                 | _ -> None)
                     | XO p6 -> (match p6 with
                                 | XH -> Some Xa7
                                 | _ -> None)
                     | XH -> Some X67)
                  | XO p5 ->
                    (match p5 with
                     | XI p6 -> (match p6 with
                                 | XH -> Some Xc7
                                 | _ -> None)
                     | XO p6 -> (match p6 with
                                 | XH -> Some X87
                                 | _ -> None)
                     | XH -> Some X47)
                  | XH -> Some X27)
               | XH -> Some X17)
            | XH -> Some X0f)
         | XO p2 ->
           (match p2 with
            | XI p3 ->
              (match p3 with
               | XI p4 ->
                 (match p4 with
                  | XI p5 ->
                    (match p5 with
                     | XI p6 -> (match p6 with
                                 | XH -> Some Xfb
                                 | _ -> None)
                     | XO p6 -> (match p6 with
                                 | XH -> Some Xbb
                                 | _ -> None)
                     | XH -> Some X7b)
                  | XO p5 ->
                    (match p5 with
                     | XI p6 -> (match p6 with
                                 | XH -> Some Xdb
                                 | _ -> None)
                     | XO p6 -> (match p6 with
                                 | XH -> Some X9b
                                 | _ -> None)
                     | XH -> Some X5b)
                  | XH -> Some X3b)
               | XO p4 ->
                 (match p4 with
                  | XI p5 ->
                    (match p5 with
                     | XI p6 -> (match p6 with
                                 | XH -> Some Xeb
                                 | _ -> None)
                     | XO p6 -> (match p6 with
                                 | XH -> Some Xab
                                 | _ -> None)
                     | XH -> Some X6b)
                  | XO p5 ->
                    (match p5 with
                     | XI p6 -> (match p6 with
                                 | XH -> Some Xcb
                                 | _ -> None)
                     | XO p6 -> (match p6 with
                                 | XH -> Some X8b
                                 | _ -> None)
                     | XH -> Some X4b)
                  | XH -> Some X2b)
               | XH -> Some X1b)
            | XO p3 ->
              (match p3 with
               | XI p4 ->
                 (match p4 with
                  | XI p5 ->
                    (match p5 with
                     | XI p6 -> (match p6 with
                                 | XH -> Some Xf3
                                 | _ -> None)
                     | XO p6 -> (match p6 with
                                 | XH -> Some Xb3
                                 | _ -> None)
                     | XH -> Some X73)
                  | XO p5 ->
                    (match p5 with
                     | XI p6 -> (match p6 with
                                 | XH -> Some Xd3
                                 | _ -> None)
                     | XO p6 -> (match p6 with
                                 | XH -> Some X93
                                 | _ -> None)
                     | XH -> Some X53)
                  | XH -> Some X33)
               | XO p4 ->
                 (match p4 with
                  | XI p5 ->
                    (match p5 with
                     | XI p6 -> (match p6 with
                                 | XH -> Some Xe3
                                 | _ -> None)
                     | XO p6 -> (match p6 with
                                 | XH -> Some Xa3
                                 | _ -> None)
                     | XH -> Some X63)
                  | XO p5 ->
                    (match p5 with
                     | XI p6 -> (match p6 with
                                 | XH -> Some Xc3
                                 | _ -> None)
                     | XO p6 -> (match p6 with
                                 | XH -> Some X83
                                 | _ -> None)
                     | XH -> Some X43)
                  | XH -> Some X23)
               | XH -> Some X13)
            | XH -> Some X0b)
         | XH -> Some X07)
      | XO p1 ->
        (match p1 with
         | XI p2 ->
           (match p2 with
            | XI p3 ->
              (match p3 with
               | XI p4 ->
                 (match p4 with
                  | XI p5 ->
                    (match p5 with
                     | XI p6 -> (match p6 with
                                 | XH -> Some Xfd
                                 | _ -> None)
                     | XO p6 -> (match p6 with
                                 | XH -> Some Xbd
                                 | _ -> None)
                     | XH -> Some X7d)
                  | XO p5 ->
                    (match p5 with
                     | XI p6 -> (match p6 with
                                 | XH -> Some Xdd
                                 | _ -> None)
                     | XO p6 -> (match p6 with
                                 | XH -> Some X9d
                                 | _ -> None)
                     | XH -> Some X5d)
                  | XH -> Some X3d)
               | XO p4 ->
                 (match p4 with
                  | XI p5 ->
                    (match p5 with
                     | XI p6 -> (match p6 with
                                 | XH -> Some Xed
                                 | _ -> None)
                     | XO p6 -> (match p6 with
                                 | XH -> Some Xad
                                 | _ -> None)
                     | XH -> Some X6d)
                  | XO p5 ->
                    (match p5 with
                     | XI p6 -> (match p6 with
                                 | XH -> Some Xcd
                                 | _ -> None)
                     | XO p6 -> (match p6 with
                                 | XH -> Some X8d
                                 | _ -> None)
                     | XH -> Some X4d)
                  | XH -> Some X2d)
               | XH -> Some X1d)
            | XO p3 ->
              (match p3 with
               | XI p4 ->
                 (match p4 with
                  | XI p5 ->
                    (match p5 with
                     | XI p6 -> (match p6 with
                                 | XH -> Some Xf5
                                 | _ -> None)
                     | XO p6 -> (match p6 with
                                 | XH -> Some Xb5
                                 | _ -> None)
                     | XH -> Some X75)
                  | XO p5 ->
                    (match p5 with
                     | XI p6 -> (match p6 with
                                 | XH -> Some Xd5
                                 | _ -> None)
                     | XO p6 -> (match p6 with
                                 | XH -> Some X95
                                 | _ -> None)
                     | XH -> Some X55)
                  | XH -> Some X35)
               | XO p4 ->
                 (match p4 with
                  | XI p5 ->
                    (match p5 with
                     | XI p6 -> (match p6 with
                                 | XH -> Some Xe5
                                 | _ -> None)
                     | XO p6 -> (match p6 with
                                 | XH -> Some Xa5
                                 | _ -> None)
                     | XH -> Some X65)
                  | XO p5 ->
                    (match p5 with
                     | XI p6 -> (match p6 with
                                 | XH -> Some Xc5
                                 | _ -> None)
                     | XO p6 -> (match p6 with
                                 | XH -> Some X85
                                 | _ -> None)
                     | XH -> Some X45)
                  | XH -> Some X25)
               | XH -> Some X15)
            | XH -> Some X0d)
         | XO p2 ->
           (match p2 with
            | XI p3 ->
              (match p3 with
               | XI p4 ->
                 (match p4 with
                  | XI p5 ->
                    (match p5 with
                     | XI p6 -> (match p6 with
                                 | XH -> Some Xf9
                                 | _ -> None)
                     | XO p6 -> (match p6 with
                                 | XH -> Some Xb9
                                 | _ -> None)
                     | XH -> Some X79)
                  | XO p5 ->
                    (match p5 with
                     | XI p6 -> (match p6 with
                                 | XH -> Some Xd9
                                 | _ -> None)
                     | XO p6 -> (match p6 with
                                 | XH -> Some X99
                                 | _ -> None)
                     | XH -> Some X59)
                  | XH -> Some X39)
               | XO p4 ->
                 (match p4 with
                  | XI p5 ->
                    (match p5 with
                     | XI p6 -> (match p6 with
                                 | XH -> Some Xe9
                                 | _ -> None)
                     | XO p6 -> (match p6 with
                                 | XH -> Some Xa9
                                 | _ -> None)
                     | XH -> Some X69)
                  | XO p5 ->
                    (match p5 with
                     | XI p6 -> (match p6 with
                                 | XH -> Some Xc9
                                 | _ -> None)
                     | XO p6 -> (match p6 with
                                 | XH -> Some X89
                                 | _ -> None)
                     | XH -> Some X49)
                  | XH -> Some X29)
               | XH -> Some X19)
            | XO p3 ->
              (match p3 with
               | XI p4 ->
                 (match p4 with
                  | XI p5 ->
                    (match p5 with
                     | XI p6 -> (match p6 with
                                 | XH -> Some Xf1
                                 | _ -> None)
                     | XO p6 -> (match p6 with
                                 | XH -> Some Xb1
                                 | _ -> None)
                     | XH -> Some X71)
                  | XO p5 ->
                    (match p5 with
                     | XI p6 -> (match p6 with
                                 | XH -> Some Xd1
                                 | _ -> None)
                     | XO p6 -> (match p6 with
                                 | XH -> Some X91
                                 | _ -> None)
                     | XH -> Some X51)
                  | XH -> Some X31)
               | XO p4 ->
                 (match p4 with
                  | XI p5 ->
                    (match p5 with
                     | XI p6 -> (match p6 with
                                 | XH -> Some Xe1
                                 | _ -> None)
                     | XO p6 -> (match p6 with
                                 | XH -> Some Xa1
                                 | _ -> None)
                     | XH -> Some X61)
                  | XO p5 ->
                    (match p5 with
                     | XI p6 -> (match p6 with
                                 | XH -> Some Xc1
                                 | _ -> None)
                     | XO p6 -> (match p6 with
                                 | XH -> Some X81
                                 | _ -> None)
                     | XH -> Some X41)
                  | XH -> Some X21)
               | XH -> Some X11)
            | XH -> Some X09)
         | XH -> Some X05)
      | XH -> Some X03)
   | XO p0 ->
     (match p0 with
      | XI p1 ->
        (match p1 with
         | XI p2 ->
           (match p2 with
            | XI p3 ->
              (match p3 with
               | XI p4 ->
                 (match p4 with
                  | XI p5 ->
                    (match p5 with
                     | XI p6 -> (match p6 with
                                 | XH -> Some Xfe
                                 | _ -> None)
                     | XO p6 -> (match p6 with
                                 | XH -> Some Xbe
                                 | _ -> None)
                     | XH -> Some X7e)
                  | XO p5 ->
                    (match p5 with
                     | XI p6 -> (match p6 with
                                 | XH -> Some Xde
                                 | _ -> None)
                     | XO p6 -> (match p6 with
                                 | XH -> Some X9e
                                 | _ -> None)
                     | XH -> Some X5e)
                  | XH -> Some X3e)
               | XO p4 ->
                 (match p4 with
                  | XI p5 ->
                    (match p5 with
                     | XI p6 -> (match p6 with
                                 | XH -> Some Xee
                                 | _ -> None)
                     | XO p6 -> (match p6 with
                                 | XH -> Some Xae
                                 | _ -> None)
                     | XH -> Some X6e)
                  | XO p5 ->
                    (match p5 with
                     | XI p6 -> (match p6 with
                                 | XH -> Some Xce
                                 | _ -> None)
                     | XO p6 -> (match p6 with
                                 | XH -> Some X8e
                                 | _ -> None)
                     | XH -> Some X4e)
                  | XH -> Some X2e)
               | XH -> Some X1e)
            | XO p3 ->
              (match p3 with
               | XI p4 ->
                 (match p4 with
                  | XI p5 ->
                    (match p5 with
                     | XI p6 -> (match p6 with
                                 | XH -> Some Xf6
                                 | _ -> None)
                     | XO p6 -> (match p6 with
                                 | XH -> Some Xb6
                                 | _ -> None)
                     | XH -> Some X76)
                  | XO p5 ->
                    (match p5 with
                     | XI p6 -> (match p6 with
                                 | XH -> Some Xd6
                                 | _ -> None)
                     | XO p6 -> (match p6 with
                                 | XH -> Some X96
                                 | _ -> None)
                     | XH -> Some X56)
                  | XH -> Some X36)
               | XO p4 ->
                 (match p4 with
                  | XI p5 ->
                    (match p5 with
                     | XI p6 -> (match p6 with
                                 | XH -> Some Xe6
                                 | _ -> None)
                     | XO p6 -> (match p6 with
                                 | XH -> Some Xa6
                                 | _ -> None)
                     | XH -> Some X66)
                  | XO p5 ->
                    (match p5 with
                     | XI p6 -> (match p6 with
                                 | XH -> Some Xc6
                                 | _ -> None)
                     | XO p6 -> (match p6 with
                                 | XH -> Some X86
                                 | _ -> None)
                     | XH -> Some X46)
                  | XH -> Some X26)
               | XH -> Some X16)
            | XH -> Some X0e)
         | XO p2 ->
           (match p2 with
            | XI p3 ->
              (match p3 with
               | XI p4 ->
                 (match p4 with
                  | XI p5 ->
                    (match p5 with
                     | XI p6 -> (match p6 with
                                 | XH -> Some Xfa
                                 | _ -> None)
                     | XO p6 -> (match p6 with
                                 | XH -> Some Xba
                                 | _ -> None)
                     | XH -> Some X7a)
                  | XO p5 ->
                    (match p5 with
                     | XI p6 -> (match p6 with
                                 | XH -> Some Xda
                                 | _ -> None)
                     | XO p6 -> (match p6 with
                                 | XH -> Some X9a
                                 | _ -> None)
                     | XH -> Some X5a)
                  | XH -> Some X3a)
               | XO p4 ->
                 (match p4 with
                  | XI p5 ->
                    (match p5 with
                     | XI p6 -> (match p6 with
                                 | XH -> Some Xea
                                 | _ -> None)
                     | XO p6 -> (match p6 with
                                 | XH -> Some Xaa
                                 | _ -> None)
                     | XH -> Some X6a)
                  | XO p5 ->
                    (match p5 with
                     | XI p6 -> (match p6 with
                                 | XH -> Some Xca
                                 | _ -> None)
                     | XO p6 -> (match p6 with
                                 | XH -> Some X8a
                                 | _ -> None)
                     | XH -> Some X4a)
                  | XH -> Some X2a)
               | XH -> Some X1a)
            | XO p3 ->
              (match p3 with
               | XI p4 ->
                 (match p4 with
                  | XI p5 ->
                    (match p5 with
                     | XI p6 -> (match p6 with
                                 | XH -> Some Xf2
                                 | _ -> None)
                     | XO p6 -> (match p6 with
                                 | XH -> Some Xb2
                                 | _ -> None)
                     | XH -> Some X72)
                  | XO p5 ->
                    (match p5 with
                     | XI p6 -> (match p6 with
                                 | XH -> Some Xd2
                                 | _ -> None)
                     | XO p6 -> (match p6 with
                                 | XH -> Some X92
                                 | _ -> None)
                     | XH -> Some X52)
                  | XH -> Some X32)
               | XO p4 ->
                 (match p4 with
                  | XI p5 ->
                    (match p5 with
                     | XI p6 -> (match p6 with
                                 | XH -> Some Xe2
                                 | _ -> None)
                     | XO p6 -> (match p6 with
                                 | XH -> Some Xa2
                                 | _ -> None)
                     | XH -> Some X62)
                  | XO p5 ->
                    (match p5 with
                     | XI p6 -> (match p6 with
                                 | XH -> Some Xc2
                                 | _ -> None)
                     | XO p6 -> (match p6 with
                                 | XH -> Some X82
                                 | _ -> None)
                     | XH -> Some X42)
                  | XH -> Some X22)
               | XH -> Some X12)
            | XH -> Some X0a)
         | XH -> Some X06)
      | XO p1 ->
        (match p1 with
         | XI p2 ->
           (match p2 with
            | XI p3 ->
              (match p3 with
               | XI p4 ->
                 (match p4 with
                  | XI p5 ->
                    (match p5 with
                     | XI p6 -> (match p6 with
                                 | XH -> Some Xfc
                                 | _ -> None)
                     | XO p6 -> (match p6 with
                                 | XH -> Some Xbc
                                 | _ -> None)
                     | XH -> Some X7c)
                  | XO p5 ->
                    (match p5 with
                     | XI p6 -> (match p6 with
                                 | XH -> Some Xdc
                                 | _ -> None)
                     | XO p6 -> (match p6 with
                                 | XH -> Some X9c
                                 | _ -> None)
                     | XH -> Some X5c)
                  | XH -> Some X3c)
               | XO p4 ->
                 (match p4 with
                  | XI p5 ->
                    (match p5 with
                     | XI p6 -> (match p6 with
                                 | XH -> Some Xec
                                 | _ -> None)
                     | XO p6 -> (match p6 with
                                 | XH -> Some Xac
                                 | _ -> None)
                     | XH -> Some X6c)
                  | XO p5 ->
                    (match p5 with
                     | XI p6 -> (match p6 with
                                 | XH -> Some Xcc
                                 | _ -> None)
                     | XO p6 -> (match p6 with
                                 | XH -> Some X8c
                                 | _ -> None)
                     | XH -> Some X4c)
                  | XH -> Some X2c)
               | XH -> Some X1c)
            | XO p3 ->
              (match p3 with
               | XI p4 ->
                 (match p4 with
                  | XI p5 ->
                    (match p5 with
                     | XI p6 -> (match p6 with
                                 | XH -> Some Xf4
                                 | _ -> None)
                     | XO p6 -> (match p6 with
                                 | XH -> Some Xb4
                                 | _ -> None)
                     | XH -> Some X74)
                  | XO p5 ->
                    (match p5 with
                     | XI p6 -> (match p6 with
                                 | XH -> Some Xd4
                                 | _ -> None)
                     | XO p6 -> (match p6 with
                                 | XH -> Some X94
                                 | _ -> None)
                     | XH -> Some X54)
                  | XH -> Some X34)
               | XO p4 ->
                 (match p4 with
                  | XI p5 ->
                    (match p5 with
                     | XI p6 -> (match p6 with
                                 | XH -> Some Xe4
                                 | _ -> None)
                     | XO p6 -> (match p6 with
                                 | XH -> Some Xa4
                                 | _ -> None)
                     | XH -> Some X64)
                  | XO p5 ->
                    (match p5 with
                     | XI p6 -> (match p6 with
                                 | XH -> Some Xc4
                                 | _ -> None)
                     | XO p6 -> (match p6 with
                                 | XH -> Some X84
                                 | _ -> None)
                     | XH -> Some X44)
                  | XH -> Some X24)
               | XH -> Some X14)
            | XH -> Some X0c)
         | XO p2 ->
           (match p2 with
            | XI p3 ->
              (match p3 with
               | XI p4 ->
                 (match p4 with
                  | XI p5 ->
                    (match p5 with
                     | XI p6 -> (match p6 with
                                 | XH -> Some Xf8
                                 | _ -> None)
                     | XO p6 -> (match p6 with
                                 | XH -> Some Xb8
                                 | _ -> None)
                     | XH -> Some X78)
                  | XO p5 ->
                    (match p5 with
                     | XI p6 -> (match p6 with
                                 | XH -> Some Xd8
                                 | _ -> None)
                     | XO p6 -> (match p6 with
                                 | XH -> Some X98
                                 | _ -> None)
                     | XH -> Some X58)
                  | XH -> Some X38)
               | XO p4 ->
                 (match p4 with
                  | XI p5 ->
                    (match p5 with
                     | XI p6 -> (match p6 with
                                 | XH -> Some Xe8
                                 | _ -> None)
                     | XO p6 -> (match p6 with
                                 | XH -> Some Xa8
                                 | _ -> None)
                     | XH -> Some X68)
                  | XO p5 ->
                    (match p5 with
                     | XI p6 -> (match p6 with
                                 | XH -> Some Xc8
                                 | _ -> None)
                     | XO p6 -> (match p6 with
                                 | XH -> Some X88
                                 | _ -> None)
                     | XH -> Some X48)
                  | XH -> Some X28)
               | XH -> Some X18)
            | XO p3 ->
              (match p3 with
               | XI p4 ->
                 (match p4 with
                  | XI p5 ->
                    (match p5 with
                     | XI p6 -> (match p6 with
                                 | XH -> Some Xf0
                                 | _ -> None)
                     | XO p6 -> (match p6 with
                                 | XH -> Some Xb0
                                 | _ -> None)
                     | XH -> Some X70)
                  | XO p5 ->
                    (match p5 with
                     | XI p6 -> (match p6 with
                                 | XH -> Some Xd0
                                 | _ -> None)
                     | XO p6 -> (match p6 with
                                 | XH -> Some X90
                                 | _ -> None)
                     | XH -> Some X50)
                  | XH -> Some X30)
               | XO p4 ->
                 (match p4 with
                  | XI p5 ->
                    (match p5 with
                     | XI p6 -> (match p6 with
                                 | XH -> Some Xe0
                                 | _ -> None)
                     | XO p6 -> (match p6 with
                                 | XH -> Some Xa0
                                 | _ -> None)
                     | XH -> Some X60)
                  | XO p5 ->
                    (match p5 with
                     | XI p6 -> (match p6 with
                                 | XH -> Some Xc0
                                 | _ -> None)
                     | XO p6 -> (match p6 with
                                 | XH -> Some X80
                                 | _ -> None)
                     | XH -> Some X40)
                  | XH -> Some X20)
               | XH -> Some X10)
            | XH -> Some X08)
         | XH -> Some X04)
      | XH -> Some X02)
   | XH -> Some X01)

type decision = bool

(** val decide : decision -> bool **)

let decide decision0 =
  decision0

type ('a, 'b) relDecision = 'a -> 'b -> decision

(** val decide_rel : ('a1, 'a2) relDecision -> 'a1 -> 'a2 -> decision **)

let decide_rel relDecision0 =
  relDecision0

type 'a empty = 'a

(** val empty0 : 'a1 empty -> 'a1 **)

let empty0 empty1 =
  empty1

type ('a, 'b) filter = __ -> ('a -> decision) -> 'b -> 'b

(** val filter0 : ('a1, 'a2) filter -> ('a1 -> decision) -> 'a2 -> 'a2 **)

let filter0 filter1 h x =
  filter1 __ h x

type 'm mRet = __ -> __ -> 'm

(** val mret : 'a1 mRet -> 'a2 -> 'a1 **)

let mret mRet0 x =
  Obj.magic mRet0 __ x

type 'm mBind = __ -> __ -> (__ -> 'm) -> 'm -> 'm

(** val mbind : 'a1 mBind -> ('a2 -> 'a1) -> 'a1 -> 'a1 **)

let mbind mBind0 x x0 =
  Obj.magic mBind0 __ __ x x0

type 'm fMap = __ -> __ -> (__ -> __) -> 'm -> 'm

(** val fmap : 'a1 fMap -> ('a2 -> 'a3) -> 'a1 -> 'a1 **)

let fmap fMap0 x x0 =
  Obj.magic fMap0 __ __ x x0

type 'm oMap = __ -> __ -> (__ -> __ option) -> 'm -> 'm

(** val omap : 'a1 oMap -> ('a2 -> 'a3 option) -> 'a1 -> 'a1 **)

let omap oMap0 x x0 =
  Obj.magic oMap0 __ __ x x0

type ('k, 'a, 'm) lookup = 'k -> 'm -> 'a option

(** val lookup0 : ('a1, 'a2, 'a3) lookup -> 'a1 -> 'a3 -> 'a2 option **)

let lookup0 lookup1 =
  lookup1

type ('k, 'a, 'm) insert = 'k -> 'a -> 'm -> 'm

(** val insert0 : ('a1, 'a2, 'a3) insert -> 'a1 -> 'a2 -> 'a3 -> 'a3 **)

let insert0 insert1 =
  insert1

type ('k, 'm) delete = 'k -> 'm -> 'm

(** val delete0 : ('a1, 'a2) delete -> 'a1 -> 'a2 -> 'a2 **)

let delete0 delete1 =
  delete1

type ('k, 'a, 'm) partialAlter = ('a option -> 'a option) -> 'k -> 'm -> 'm

(** val partial_alter :
    ('a1, 'a2, 'a3) partialAlter -> ('a2 option -> 'a2 option) -> 'a1 -> 'a3
    -> 'a3 **)

let partial_alter partialAlter0 =
  partialAlter0

type 'c size = 'c -> nat

(** val size0 : 'a1 size -> 'a1 -> nat **)

let size0 size1 =
  size1

(** val true_dec : decision **)

let true_dec =
  true

(** val false_dec : decision **)

let false_dec =
  false

(** val is_true_dec : bool -> decision **)

let is_true_dec = function
| true -> true_dec
| false -> false_dec

(** val not_dec : decision -> decision **)

let not_dec = function
| true -> false
| false -> true

(** val bool_eq_dec : (bool, bool) relDecision **)

let bool_eq_dec x y =
  if x then if y then true else false else if y then false else true

(** val uncurry_dec : ('a1 -> 'a2 -> decision) -> ('a1 * 'a2) -> decision **)

let uncurry_dec p_dec = function
| (x, y) -> p_dec x y

(** val bool_decide : decision -> bool **)

let bool_decide = function
| true -> true
| false -> false

module Coq_Nat = Nat

(** val from_option : ('a1 -> 'a2) -> 'a2 -> 'a1 option -> 'a2 **)

let from_option f y = function
| Some x -> f x
| None -> y

(** val is_Some_dec : 'a1 option -> decision **)

let is_Some_dec = function
| Some _ -> true
| None -> false

(** val option_eq_None_dec : 'a1 option -> decision **)

let option_eq_None_dec = function
| Some _ -> false
| None -> true

(** val option_ret : __ -> __ option **)

let option_ret x =
  Some x

(** val option_bind : (__ -> __ option) -> __ option -> __ option **)

let option_bind f = function
| Some x -> f x
| None -> None

(** val option_fmap : (__ -> __) -> __ option -> __ option **)

let option_fmap =
  option_map

module Coq0_Nat =
 struct
  (** val eq_dec : (nat, nat) relDecision **)

  let eq_dec =
    Nat.eq_dec
 end

module Coq_Pos =
 struct
  (** val eq_dec : (positive, positive) relDecision **)

  let eq_dec =
    Pos.eq_dec

  (** val app : positive -> positive -> positive **)

  let rec app p1 = function
  | XI p3 -> XI (app p1 p3)
  | XO p3 -> XO (app p1 p3)
  | XH -> p1

  (** val reverse_go : positive -> positive -> positive **)

  let rec reverse_go p1 = function
  | XI p3 -> reverse_go (XI p1) p3
  | XO p3 -> reverse_go (XO p1) p3
  | XH -> p1

  (** val reverse : positive -> positive **)

  let reverse =
    reverse_go XH

  (** val dup : positive -> positive **)

  let rec dup = function
  | XI p' -> XI (XI (dup p'))
  | XO p' -> XO (XO (dup p'))
  | XH -> XH
 end

(** val n_eq_dec : (n, n) relDecision **)

let n_eq_dec =
  N.eq_dec

module Coq_Z =
 struct
  (** val eq_dec : (z, z) relDecision **)

  let eq_dec =
    Z.eq_dec

  (** val lt_dec : (z, z) relDecision **)

  let lt_dec =
    z_lt_dec
 end

(** val list_lookup : (nat, 'a1, 'a1 list) lookup **)

let rec list_lookup i = function
| [] -> None
| x :: l0 -> (match i with
              | O -> Some x
              | S i0 -> lookup0 list_lookup i0 l0)

(** val list_insert : (nat, 'a1, 'a1 list) insert **)

let rec list_insert i y = function
| [] -> []
| x :: l0 ->
  (match i with
   | O -> y :: l0
   | S i0 -> x :: (insert0 list_insert i0 y l0))

(** val list_filter : ('a1 -> decision) -> 'a1 list -> 'a1 list **)

let rec list_filter x = function
| [] -> []
| x0 :: l0 ->
  if decide (x x0)
  then x0 :: (filter0 (fun _ -> list_filter) x l0)
  else filter0 (fun _ -> list_filter) x l0

(** val last : 'a1 list -> 'a1 option **)

let rec last = function
| [] -> None
| x :: l0 -> (match l0 with
              | [] -> Some x
              | _ :: _ -> last l0)

(** val list_fmap : (__ -> __) -> __ list -> __ list **)

let rec list_fmap f = function
| [] -> []
| x :: l0 -> (f x) :: (list_fmap f l0)

(** val list_omap : (__ -> __ option) -> __ list -> __ list **)

let rec list_omap f = function
| [] -> []
| x :: l0 ->
  (match f x with
   | Some y -> y :: (list_omap f l0)
   | None -> list_omap f l0)

(** val mapM : 'a1 mBind -> 'a1 mRet -> ('a2 -> 'a1) -> 'a2 list -> 'a1 **)

let rec mapM h h0 f = function
| [] -> mret h0 []
| x :: l0 ->
  mbind h (fun y -> mbind h (fun k -> mret h0 (y :: k)) (mapM h h0 f l0))
    (f x)

(** val list_remove :
    ('a1, 'a1) relDecision -> 'a1 -> 'a1 list -> 'a1 list option **)

let rec list_remove eqDecision0 x = function
| [] -> None
| y :: l0 ->
  if decide (decide_rel eqDecision0 x y)
  then Some l0
  else fmap (Obj.magic (fun _ _ -> option_fmap)) (fun x0 -> y :: x0)
         (list_remove eqDecision0 x l0)

(** val list_remove_list :
    ('a1, 'a1) relDecision -> 'a1 list -> 'a1 list -> 'a1 list option **)

let rec list_remove_list eqDecision0 k l =
  match k with
  | [] -> Some l
  | x :: k0 ->
    mbind (Obj.magic (fun _ _ -> option_bind))
      (list_remove_list eqDecision0 k0) (list_remove eqDecision0 x l)

(** val elem_of_list_dec :
    ('a1, 'a1) relDecision -> ('a1, 'a1 list) relDecision **)

let rec elem_of_list_dec dec x = function
| [] -> false
| y :: l0 ->
  if decide (decide_rel dec x y) then true else elem_of_list_dec dec x l0

(** val positives_flatten_go : positive list -> positive -> positive **)

let rec positives_flatten_go xs acc =
  match xs with
  | [] -> acc
  | x :: xs0 ->
    positives_flatten_go xs0
      (Coq_Pos.app (XO (XI acc)) (Coq_Pos.reverse (Coq_Pos.dup x)))

(** val positives_flatten : positive list -> positive **)

let positives_flatten xs =
  positives_flatten_go xs XH

(** val positives_unflatten_go :
    positive -> positive list -> positive -> positive list option **)

let rec positives_unflatten_go p acc_xs acc_elm =
  match p with
  | XI p0 ->
    (match p0 with
     | XI p' -> positives_unflatten_go p' acc_xs (XI acc_elm)
     | _ -> None)
  | XO p0 ->
    (match p0 with
     | XI p' -> positives_unflatten_go p' (acc_elm :: acc_xs) XH
     | XO p' -> positives_unflatten_go p' acc_xs (XO acc_elm)
     | XH -> None)
  | XH -> Some acc_xs

(** val positives_unflatten : positive -> positive list option **)

let positives_unflatten p =
  positives_unflatten_go p [] XH

(** val list_eq_dec0 :
    ('a1, 'a1) relDecision -> ('a1 list, 'a1 list) relDecision **)

let list_eq_dec0 =
  list_eq_dec

(** val list_eq_nil_dec : 'a1 list -> decision **)

let list_eq_nil_dec = function
| [] -> true
| _ :: _ -> false

(** val submseteq_dec :
    ('a1, 'a1) relDecision -> ('a1 list, 'a1 list) relDecision **)

let submseteq_dec eqDecision0 l1 l2 =
  decide (is_Some_dec (list_remove_list eqDecision0 l1 l2))

(** val permutation_dec :
    ('a1, 'a1) relDecision -> ('a1 list, 'a1 list) relDecision **)

let permutation_dec eqDecision0 l1 l2 =
  if decide (decide_rel Coq0_Nat.eq_dec (length l1) (length l2))
  then decide (decide_rel (submseteq_dec eqDecision0) l1 l2)
  else false

type 'a countable = { encode : ('a -> positive);
                      decode : (positive -> 'a option) }

(** val inj_countable :
    ('a1, 'a1) relDecision -> 'a1 countable -> ('a2, 'a2) relDecision -> ('a2
    -> 'a1) -> ('a1 -> 'a2 option) -> 'a2 countable **)

let inj_countable _ h _ f g =
  { encode = (fun y -> h.encode (f y)); decode = (fun p ->
    mbind (Obj.magic (fun _ _ -> option_bind)) g ((Obj.magic h).decode p)) }

(** val list_countable :
    ('a1, 'a1) relDecision -> 'a1 countable -> 'a1 list countable **)

let list_countable _ h =
  { encode = (fun xs ->
    positives_flatten
      (fmap (Obj.magic (fun _ _ -> list_fmap)) h.encode (Obj.magic xs)));
    decode = (fun p ->
    mbind (Obj.magic (fun _ _ -> option_bind)) (fun positives ->
      mapM (Obj.magic (fun _ _ -> option_bind))
        (Obj.magic (fun _ -> option_ret)) (Obj.magic h).decode positives)
      (Obj.magic positives_unflatten p)) }

(** val n_countable : n countable **)

let n_countable =
  { encode = (fun x -> match x with
                       | N0 -> XH
                       | Npos p -> Pos.succ p); decode = (fun p ->
    if decide (decide_rel Coq_Pos.eq_dec p XH)
    then Some N0
    else Some (Npos (Pos.pred p))) }

type ('k, 'a, 'm) finMapToList = 'm -> ('k * 'a) list

(** val map_to_list :
    ('a1, 'a2, 'a3) finMapToList -> 'a3 -> ('a1 * 'a2) list **)

let map_to_list finMapToList0 =
  finMapToList0

(** val map_insert :
    ('a1, 'a2, 'a3) partialAlter -> ('a1, 'a2, 'a3) insert **)

let map_insert h i x =
  partial_alter h (fun _ -> Some x) i

(** val map_delete : ('a1, 'a2, 'a3) partialAlter -> ('a1, 'a3) delete **)

let map_delete h =
  partial_alter h (fun _ -> None)

(** val map_size : ('a1, 'a2, 'a3) finMapToList -> 'a3 size **)

let map_size h m =
  length (map_to_list h m)

(** val map_fold :
    ('a1, 'a2, 'a3) finMapToList -> ('a1 -> 'a2 -> 'a4 -> 'a4) -> 'a4 -> 'a3
    -> 'a4 **)

let map_fold h f b =
  compose (fold_right (prod_curry_subdef f) b) (map_to_list h)

(** val map_filter :
    ('a1, 'a2, 'a3) finMapToList -> ('a1, 'a2, 'a3) insert -> 'a3 empty ->
    (('a1 * 'a2) -> decision) -> 'a3 -> 'a3 **)

let map_filter h h0 h1 h2 =
  map_fold h (fun k v m ->
    if decide (h2 (k, v)) then insert0 h0 k v m else m) (empty0 h1)

type 'a pmap_raw =
| PLeaf
| PNode of 'a option * 'a pmap_raw * 'a pmap_raw

(** val pNode' :
    'a1 option -> 'a1 pmap_raw -> 'a1 pmap_raw -> 'a1 pmap_raw **)

let pNode' o l r =
  match l with
  | PLeaf ->
    (match o with
     | Some _ -> PNode (o, l, r)
     | None ->
       (match r with
        | PLeaf -> PLeaf
        | PNode (_, _, _) -> PNode (o, l, r)))
  | PNode (_, _, _) -> PNode (o, l, r)

(** val pempty_raw : 'a1 pmap_raw empty **)

let pempty_raw =
  PLeaf

(** val plookup_raw : (positive, 'a1, 'a1 pmap_raw) lookup **)

let rec plookup_raw i = function
| PLeaf -> None
| PNode (o, l, r) ->
  (match i with
   | XI i0 -> lookup0 plookup_raw i0 r
   | XO i0 -> lookup0 plookup_raw i0 l
   | XH -> o)

(** val psingleton_raw : positive -> 'a1 -> 'a1 pmap_raw **)

let rec psingleton_raw i x =
  match i with
  | XI i0 -> PNode (None, PLeaf, (psingleton_raw i0 x))
  | XO i0 -> PNode (None, (psingleton_raw i0 x), PLeaf)
  | XH -> PNode ((Some x), PLeaf, PLeaf)

(** val ppartial_alter_raw :
    ('a1 option -> 'a1 option) -> positive -> 'a1 pmap_raw -> 'a1 pmap_raw **)

let rec ppartial_alter_raw f i = function
| PLeaf -> (match f None with
            | Some x -> psingleton_raw i x
            | None -> PLeaf)
| PNode (o, l, r) ->
  (match i with
   | XI i0 -> pNode' o l (ppartial_alter_raw f i0 r)
   | XO i0 -> pNode' o (ppartial_alter_raw f i0 l) r
   | XH -> pNode' (f o) l r)

(** val pfmap_raw : ('a1 -> 'a2) -> 'a1 pmap_raw -> 'a2 pmap_raw **)

let rec pfmap_raw f = function
| PLeaf -> PLeaf
| PNode (o, l, r) ->
  PNode ((fmap (Obj.magic (fun _ _ -> option_fmap)) f (Obj.magic o)),
    (pfmap_raw f l), (pfmap_raw f r))

(** val pto_list_raw :
    positive -> 'a1 pmap_raw -> (positive * 'a1) list -> (positive * 'a1) list **)

let rec pto_list_raw j t0 acc =
  match t0 with
  | PLeaf -> acc
  | PNode (o, l, r) ->
    app (from_option (fun x -> ((Coq_Pos.reverse j), x) :: []) [] o)
      (pto_list_raw (XO j) l (pto_list_raw (XI j) r acc))

type 'a pmap =
  'a pmap_raw
  (* singleton inductive, whose constructor was PMap *)

(** val pmap_car : 'a1 pmap -> 'a1 pmap_raw **)

let pmap_car p =
  p

(** val pempty : 'a1 pmap empty **)

let pempty =
  empty0 pempty_raw

(** val plookup : (positive, 'a1, 'a1 pmap) lookup **)

let plookup i m =
  lookup0 plookup_raw i (pmap_car m)

(** val ppartial_alter : (positive, 'a1, 'a1 pmap) partialAlter **)

let ppartial_alter f i m =
  partial_alter ppartial_alter_raw f i m

(** val pfmap : (__ -> __) -> __ pmap -> __ pmap **)

let pfmap f m =
  fmap (fun _ _ -> pfmap_raw) f m

(** val pto_list : (positive, 'a1, 'a1 pmap) finMapToList **)

let pto_list m =
  pto_list_raw XH m []

type ('k, 'a) gmap =
  'a pmap
  (* singleton inductive, whose constructor was GMap *)

(** val gmap_lookup :
    ('a1, 'a1) relDecision -> 'a1 countable -> ('a1, 'a2, ('a1, 'a2) gmap)
    lookup **)

let gmap_lookup _ h i pat =
  lookup0 plookup (h.encode i) pat

(** val gmap_empty :
    ('a1, 'a1) relDecision -> 'a1 countable -> ('a1, 'a2) gmap empty **)

let gmap_empty _ _ =
  empty0 pempty

(** val gmap_partial_alter :
    ('a1, 'a1) relDecision -> 'a1 countable -> ('a1, 'a2, ('a1, 'a2) gmap)
    partialAlter **)

let gmap_partial_alter _ h f i pat =
  partial_alter ppartial_alter f (h.encode i) pat

(** val gmap_fmap :
    ('a1, 'a1) relDecision -> 'a1 countable -> (__ -> __) -> ('a1, __) gmap
    -> ('a1, __) gmap **)

let gmap_fmap _ _ f pat =
  fmap (fun _ _ -> pfmap) f pat

(** val gmap_to_list :
    ('a1, 'a1) relDecision -> 'a1 countable -> ('a1, 'a2, ('a1, 'a2) gmap)
    finMapToList **)

let gmap_to_list _ h pat =
  omap (Obj.magic (fun _ _ -> list_omap)) (fun pat0 ->
    let (i, x) = pat0 in
    fmap (Obj.magic (fun _ _ -> option_fmap)) (fun x0 -> (x0, x)) (h.decode i))
    (map_to_list (Obj.magic pto_list) pat)

type str = byte list

(** val byte_eq_dec0 : (byte, byte) relDecision **)

let byte_eq_dec0 =
  byte_eq_dec

(** val byte_countable : byte countable **)

let byte_countable =
  inj_countable n_eq_dec n_countable byte_eq_dec0 to_N of_N

type err =
| ESrvEmptyName
| ESrvLockWaitTimeout
| ESrvDoesNotExistOrInvalidKey
| ESrvSessionDoesNotExist
| ESrvInvalidLockTimeout
| ESrvInvalidWaitTimeout
| ELockInvalidLockKey
| ELockNotLocked
| ELockDoesNotExist
| ELockManagerShutdown
| ELockSizeMismatch
| ELockInvalidLockSize
| ETimerDoesNotExist
| ECtxCanceled
| ECtxDeadlineExceeded
| EOther

type ('r, 't) setter = ('t -> 't) -> 'r -> 'r

(** val set :
    ('a1 -> 'a2) -> ('a1, 'a2) setter -> ('a2 -> 'a2) -> 'a1 -> 'a1 **)

let set _ setter0 =
  setter0

type clock = { cl_name : str; cl_key : str; cl_size : z }

type lockobj = { lo_size : z; lo_keys : str list; lo_last : z }

type timer = { tm_deadline : z; tm_name : str; tm_key : str; tm_sid : str }

type waiter = { w_id : nat; w_sid : str; w_name : str; w_key : str;
                w_size : z; w_lt : z option; w_deadline : z option }

type config = { c_noclear : bool; c_file : bool; c_gc_interval : z;
                c_gc_minidle : z; c_default_lt : z }

type sstate = { st_locks : (str, lockobj) gmap;
                st_sessions : (str, clock list) gmap;
                st_timers : (str, timer) gmap; st_waiters : waiter list;
                st_file : (str, clock list) gmap option; st_now : z;
                st_gc_next : z; st_shut : bool; st_used : str list }

(** val init_state : config -> sstate **)

let init_state cfg =
  { st_locks =
    (empty0
      (gmap_empty (list_eq_dec0 byte_eq_dec0)
        (list_countable byte_eq_dec0 byte_countable))); st_sessions =
    (empty0
      (gmap_empty (list_eq_dec0 byte_eq_dec0)
        (list_countable byte_eq_dec0 byte_countable))); st_timers =
    (empty0
      (gmap_empty (list_eq_dec0 byte_eq_dec0)
        (list_countable byte_eq_dec0 byte_countable))); st_waiters = [];
    st_file = None; st_now = Z0; st_gc_next = cfg.c_gc_interval; st_shut =
    false; st_used = [] }

(** val second : z **)

let second =
  Zpos (XO (XO (XO (XO (XO (XO (XO (XO (XO (XI (XO (XI (XO (XO (XI (XI (XO
    (XI (XO (XI (XI (XO (XO (XI (XI (XI (XO (XI (XI
    XH)))))))))))))))))))))))))))))

(** val uint_bytes : uint -> byte list **)

let rec uint_bytes = function
| Nil -> []
| D0 d0 -> X30 :: (uint_bytes d0)
| D1 d0 -> X31 :: (uint_bytes d0)
| D2 d0 -> X32 :: (uint_bytes d0)
| D3 d0 -> X33 :: (uint_bytes d0)
| D4 d0 -> X34 :: (uint_bytes d0)
| D5 d0 -> X35 :: (uint_bytes d0)
| D6 d0 -> X36 :: (uint_bytes d0)
| D7 d0 -> X37 :: (uint_bytes d0)
| D8 d0 -> X38 :: (uint_bytes d0)
| D9 d0 -> X39 :: (uint_bytes d0)

(** val itoa : nat -> str **)

let itoa n0 =
  uint_bytes (Coq_Nat.to_uint n0)

(** val tkey : str -> str -> str **)

let tkey name key =
  app (itoa (length name)) (app (X3a :: []) (app name key))

type resp =
| RLock of bool * str * err option
| RUnlock of bool * err option
| RBlocked

type out =
| OResp of resp
| OWaiter of nat * z * resp
| OListing of clock list
| OFile of (str * clock list) list option
| OTable of (str * ((z * str list) * z)) list
| OIpcList of clock list
| OIpcUnlock of bool option * err option

type event =
| EConnect of str
| EDisconnect of str
| ETryLock of str option * str * z option * z option * str
| ELock of nat * str option * str * z option * z option * z option * str
| EUnlock of str option * str * str
| ERenew of str * str * z
| ECancel of nat
| EAdvance of z
| ERestart of str list
| EShutdown
| EProbe
| EIpcList
| EIpcUnlock of str * str option

(** val name_waiters : str -> waiter list -> waiter list **)

let name_waiters name ws =
  filter0 (fun _ -> list_filter) (fun x ->
    decide_rel (list_eq_dec0 byte_eq_dec0) x.w_name name) ws

(** val get_lock_create :
    str -> z -> sstate -> (err, lockobj * sstate) sum **)

let get_lock_create name size1 s =
  if Z.leb size1 Z0
  then Inl ELockInvalidLockSize
  else (match lookup0
                (gmap_lookup (list_eq_dec0 byte_eq_dec0)
                  (list_countable byte_eq_dec0 byte_countable)) name
                s.st_locks with
        | Some o ->
          if bool_decide (decide_rel Coq_Z.eq_dec size1 o.lo_size)
          then let o' =
                 set (fun l -> l.lo_last) (fun f ->
                   let z0 = fun r -> f r.lo_last in
                   (fun x -> { lo_size = x.lo_size; lo_keys = x.lo_keys;
                   lo_last = (z0 x) })) (fun _ -> s.st_now) o
               in
               Inr (o',
               (set (fun s0 -> s0.st_locks) (fun f ->
                 let g = fun r -> f r.st_locks in
                 (fun x -> { st_locks = (g x); st_sessions = x.st_sessions;
                 st_timers = x.st_timers; st_waiters = x.st_waiters;
                 st_file = x.st_file; st_now = x.st_now; st_gc_next =
                 x.st_gc_next; st_shut = x.st_shut; st_used = x.st_used }))
                 (fun _ ->
                 insert0
                   (map_insert
                     (gmap_partial_alter (list_eq_dec0 byte_eq_dec0)
                       (list_countable byte_eq_dec0 byte_countable))) name o'
                   s.st_locks) s))
          else Inl ELockSizeMismatch
        | None ->
          let o = { lo_size = size1; lo_keys = []; lo_last = s.st_now } in
          Inr (o,
          (set (fun s0 -> s0.st_locks) (fun f ->
            let g = fun r -> f r.st_locks in
            (fun x -> { st_locks = (g x); st_sessions = x.st_sessions;
            st_timers = x.st_timers; st_waiters = x.st_waiters; st_file =
            x.st_file; st_now = x.st_now; st_gc_next = x.st_gc_next;
            st_shut = x.st_shut; st_used = x.st_used })) (fun _ ->
            insert0
              (map_insert
                (gmap_partial_alter (list_eq_dec0 byte_eq_dec0)
                  (list_countable byte_eq_dec0 byte_countable))) name o
              s.st_locks) s)))

(** val can_acquire : str -> lockobj -> sstate -> bool **)

let can_acquire name o s =
  (&&)
    (bool_decide
      (decide_rel Coq_Z.lt_dec (Z.of_nat (length o.lo_keys)) o.lo_size))
    (bool_decide (list_eq_nil_dec (name_waiters name s.st_waiters)))

(** val add_key : str -> str -> sstate -> sstate **)

let add_key name key s =
  match lookup0
          (gmap_lookup (list_eq_dec0 byte_eq_dec0)
            (list_countable byte_eq_dec0 byte_countable)) name s.st_locks with
  | Some o ->
    set (fun s0 -> s0.st_locks) (fun f ->
      let g = fun r -> f r.st_locks in
      (fun x -> { st_locks = (g x); st_sessions = x.st_sessions; st_timers =
      x.st_timers; st_waiters = x.st_waiters; st_file = x.st_file; st_now =
      x.st_now; st_gc_next = x.st_gc_next; st_shut = x.st_shut; st_used =
      x.st_used })) (fun _ ->
      insert0
        (map_insert
          (gmap_partial_alter (list_eq_dec0 byte_eq_dec0)
            (list_countable byte_eq_dec0 byte_countable))) name
        (set (fun l -> l.lo_keys) (fun f ->
          let l = fun r -> f r.lo_keys in
          (fun x -> { lo_size = x.lo_size; lo_keys = (l x); lo_last =
          x.lo_last })) (fun _ -> app o.lo_keys (key :: [])) o) s.st_locks) s
  | None -> s

(** val save : config -> sstate -> sstate **)

let save cfg s =
  if cfg.c_file
  then set (fun s0 -> s0.st_file) (fun f ->
         let o = fun r -> f r.st_file in
         (fun x -> { st_locks = x.st_locks; st_sessions = x.st_sessions;
         st_timers = x.st_timers; st_waiters = x.st_waiters; st_file = 
         (o x); st_now = x.st_now; st_gc_next = x.st_gc_next; st_shut =
         x.st_shut; st_used = x.st_used })) (fun _ -> Some s.st_sessions) s
  else s

(** val record_grant :
    config -> str -> str -> str -> z -> z option -> sstate -> sstate **)

let record_grant cfg sid name key size1 lt s =
  let l =
    from_option (Obj.magic id) []
      (lookup0
        (gmap_lookup (list_eq_dec0 byte_eq_dec0)
          (list_countable byte_eq_dec0 byte_countable)) sid s.st_sessions)
  in
  let s1 =
    save cfg
      (set (fun s0 -> s0.st_sessions) (fun f ->
        let g = fun r -> f r.st_sessions in
        (fun x -> { st_locks = x.st_locks; st_sessions = (g x); st_timers =
        x.st_timers; st_waiters = x.st_waiters; st_file = x.st_file; st_now =
        x.st_now; st_gc_next = x.st_gc_next; st_shut = x.st_shut; st_used =
        x.st_used })) (fun _ ->
        insert0
          (map_insert
            (gmap_partial_alter (list_eq_dec0 byte_eq_dec0)
              (list_countable byte_eq_dec0 byte_countable))) sid
          (app l ({ cl_name = name; cl_key = key; cl_size = size1 } :: []))
          s.st_sessions) s)
  in
  (match lt with
   | Some t0 ->
     if Z.ltb Z0 t0
     then set (fun s0 -> s0.st_timers) (fun f ->
            let g = fun r -> f r.st_timers in
            (fun x -> { st_locks = x.st_locks; st_sessions = x.st_sessions;
            st_timers = (g x); st_waiters = x.st_waiters; st_file =
            x.st_file; st_now = x.st_now; st_gc_next = x.st_gc_next;
            st_shut = x.st_shut; st_used = x.st_used })) (fun _ ->
            insert0
              (map_insert
                (gmap_partial_alter (list_eq_dec0 byte_eq_dec0)
                  (list_countable byte_eq_dec0 byte_countable)))
              (tkey name key) { tm_deadline =
              (Z.add s.st_now (Z.mul t0 second)); tm_name = name; tm_key =
              key; tm_sid = sid } s1.st_timers) s1
     else s1
   | None -> s1)

(** val is_hold : str -> str -> clock -> bool **)

let is_hold name key c =
  (&&) (bool_decide (decide_rel (list_eq_dec0 byte_eq_dec0) c.cl_name name))
    (bool_decide (decide_rel (list_eq_dec0 byte_eq_dec0) c.cl_key key))

(** val remove_lock_entry : config -> str -> str -> sstate -> sstate **)

let remove_lock_entry cfg name key s =
  let sess' =
    fmap
      (Obj.magic (fun _ _ ->
        gmap_fmap (list_eq_dec0 byte_eq_dec0)
          (list_countable byte_eq_dec0 byte_countable))) (fun l ->
      filter0 (fun _ -> list_filter) (fun x ->
        decide_rel bool_eq_dec (is_hold name key x) false) l) s.st_sessions
  in
  let s1 =
    set (fun s0 -> s0.st_sessions) (fun f ->
      let g = fun r -> f r.st_sessions in
      (fun x -> { st_locks = x.st_locks; st_sessions = (g x); st_timers =
      x.st_timers; st_waiters = x.st_waiters; st_file = x.st_file; st_now =
      x.st_now; st_gc_next = x.st_gc_next; st_shut = x.st_shut; st_used =
      x.st_used })) (fun _ -> sess') s
  in
  if existsb (fun pat -> let (_, l) = pat in existsb (is_hold name key) l)
       (map_to_list
         (gmap_to_list (list_eq_dec0 byte_eq_dec0)
           (list_countable byte_eq_dec0 byte_countable)) s.st_sessions)
  then save cfg s1
  else s1

(** val hand_off : config -> str -> sstate -> sstate * out list **)

let hand_off cfg name s =
  match lookup0
          (gmap_lookup (list_eq_dec0 byte_eq_dec0)
            (list_countable byte_eq_dec0 byte_countable)) name s.st_locks with
  | Some o ->
    (match name_waiters name s.st_waiters with
     | [] -> (s, [])
     | w :: _ ->
       if bool_decide
            (decide_rel Coq_Z.lt_dec (Z.of_nat (length o.lo_keys)) o.lo_size)
       then let s1 = add_key name w.w_key s in
            let s2 =
              set (fun s0 -> s0.st_waiters) (fun f ->
                let l = fun r -> f r.st_waiters in
                (fun x -> { st_locks = x.st_locks; st_sessions =
                x.st_sessions; st_timers = x.st_timers; st_waiters = 
                (l x); st_file = x.st_file; st_now = x.st_now; st_gc_next =
                x.st_gc_next; st_shut = x.st_shut; st_used = x.st_used }))
                (fun _ ->
                filter0 (fun _ -> list_filter) (fun x ->
                  is_true_dec
                    (bool_decide
                      (not_dec (decide_rel Coq0_Nat.eq_dec x.w_id w.w_id))))
                  s1.st_waiters) s1
            in
            let s3 = record_grant cfg w.w_sid name w.w_key w.w_size w.w_lt s2
            in
            (s3, ((OWaiter (w.w_id, s.st_now, (RLock (true, w.w_key,
            None)))) :: []))
       else (s, []))
  | None -> (s, [])

(** val remove_first : str -> str list -> str list **)

let rec remove_first k = function
| [] -> []
| x :: l' ->
  if bool_decide (decide_rel (list_eq_dec0 byte_eq_dec0) x k)
  then l'
  else x :: (remove_first k l')

(** val mgr_unlock :
    config -> str -> str -> sstate -> (sstate * (err, unit) sum) * out list **)

let mgr_unlock cfg name key s =
  match lookup0
          (gmap_lookup (list_eq_dec0 byte_eq_dec0)
            (list_countable byte_eq_dec0 byte_countable)) name s.st_locks with
  | Some o ->
    let o1 =
      set (fun l -> l.lo_last) (fun f ->
        let z0 = fun r -> f r.lo_last in
        (fun x -> { lo_size = x.lo_size; lo_keys = x.lo_keys; lo_last =
        (z0 x) })) (fun _ -> s.st_now) o
    in
    if bool_decide
         (decide_rel (elem_of_list_dec (list_eq_dec0 byte_eq_dec0)) key
           o.lo_keys)
    then let o2 =
           set (fun l -> l.lo_keys) (fun f ->
             let l = fun r -> f r.lo_keys in
             (fun x -> { lo_size = x.lo_size; lo_keys = (l x); lo_last =
             x.lo_last })) (fun _ -> remove_first key o.lo_keys) o1
         in
         let s1 =
           set (fun s0 -> s0.st_locks) (fun f ->
             let g = fun r -> f r.st_locks in
             (fun x -> { st_locks = (g x); st_sessions = x.st_sessions;
             st_timers = x.st_timers; st_waiters = x.st_waiters; st_file =
             x.st_file; st_now = x.st_now; st_gc_next = x.st_gc_next;
             st_shut = x.st_shut; st_used = x.st_used })) (fun _ ->
             insert0
               (map_insert
                 (gmap_partial_alter (list_eq_dec0 byte_eq_dec0)
                   (list_countable byte_eq_dec0 byte_countable))) name o2
               s.st_locks) s
         in
         let (s2, outs) = hand_off cfg name s1 in ((s2, (Inr ())), outs)
    else (((set (fun s0 -> s0.st_locks) (fun f ->
             let g = fun r -> f r.st_locks in
             (fun x -> { st_locks = (g x); st_sessions = x.st_sessions;
             st_timers = x.st_timers; st_waiters = x.st_waiters; st_file =
             x.st_file; st_now = x.st_now; st_gc_next = x.st_gc_next;
             st_shut = x.st_shut; st_used = x.st_used })) (fun _ ->
             insert0
               (map_insert
                 (gmap_partial_alter (list_eq_dec0 byte_eq_dec0)
                   (list_countable byte_eq_dec0 byte_countable))) name o1
               s.st_locks) s), (Inl ELockInvalidLockKey)), [])
  | None -> ((s, (Inl ELockDoesNotExist)), [])

(** val opt_neg : z option -> bool **)

let opt_neg = function
| Some v -> Z.ltb v Z0
| None -> false

(** val srv_acquire :
    config -> bool -> nat -> str -> str -> str -> z -> z option -> z option
    -> sstate -> sstate * out list **)

let srv_acquire cfg blocking wid sid name key size1 lt wt s =
  if bool_decide (list_eq_nil_dec name)
  then (s, ((OResp (RLock (false, key, (Some ESrvEmptyName)))) :: []))
  else (match get_lock_create name size1 s with
        | Inl e -> (s, ((OResp (RLock (false, key, (Some e)))) :: []))
        | Inr p ->
          let (o, s1) = p in
          if can_acquire name o s1
          then let s2 = add_key name key s1 in
               ((record_grant cfg sid name key size1 lt s2), ((OResp (RLock
               (true, key, None))) :: []))
          else if blocking
               then let dl =
                      match wt with
                      | Some t0 ->
                        if Z.ltb Z0 t0
                        then Some (Z.add s.st_now (Z.mul t0 second))
                        else None
                      | None -> None
                    in
                    ((set (fun s0 -> s0.st_waiters) (fun f ->
                       let l = fun r -> f r.st_waiters in
                       (fun x -> { st_locks = x.st_locks; st_sessions =
                       x.st_sessions; st_timers = x.st_timers; st_waiters =
                       (l x); st_file = x.st_file; st_now = x.st_now;
                       st_gc_next = x.st_gc_next; st_shut = x.st_shut;
                       st_used = x.st_used })) (fun _ ->
                       app s1.st_waiters ({ w_id = wid; w_sid = sid; w_name =
                         name; w_key = key; w_size = size1; w_lt = lt;
                         w_deadline = dl } :: [])) s1), ((OResp
                    RBlocked) :: []))
               else (s1, ((OResp (RLock (false, key, None))) :: [])))

(** val srv_trylock :
    config -> str option -> str -> z option -> z option -> str -> sstate ->
    sstate * out list **)

let srv_trylock cfg sid name size1 lt key s =
  match sid with
  | Some sid0 ->
    if opt_neg lt
    then (s, ((OResp (RLock (false, [], (Some
           ESrvInvalidLockTimeout)))) :: []))
    else srv_acquire cfg false O sid0 name key
           (from_option (Obj.magic id) (Zpos XH) size1) lt None
           (set (fun s0 -> s0.st_used) (fun f ->
             let l = fun r -> f r.st_used in
             (fun x -> { st_locks = x.st_locks; st_sessions = x.st_sessions;
             st_timers = x.st_timers; st_waiters = x.st_waiters; st_file =
             x.st_file; st_now = x.st_now; st_gc_next = x.st_gc_next;
             st_shut = x.st_shut; st_used = (l x) })) (fun _ ->
             key :: s.st_used) s)
  | None ->
    (s, ((OResp (RLock (false, [], (Some ESrvSessionDoesNotExist)))) :: []))

(** val srv_lock :
    config -> nat -> str option -> str -> z option -> z option -> z option ->
    str -> sstate -> sstate * out list **)

let srv_lock cfg wid sid name size1 lt wt key s =
  match sid with
  | Some sid0 ->
    if opt_neg lt
    then (s, ((OResp (RLock (false, [], (Some
           ESrvInvalidLockTimeout)))) :: []))
    else if opt_neg wt
         then (s, ((OResp (RLock (false, [], (Some
                ESrvInvalidWaitTimeout)))) :: []))
         else srv_acquire cfg true wid sid0 name key
                (from_option (Obj.magic id) (Zpos XH) size1) lt wt
                (set (fun s0 -> s0.st_used) (fun f ->
                  let l = fun r -> f r.st_used in
                  (fun x -> { st_locks = x.st_locks; st_sessions =
                  x.st_sessions; st_timers = x.st_timers; st_waiters =
                  x.st_waiters; st_file = x.st_file; st_now = x.st_now;
                  st_gc_next = x.st_gc_next; st_shut = x.st_shut; st_used =
                  (l x) })) (fun _ -> key :: s.st_used) s)
  | None ->
    (s, ((OResp (RLock (false, [], (Some ESrvSessionDoesNotExist)))) :: []))

(** val srv_unlock :
    config -> str -> str -> sstate -> (sstate * (bool * err option)) * out
    list **)

let srv_unlock cfg name key s =
  let s0 =
    set (fun s0 -> s0.st_timers) (fun f ->
      let g = fun r -> f r.st_timers in
      (fun x -> { st_locks = x.st_locks; st_sessions = x.st_sessions;
      st_timers = (g x); st_waiters = x.st_waiters; st_file = x.st_file;
      st_now = x.st_now; st_gc_next = x.st_gc_next; st_shut = x.st_shut;
      st_used = x.st_used })) (fun _ ->
      delete0
        (map_delete
          (gmap_partial_alter (list_eq_dec0 byte_eq_dec0)
            (list_countable byte_eq_dec0 byte_countable))) (tkey name key)
        s.st_timers) s
  in
  let (p, outs) = mgr_unlock cfg name key s0 in
  let (s1, s2) = p in
  (match s2 with
   | Inl e -> ((s1, (false, (Some e))), outs)
   | Inr _ -> (((remove_lock_entry cfg name key s1), (true, None)), outs))

(** val srv_renew : str -> str -> z -> sstate -> sstate * out list **)

let srv_renew name key lt s =
  if Z.leb lt Z0
  then (s, ((OResp (RLock (false, [], (Some ESrvInvalidLockTimeout)))) :: []))
  else (match lookup0
                (gmap_lookup (list_eq_dec0 byte_eq_dec0)
                  (list_countable byte_eq_dec0 byte_countable))
                (tkey name key) s.st_timers with
        | Some t0 ->
          ((set (fun s0 -> s0.st_timers) (fun f ->
             let g = fun r -> f r.st_timers in
             (fun x -> { st_locks = x.st_locks; st_sessions = x.st_sessions;
             st_timers = (g x); st_waiters = x.st_waiters; st_file =
             x.st_file; st_now = x.st_now; st_gc_next = x.st_gc_next;
             st_shut = x.st_shut; st_used = x.st_used })) (fun _ ->
             insert0
               (map_insert
                 (gmap_partial_alter (list_eq_dec0 byte_eq_dec0)
                   (list_countable byte_eq_dec0 byte_countable)))
               (tkey name key) { tm_deadline =
               (Z.add s.st_now (Z.mul lt second)); tm_name = t0.tm_name;
               tm_key = t0.tm_key; tm_sid = t0.tm_sid } s.st_timers) s),
            ((OResp (RLock (true, key, None))) :: []))
        | None ->
          (s, ((OResp (RLock (false, key, (Some
            ESrvDoesNotExistOrInvalidKey)))) :: [])))

(** val waiter_leave : waiter -> err -> sstate -> sstate * out list **)

let waiter_leave w e s =
  ((set (fun s0 -> s0.st_waiters) (fun f ->
     let l = fun r -> f r.st_waiters in
     (fun x -> { st_locks = x.st_locks; st_sessions = x.st_sessions;
     st_timers = x.st_timers; st_waiters = (l x); st_file = x.st_file;
     st_now = x.st_now; st_gc_next = x.st_gc_next; st_shut = x.st_shut;
     st_used = x.st_used })) (fun _ ->
     filter0 (fun _ -> list_filter) (fun x ->
       is_true_dec
         (bool_decide (not_dec (decide_rel Coq0_Nat.eq_dec x.w_id w.w_id))))
       s.st_waiters) s), ((OWaiter (w.w_id, s.st_now, (RLock (false, w.w_key,
    (Some e))))) :: []))

(** val cancel_waiters :
    (waiter -> bool) -> err -> sstate -> sstate * out list **)

let cancel_waiters p e s =
  fold_left (fun pat w ->
    let (s0, outs) = pat in
    let (s', o) = waiter_leave w e s0 in (s', (app outs o)))
    (filter0 (fun _ -> list_filter) (fun x ->
      decide_rel bool_eq_dec (p x) true) s.st_waiters) (s, [])

(** val destroy_session : config -> str -> sstate -> sstate * out list **)

let destroy_session cfg sid s =
  if s.st_shut
  then (s, [])
  else (match lookup0
                (gmap_lookup (list_eq_dec0 byte_eq_dec0)
                  (list_countable byte_eq_dec0 byte_countable)) sid
                s.st_sessions with
        | Some locks ->
          if (&&) cfg.c_noclear (negb (bool_decide (list_eq_nil_dec locks)))
          then (s, [])
          else let s1 =
                 save cfg
                   (set (fun s0 -> s0.st_sessions) (fun f ->
                     let g = fun r -> f r.st_sessions in
                     (fun x -> { st_locks = x.st_locks; st_sessions = 
                     (g x); st_timers = x.st_timers; st_waiters =
                     x.st_waiters; st_file = x.st_file; st_now = x.st_now;
                     st_gc_next = x.st_gc_next; st_shut = x.st_shut;
                     st_used = x.st_used })) (fun _ ->
                     delete0
                       (map_delete
                         (gmap_partial_alter (list_eq_dec0 byte_eq_dec0)
                           (list_countable byte_eq_dec0 byte_countable))) sid
                       s.st_sessions) s)
               in
               if cfg.c_noclear
               then (s1, [])
               else fold_left (fun pat c ->
                      let (s0, outs) = pat in
                      let (p, o) = mgr_unlock cfg c.cl_name c.cl_key s0 in
                      let (s', s2) = p in
                      (match s2 with
                       | Inl _ -> (s', (app outs o))
                       | Inr _ ->
                         ((set (fun s3 -> s3.st_timers) (fun f ->
                            let g = fun r -> f r.st_timers in
                            (fun x -> { st_locks = x.st_locks; st_sessions =
                            x.st_sessions; st_timers = (g x); st_waiters =
                            x.st_waiters; st_file = x.st_file; st_now =
                            x.st_now; st_gc_next = x.st_gc_next; st_shut =
                            x.st_shut; st_used = x.st_used })) (fun _ ->
                            delete0
                              (map_delete
                                (gmap_partial_alter
                                  (list_eq_dec0 byte_eq_dec0)
                                  (list_countable byte_eq_dec0 byte_countable)))
                              (tkey c.cl_name c.cl_key) s'.st_timers) s'),
                           (app outs o)))) locks (s1, [])
        | None -> (s, []))

(** val disconnect : config -> str -> sstate -> sstate * out list **)

let disconnect cfg sid s =
  let (s1, o1) =
    cancel_waiters (fun w ->
      bool_decide (decide_rel (list_eq_dec0 byte_eq_dec0) w.w_sid sid))
      ECtxCanceled s
  in
  let (s2, o2) = destroy_session cfg sid s1 in (s2, (app o1 o2))

(** val expire : config -> str -> timer -> sstate -> sstate * out list **)

let expire cfg tk t0 s =
  let (p, outs) = mgr_unlock cfg t0.tm_name t0.tm_key s in
  let (s1, _) = p in
  let s2 = remove_lock_entry cfg t0.tm_name t0.tm_key s1 in
  ((set (fun s0 -> s0.st_timers) (fun f ->
     let g = fun r -> f r.st_timers in
     (fun x -> { st_locks = x.st_locks; st_sessions = x.st_sessions;
     st_timers = (g x); st_waiters = x.st_waiters; st_file = x.st_file;
     st_now = x.st_now; st_gc_next = x.st_gc_next; st_shut = x.st_shut;
     st_used = x.st_used })) (fun _ ->
     delete0
       (map_delete
         (gmap_partial_alter (list_eq_dec0 byte_eq_dec0)
           (list_countable byte_eq_dec0 byte_countable))) tk s2.st_timers) s2),
  outs)

(** val gc_collectable :
    config -> z -> waiter list -> str -> lockobj -> bool **)

let gc_collectable cfg tick ws name o =
  (&&)
    ((&&) (bool_decide (list_eq_nil_dec o.lo_keys))
      (bool_decide (list_eq_nil_dec (name_waiters name ws))))
    (Z.ltb cfg.c_gc_minidle (Z.sub tick o.lo_last))

(** val run_gc_until : config -> z -> sstate -> sstate **)

let run_gc_until cfg t0 s =
  if Z.leb cfg.c_gc_interval Z0
  then s
  else if Z.leb s.st_gc_next t0
       then let k = Z.div (Z.sub t0 s.st_gc_next) cfg.c_gc_interval in
            let tick = Z.add s.st_gc_next (Z.mul k cfg.c_gc_interval) in
            set (fun s0 -> s0.st_gc_next) (fun f ->
              let z0 = fun r -> f r.st_gc_next in
              (fun x -> { st_locks = x.st_locks; st_sessions = x.st_sessions;
              st_timers = x.st_timers; st_waiters = x.st_waiters; st_file =
              x.st_file; st_now = x.st_now; st_gc_next = (z0 x); st_shut =
              x.st_shut; st_used = x.st_used })) (fun _ ->
              Z.add tick cfg.c_gc_interval)
              (set (fun s0 -> s0.st_locks) (fun f ->
                let g = fun r -> f r.st_locks in
                (fun x -> { st_locks = (g x); st_sessions = x.st_sessions;
                st_timers = x.st_timers; st_waiters = x.st_waiters; st_file =
                x.st_file; st_now = x.st_now; st_gc_next = x.st_gc_next;
                st_shut = x.st_shut; st_used = x.st_used })) (fun _ ->
                filter0 (fun _ ->
                  map_filter
                    (gmap_to_list (list_eq_dec0 byte_eq_dec0)
                      (list_countable byte_eq_dec0 byte_countable))
                    (map_insert
                      (gmap_partial_alter (list_eq_dec0 byte_eq_dec0)
                        (list_countable byte_eq_dec0 byte_countable)))
                    (gmap_empty (list_eq_dec0 byte_eq_dec0)
                      (list_countable byte_eq_dec0 byte_countable)))
                  (uncurry_dec (fun x y ->
                    decide_rel bool_eq_dec
                      (gc_collectable cfg tick s.st_waiters x y) false))
                  s.st_locks) s)
       else s

type due_item =
| DTimer of str * timer
| DWaiter of waiter

(** val due_time : due_item -> z **)

let due_time = function
| DTimer (_, t0) -> t0.tm_deadline
| DWaiter w -> from_option (Obj.magic id) Z0 w.w_deadline

(** val all_items : sstate -> due_item list **)

let all_items s =
  app
    (map (fun pat -> let (tk, t0) = pat in DTimer (tk, t0))
      (map_to_list
        (gmap_to_list (list_eq_dec0 byte_eq_dec0)
          (list_countable byte_eq_dec0 byte_countable)) s.st_timers))
    (map (fun x -> DWaiter x)
      (filter0 (fun _ -> list_filter) (fun x ->
        is_true_dec (bool_decide (not_dec (option_eq_None_dec x.w_deadline))))
        s.st_waiters))

(** val min_time : due_item list -> z option **)

let min_time = function
| [] -> None
| d :: l' ->
  Some (fold_left (fun m d' -> Z.min m (due_time d')) l' (due_time d))

(** val next_due : z -> sstate -> due_item list **)

let next_due target s =
  match min_time (all_items s) with
  | Some m ->
    if Z.leb m target
    then filter0 (fun _ -> list_filter) (fun x ->
           is_true_dec (Z.eqb (due_time x) m)) (all_items s)
    else []
  | None -> []

(** val fire : config -> due_item -> sstate -> sstate * out list **)

let fire cfg d s =
  match d with
  | DTimer (tk, t0) -> expire cfg tk t0 s
  | DWaiter w -> waiter_leave w ESrvLockWaitTimeout s

(** val finish_advance : config -> z -> sstate -> sstate **)

let finish_advance cfg target s =
  set (fun s0 -> s0.st_now) (fun f ->
    let z0 = fun r -> f r.st_now in
    (fun x -> { st_locks = x.st_locks; st_sessions = x.st_sessions;
    st_timers = x.st_timers; st_waiters = x.st_waiters; st_file = x.st_file;
    st_now = (z0 x); st_gc_next = x.st_gc_next; st_shut = x.st_shut;
    st_used = x.st_used })) (fun _ -> Z.max s.st_now target)
    (run_gc_until cfg target s)

(** val advance_loop :
    config -> nat -> z -> sstate -> out list -> (sstate * out list) list **)

let rec advance_loop cfg fuel target s outs =
  match fuel with
  | O -> ((finish_advance cfg target s), outs) :: []
  | S fuel' ->
    (match next_due target s with
     | [] -> ((finish_advance cfg target s), outs) :: []
     | d :: l ->
       flat_map (fun d0 ->
         let t0 = Z.max s.st_now (due_time d0) in
         let s1 =
           set (fun s0 -> s0.st_now) (fun f ->
             let z0 = fun r -> f r.st_now in
             (fun x -> { st_locks = x.st_locks; st_sessions = x.st_sessions;
             st_timers = x.st_timers; st_waiters = x.st_waiters; st_file =
             x.st_file; st_now = (z0 x); st_gc_next = x.st_gc_next; st_shut =
             x.st_shut; st_used = x.st_used })) (fun _ -> t0)
             (run_gc_until cfg t0 s)
         in
         let (s2, o) = fire cfg d0 s1 in
         advance_loop cfg fuel' target s2 (app outs o)) (d :: l))

(** val advance_fuel : sstate -> nat **)

let advance_fuel s =
  add
    (add
      (size0
        (map_size
          (gmap_to_list (list_eq_dec0 byte_eq_dec0)
            (list_countable byte_eq_dec0 byte_countable))) s.st_timers)
      (mul (S (S O)) (length s.st_waiters))) (S O)

(** val advance : config -> z -> sstate -> (sstate * out list) list **)

let advance cfg dt s =
  let target = Z.add s.st_now (Z.max Z0 dt) in
  advance_loop cfg (advance_fuel s) target s []

(** val restore_one : config -> str -> clock -> sstate -> sstate **)

let restore_one cfg sid c s =
  match get_lock_create c.cl_name c.cl_size s with
  | Inl _ -> remove_lock_entry cfg c.cl_name c.cl_key s
  | Inr p ->
    let (o, s1) = p in
    if can_acquire c.cl_name o s1
    then let s2 = add_key c.cl_name c.cl_key s1 in
         set (fun s0 -> s0.st_timers) (fun f ->
           let g = fun r -> f r.st_timers in
           (fun x -> { st_locks = x.st_locks; st_sessions = x.st_sessions;
           st_timers = (g x); st_waiters = x.st_waiters; st_file = x.st_file;
           st_now = x.st_now; st_gc_next = x.st_gc_next; st_shut = x.st_shut;
           st_used = x.st_used })) (fun _ ->
           insert0
             (map_insert
               (gmap_partial_alter (list_eq_dec0 byte_eq_dec0)
                 (list_countable byte_eq_dec0 byte_countable)))
             (tkey c.cl_name c.cl_key) { tm_deadline =
             (Z.add s.st_now cfg.c_default_lt); tm_name = c.cl_name; tm_key =
             c.cl_key; tm_sid = sid } s2.st_timers) s2
    else remove_lock_entry cfg c.cl_name c.cl_key s1

(** val reload_order : str list -> (str, clock list) gmap -> str list **)

let reload_order order m =
  let ks =
    map fst
      (map_to_list
        (gmap_to_list (list_eq_dec0 byte_eq_dec0)
          (list_countable byte_eq_dec0 byte_countable)) m)
  in
  if bool_decide
       (decide_rel (permutation_dec (list_eq_dec0 byte_eq_dec0)) order ks)
  then order
  else ks

(** val restart : config -> str list -> sstate -> (sstate * out list) list **)

let restart cfg order s =
  let m =
    if cfg.c_file
    then from_option (Obj.magic id)
           (empty0
             (gmap_empty (list_eq_dec0 byte_eq_dec0)
               (list_countable byte_eq_dec0 byte_countable))) s.st_file
    else empty0
           (gmap_empty (list_eq_dec0 byte_eq_dec0)
             (list_countable byte_eq_dec0 byte_countable))
  in
  let s0 = { st_locks =
    (empty0
      (gmap_empty (list_eq_dec0 byte_eq_dec0)
        (list_countable byte_eq_dec0 byte_countable))); st_sessions = m;
    st_timers =
    (empty0
      (gmap_empty (list_eq_dec0 byte_eq_dec0)
        (list_countable byte_eq_dec0 byte_countable))); st_waiters = [];
    st_file = (if cfg.c_file then s.st_file else None); st_now = s.st_now;
    st_gc_next = (Z.add s.st_now cfg.c_gc_interval); st_shut = false;
    st_used = s.st_used }
  in
  let s1 =
    fold_left (fun s1 sid ->
      fold_left (fun s2 c -> restore_one cfg sid c s2)
        (from_option (Obj.magic id) []
          (lookup0
            (gmap_lookup (list_eq_dec0 byte_eq_dec0)
              (list_countable byte_eq_dec0 byte_countable)) sid m)) s1)
      (reload_order order m) s0
  in
  advance_loop cfg (advance_fuel s1) s1.st_now s1 []

(** val shutdown : config -> sstate -> sstate * out list **)

let shutdown _ s =
  let s0 =
    set (fun s0 -> s0.st_shut) (fun f ->
      let b = fun r -> f r.st_shut in
      (fun x -> { st_locks = x.st_locks; st_sessions = x.st_sessions;
      st_timers = x.st_timers; st_waiters = x.st_waiters; st_file =
      x.st_file; st_now = x.st_now; st_gc_next = x.st_gc_next; st_shut =
      (b x); st_used = x.st_used })) (fun _ -> true) s
  in
  let (s1, o) = cancel_waiters (fun _ -> true) ECtxCanceled s0 in
  ((set (fun s2 -> s2.st_timers) (fun f ->
     let g = fun r -> f r.st_timers in
     (fun x -> { st_locks = x.st_locks; st_sessions = x.st_sessions;
     st_timers = (g x); st_waiters = x.st_waiters; st_file = x.st_file;
     st_now = x.st_now; st_gc_next = x.st_gc_next; st_shut = x.st_shut;
     st_used = x.st_used })) (fun _ ->
     empty0
       (gmap_empty (list_eq_dec0 byte_eq_dec0)
         (list_countable byte_eq_dec0 byte_countable))) s1), o)

(** val listing : sstate -> clock list **)

let listing s =
  concat
    (map snd
      (map_to_list
        (gmap_to_list (list_eq_dec0 byte_eq_dec0)
          (list_countable byte_eq_dec0 byte_countable)) s.st_sessions))

(** val file_view : sstate -> (str * clock list) list option **)

let file_view s =
  fmap (Obj.magic (fun _ _ -> option_fmap))
    (map_to_list
      (gmap_to_list (list_eq_dec0 byte_eq_dec0)
        (list_countable byte_eq_dec0 byte_countable))) (Obj.magic s.st_file)

(** val table_view : sstate -> (str * ((z * str list) * z)) list **)

let table_view s =
  map (fun pat ->
    let (n0, o) = pat in (n0, ((o.lo_size, o.lo_keys), o.lo_last)))
    (map_to_list
      (gmap_to_list (list_eq_dec0 byte_eq_dec0)
        (list_countable byte_eq_dec0 byte_countable)) s.st_locks)

(** val ipc_candidates : str -> sstate -> str list **)

let ipc_candidates name s =
  omap (Obj.magic (fun _ _ -> list_omap)) (fun pat ->
    let (_, l) = pat in
    fmap (Obj.magic (fun _ _ -> option_fmap)) (fun c -> c.cl_key)
      (last
        (filter0 (fun _ -> list_filter) (fun x ->
          is_true_dec
            (bool_decide
              (decide_rel (list_eq_dec0 byte_eq_dec0) x.cl_name name))) l)))
    (Obj.magic map_to_list
      (gmap_to_list (list_eq_dec0 byte_eq_dec0)
        (list_countable byte_eq_dec0 byte_countable)) s.st_sessions)

(** val ipc_unlock_with :
    config -> str -> str -> sstate -> sstate * out list **)

let ipc_unlock_with cfg name key s =
  let (p, outs) = srv_unlock cfg name key s in
  let (s', p0) = p in
  let (u, o) = p0 in
  (match o with
   | Some e -> (s', (app outs ((OIpcUnlock (None, (Some e))) :: [])))
   | None -> (s', (app outs ((OIpcUnlock ((Some u), None)) :: []))))

(** val ipc_unlock :
    config -> str -> str option -> sstate -> (sstate * out list) list **)

let ipc_unlock cfg name key s =
  match key with
  | Some k ->
    if bool_decide (list_eq_nil_dec k)
    then []
    else (ipc_unlock_with cfg name k s) :: []
  | None ->
    (match ipc_candidates name s with
     | [] -> (s, ((OIpcUnlock (None, (Some ELockDoesNotExist))) :: [])) :: []
     | s0 :: l ->
       map (fun k ->
         if bool_decide (list_eq_nil_dec k)
         then (s, ((OIpcUnlock (None, (Some ELockDoesNotExist))) :: []))
         else ipc_unlock_with cfg name k s) (s0 :: l))

(** val det : (sstate * out list) -> (sstate * out list) list **)

let det r =
  r :: []

(** val sstep : config -> sstate -> event -> (sstate * out list) list **)

let sstep cfg s = function
| EConnect sid ->
  det
    ((set (fun s0 -> s0.st_used) (fun f ->
       let l = fun r -> f r.st_used in
       (fun x -> { st_locks = x.st_locks; st_sessions = x.st_sessions;
       st_timers = x.st_timers; st_waiters = x.st_waiters; st_file =
       x.st_file; st_now = x.st_now; st_gc_next = x.st_gc_next; st_shut =
       x.st_shut; st_used = (l x) })) (fun _ -> sid :: s.st_used)
       (match lookup0
                (gmap_lookup (list_eq_dec0 byte_eq_dec0)
                  (list_countable byte_eq_dec0 byte_countable)) sid
                s.st_sessions with
        | Some _ -> s
        | None ->
          set (fun s0 -> s0.st_sessions) (fun f ->
            let g = fun r -> f r.st_sessions in
            (fun x -> { st_locks = x.st_locks; st_sessions = (g x);
            st_timers = x.st_timers; st_waiters = x.st_waiters; st_file =
            x.st_file; st_now = x.st_now; st_gc_next = x.st_gc_next;
            st_shut = x.st_shut; st_used = x.st_used })) (fun _ ->
            insert0
              (map_insert
                (gmap_partial_alter (list_eq_dec0 byte_eq_dec0)
                  (list_countable byte_eq_dec0 byte_countable))) sid []
              s.st_sessions) s)), [])
| EDisconnect sid -> det (disconnect cfg sid s)
| ETryLock (sid, name, size1, lt, key) ->
  det (srv_trylock cfg sid name size1 lt key s)
| ELock (wid, sid, name, size1, lt, wt, key) ->
  det (srv_lock cfg wid sid name size1 lt wt key s)
| EUnlock (_, name, key) ->
  let (p, outs) = srv_unlock cfg name key s in
  let (s', p0) = p in
  let (u, e) = p0 in det (s', (app outs ((OResp (RUnlock (u, e))) :: [])))
| ERenew (name, key, lt) -> det (srv_renew name key lt s)
| ECancel wid ->
  det
    (cancel_waiters (fun w ->
      bool_decide (decide_rel Coq0_Nat.eq_dec w.w_id wid)) ECtxCanceled s)
| EAdvance dt -> advance cfg dt s
| ERestart order -> restart cfg order s
| EShutdown -> det (shutdown cfg s)
| EProbe ->
  det (s, ((OListing (listing s)) :: ((OFile (file_view s)) :: ((OTable
    (table_view s)) :: []))))
| EIpcList -> det (s, ((OIpcList (listing s)) :: []))
| EIpcUnlock (name, key) -> ipc_unlock cfg name key s

(** val client_MinRenewSeconds : z **)

let client_MinRenewSeconds =
  Zpos (XO (XI (XO XH)))

(** val client_RetryDelaySeconds : z **)

let client_RetryDelaySeconds =
  Zpos (XI XH)

(** val renew_threshold : z **)

let renew_threshold =
  Zpos (XO (XI (XI (XI XH))))

(** val renew_subtract : z **)

let renew_subtract =
  Zpos (XO (XI (XI (XI XH))))

(** val renew_formula_recognised : bool **)

let renew_formula_recognised =
  true

(** val cfg_LockGcInterval_ns : z **)

let cfg_LockGcInterval_ns =
  Zpos (XO (XO (XO (XO (XO (XO (XO (XO (XO (XO (XO (XO (XI (XO (XI (XO (XO
    (XO (XI (XI (XI (XO (XI (XO (XO (XO (XO (XI (XI (XO (XO (XO (XI (XI (XO
    (XO (XO (XI (XO (XI XH))))))))))))))))))))))))))))))))))))))))

(** val cfg_LockGcMinIdle_ns : z **)

let cfg_LockGcMinIdle_ns =
  Zpos (XO (XO (XO (XO (XO (XO (XO (XO (XO (XO (XO (XI (XI (XI (XO (XI (XO
    (XO (XI (XO (XO (XI (XI (XO (XI (XO (XO (XI (XI (XO (XI (XI (XI (XO (XI
    (XO (XO (XO XH))))))))))))))))))))))))))))))))))))))

(** val cfg_DefaultLockTimeout_ns : z **)

let cfg_DefaultLockTimeout_ns =
  Zpos (XO (XO (XO (XO (XO (XO (XO (XO (XO (XO (XO (XO (XI (XI (XI (XO (XI
    (XO (XO (XI (XO (XO (XI (XI (XO (XI (XO (XO (XI (XI (XO (XI (XI (XI (XO
    (XI (XO (XO (XO XH)))))))))))))))))))))))))))))))))))))))

(** val cfg_NoClearOnDisconnect : bool **)

let cfg_NoClearOnDisconnect =
  false

(** val interval : z -> z **)

let interval t0 =
  if Z.leb t0 renew_threshold
  then client_MinRenewSeconds
  else Z.max (Z.sub t0 renew_subtract) client_MinRenewSeconds

type 'a toutcome =
| TOk of 'a
| TUnavailable
| TOtherErr of z

(** val retry_loop :
    z -> z -> 'a1 toutcome list -> ('a1 toutcome option * nat) * z list **)

let rec retry_loop maxr retries = function
| [] -> ((None, O), [])
| o :: rest ->
  (match o with
   | TUnavailable ->
     if Z.leb maxr retries
     then (((Some o), (S O)), [])
     else let (p, s) = retry_loop maxr (Z.add retries (Zpos XH)) rest in
          let (r, c) = p in ((r, (S c)), (client_RetryDelaySeconds :: s))
   | _ -> (((Some o), (S O)), []))

(** val rpc_with_retry :
    z -> 'a1 toutcome list -> ('a1 toutcome option * nat) * z list **)

let rpc_with_retry n0 outs =
  retry_loop n0 Z0 outs

type stage =
| StPre
| StPost
| StBoth

type answer =
| AOk
| AErr of err option

type pc =
| PSleep of z
| PInRenew of z * answer option
| PExited

type renewer = { r_pc : pc; r_arm : stage option; r_eff : z; r_stopreq : bool }

type hold = { h_name : str; h_key : str; h_T : z; h_locked : bool;
              h_unl : bool; h_ren : renewer option }

type crash =
| CrOutOfSync of nat
| CrRenewFailed of nat
| CrSendClosed of nat

type rpckind =
| KLock
| KTryLock
| KUnlock
| KRenew

type tev =
| TRpc of rpckind * nat * str * str * z * z * bool * err option
| TRpcFail of rpckind * nat * z
| TUnlockRet of nat * z
| TCloseRet of z
| TCrash of crash * z
| TParked of nat * z
| TCompete of str * bool * z
| TProbe of (str * str) list * z

type cstate = { cs_srv : sstate; cs_map : (str, nat) gmap;
                cs_holds : hold list; cs_crashed : crash option;
                cs_closed : bool; cs_parked : bool; cs_ncomp : nat;
                cs_trace : tev list }

(** val cs_holds : cstate -> hold list **)

let cs_holds c =
  c.cs_holds

(** val cs_crashed : cstate -> crash option **)

let cs_crashed c =
  c.cs_crashed

(** val cs_parked : cstate -> bool **)

let cs_parked c =
  c.cs_parked

(** val cs_trace : cstate -> tev list **)

let cs_trace c =
  c.cs_trace

type ccfg = { cc_noauto : bool; cc_maxretries : z }

(** val srv_cfg : config **)

let srv_cfg =
  { c_noclear = cfg_NoClearOnDisconnect; c_file = false; c_gc_interval =
    cfg_LockGcInterval_ns; c_gc_minidle = cfg_LockGcMinIdle_ns;
    c_default_lt = cfg_DefaultLockTimeout_ns }

(** val csid : str **)

let csid =
  X63 :: []

(** val xsid : str **)

let xsid =
  X78 :: []

(** val key_of : nat -> str **)

let key_of j =
  X6b :: (itoa j)

(** val xkey_of : nat -> str **)

let xkey_of n0 =
  X78 :: (itoa n0)

(** val srv_event : event -> sstate -> sstate * out list **)

let srv_event ev s =
  match sstep srv_cfg s ev with
  | [] -> (s, [])
  | x :: _ -> x

(** val srv_init : sstate **)

let srv_init =
  fst
    (srv_event (EConnect xsid)
      (fst (srv_event (EConnect csid) (init_state srv_cfg))))

(** val cinit : cstate **)

let cinit =
  { cs_srv = srv_init; cs_map =
    (empty0
      (gmap_empty (list_eq_dec0 byte_eq_dec0)
        (list_countable byte_eq_dec0 byte_countable))); cs_holds = [];
    cs_crashed = None; cs_closed = false; cs_parked = false; cs_ncomp = O;
    cs_trace = [] }

(** val now : cstate -> z **)

let now st =
  st.cs_srv.st_now

(** val emit : tev -> cstate -> cstate **)

let emit e st =
  set (fun c -> c.cs_trace) (fun f ->
    let l = fun r -> f r.cs_trace in
    (fun x -> { cs_srv = x.cs_srv; cs_map = x.cs_map; cs_holds = x.cs_holds;
    cs_crashed = x.cs_crashed; cs_closed = x.cs_closed; cs_parked =
    x.cs_parked; cs_ncomp = x.cs_ncomp; cs_trace = (l x) })) (fun _ ->
    app st.cs_trace (e :: [])) st

(** val do_crash : crash -> cstate -> cstate **)

let do_crash c st =
  emit (TCrash (c, (now st)))
    (set (fun c0 -> c0.cs_crashed) (fun f ->
      let o = fun r -> f r.cs_crashed in
      (fun x -> { cs_srv = x.cs_srv; cs_map = x.cs_map; cs_holds =
      x.cs_holds; cs_crashed = (o x); cs_closed = x.cs_closed; cs_parked =
      x.cs_parked; cs_ncomp = x.cs_ncomp; cs_trace = x.cs_trace })) (fun _ ->
      Some c) st)

(** val optpos : z -> z option **)

let optpos z0 =
  if Z.ltb Z0 z0 then Some z0 else None

(** val set_ren : nat -> (renewer -> renewer) -> cstate -> cstate **)

let set_ren j f st =
  match lookup0 list_lookup j st.cs_holds with
  | Some h ->
    set (fun c -> c.cs_holds) (fun f0 ->
      let l = fun r -> f0 r.cs_holds in
      (fun x -> { cs_srv = x.cs_srv; cs_map = x.cs_map; cs_holds = (l x);
      cs_crashed = x.cs_crashed; cs_closed = x.cs_closed; cs_parked =
      x.cs_parked; cs_ncomp = x.cs_ncomp; cs_trace = x.cs_trace })) (fun _ ->
      insert0 list_insert j
        (set (fun h0 -> h0.h_ren) (fun f0 ->
          let o = fun r -> f0 r.h_ren in
          (fun x -> { h_name = x.h_name; h_key = x.h_key; h_T = x.h_T;
          h_locked = x.h_locked; h_unl = x.h_unl; h_ren = (o x) })) (fun _ ->
          fmap (Obj.magic (fun _ _ -> option_fmap)) f h.h_ren) h) st.cs_holds)
      st
  | None -> st

(** val ren_of : cstate -> nat -> renewer option **)

let ren_of st j =
  mbind (Obj.magic (fun _ _ -> option_bind)) (fun h -> h.h_ren)
    (lookup0 (Obj.magic list_lookup) j st.cs_holds)

(** val stop_renewer : nat -> cstate -> cstate **)

let stop_renewer j st =
  match ren_of st j with
  | Some r ->
    (match r.r_pc with
     | PSleep _ ->
       set_ren j (fun r0 ->
         set (fun r1 -> r1.r_stopreq) (fun f ->
           let b = fun r1 -> f r1.r_stopreq in
           (fun x -> { r_pc = x.r_pc; r_arm = x.r_arm; r_eff = x.r_eff;
           r_stopreq = (b x) })) (fun _ -> true)
           (set (fun r1 -> r1.r_pc) (fun f ->
             let p = fun r1 -> f r1.r_pc in
             (fun x -> { r_pc = (p x); r_arm = x.r_arm; r_eff = x.r_eff;
             r_stopreq = x.r_stopreq })) (fun _ -> PExited) r0)) st
     | PInRenew (_, _) ->
       set_ren j (fun r0 ->
         set (fun r1 -> r1.r_stopreq) (fun f ->
           let b = fun r1 -> f r1.r_stopreq in
           (fun x -> { r_pc = x.r_pc; r_arm = x.r_arm; r_eff = x.r_eff;
           r_stopreq = (b x) })) (fun _ -> true) r0) st
     | PExited -> do_crash (CrSendClosed j) st)
  | None -> st

(** val acquire_event : bool -> nat -> str -> z -> z -> event **)

let acquire_event blocking j name t0 size1 =
  if blocking
  then ELock (j, (Some csid), name, (optpos size1), (optpos t0), None,
         (key_of j))
  else ETryLock ((Some csid), name, (optpos size1), (optpos t0), (key_of j))

(** val do_acquire : ccfg -> bool -> str -> z -> z -> cstate -> cstate **)

let do_acquire cc blocking name t0 size1 st =
  let j = length st.cs_holds in
  let k = if blocking then KLock else KTryLock in
  if st.cs_closed
  then emit (TRpcFail (k, j, (now st)))
         (set (fun c -> c.cs_holds) (fun f ->
           let l = fun r -> f r.cs_holds in
           (fun x -> { cs_srv = x.cs_srv; cs_map = x.cs_map; cs_holds =
           (l x); cs_crashed = x.cs_crashed; cs_closed = x.cs_closed;
           cs_parked = x.cs_parked; cs_ncomp = x.cs_ncomp; cs_trace =
           x.cs_trace })) (fun _ ->
           app st.cs_holds ({ h_name = name; h_key = []; h_T = t0; h_locked =
             false; h_unl = false; h_ren = None } :: [])) st)
  else let (srv', outs) =
         srv_event (acquire_event blocking j name t0 size1) st.cs_srv
       in
       (match outs with
        | [] ->
          emit (TParked (j, (now st)))
            (set (fun c -> c.cs_parked) (fun f ->
              let b = fun r -> f r.cs_parked in
              (fun x -> { cs_srv = x.cs_srv; cs_map = x.cs_map; cs_holds =
              x.cs_holds; cs_crashed = x.cs_crashed; cs_closed = x.cs_closed;
              cs_parked = (b x); cs_ncomp = x.cs_ncomp; cs_trace =
              x.cs_trace })) (fun _ -> true) st)
        | o :: _ ->
          (match o with
           | OResp r ->
             (match r with
              | RLock (locked, key, e) ->
                let st1 =
                  emit (TRpc (k, j, name, key, t0, (now st), locked, e))
                    (set (fun c -> c.cs_srv) (fun f ->
                      let s = fun r0 -> f r0.cs_srv in
                      (fun x -> { cs_srv = (s x); cs_map = x.cs_map;
                      cs_holds = x.cs_holds; cs_crashed = x.cs_crashed;
                      cs_closed = x.cs_closed; cs_parked = x.cs_parked;
                      cs_ncomp = x.cs_ncomp; cs_trace = x.cs_trace }))
                      (fun _ -> srv') st)
                in
                if (&&) ((&&) locked (negb cc.cc_noauto)) (negb (Z.eqb t0 Z0))
                then let r0 = { r_pc = (PSleep
                       (Z.add (now st) (Z.mul (interval t0) second)));
                       r_arm = None; r_eff = (now st); r_stopreq = false }
                     in
                     let st2 =
                       set (fun c -> c.cs_holds) (fun f ->
                         let l = fun r1 -> f r1.cs_holds in
                         (fun x -> { cs_srv = x.cs_srv; cs_map = x.cs_map;
                         cs_holds = (l x); cs_crashed = x.cs_crashed;
                         cs_closed = x.cs_closed; cs_parked = x.cs_parked;
                         cs_ncomp = x.cs_ncomp; cs_trace = x.cs_trace }))
                         (fun _ ->
                         app st1.cs_holds ({ h_name = name; h_key = key;
                           h_T = t0; h_locked = true; h_unl = false; h_ren =
                           (Some r0) } :: [])) st1
                     in
                     (match lookup0
                              (gmap_lookup (list_eq_dec0 byte_eq_dec0)
                                (list_countable byte_eq_dec0 byte_countable))
                              name st.cs_map with
                      | Some _ -> do_crash (CrOutOfSync j) st2
                      | None ->
                        set (fun c -> c.cs_map) (fun f ->
                          let g = fun r1 -> f r1.cs_map in
                          (fun x -> { cs_srv = x.cs_srv; cs_map = (g x);
                          cs_holds = x.cs_holds; cs_crashed = x.cs_crashed;
                          cs_closed = x.cs_closed; cs_parked = x.cs_parked;
                          cs_ncomp = x.cs_ncomp; cs_trace = x.cs_trace }))
                          (fun _ ->
                          insert0
                            (map_insert
                              (gmap_partial_alter (list_eq_dec0 byte_eq_dec0)
                                (list_countable byte_eq_dec0 byte_countable)))
                            name j st2.cs_map) st2)
                else set (fun c -> c.cs_holds) (fun f ->
                       let l = fun r0 -> f r0.cs_holds in
                       (fun x -> { cs_srv = x.cs_srv; cs_map = x.cs_map;
                       cs_holds = (l x); cs_crashed = x.cs_crashed;
                       cs_closed = x.cs_closed; cs_parked = x.cs_parked;
                       cs_ncomp = x.cs_ncomp; cs_trace = x.cs_trace }))
                       (fun _ ->
                       app st1.cs_holds ({ h_name = name; h_key = key; h_T =
                         t0; h_locked = locked; h_unl = false; h_ren =
                         None } :: [])) st1
              | _ ->
                emit (TParked (j, (now st)))
                  (set (fun c -> c.cs_parked) (fun f ->
                    let b = fun r0 -> f r0.cs_parked in
                    (fun x -> { cs_srv = x.cs_srv; cs_map = x.cs_map;
                    cs_holds = x.cs_holds; cs_crashed = x.cs_crashed;
                    cs_closed = x.cs_closed; cs_parked = (b x); cs_ncomp =
                    x.cs_ncomp; cs_trace = x.cs_trace })) (fun _ -> true) st))
           | _ ->
             emit (TParked (j, (now st)))
               (set (fun c -> c.cs_parked) (fun f ->
                 let b = fun r -> f r.cs_parked in
                 (fun x -> { cs_srv = x.cs_srv; cs_map = x.cs_map; cs_holds =
                 x.cs_holds; cs_crashed = x.cs_crashed; cs_closed =
                 x.cs_closed; cs_parked = (b x); cs_ncomp = x.cs_ncomp;
                 cs_trace = x.cs_trace })) (fun _ -> true) st)))

(** val do_unlock : ccfg -> nat -> cstate -> cstate **)

let do_unlock cc j st =
  match lookup0 list_lookup j st.cs_holds with
  | Some h ->
    if negb h.h_locked
    then st
    else let st1 =
           if cc.cc_noauto
           then st
           else (match lookup0
                         (gmap_lookup (list_eq_dec0 byte_eq_dec0)
                           (list_countable byte_eq_dec0 byte_countable))
                         h.h_name st.cs_map with
                 | Some i ->
                   stop_renewer i
                     (set (fun c -> c.cs_map) (fun f ->
                       let g = fun r -> f r.cs_map in
                       (fun x -> { cs_srv = x.cs_srv; cs_map = (g x);
                       cs_holds = x.cs_holds; cs_crashed = x.cs_crashed;
                       cs_closed = x.cs_closed; cs_parked = x.cs_parked;
                       cs_ncomp = x.cs_ncomp; cs_trace = x.cs_trace }))
                       (fun _ ->
                       delete0
                         (map_delete
                           (gmap_partial_alter (list_eq_dec0 byte_eq_dec0)
                             (list_countable byte_eq_dec0 byte_countable)))
                         h.h_name st.cs_map) st)
                 | None -> st)
         in
         (match st1.cs_crashed with
          | Some _ -> st1
          | None ->
            let st2 =
              if st1.cs_closed
              then emit (TRpcFail (KUnlock, j, (now st1))) st1
              else let (srv', outs) =
                     srv_event (EUnlock ((Some csid), h.h_name, h.h_key))
                       st1.cs_srv
                   in
                   (match last outs with
                    | Some o ->
                      (match o with
                       | OResp r ->
                         (match r with
                          | RUnlock (u, e) ->
                            emit (TRpc (KUnlock, j, h.h_name, h.h_key, Z0,
                              (now st1), u, e))
                              (set (fun c -> c.cs_srv) (fun f ->
                                let s = fun r0 -> f r0.cs_srv in
                                (fun x -> { cs_srv = (s x); cs_map =
                                x.cs_map; cs_holds = x.cs_holds; cs_crashed =
                                x.cs_crashed; cs_closed = x.cs_closed;
                                cs_parked = x.cs_parked; cs_ncomp =
                                x.cs_ncomp; cs_trace = x.cs_trace }))
                                (fun _ -> srv') st1)
                          | _ ->
                            set (fun c -> c.cs_srv) (fun f ->
                              let s = fun r0 -> f r0.cs_srv in
                              (fun x -> { cs_srv = (s x); cs_map = x.cs_map;
                              cs_holds = x.cs_holds; cs_crashed =
                              x.cs_crashed; cs_closed = x.cs_closed;
                              cs_parked = x.cs_parked; cs_ncomp = x.cs_ncomp;
                              cs_trace = x.cs_trace })) (fun _ -> srv') st1)
                       | _ ->
                         set (fun c -> c.cs_srv) (fun f ->
                           let s = fun r -> f r.cs_srv in
                           (fun x -> { cs_srv = (s x); cs_map = x.cs_map;
                           cs_holds = x.cs_holds; cs_crashed = x.cs_crashed;
                           cs_closed = x.cs_closed; cs_parked = x.cs_parked;
                           cs_ncomp = x.cs_ncomp; cs_trace = x.cs_trace }))
                           (fun _ -> srv') st1)
                    | None ->
                      set (fun c -> c.cs_srv) (fun f ->
                        let s = fun r -> f r.cs_srv in
                        (fun x -> { cs_srv = (s x); cs_map = x.cs_map;
                        cs_holds = x.cs_holds; cs_crashed = x.cs_crashed;
                        cs_closed = x.cs_closed; cs_parked = x.cs_parked;
                        cs_ncomp = x.cs_ncomp; cs_trace = x.cs_trace }))
                        (fun _ -> srv') st1)
            in
            let st3 =
              match lookup0 list_lookup j st2.cs_holds with
              | Some h2 ->
                set (fun c -> c.cs_holds) (fun f ->
                  let l = fun r -> f r.cs_holds in
                  (fun x -> { cs_srv = x.cs_srv; cs_map = x.cs_map;
                  cs_holds = (l x); cs_crashed = x.cs_crashed; cs_closed =
                  x.cs_closed; cs_parked = x.cs_parked; cs_ncomp =
                  x.cs_ncomp; cs_trace = x.cs_trace })) (fun _ ->
                  insert0 list_insert j
                    (set (fun h0 -> h0.h_unl) (fun f ->
                      let b = fun r -> f r.h_unl in
                      (fun x -> { h_name = x.h_name; h_key = x.h_key; h_T =
                      x.h_T; h_locked = x.h_locked; h_unl = (b x); h_ren =
                      x.h_ren })) (fun _ -> true) h2) st2.cs_holds) st2
              | None -> st2
            in
            emit (TUnlockRet (j, (now st3))) st3)
  | None -> st

(** val stop_all : nat list -> cstate -> cstate **)

let rec stop_all l st =
  match l with
  | [] -> st
  | i :: l' ->
    (match st.cs_crashed with
     | Some _ -> st
     | None -> stop_all l' (stop_renewer i st))

(** val do_close : cstate -> cstate **)

let do_close st =
  let st1 =
    stop_all
      (map snd
        (map_to_list
          (gmap_to_list (list_eq_dec0 byte_eq_dec0)
            (list_countable byte_eq_dec0 byte_countable)) st.cs_map)) st
  in
  (match st1.cs_crashed with
   | Some _ -> st1
   | None ->
     emit (TCloseRet (now st1))
       (set (fun c -> c.cs_closed) (fun f ->
         let b = fun r -> f r.cs_closed in
         (fun x -> { cs_srv = x.cs_srv; cs_map = x.cs_map; cs_holds =
         x.cs_holds; cs_crashed = x.cs_crashed; cs_closed = (b x);
         cs_parked = x.cs_parked; cs_ncomp = x.cs_ncomp; cs_trace =
         x.cs_trace })) (fun _ -> true) st1))

(** val ren_send : nat -> cstate -> cstate **)

let ren_send j st =
  match lookup0 list_lookup j st.cs_holds with
  | Some h ->
    (match h.h_ren with
     | Some r ->
       (match r.r_pc with
        | PInRenew (u, ans) ->
          (match ans with
           | Some _ -> st
           | None ->
             if st.cs_closed
             then emit (TRpcFail (KRenew, j, (now st)))
                    (set_ren j (fun r0 ->
                      set (fun r1 -> r1.r_pc) (fun f ->
                        let p = fun r1 -> f r1.r_pc in
                        (fun x -> { r_pc = (p x); r_arm = x.r_arm; r_eff =
                        x.r_eff; r_stopreq = x.r_stopreq })) (fun _ ->
                        PInRenew (u, (Some (AErr None)))) r0) st)
             else let (srv', outs) =
                    srv_event (ERenew (h.h_name, h.h_key, h.h_T)) st.cs_srv
                  in
                  (match outs with
                   | [] -> st
                   | o :: _ ->
                     (match o with
                      | OResp r0 ->
                        (match r0 with
                         | RLock (locked, _, e) ->
                           let a = match e with
                                   | Some _ -> AErr e
                                   | None -> AOk
                           in
                           let st1 =
                             set_ren j (fun r1 ->
                               set (fun r2 -> r2.r_eff) (fun f ->
                                 let z0 = fun r2 -> f r2.r_eff in
                                 (fun x -> { r_pc = x.r_pc; r_arm = x.r_arm;
                                 r_eff = (z0 x); r_stopreq = x.r_stopreq }))
                                 (fun _ ->
                                 match e with
                                 | Some _ -> r1.r_eff
                                 | None -> now st)
                                 (set (fun r2 -> r2.r_pc) (fun f ->
                                   let p = fun r2 -> f r2.r_pc in
                                   (fun x -> { r_pc = (p x); r_arm = x.r_arm;
                                   r_eff = x.r_eff; r_stopreq = x.r_stopreq }))
                                   (fun _ -> PInRenew (u, (Some a))) r1))
                               (set (fun c -> c.cs_srv) (fun f ->
                                 let s = fun r1 -> f r1.cs_srv in
                                 (fun x -> { cs_srv = (s x); cs_map =
                                 x.cs_map; cs_holds = x.cs_holds;
                                 cs_crashed = x.cs_crashed; cs_closed =
                                 x.cs_closed; cs_parked = x.cs_parked;
                                 cs_ncomp = x.cs_ncomp; cs_trace =
                                 x.cs_trace })) (fun _ -> srv') st)
                           in
                           emit (TRpc (KRenew, j, h.h_name, h.h_key, h.h_T,
                             (now st), locked, e)) st1
                         | _ -> st)
                      | _ -> st)))
        | _ -> st)
     | None -> st)
  | None -> st

(** val ren_recv : nat -> cstate -> cstate **)

let ren_recv j st =
  match lookup0 list_lookup j st.cs_holds with
  | Some h ->
    (match h.h_ren with
     | Some r ->
       (match r.r_pc with
        | PInRenew (_, ans) ->
          (match ans with
           | Some a ->
             (match a with
              | AOk ->
                set_ren j (fun r0 ->
                  set (fun r1 -> r1.r_pc) (fun f ->
                    let p = fun r1 -> f r1.r_pc in
                    (fun x -> { r_pc = (p x); r_arm = x.r_arm; r_eff =
                    x.r_eff; r_stopreq = x.r_stopreq })) (fun _ -> PSleep
                    (Z.add (now st) (Z.mul (interval h.h_T) second))) r0) st
              | AErr _ -> do_crash (CrRenewFailed j) st)
           | None -> st)
        | _ -> st)
     | None -> st)
  | None -> st

(** val arm_of : cstate -> nat -> stage option **)

let arm_of st j =
  mbind (Obj.magic (fun _ _ -> option_bind)) (fun r -> r.r_arm)
    (Obj.magic ren_of st j)

(** val set_arm : nat -> stage option -> cstate -> cstate **)

let set_arm j a st =
  set_ren j (fun r ->
    set (fun r0 -> r0.r_arm) (fun f ->
      let o = fun r0 -> f r0.r_arm in
      (fun x -> { r_pc = x.r_pc; r_arm = (o x); r_eff = x.r_eff; r_stopreq =
      x.r_stopreq })) (fun _ -> a) r) st

(** val ren_send_on : nat -> cstate -> cstate **)

let ren_send_on j st =
  let st1 = ren_send j st in
  (match arm_of st1 j with
   | Some s ->
     (match s with
      | StPost -> set_arm j None st1
      | _ -> ren_recv j st1)
   | None -> ren_recv j st1)

(** val ren_fire : nat -> cstate -> cstate **)

let ren_fire j st =
  let st0 =
    set_ren j (fun r ->
      set (fun r0 -> r0.r_pc) (fun f ->
        let p = fun r0 -> f r0.r_pc in
        (fun x -> { r_pc = (p x); r_arm = x.r_arm; r_eff = x.r_eff;
        r_stopreq = x.r_stopreq })) (fun _ -> PInRenew ((now st), None)) r) st
  in
  (match arm_of st0 j with
   | Some s ->
     (match s with
      | StPre -> set_arm j None st0
      | StPost -> ren_send_on j st0
      | StBoth -> set_arm j (Some StPost) st0)
   | None -> ren_send_on j st0)

(** val do_step : nat -> cstate -> cstate **)

let do_step j st =
  match ren_of st j with
  | Some r ->
    (match r.r_pc with
     | PInRenew (_, ans) ->
       (match ans with
        | Some _ -> ren_recv j st
        | None -> ren_send_on j st)
     | _ -> st)
  | None -> st

(** val srv_advance_to : z -> cstate -> cstate **)

let srv_advance_to t0 st =
  set (fun c -> c.cs_srv) (fun f ->
    let s = fun r -> f r.cs_srv in
    (fun x -> { cs_srv = (s x); cs_map = x.cs_map; cs_holds = x.cs_holds;
    cs_crashed = x.cs_crashed; cs_closed = x.cs_closed; cs_parked =
    x.cs_parked; cs_ncomp = x.cs_ncomp; cs_trace = x.cs_trace })) (fun _ ->
    fst (srv_event (EAdvance (Z.sub t0 (now st))) st.cs_srv)) st

(** val next_fire_from : nat -> hold list -> (nat * z) option **)

let rec next_fire_from j = function
| [] -> None
| h :: hs' ->
  let rest = next_fire_from (S j) hs' in
  (match h.h_ren with
   | Some r ->
     (match r.r_pc with
      | PSleep u ->
        (match rest with
         | Some p ->
           let (_, u') = p in if Z.ltb u' u then rest else Some (j, u)
         | None -> Some (j, u))
      | _ -> rest)
   | None -> rest)

(** val next_fire : cstate -> (nat * z) option **)

let next_fire st =
  next_fire_from O st.cs_holds

(** val adv_loop : nat -> z -> cstate -> cstate **)

let rec adv_loop fuel target st =
  match st.cs_crashed with
  | Some _ -> st
  | None ->
    (match fuel with
     | O -> st
     | S fuel' ->
       (match next_fire st with
        | Some p ->
          let (j, u) = p in
          if Z.leb u target
          then adv_loop fuel' target
                 (ren_fire j (srv_advance_to (Z.max u (now st)) st))
          else srv_advance_to target st
        | None -> srv_advance_to target st))

(** val adv_fuel : z -> cstate -> nat **)

let adv_fuel dt st =
  fold_right (fun h n0 ->
    add n0
      (match h.h_ren with
       | Some _ ->
         add
           (Z.to_nat
             (Z.div dt (Z.mul (Z.max (Zpos XH) (interval h.h_T)) second))) (S
           (S O))
       | None -> O)) (S O) st.cs_holds

(** val do_advance : z -> cstate -> cstate **)

let do_advance dt st =
  let dt0 = Z.max Z0 dt in adv_loop (adv_fuel dt0 st) (Z.add (now st) dt0) st

(** val do_compete : str -> z -> cstate -> cstate **)

let do_compete name size1 st =
  let k = xkey_of st.cs_ncomp in
  let (s1, outs) =
    srv_event (ETryLock ((Some xsid), name, (optpos size1), None, k))
      st.cs_srv
  in
  let granted =
    match outs with
    | [] -> false
    | o :: _ ->
      (match o with
       | OResp r -> (match r with
                     | RLock (locked, _, _) -> locked
                     | _ -> false)
       | _ -> false)
  in
  let s2 =
    if granted
    then fst (srv_event (EUnlock ((Some xsid), name, k)) s1)
    else s1
  in
  emit (TCompete (name, granted, (now st)))
    (set (fun c -> c.cs_ncomp) (fun f ->
      let n0 = fun r -> f r.cs_ncomp in
      (fun x -> { cs_srv = x.cs_srv; cs_map = x.cs_map; cs_holds =
      x.cs_holds; cs_crashed = x.cs_crashed; cs_closed = x.cs_closed;
      cs_parked = x.cs_parked; cs_ncomp = (n0 x); cs_trace = x.cs_trace }))
      (fun _ -> S st.cs_ncomp)
      (set (fun c -> c.cs_srv) (fun f ->
        let s = fun r -> f r.cs_srv in
        (fun x -> { cs_srv = (s x); cs_map = x.cs_map; cs_holds = x.cs_holds;
        cs_crashed = x.cs_crashed; cs_closed = x.cs_closed; cs_parked =
        x.cs_parked; cs_ncomp = x.cs_ncomp; cs_trace = x.cs_trace }))
        (fun _ -> s2) st))

(** val do_probe : cstate -> cstate **)

let do_probe st =
  emit (TProbe ((map (fun c -> (c.cl_name, c.cl_key)) (listing st.cs_srv)),
    (now st))) st

type item =
| ILock of str * z * z
| ITryLock of str * z * z
| IUnlock of nat
| IClose
| IAdvance of z
| IHold of nat * stage
| IStep of nat
| ICompete of str * z
| IProbe

(** val is_main_call : item -> bool **)

let is_main_call = function
| ILock (_, _, _) -> true
| ITryLock (_, _, _) -> true
| IUnlock _ -> true
| IClose -> true
| _ -> false

(** val step : ccfg -> cstate -> item -> cstate **)

let step cc st it =
  match st.cs_crashed with
  | Some _ -> st
  | None ->
    if (&&) st.cs_parked (is_main_call it)
    then st
    else (match it with
          | ILock (name, t0, size1) -> do_acquire cc true name t0 size1 st
          | ITryLock (name, t0, size1) -> do_acquire cc false name t0 size1 st
          | IUnlock j -> do_unlock cc j st
          | IClose -> do_close st
          | IAdvance dt -> do_advance dt st
          | IHold (j, s) -> set_arm j (Some s) st
          | IStep j -> do_step j st
          | ICompete (name, size1) -> do_compete name size1 st
          | IProbe -> do_probe st)

(** val run_from : ccfg -> cstate -> item list -> cstate **)

let run_from cc st sched =
  fold_left (step cc) sched st

(** val run : ccfg -> item list -> cstate **)

let run cc sched =
  run_from cc cinit sched

(** val any_pre :
    ccfg -> (cstate -> item -> bool) -> cstate -> item list -> bool **)

let rec any_pre cc p st = function
| [] -> false
| it :: rest -> (||) (p st it) (any_pre cc p (step cc st it) rest)

(** val active : cstate -> bool **)

let active st =
  (&&) (negb (bool_decide (not_dec (option_eq_None_dec st.cs_crashed))))
    (negb st.cs_parked)

(** val in_renew : cstate -> nat -> bool **)

let in_renew st i =
  match ren_of st i with
  | Some r -> (match r.r_pc with
               | PInRenew (_, _) -> true
               | _ -> false)
  | None -> false

(** val stopdrop_at : ccfg -> cstate -> item -> bool **)

let stopdrop_at cc st it =
  (&&) ((&&) (active st) (negb cc.cc_noauto))
    (match it with
     | IUnlock j ->
       (match lookup0 list_lookup j st.cs_holds with
        | Some h ->
          (&&) h.h_locked
            (match lookup0
                     (gmap_lookup (list_eq_dec0 byte_eq_dec0)
                       (list_countable byte_eq_dec0 byte_countable)) h.h_name
                     st.cs_map with
             | Some i -> in_renew st i
             | None -> false)
        | None -> false)
     | IClose ->
       existsb (fun pat -> let (_, i) = pat in in_renew st i)
         (map_to_list
           (gmap_to_list (list_eq_dec0 byte_eq_dec0)
             (list_countable byte_eq_dec0 byte_countable)) st.cs_map)
     | _ -> false)

(** val excluded_stopdrop : ccfg -> item list -> bool **)

let excluded_stopdrop cc sched =
  any_pre cc (stopdrop_at cc) cinit sched

(** val twin_of : str -> z -> hold -> bool **)

let twin_of name t0 h =
  (&&)
    ((&&)
      ((&&)
        (bool_decide (decide_rel (list_eq_dec0 byte_eq_dec0) h.h_name name))
        h.h_locked) (negb h.h_unl))
    ((||) (negb (Z.eqb t0 Z0)) (negb (Z.eqb h.h_T Z0)))

(** val granted_by : ccfg -> cstate -> item -> bool **)

let granted_by cc st it =
  match lookup0 list_lookup (length st.cs_holds) (step cc st it).cs_holds with
  | Some h -> h.h_locked
  | None -> false

(** val renewmap_at : ccfg -> cstate -> item -> bool **)

let renewmap_at cc st it =
  (&&) ((&&) ((&&) (active st) (negb cc.cc_noauto)) (negb st.cs_closed))
    (match it with
     | ILock (name, t0, _) ->
       (&&) (granted_by cc st it) (existsb (twin_of name t0) st.cs_holds)
     | ITryLock (name, t0, _) ->
       (&&) (granted_by cc st it) (existsb (twin_of name t0) st.cs_holds)
     | _ -> false)

(** val excluded_renewmap : ccfg -> item list -> bool **)

let excluded_renewmap cc sched =
  any_pre cc (renewmap_at cc) cinit sched

(** val misuse_at : cstate -> item -> bool **)

let misuse_at st it =
  (||) ((&&) st.cs_closed (is_main_call it))
    (match it with
     | IUnlock j ->
       (match lookup0 list_lookup j st.cs_holds with
        | Some h -> h.h_unl
        | None -> false)
     | _ -> false)

(** val wf_sched : ccfg -> item list -> bool **)

let wf_sched cc sched =
  negb (any_pre cc misuse_at cinit sched)

(** val slack : z -> z **)

let slack t0 =
  Z.mul (Z.sub t0 (interval t0)) second

(** val advance_ok_ren : z -> z -> renewer -> bool **)

let advance_ok_ren t0 target r =
  match r.r_pc with
  | PSleep u ->
    (match r.r_arm with
     | Some s ->
       (match s with
        | StPost -> (||) (Z.ltb target u) (Z.ltb (Z.sub target u) (slack t0))
        | _ ->
          (||) (Z.ltb target u)
            (Z.ltb
              (Z.sub (Z.sub target (Z.mul (interval t0) second)) r.r_eff)
              (slack t0)))
     | None -> true)
  | PInRenew (_, ans) ->
    (match ans with
     | Some _ -> Z.ltb (Z.sub target r.r_eff) (slack t0)
     | None ->
       Z.ltb (Z.sub (Z.sub target (Z.mul (interval t0) second)) r.r_eff)
         (slack t0))
  | PExited -> true

(** val timely_at : nat -> cstate -> item -> bool **)

let timely_at j st = function
| IAdvance dt ->
  (match lookup0 list_lookup j st.cs_holds with
   | Some h ->
     (match h.h_ren with
      | Some r -> advance_ok_ren h.h_T (Z.add (now st) (Z.max Z0 dt)) r
      | None -> true)
   | None -> true)
| _ -> true

(** val timely : ccfg -> nat -> item list -> bool **)

let timely cc j sched =
  negb (any_pre cc (fun st it -> negb (timely_at j st it)) cinit sched)

(** val keeps : nat -> item list -> bool **)

let keeps j sched =
  forallb (fun it ->
    match it with
    | IUnlock i -> negb (Nat.eqb i j)
    | IClose -> false
    | _ -> true) sched

(** val crash_by : crash -> nat **)

let crash_by = function
| CrOutOfSync j -> j
| CrRenewFailed j -> j
| CrSendClosed j -> j

(** val stop_auto : nat -> (bool * bool) -> tev -> bool * bool **)

let stop_auto j acc e =
  let (seen, ok) = acc in
  (match e with
   | TRpc (k, i, _, _, _, _, _, _) ->
     (match k with
      | KRenew -> (seen, ((&&) ok (negb ((&&) seen (Nat.eqb i j)))))
      | _ -> (seen, ok))
   | TRpcFail (k, i, _) ->
     (match k with
      | KRenew -> (seen, ((&&) ok (negb ((&&) seen (Nat.eqb i j)))))
      | _ -> (seen, ok))
   | TUnlockRet (i, _) -> (((||) seen (Nat.eqb i j)), ok)
   | TCrash (c, _) ->
     (seen, ((&&) ok (negb ((&&) seen (Nat.eqb (crash_by c) j)))))
   | _ -> (seen, ok))

(** val p_stop : nat -> tev list -> bool **)

let p_stop j tr =
  snd (fold_left (stop_auto j) tr (false, true))

(** val no_crash : tev list -> bool **)

let no_crash tr =
  forallb (fun e -> match e with
                    | TCrash (_, _) -> false
                    | _ -> true) tr

(** val renews_ok : tev list -> bool **)

let renews_ok tr =
  forallb (fun e ->
    match e with
    | TRpc (k, _, _, _, _, _, ok, _) ->
      (match k with
       | KRenew -> ok
       | _ -> true)
    | TRpcFail (k, _, _) -> (match k with
                             | KRenew -> false
                             | _ -> true)
    | _ -> true) tr

(** val lease_ok : cstate -> nat -> bool **)

let lease_ok st j =
  match lookup0 list_lookup j st.cs_holds with
  | Some h ->
    (match lookup0
             (gmap_lookup (list_eq_dec0 byte_eq_dec0)
               (list_countable byte_eq_dec0 byte_countable))
             (tkey h.h_name h.h_key) st.cs_srv.st_timers with
     | Some t0 -> Z.ltb (now st) t0.tm_deadline
     | None -> false)
  | None -> false

(** val held : cstate -> nat -> bool **)

let held st j =
  match lookup0 list_lookup j st.cs_holds with
  | Some h ->
    (match lookup0
             (gmap_lookup (list_eq_dec0 byte_eq_dec0)
               (list_countable byte_eq_dec0 byte_countable)) h.h_name
             st.cs_srv.st_locks with
     | Some o ->
       bool_decide
         (decide_rel (elem_of_list_dec (list_eq_dec0 byte_eq_dec0)) h.h_key
           o.lo_keys)
     | None -> false)
  | None -> false

(** val byte_to_N : byte -> n **)

let byte_to_N =
  to_N

(** val byte_of_N : n -> byte option **)

let byte_of_N =
  of_N

(** val retry_z :
    z -> unit toutcome list -> (unit toutcome option * nat) * z list **)

let retry_z =
  rpc_with_retry

(** val min_renew : z **)

let min_renew =
  client_MinRenewSeconds

(** val retry_delay : z **)

let retry_delay =
  client_RetryDelaySeconds
