#!/bin/sh
# Extracts Mclient (over Mseq) from the compiled Coq development and builds the model driver.
set -e
cd "$(dirname "$0")"
coqc -Q ../../coq Ldlm -w -notation-overridden,-extraction-opaque-accessed ../../coq/Extract/ClientExtract.v >/dev/null
rm -f ClientExtract.vo ClientExtract.glob ClientExtract.vos ClientExtract.vok .ClientExtract.aux
ocamlfind ocamlopt -O2 -w -a -package str clientmodel.mli clientmodel.ml driver.ml -o clientdriver 2>/dev/null || \
ocamlfind ocamlopt -w -a clientmodel.mli clientmodel.ml driver.ml -o clientdriver
