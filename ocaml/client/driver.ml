(* Model driver for the extracted client model (Model/Client.v over Model/Seq.v).

   usage: clientdriver <case file>
   Reads the case file of harness/clientdiff (same line format) and prints, for every schedule case, the trace the
   model produces in the format the harness writes, followed by the model's own verdicts:
     S <id> / <trace lines> / D <id>
     P <id> stopdrop=<0|1> renewmap=<0|1> wf=<0|1> crashed=<0|1> parked=<0|1> nocrash=<0|1> renewsok=<0|1>
            hold <j> pstop=<0|1> timely=<0|1> keeps=<0|1> lease=<0|1> held=<0|1> T=<T> locked=<0|1> ren=<0|1> ...
   and for every retry case
     ret <id> <final code | none> <calls> <sleep seconds ...>
   plus once  K min_renew=<n> retry_delay=<n> formula=<0|1> interval <T>=<i> ...
   Only parsing and printing happen here; every decision is made by extracted Coq code. *)
type ostring = string
open Clientmodel

let rec pos_of_int (i : int) : positive =
  if i = 1 then XH else if i land 1 = 0 then XO (pos_of_int (i lsr 1)) else XI (pos_of_int (i lsr 1))
let z_of_int (i : int) : z = if i = 0 then Z0 else if i > 0 then Zpos (pos_of_int i) else Zneg (pos_of_int (-i))
let n_of_int (i : int) : n = if i = 0 then N0 else Npos (pos_of_int i)
let rec int_of_pos = function XH -> 1 | XO p -> 2 * int_of_pos p | XI p -> 2 * int_of_pos p + 1
let int_of_z = function Z0 -> 0 | Zpos p -> int_of_pos p | Zneg p -> - (int_of_pos p)
let int_of_n = function N0 -> 0 | Npos p -> int_of_pos p
let rec nat_of_int i = if i <= 0 then O else S (nat_of_int (i - 1))
let rec int_of_nat = function O -> 0 | S n -> 1 + int_of_nat n

let byte_tbl : byte array = Array.init 256 (fun i -> match byte_of_N (n_of_int i) with Some b -> b | None -> assert false)
let str_of_ocaml (s : ostring) : byte list = List.init (String.length s) (fun i -> byte_tbl.(Char.code s.[i]))
let ocaml_of_str (l : byte list) : ostring =
  String.concat "" (List.map (fun b -> String.make 1 (Char.chr (int_of_n (byte_to_N b)))) l)

let b01 b = if b then "1" else "0"
let etok = function None -> "~" | Some _ -> "E"
let kind_tok = function KLock -> "lock" | KTryLock -> "try" | KUnlock -> "unlock" | KRenew -> "renew"
let key_tok locked k = if locked then ocaml_of_str k else "-"

let print_ev (e : tev) =
  match e with
  | TRpc (k, j, name, key, t, at, ok, er) ->
      let locked = (match k with KLock | KTryLock -> ok | _ -> true) in
      Printf.printf "rpc %s %d %s %s %d %d %s %s\n" (kind_tok k) (int_of_nat j) (ocaml_of_str name) (key_tok locked key)
        (int_of_z t) (int_of_z at) (b01 ok) (etok er)
  | TRpcFail (k, j, at) -> Printf.printf "fail %s %d %d\n" (kind_tok k) (int_of_nat j) (int_of_z at)
  | TUnlockCall (j, at) -> Printf.printf "ucall %d %d\n" (int_of_nat j) (int_of_z at)
  | TUnlockRet (j, at) -> Printf.printf "uret %d %d\n" (int_of_nat j) (int_of_z at)
  | TCloseRet at -> Printf.printf "cret %d\n" (int_of_z at)
  | TCrash (c, at) ->
      let (w, j) = (match c with CrOutOfSync j -> ("outofsync", j) | CrRenewFailed j -> ("renewfailed", j) | CrSendClosed j -> ("sendclosed", j)) in
      Printf.printf "crash %s %d %d\n" w (int_of_nat j) (int_of_z at)
  | TParked (j, at) -> Printf.printf "parked %d %d\n" (int_of_nat j) (int_of_z at)
  | TCompete (name, g, at) -> Printf.printf "compete %s %s %d\n" (ocaml_of_str name) (b01 g) (int_of_z at)
  | TProbe (l, at) ->
      let parts = List.sort compare (List.map (fun (n, k) -> ocaml_of_str n ^ " " ^ ocaml_of_str k) l) in
      Printf.printf "%s\n" (String.trim (Printf.sprintf "probe %d %s" (List.length parts) (String.concat " " parts)) ^ " " ^ string_of_int (int_of_z at))

let stage_of = function "pre" -> StPre | "post" -> StPost | _ -> StBoth

let parse_item (w : ostring list) : item option =
  match w with
  | ["lock"; name; t; size] -> Some (ILock (str_of_ocaml name, z_of_int (int_of_string t), z_of_int (int_of_string size)))
  | ["try"; name; t; size] -> Some (ITryLock (str_of_ocaml name, z_of_int (int_of_string t), z_of_int (int_of_string size)))
  | ["unlock"; j] -> Some (IUnlock (nat_of_int (int_of_string j)))
  | ["ubegin"; j] -> Some (IUnlockBegin (nat_of_int (int_of_string j)))
  | ["usend"; j] -> Some (IUnlockSend (nat_of_int (int_of_string j)))
  | ["uend"; j] -> Some (IUnlockEnd (nat_of_int (int_of_string j)))
  | ["close"] -> Some IClose
  | ["adv"; ns] -> Some (IAdvance (z_of_int (int_of_string ns)))
  | ["hold"; j; s] -> Some (IHold (nat_of_int (int_of_string j), stage_of s))
  | ["step"; j] -> Some (IStep (nat_of_int (int_of_string j)))
  | ["compete"; name; size] -> Some (ICompete (str_of_ocaml name, z_of_int (int_of_string size)))
  | ["probe"] -> Some IProbe
  | _ -> None

let run_case id noauto maxr (items : item list) =
  let cc = { cc_noauto = noauto; cc_maxretries = z_of_int maxr } in
  let st = run cc items in
  Printf.printf "S %s\n" id;
  List.iter print_ev (cs_trace st);
  Printf.printf "D %s\n" id;
  let tr = cs_trace st in
  Printf.printf "P %s stopdrop=%s renewmap=%s wf=%s crashed=%s parked=%s nocrash=%s renewsok=%s" id
    (b01 (excluded_stopdrop cc items)) (b01 (excluded_renewmap cc items)) (b01 (wf_sched cc items))
    (b01 (cs_crashed st <> None)) (b01 (cs_parked st)) (b01 (no_crash tr)) (b01 (renews_ok tr));
  List.iteri (fun j h ->
    let nj = nat_of_int j in
    Printf.printf " hold %d pstop=%s timely=%s keeps=%s lease=%s held=%s T=%d locked=%s ren=%s" j
      (b01 (p_stop nj tr)) (b01 (timely cc nj items)) (b01 (keeps nj items)) (b01 (lease_ok st nj)) (b01 (held st nj))
      (int_of_z h.h_T) (b01 h.h_locked) (b01 (h.h_ren <> None))) (cs_holds st);
  print_newline ()

let outcome_of_code c : unit toutcome =
  if c = 0 then TOk () else if c = 14 then TUnavailable else TOtherErr (z_of_int c)

let run_retry id maxr codes =
  let (r, sleeps) = retry_z (z_of_int maxr) (List.map outcome_of_code codes) in
  let (res, calls) = r in
  let rs = (match res with
            | None -> "none"
            | Some (TOk _) -> "0"
            | Some TUnavailable -> "14"
            | Some (TOtherErr c) -> string_of_int (int_of_z c)) in
  Printf.printf "%s\n" (String.trim (Printf.sprintf "ret %s %s %d %s" id rs (int_of_nat calls)
    (String.concat " " (List.map (fun z -> string_of_int (int_of_z z)) sleeps))))

let () =
  let ic = open_in Sys.argv.(1) in
  Printf.printf "K min_renew=%d retry_delay=%d formula=%s" (int_of_z min_renew) (int_of_z retry_delay) (b01 renew_formula_recognised);
  List.iter (fun t -> Printf.printf " interval %d=%d" t (int_of_z (interval (z_of_int t)))) [1; 5; 9; 10; 11; 20; 29; 30; 31; 39; 40; 41; 45; 60; 61; 90; 120];
  print_newline ();
  let cur = ref None in
  (try
    while true do
      let line = input_line ic in
      let w = List.filter (fun s -> s <> "") (String.split_on_char ' ' (String.trim line)) in
      (match w with
       | "C" :: id :: noauto :: maxr :: _ -> cur := Some (id, noauto = "1", int_of_string maxr, [])
       | "I" :: rest ->
           (match !cur, parse_item rest with
            | Some (id, na, m, its), Some it -> cur := Some (id, na, m, it :: its)
            | _ -> ())
       | ["X"] ->
           (match !cur with
            | Some (id, na, m, its) -> (try run_case id na m (List.rev its) with e -> Printf.printf "B %s %s\n" id (Printexc.to_string e)); cur := None
            | None -> ())
       | "R" :: id :: maxr :: _rpc :: codes ->
           (try run_retry id (int_of_string maxr) (List.map int_of_string codes) with e -> Printf.printf "B %s %s\n" id (Printexc.to_string e))
       | _ -> ())
    done
  with End_of_file -> ());
  close_in ic
