//go:build verif

package session

// Overlay file of the T2 sched-diff tie, layer 2 (never part of /repo).

// VerifCloseStore closes the store's file handle.
func (l *sessionManager) VerifCloseStore() {
	l.sessionLocksMtx.Lock()
	defer l.sessionLocksMtx.Unlock()
	if c, ok := l.store.(interface{ Close() }); ok {
		c.Close()
	}
}

// Inner yield points (mutex acquisitions / releases found by the instrumenter's generic rule). nil = no-op.
var VerifStep func(label string, args ...string)

func verifStep(label string, args ...string) {
	if VerifStep != nil {
		VerifStep(label, args...)
	}
}
