//go:build verif

package ipc

// NewVerifIPC returns an IPC method receiver bound to l without starting the socket server
// (overlay file of the /verif correspondence harness).
func NewVerifIPC(l LockServer) *IPC {
	return &IPC{lckSrv: l}
}
