//go:build verif

package server

import "github.com/imoore76/ldlm/lock"

// VerifLockManager exposes the lock manager to the /verif correspondence harness (overlay file).
func (l *LockServer) VerifLockManager() *lock.Manager {
	m, _ := l.lockMgr.(*lock.Manager)
	return m
}
