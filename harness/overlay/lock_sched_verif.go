//go:build verif

package lock

import "time"

// Yield-point hook of the T2 sched-diff tie. This file and the instrumented copies of manager.go / lock.go that call
// verifStep are added to the package at build time with `go test -overlay`; nothing of this is part of /repo.
// nil = every yield point is a no-op.
var VerifStep func(label string)

func verifStep(label string) {
	if VerifStep != nil {
		VerifStep(label)
	}
}

// VerifLockGc runs one garbage-collection pass (what the GC goroutine does on every tick).
func (m *Manager) VerifLockGc(minIdle time.Duration) {
	m.lockGc(minIdle)
}
