//go:build verif

// This file is NOT part of /repo. It is added to package client at build time
// with `go test -overlay` by /verif/checks/c19.py (the client tests build a
// Client over a fake pb.LDLMClient with the unexported helper newTestClient;
// this is the same construction, reachable from outside the package).
package client

import (
	"context"

	pb "github.com/imoore76/ldlm/protos"
)

// VerifCloser is what Client.Close() closes instead of a *grpc.ClientConn.
type VerifCloser interface {
	Close() error
}

type verifNopCloser struct{}

func (verifNopCloser) Close() error { return nil }

// NewVerifClient builds a Client exactly as New does, minus the dialing: the
// transport is the given pb.LDLMClient, the connection closer is cl (no-op if nil).
func NewVerifClient(ctx context.Context, pbc pb.LDLMClient, cl VerifCloser, noAutoRenew bool, maxRetries int) *Client {
	if cl == nil {
		cl = verifNopCloser{}
	}
	return &Client{
		conn:        cl,
		pbc:         pbc,
		ctx:         ctx,
		noAutoRenew: noAutoRenew,
		maxRetries:  maxRetries,
	}
}

// VerifRenewMapNames lists the names currently in the renew map (observation only).
func (c *Client) VerifRenewMapNames() []string {
	out := []string{}
	c.renewMap.Range(func(k, _ interface{}) bool {
		out = append(out, k.(string))
		return true
	})
	return out
}
