//go:build verif

package timermap

// Yield-point hook and accessor of the T2 sched-diff tie, layer 2 (overlay file, never part of /repo).
var VerifStep func(label string, args ...string)

func verifStep(label string, args ...string) {
	if VerifStep != nil {
		VerifStep(label, args...)
	}
}

// VerifKeys returns the keys of the timers currently in the map.
func (m *TimerMap) VerifKeys() []string {
	m.timersMtx.RLock()
	defer m.timersMtx.RUnlock()
	out := make([]string, 0, len(m.timers))
	for k := range m.timers {
		out = append(out, k)
	}
	return out
}
