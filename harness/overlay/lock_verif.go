//go:build verif

package lock

// Read-only accessors used by the /verif correspondence harness. Added to the package with
// `go build -overlay`; never part of /repo.

type VerifLock struct {
	Name         string
	Size         int32
	Keys         []string
	LastAccessed int64 // UnixNano
}

// VerifTable returns every lock object currently mapped, with its size, keys and lastAccessed.
func (m *Manager) VerifTable() []VerifLock {
	out := []VerifLock{}
	for _, shard := range m.shards {
		shard.RLock()
		for name, l := range shard.locks {
			out = append(out, VerifLock{Name: name, Size: l.Size(), Keys: l.Keys(), LastAccessed: l.lastAccessed.Load().UnixNano()})
		}
		shard.RUnlock()
	}
	return out
}
