//go:build verif

package store

// Snapshot hook of the T2 sched-diff tie, layer 2 (overlay file, never part of /repo): called (when the instrumenter
// finds in-place file operations in Write) between those operations, so that the harness can capture the state file as
// a kill at that instant would leave it. nil = no-op.
var VerifSnap func(label string)

func verifSnap(label string) {
	if VerifSnap != nil {
		VerifSnap(label)
	}
}

// Inner yield points (mutex acquisitions / releases found by the instrumenter's generic rule). nil = no-op.
var VerifStep func(label string, args ...string)

func verifStep(label string, args ...string) {
	if VerifStep != nil {
		VerifStep(label, args...)
	}
}
