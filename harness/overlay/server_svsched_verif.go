//go:build verif

package server

import (
	cl "github.com/imoore76/ldlm/server/clientlock"
	"github.com/imoore76/ldlm/timermap"
)

// Yield-point hook and read-only accessors of the T2 sched-diff tie, layer 2 (harness/svsched). This file and the
// instrumented copy of server.go that calls verifStep are added to the package at build time with `go test -overlay`;
// nothing of this is part of /repo. nil = every yield point is a no-op.
var VerifStep func(label string, args ...string)

func verifStep(label string, args ...string) {
	if VerifStep != nil {
		VerifStep(label, args...)
	}
}

// VerifSessions returns a clone of the session manager's session -> locks map.
func (l *LockServer) VerifSessions() map[string][]cl.Lock {
	return l.sessionMgr.Locks()
}

// VerifTimerKeys returns the keys currently in the lock timer map.
func (l *LockServer) VerifTimerKeys() []string {
	tm, _ := l.lockTimerMgr.(*timermap.TimerMap)
	if tm == nil {
		return nil
	}
	return tm.VerifKeys()
}

// VerifTimerKey is timerKey.
func VerifTimerKey(name string, key string) string { return timerKey(name, key) }

// VerifCloseStore closes the session store's file handle (the server's closer leaves it open).
func (l *LockServer) VerifCloseStore() {
	if c, ok := l.sessionMgr.(interface{ VerifCloseStore() }); ok {
		c.VerifCloseStore()
	}
}
