package main

// The child process: the only place where code of the tree under test runs.
//
// It executes one command per input line on the REAL store (package
// github.com/imoore76/ldlm/server/session/store) using real files in its directory,
// with every call under recover() and with an address-space limit on itself, and
// answers one line per command. If it dies (fatal error: out of memory, ...) or does
// not answer in time, the parent classifies the command by that.
//
//   R <hex>      write the bytes to a fresh file, store.New(path).Read()         -> <outcome>
//   B <hex>      benc alone: the body of unmarshalLocks WITHOUT the validator     -> <outcome>
//                (a copy here in the harness, calling the real benc library; it ties
//                 the model's benc_decode to benc, not to store.go)
//   O [<state> <tmp>]  open a store on a fresh path; optionally the state file and a left-over
//                "<path>.tmp" exist already with the given bytes (hex, "-" = empty, "x" = absent) -> opened
//   W <entries>  store.Write(map) on the open store, then: the file's bytes read with
//                os.ReadFile | Read() on the same store | Read() on a fresh store on the path
//                                                     -> <hex> | <outcome> | <outcome>
//   C            Close() and delete the file                                      -> closed
//
// outcome = ok <allocbytes> <entries> | err <kind> <allocbytes> <msghex> | panic go <allocbytes> <msghex>

import (
	"bufio"
	"encoding/hex"
	"errors"
	"fmt"
	"os"
	"path/filepath"
	"runtime"
	"runtime/debug"
	"strings"
	"syscall"

	"github.com/deneonet/benc"
	bstd "github.com/deneonet/benc/std"
	cl "github.com/imoore76/ldlm/server/clientlock"
	"github.com/imoore76/ldlm/server/session/store"
)

type realStore interface {
	Write(map[string][]cl.Lock) error
	Read() (map[string][]cl.Lock, error)
	Close()
}

func toReal(es Entries) map[string][]cl.Lock {
	m := make(map[string][]cl.Lock, len(es))
	for _, e := range es {
		ls := make([]cl.Lock, 0, len(e.Locks))
		for _, l := range e.Locks {
			ls = append(ls, cl.New(l.Name, l.Key, l.Size))
		}
		m[e.ID] = ls
	}
	return m
}

func fromReal(m map[string][]cl.Lock) Entries {
	mm := make(map[string][]Lock, len(m))
	for k, v := range m {
		ls := make([]Lock, 0, len(v))
		for _, l := range v {
			ls = append(ls, Lock{l.Name(), l.Key(), l.Size()})
		}
		mm[k] = ls
	}
	return sortedEntries(mm)
}

func errKind(err error) string {
	switch {
	case errors.Is(err, benc.ErrBufTooSmall):
		return "buftoosmall"
	case errors.Is(err, benc.ErrOverflow):
		return "overflow"
	case errors.Is(err, benc.ErrVerifyMarshal):
		return "verifymarshal"
	}
	return "other"
}

// guarded runs f under recover and measures the bytes it allocated.
func guarded(f func() (map[string][]cl.Lock, error)) string {
	var m map[string][]cl.Lock
	var err error
	var pan interface{}
	var a, b runtime.MemStats
	runtime.ReadMemStats(&a)
	func() {
		defer func() {
			if r := recover(); r != nil {
				pan = r
			}
		}()
		m, err = f()
	}()
	runtime.ReadMemStats(&b)
	alloc := b.TotalAlloc - a.TotalAlloc
	switch {
	case pan != nil:
		return fmt.Sprintf("panic go %#x %s", alloc, hexs(fmt.Sprint(pan)))
	case err != nil:
		return fmt.Sprintf("err %s %#x %s", errKind(err), alloc, hexs(err.Error()))
	}
	return fmt.Sprintf("ok %#x %s", alloc, fromReal(m).Tokens())
}

// bencOnly is unmarshalLocks of store.go without its first statement (the validator).
func bencOnly(b []byte) (map[string][]cl.Lock, error) {
	unmarshalLock := func(n int, b []byte) (int, cl.Lock, error) {
		dft := cl.New("", "", 0)
		var name, key string
		n, name, err := bstd.UnmarshalString(n, b)
		if err != nil {
			return 0, dft, err
		}
		n, key, err = bstd.UnmarshalString(n, b)
		if err != nil {
			return 0, dft, err
		}
		n, size, err := bstd.UnmarshalInt32(n, b)
		if err != nil {
			return 0, dft, err
		}
		return n, cl.New(name, key, size), nil
	}
	n, m, err := bstd.UnmarshalMap[string, []cl.Lock](0, b, bstd.UnmarshalString, func(n int, b []byte) (int, []cl.Lock, error) {
		n, s, err := bstd.UnmarshalSlice[cl.Lock](n, b, unmarshalLock)
		return n, s, err
	})
	if err != nil {
		return nil, err
	}
	return m, benc.VerifyMarshal(n, b)
}

func childMain(dir string, asLimit uint64) {
	if asLimit > 0 {
		// address space: what the Go runtime reserves at start varies with its version (1 GiB is not
		// enough for go1.26), so the tight limit is on the data segment (private writable mappings,
		// i.e. heap that is really handed out) and the address-space limit is four times that.
		lim := syscall.Rlimit{Cur: 4 * asLimit, Max: 4 * asLimit}
		_ = syscall.Setrlimit(syscall.RLIMIT_AS, &lim)
		lim = syscall.Rlimit{Cur: asLimit, Max: asLimit}
		_ = syscall.Setrlimit(syscall.RLIMIT_DATA, &lim)
	}
	debug.SetGCPercent(50)
	in := bufio.NewReaderSize(os.Stdin, 1<<20)
	out := bufio.NewWriterSize(os.Stdout, 1<<20)
	ctr := 0
	var st realStore
	var stPath string
	reply := func(s string) {
		out.WriteString(s)
		out.WriteByte('\n')
		out.Flush()
	}
	openStore := func(path string) (realStore, string) {
		var s realStore
		var msg string
		func() {
			defer func() {
				if r := recover(); r != nil {
					msg = fmt.Sprint("panic in store.New: ", r)
				}
			}()
			x, err := store.New(path)
			if err != nil {
				msg = "store.New: " + err.Error()
				return
			}
			s = x
		}()
		return s, msg
	}
	closeStore := func(s realStore) {
		defer func() { _ = recover() }()
		s.Close()
	}
	for {
		line, err := in.ReadString('\n')
		if line == "" && err != nil {
			return
		}
		line = strings.TrimRight(line, "\r\n")
		toks := strings.Split(line, " ")
		switch toks[0] {
		case "P":
			// ping, with a little allocation: the limits above leave the runtime room to work
			buf := make([]byte, 1<<20)
			buf[len(buf)-1] = 1
			reply(fmt.Sprintf("pong %d", len(buf)))
		case "R", "B":
			if len(toks) != 2 {
				reply("bad")
				continue
			}
			var data []byte
			if toks[1] != "-" {
				data, err = hex.DecodeString(toks[1])
				if err != nil {
					reply("bad hex")
					continue
				}
			}
			if toks[0] == "B" {
				reply(guarded(func() (map[string][]cl.Lock, error) { return bencOnly(data) }))
				continue
			}
			ctr++
			path := filepath.Join(dir, fmt.Sprintf("r%d.state", ctr))
			if err := os.WriteFile(path, data, 0644); err != nil {
				reply("bad writefile " + hexs(err.Error()))
				continue
			}
			s, msg := openStore(path)
			if s == nil {
				reply("panic go 0x0 " + hexs(msg))
			} else {
				reply(guarded(s.Read))
				closeStore(s)
			}
			os.Remove(path)
			os.Remove(path + ".tmp")
		case "O":
			// O [<state hex|-|x> <tmp hex|-|x>]: what is on disk before store.New: the state file and a
			// left-over "<path>.tmp" of an earlier process ("x" = the file does not exist, "-" = empty file)
			if st != nil {
				closeStore(st)
			}
			ctr++
			stPath = filepath.Join(dir, fmt.Sprintf("w%d.state", ctr))
			os.Remove(stPath)
			os.Remove(stPath + ".tmp")
			bad := false
			for i, suffix := range []string{"", ".tmp"} {
				if len(toks) <= 1+i || toks[1+i] == "x" {
					continue
				}
				pre, err := unhexs(toks[1+i])
				if err != nil || os.WriteFile(stPath+suffix, []byte(pre), 0644) != nil {
					bad = true
				}
			}
			if bad {
				reply("bad pre-state")
				continue
			}
			s, msg := openStore(stPath)
			if s == nil {
				reply("failed " + hexs(msg))
				continue
			}
			st = s
			reply("opened")
		case "W":
			if st == nil {
				reply("bad no-store")
				continue
			}
			es, _, err := parseEntries(toks[1:])
			if err != nil {
				reply("bad entries")
				continue
			}
			m := toReal(es)
			w := guarded(func() (map[string][]cl.Lock, error) { return nil, st.Write(m) })
			if !strings.HasPrefix(w, "ok ") {
				// Write itself failed: report it in all three positions
				reply("- | " + w + " | " + w)
				continue
			}
			data, rerr := os.ReadFile(stPath)
			fh := "-"
			if rerr != nil {
				fh = "unreadable"
			} else if len(data) > 0 {
				fh = hex.EncodeToString(data)
			}
			same := guarded(st.Read)
			fresh := ""
			s2, msg := openStore(stPath)
			if s2 == nil {
				fresh = "panic go 0x0 " + hexs(msg)
			} else {
				fresh = guarded(s2.Read)
				closeStore(s2)
			}
			reply(fh + " | " + same + " | " + fresh)
		case "C":
			if st != nil {
				closeStore(st)
				st = nil
				os.Remove(stPath)
				os.Remove(stPath + ".tmp")
			}
			reply("closed")
		default:
			reply("bad command")
		}
	}
}
