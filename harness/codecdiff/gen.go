package main

// Case generation. Every case of a run comes from ONE PRNG stream (PCG seeded by VERIF_SEED),
// drawn in a fixed order before anything is executed: the list of cases is a function of
// (seed, tier) alone, so a disagreement replays exactly.

import (
	"encoding/binary"
	"fmt"
	"math"
	"math/rand/v2"
	"sort"
)

// Case is one input of the harness.
//
//	kind bytes: Bytes is put into a state file and read with the real store.Read
//	kind seq:   the maps of Seq are written one after the other with store.Write to ONE store whose
//	            state file / left-over temporary file hold PreState / PreTmp before store.New
//	            (kind "map" in files = a sequence of one map on a fresh path)
//	kind perm:  the model's encodings of Seq[0] in every order of its entries (at most 24) are read
//	            with the real store.Read
type Case struct {
	ID       int
	Kind     string
	Origin   string // which generator (for the input distribution)
	Bytes    []byte
	Seq      []Entries
	PreState *[]byte
	PreTmp   *[]byte
	Benc     bool // also run benc's decoder alone (no validator) on Bytes, against the model's benc_decode
	Note     string
}

// ---------------------------------------------------------------------------- a third encoder
//
// The harness's own rendering of the file format (neither the real code nor the model): used to
// build damaged inputs token by token and to know the length a state file must have.

func putUvarint(b []byte, v uint64) []byte {
	for v >= 0x80 {
		b = append(b, byte(v)|0x80)
		v >>= 7
	}
	return append(b, byte(v))
}

func uvarintLen(v uint64) int {
	n := 1
	for v >= 0x80 {
		v >>= 7
		n++
	}
	return n
}

var term = []byte{1, 1, 1, 1}

func goEncode(es Entries) []byte {
	var b []byte
	b = putUvarint(b, uint64(len(es)))
	for _, e := range es {
		b = putUvarint(b, uint64(len(e.ID)))
		b = append(b, e.ID...)
		b = putUvarint(b, uint64(len(e.Locks)))
		for _, l := range e.Locks {
			b = putUvarint(b, uint64(len(l.Name)))
			b = append(b, l.Name...)
			b = putUvarint(b, uint64(len(l.Key)))
			b = append(b, l.Key...)
			b = binary.LittleEndian.AppendUint32(b, uint32(l.Size))
		}
		b = append(b, term...)
	}
	return append(b, term...)
}

// encodedLen: the length of the state file of a map (the same for every entry order).
func encodedLen(es Entries) int {
	n := uvarintLen(uint64(len(es))) + 4
	for _, e := range es {
		n += uvarintLen(uint64(len(e.ID))) + len(e.ID) + uvarintLen(uint64(len(e.Locks))) + 4
		for _, l := range e.Locks {
			n += uvarintLen(uint64(len(l.Name))) + len(l.Name) + uvarintLen(uint64(len(l.Key))) + len(l.Key) + 4
		}
	}
	return n
}

// modelCost estimates the seconds the extracted model needs for one decode of the encoding of es:
// it is linear in (number of reads) x (file length) (list-of-bytes buffers, unary offsets).
func modelCost(es Entries) float64 {
	ops := 4 + 4*len(es) + 6*es.totalLocks()
	return float64(ops) * float64(encodedLen(es)) * 4e-8
}

// ------------------------------------------------------------------------------- generator

type Gen struct {
	r        *rand.Rand
	tier     string
	maxStr   int     // longest string
	maxLocks int     // most holds in one session
	maxCost  float64 // seconds of model time per map
	dist     *Dist
	next     int
	cases    []*Case
}

func newGen(seed uint64, tier string, dist *Dist) *Gen {
	g := &Gen{r: rand.New(rand.NewPCG(seed, 0xC17C0DEC)), tier: tier, dist: dist}
	if tier == "thorough" {
		g.maxStr, g.maxLocks, g.maxCost = 256<<10, 1200, 12
	} else {
		g.maxStr, g.maxLocks, g.maxCost = 64<<10, 300, 1.5
	}
	return g
}

func (g *Gen) add(c *Case) *Case {
	c.ID = g.next
	g.next++
	g.cases = append(g.cases, c)
	return c
}

func (g *Gen) pick(ws ...int) int {
	t := 0
	for _, w := range ws {
		t += w
	}
	x := g.r.IntN(t)
	for i, w := range ws {
		if x < w {
			return i
		}
		x -= w
	}
	return len(ws) - 1
}

var nonASCII = []string{
	"\xc3\xa9", "\xe2\x82\xac", "\xf0\x9f\x94\x92", "\xe6\x97\xa5\xe6\x9c\xac", "\xff", "\xfe\xff", "\x00", "\x00\x00",
	"\x01\x01\x01\x01", "\x80", "\x7f", "\xc0\x80", "\xed\xa0\x80", "\xef\xbb\xbf", "\n", " ", "\x01", "\x05\x00\x00\x00",
}

func (g *Gen) randBytes(n int) string {
	b := make([]byte, n)
	for i := range b {
		b[i] = byte(g.r.UintN(256))
	}
	return string(b)
}

// str draws one string; long says whether strings above 300 bytes are allowed here.
func (g *Gen) str(long bool) string {
	var s, kind string
	switch g.pick(14, 30, 20, 8, 8, 5, 5) {
	case 0:
		s, kind = "", "empty"
	case 1:
		n := 1 + g.r.IntN(10)
		b := make([]byte, n)
		const al = "abcdefghijklmnopqrstuvwxyz0123456789-_:/."
		for i := range b {
			b[i] = al[g.r.IntN(len(al))]
		}
		s, kind = string(b), "ascii-short"
	case 2:
		n := 1 + g.r.IntN(4)
		for i := 0; i < n; i++ {
			if g.r.IntN(3) == 0 {
				s += string(rune('a' + g.r.IntN(26)))
			} else {
				s += nonASCII[g.r.IntN(len(nonASCII))]
			}
		}
		kind = "non-ascii"
	case 3:
		s, kind = g.randBytes(1+g.r.IntN(40)), "random-bytes"
	case 4:
		// lengths at which the varint of the length changes size
		ls := []int{127, 128, 129, 255, 256}
		if long {
			ls = append(ls, 16383, 16384, 16385)
		}
		s, kind = g.randBytes(ls[g.r.IntN(len(ls))]), "varint-boundary-length"
	case 5:
		// a string that is itself a state file (or its beginning)
		inner := goEncode(Entries{{ID: "s", Locks: []Lock{{"a", "k", 1}}}})
		s, kind = string(inner[:1+g.r.IntN(len(inner))]), "embedded-encoding"
	default:
		if !long {
			s, kind = g.randBytes(40+g.r.IntN(200)), "medium"
		} else {
			return g.longStr()
		}
	}
	g.dist.StringKinds[kind]++
	g.dist.addLen(g.dist.StringLen, len(s))
	return s
}

// longStr: 300 bytes up to the tier's maximum (64 KiB in quick), with the lengths around 2^16 favoured.
func (g *Gen) longStr() string {
	var n int
	switch g.pick(3, 2, 2) {
	case 0:
		n = 300 + g.r.IntN(4000)
	case 1:
		n = 4000 + g.r.IntN(g.maxStr-4000)
	default:
		n = []int{g.maxStr, g.maxStr - 1, 65535, 65536, 32768, 16384}[g.r.IntN(6)]
		if n > g.maxStr {
			n = g.maxStr
		}
	}
	var s string
	// mostly one repeated non-ASCII unit (cheap to look at in a report), sometimes random
	if g.r.IntN(3) == 0 {
		s = g.randBytes(n)
	} else {
		u := nonASCII[g.r.IntN(len(nonASCII))] + "x"
		b := make([]byte, 0, n+len(u))
		for len(b) < n {
			b = append(b, u...)
		}
		s = string(b[:n])
	}
	g.dist.StringKinds["long"]++
	g.dist.addLen(g.dist.StringLen, len(s))
	return s
}

var sizeSpecials = []int32{0, 1, -1, 2, 7, math.MaxInt32, math.MinInt32, math.MaxInt32 - 1, math.MinInt32 + 1,
	255, 256, 65535, 65536, 1 << 24, -(1 << 24), 0x01010101, -128, 127, 128, -32768, 32767, -65536, 0x7f7f7f7f, -0x01010102}

func (g *Gen) size() int32 {
	var v int32
	var kind string
	switch g.pick(30, 40, 30) {
	case 0:
		v, kind = int32(1+g.r.IntN(16)), "small-positive"
	case 1:
		v = sizeSpecials[g.r.IntN(len(sizeSpecials))]
		switch {
		case v == math.MaxInt32 || v == math.MinInt32:
			kind = "extreme"
		case v < 0:
			kind = "special-negative"
		case v == 0:
			kind = "zero"
		default:
			kind = "special-positive"
		}
	default:
		v = int32(g.r.Uint32())
		if v < 0 {
			kind = "random-negative"
		} else {
			kind = "random-positive"
		}
	}
	g.dist.SizeKinds[kind]++
	return v
}

func (g *Gen) lock(long bool) Lock {
	if long && g.r.IntN(4) > 0 {
		// one really long string, as the name or as the key
		if g.r.IntN(2) == 0 {
			return Lock{g.longStr(), g.str(false), g.size()}
		}
		return Lock{g.str(false), g.longStr(), g.size()}
	}
	return Lock{g.str(long), g.str(false), g.size()}
}

func (g *Gen) id(long bool) string {
	if g.r.IntN(3) == 0 {
		// what the server uses: 36 characters of a UUID
		const hx = "0123456789abcdef"
		b := make([]byte, 36)
		for i := range b {
			if i == 8 || i == 13 || i == 18 || i == 23 {
				b[i] = '-'
			} else {
				b[i] = hx[g.r.IntN(16)]
			}
		}
		g.dist.StringKinds["uuid"]++
		g.dist.addLen(g.dist.StringLen, 36)
		return string(b)
	}
	return g.str(long)
}

// Shapes of maps.
const (
	shEmpty = iota
	shOneSessionNoHolds
	shOneHold
	shFew
	shManySessions
	shManyHolds
	shLongStrings
	nShapes
)

var shapeNames = []string{"empty-map", "one-session-no-holds", "one-hold", "few-sessions-few-holds", "many-sessions", "many-holds", "long-strings"}

func (g *Gen) mapOfShape(shape int) Entries {
	for attempt := 0; ; attempt++ {
		es := g.mapOfShape1(shape)
		if modelCost(es) <= g.maxCost || attempt >= 6 {
			if modelCost(es) > g.maxCost {
				// keep the stream deterministic but the model affordable: cut holds
				for i := range es {
					if len(es[i].Locks) > 8 {
						es[i].Locks = es[i].Locks[:8]
					}
				}
			}
			g.dist.MapShapes[shapeNames[shape]]++
			g.dist.addLen(g.dist.MapSessions, len(es))
			g.dist.addLen(g.dist.MapHolds, es.totalLocks())
			g.dist.addLen(g.dist.EncodedLen, encodedLen(es))
			for _, e := range es {
				if len(e.Locks) == 0 {
					g.dist.EmptySessions++
				}
			}
			return es
		}
	}
}

func (g *Gen) mapOfShape1(shape int) Entries {
	seen := map[string]bool{}
	var es Entries
	session := func(nl int, long bool) {
		var id string
		for k := 0; ; k++ {
			id = g.id(false)
			if k > 3 {
				id += fmt.Sprint(len(es))
			}
			if !seen[id] {
				break
			}
		}
		seen[id] = true
		e := Entry{ID: id, Locks: []Lock{}}
		for i := 0; i < nl; i++ {
			e.Locks = append(e.Locks, g.lock(long && i < 2))
		}
		es = append(es, e)
	}
	switch shape {
	case shEmpty:
		es = Entries{}
	case shOneSessionNoHolds:
		session(0, false)
	case shOneHold:
		session(1, false)
	case shFew:
		n := 1 + g.r.IntN(5)
		for i := 0; i < n; i++ {
			session(g.r.IntN(5), false)
		}
	case shManySessions:
		n := 10 + g.r.IntN(60)
		for i := 0; i < n; i++ {
			session(g.pick(3, 4, 2, 1), false)
		}
	case shManyHolds:
		session(40+g.r.IntN(g.maxLocks-40), false)
		if g.r.IntN(2) == 0 {
			session(g.r.IntN(3), false)
		}
	case shLongStrings:
		n := 1 + g.r.IntN(2)
		for i := 0; i < n; i++ {
			session(1+g.r.IntN(2), true)
		}
		if g.r.IntN(4) == 0 {
			// a long session id as well
			es[0].ID = g.str(true) + "#"
		}
	}
	if es == nil {
		es = Entries{}
	}
	return es
}

func (g *Gen) anyMap() Entries {
	return g.mapOfShape(g.pick(5, 8, 15, 40, 10, 8, 14))
}

// ------------------------------------------------------------------------------ sequences

func (g *Gen) seqCase(origin string) *Case {
	n := 1 + g.r.IntN(6)
	// scale of each write: 0 empty map, 1 tiny, 2 small, 3 large
	scale := func(s int) Entries {
		switch s {
		case 0:
			return g.mapOfShape(shEmpty)
		case 1:
			return g.mapOfShape([]int{shOneSessionNoHolds, shOneHold}[g.r.IntN(2)])
		case 2:
			return g.mapOfShape(shFew)
		}
		return g.mapOfShape([]int{shManySessions, shManyHolds, shLongStrings, shFew}[g.pick(3, 2, 3, 2)])
	}
	var seq []Entries
	pattern := []string{"grow", "shrink", "zigzag", "random", "same-map-twice"}[g.pick(2, 3, 3, 2, 1)]
	for i := 0; i < n; i++ {
		var s int
		switch pattern {
		case "grow":
			s = i * 3 / max(n-1, 1)
		case "shrink":
			s = 3 - i*3/max(n-1, 1)
		case "zigzag":
			s = []int{3, 0, 3, 1, 2, 0}[i]
		case "same-map-twice":
			if i > 0 && i%2 == 1 {
				seq = append(seq, seq[i-1].clone())
				continue
			}
			s = g.r.IntN(4)
		default:
			s = g.r.IntN(4)
		}
		seq = append(seq, scale(s))
	}
	c := &Case{Kind: "seq", Origin: origin, Seq: seq}
	// what is on disk before the store is opened
	switch g.pick(50, 15, 10, 15, 10) {
	case 0:
		g.dist.PreState["fresh-path"]++
	case 1:
		b := goEncode(g.mapOfShape(shManySessions))
		c.PreState = &b
		g.dist.PreState["longer-valid-image"]++
	case 2:
		b := []byte(g.randBytes(200 + g.r.IntN(3000)))
		c.PreState = &b
		g.dist.PreState["longer-garbage"]++
	case 3:
		b := []byte(g.randBytes(500 + g.r.IntN(6000)))
		c.PreTmp = &b
		g.dist.PreState["left-over-tmp-garbage"]++
	default:
		b := goEncode(g.mapOfShape(shFew))
		t := goEncode(g.mapOfShape(shManySessions))
		c.PreState, c.PreTmp = &b, &t
		g.dist.PreState["valid-image-and-left-over-tmp"]++
	}
	g.dist.SeqPatterns[pattern]++
	g.dist.addLen(g.dist.SeqLen, len(seq))
	for i := 1; i < len(seq); i++ {
		a, b := encodedLen(seq[i-1]), encodedLen(seq[i])
		switch {
		case b < a:
			g.dist.SeqSteps["shorter-after-longer"]++
		case b > a:
			g.dist.SeqSteps["longer-after-shorter"]++
		default:
			g.dist.SeqSteps["same-length"]++
		}
	}
	return g.add(c)
}

// ------------------------------------------------------------------- small exhaustive family

// every map of at most 2 sessions over 3 ids and 7 hold lists
func (g *Gen) exhaustiveSmall() {
	ids := []string{"", "a", "\x01\x01"}
	l1, l2, l3 := Lock{"", "", 0}, Lock{"a", "\xff", -1}, Lock{"\x01", "k", math.MinInt32}
	lists := [][]Lock{{}, {l1}, {l2}, {l1, l2}, {l2, l1}, {l1, l1}, {l3}}
	g.add(&Case{Kind: "seq", Origin: "exhaustive-small", Seq: []Entries{{}}})
	for i := range ids {
		for _, a := range lists {
			g.add(&Case{Kind: "seq", Origin: "exhaustive-small", Seq: []Entries{{{ids[i], append([]Lock{}, a...)}}}})
		}
	}
	for i := range ids {
		for j := i + 1; j < len(ids); j++ {
			for _, a := range lists {
				for _, b := range lists {
					g.add(&Case{Kind: "seq", Origin: "exhaustive-small",
						Seq: []Entries{{{ids[i], append([]Lock{}, a...)}, {ids[j], append([]Lock{}, b...)}}}})
				}
			}
		}
	}
}

// ------------------------------------------------------------------------ malformed inputs

var hostileCounts = []uint64{1 << 63, 1<<63 + 1, math.MaxUint64, math.MaxUint64 - 1, 1<<32 - 1, 1 << 32, 1 << 31, 1<<31 - 1,
	1<<20 + 1, 1 << 20, 1 << 24, 1 << 16, 65535, 1 << 48, 7 << 36, 7<<36 + 1, (1 << 48) / 40, (1<<48)/40 + 1, 1<<62 + 5, 300, 1000, 7}

// hostileVarints are byte strings in the place of a count or length that are not canonical varints.
var hostileVarints = [][]byte{
	{0x80, 0x00}, {0x80}, {0xff, 0xff, 0xff, 0xff, 0xff, 0xff, 0xff, 0xff, 0xff, 0x02},
	{0xff, 0xff, 0xff, 0xff, 0xff, 0xff, 0xff, 0xff, 0xff, 0x01}, {0x80, 0x80, 0x80, 0x80, 0x80, 0x80, 0x80, 0x80, 0x80, 0x80, 0x01},
	{0x80, 0x80, 0x80, 0x80, 0x80, 0x80, 0x80, 0x80, 0x80, 0x01}, {0x81, 0x80, 0x80, 0x00},
}

// hostile builds the encoding of a small map token by token with one or two tokens replaced.
func (g *Gen) hostile() ([]byte, string) {
	es := g.mapOfShapeQuiet([]int{shOneSessionNoHolds, shOneHold, shFew, shEmpty}[g.pick(2, 3, 4, 1)])
	// count the tokens: per map 1 count + terminator; per entry id, count, terminator; per lock 2 strings + size
	type tok struct {
		kind string // count | strlen | str | int32 | term
		b    []byte
		v    uint64
	}
	var toks []tok
	vt := func(kind string, v uint64) { toks = append(toks, tok{kind, putUvarint(nil, v), v}) }
	vt("count", uint64(len(es)))
	for _, e := range es {
		vt("strlen", uint64(len(e.ID)))
		toks = append(toks, tok{"str", []byte(e.ID), 0})
		vt("count", uint64(len(e.Locks)))
		for _, l := range e.Locks {
			vt("strlen", uint64(len(l.Name)))
			toks = append(toks, tok{"str", []byte(l.Name), 0})
			vt("strlen", uint64(len(l.Key)))
			toks = append(toks, tok{"str", []byte(l.Key), 0})
			toks = append(toks, tok{"int32", binary.LittleEndian.AppendUint32(nil, uint32(l.Size)), 0})
		}
		toks = append(toks, tok{"term", term, 0})
	}
	toks = append(toks, tok{"term", term, 0})
	what := ""
	nmut := 1 + g.pick(4, 1)
	for m := 0; m < nmut; m++ {
		i := g.r.IntN(len(toks))
		t := &toks[i]
		switch t.kind {
		case "count", "strlen":
			switch g.pick(5, 2, 2, 2) {
			case 0:
				v := hostileCounts[g.r.IntN(len(hostileCounts))]
				t.b = putUvarint(nil, v)
				what += fmt.Sprintf("%s:=%d ", t.kind, v)
			case 1:
				t.b = putUvarint(nil, t.v+1+uint64(g.r.IntN(3)))
				what += t.kind + ":+few "
			case 2:
				if t.v > 0 {
					t.b = putUvarint(nil, t.v-1)
				}
				what += t.kind + ":-1 "
			default:
				t.b = hostileVarints[g.r.IntN(len(hostileVarints))]
				what += t.kind + ":bad-varint "
			}
		case "term":
			t.b = [][]byte{{0, 0, 0, 0}, {1, 1, 1}, {1, 1, 1, 2}, {}, {1, 1, 1, 1, 1}, {2, 1, 1, 1}, {1, 1, 1, 1, 1, 1, 1, 1}}[g.r.IntN(7)]
			what += "terminator "
		case "int32":
			t.b = t.b[:g.r.IntN(4)]
			what += "short-int32 "
		default:
			if len(t.b) > 0 {
				t.b = t.b[:g.r.IntN(len(t.b))]
			} else {
				t.b = []byte{byte(g.r.UintN(256))}
			}
			what += "string-bytes "
		}
	}
	var b []byte
	for _, t := range toks {
		b = append(b, t.b...)
	}
	switch g.pick(6, 1, 1) {
	case 1:
		b = append(b, byte(g.r.UintN(256)))
		what += "trailing-byte "
	case 2:
		b = append(b, term...)
		what += "trailing-terminator "
	}
	return b, what
}

// mapOfShapeQuiet: a map for malformed-input construction (not counted in the map distribution).
func (g *Gen) mapOfShapeQuiet(shape int) Entries {
	saved := g.dist
	g.dist = newDist()
	es := g.mapOfShape1(shape)
	g.dist = saved
	return es
}

func (g *Gen) randomBytes() []byte {
	n := g.pick(1, 3, 6, 10, 6, 2)
	ln := []int{0, 1 + g.r.IntN(3), 4 + g.r.IntN(5), 9 + g.r.IntN(16), 25 + g.r.IntN(40), 65 + g.r.IntN(400)}[n]
	b := make([]byte, ln)
	biased := g.r.IntN(3) > 0
	for i := range b {
		if biased {
			b[i] = []byte{0, 0, 1, 1, 1, 2, 3, 4, 5, 0x7f, 0x80, 0xff, 'a', 'k'}[g.r.IntN(14)]
		} else {
			b[i] = byte(g.r.UintN(256))
		}
	}
	return b
}

// damage adds every truncation and single-byte corruptions of one valid encoding.
// full: all 255 other values at every position; otherwise 6 values per position.
func (g *Gen) damage(es Entries, full bool, label string) {
	enc := goEncode(es)
	g.add(&Case{Kind: "bytes", Origin: "intact-encoding", Bytes: enc, Note: label})
	for k := 0; k < len(enc); k++ {
		g.add(&Case{Kind: "bytes", Origin: "truncation", Bytes: append([]byte{}, enc[:k]...), Note: fmt.Sprintf("%s cut at %d of %d", label, k, len(enc))})
	}
	for p := 0; p < len(enc); p++ {
		var vals []byte
		if full {
			for v := 0; v < 256; v++ {
				if byte(v) != enc[p] {
					vals = append(vals, byte(v))
				}
			}
		} else {
			set := map[byte]bool{}
			for _, v := range []byte{enc[p] ^ 0x01, enc[p] ^ 0x80, enc[p] ^ 0xff, 0x00, 0xff, enc[p] + 1, byte(g.r.UintN(256))} {
				if v != enc[p] && !set[v] {
					set[v] = true
					vals = append(vals, v)
				}
			}
			sort.Slice(vals, func(i, j int) bool { return vals[i] < vals[j] })
		}
		for _, v := range vals {
			b := append([]byte{}, enc...)
			b[p] = v
			g.add(&Case{Kind: "bytes", Origin: "single-byte-corruption", Bytes: b, Note: fmt.Sprintf("%s byte %d: %#02x -> %#02x", label, p, enc[p], v)})
		}
	}
	g.dist.DamagedEncodings = append(g.dist.DamagedEncodings, map[string]any{"label": label, "len": len(enc), "all_255_values": full})
}

// ---------------------------------------------------------------------------------- plan

// Plan is how many cases of each family a tier runs.
type Plan struct {
	Maps, Seqs, Perms, Random, Hostile, DamageFull, DamageSome, BencTie int
	Exhaustive                                                          bool
}

func planOf(tier string) Plan {
	if tier == "thorough" {
		return Plan{Maps: 900, Seqs: 400, Perms: 150, Random: 30000, Hostile: 30000, DamageFull: 6, DamageSome: 30, BencTie: 3000, Exhaustive: true}
	}
	return Plan{Maps: 250, Seqs: 100, Perms: 40, Random: 4000, Hostile: 5000, DamageFull: 2, DamageSome: 8, BencTie: 400, Exhaustive: true}
}

func (g *Gen) generate(p Plan) {
	if p.Exhaustive {
		g.exhaustiveSmall()
	}
	for i := 0; i < p.Maps; i++ {
		g.add(&Case{Kind: "seq", Origin: "random-map", Seq: []Entries{g.anyMap()}})
	}
	for i := 0; i < p.Seqs; i++ {
		g.seqCase("write-sequence")
	}
	for i := 0; i < p.Perms; i++ {
		var es Entries
		for {
			es = g.mapOfShape(shFew)
			if len(es) <= 4 {
				break
			}
		}
		g.add(&Case{Kind: "perm", Origin: "entry-orders", Seq: []Entries{es}})
	}
	for i := 0; i < p.Random; i++ {
		g.add(&Case{Kind: "bytes", Origin: "random-bytes", Bytes: g.randomBytes(), Benc: i < p.BencTie/4})
	}
	for i := 0; i < p.Hostile; i++ {
		b, what := g.hostile()
		g.add(&Case{Kind: "bytes", Origin: "hostile-count-or-length", Bytes: b, Note: what, Benc: i < p.BencTie*3/4})
	}
	for i := 0; i < p.DamageFull; i++ {
		es := g.mapOfShapeQuiet([]int{shOneHold, shOneSessionNoHolds}[i%2])
		if encodedLen(es) > 40 {
			es = Entries{{ID: "s\xc3\xa9", Locks: []Lock{{"a", "", -1}}}}
		}
		g.damage(es, true, fmt.Sprintf("full-%d", i))
	}
	seenDamaged := map[string]bool{}
	for i := 0; i < p.DamageSome; i++ {
		var es Entries
		for k := 0; ; k++ {
			es = g.mapOfShapeQuiet([]int{shFew, shOneHold, shEmpty, shOneSessionNoHolds}[g.pick(8, 2, 1, 1)])
			if (encodedLen(es) <= 420 && !seenDamaged[string(goEncode(es))]) || k > 12 {
				break
			}
		}
		if encodedLen(es) > 420 || seenDamaged[string(goEncode(es))] {
			es = Entries{{ID: fmt.Sprintf("s%d", i), Locks: []Lock{{"name", "key", 3}, {"", "\xff\x00", math.MinInt32}}}, {ID: "", Locks: []Lock{}}}
		}
		seenDamaged[string(goEncode(es))] = true
		g.damage(es, false, fmt.Sprintf("some-%d", i))
	}
}
