// Package main: codecdiff — correspondence harness of property C17 (state file codec).
//
// It drives the REAL store (store.New(path).Write / .Read on real files, in a
// resource-limited child process) and the extracted Coq model (ocaml/codec driver)
// on the same inputs, evaluates the property's predicate on what the real code did
// and compares the two sides. See gen.go for the cases, eval.go for the oracle, main.go for the report format.
package main

import (
	"encoding/hex"
	"fmt"
	"sort"
	"strconv"
	"strings"
)

// Lock mirrors cl.Lock (name, key, size).
type Lock struct {
	Name, Key string
	Size      int32
}

// Entry is one session with its holds; Entries is a map written in some order.
type Entry struct {
	ID    string
	Locks []Lock
}
type Entries []Entry

func hexs(s string) string {
	if s == "" {
		return "-"
	}
	return hex.EncodeToString([]byte(s))
}

func unhexs(t string) (string, error) {
	if t == "-" {
		return "", nil
	}
	b, err := hex.DecodeString(t)
	return string(b), err
}

// Tokens renders entries in the line format shared with the OCaml driver:
// <n> { <id> <nlocks> { <name> <key> <size> } }
func (es Entries) Tokens() string {
	var sb strings.Builder
	sb.WriteString(strconv.Itoa(len(es)))
	for _, e := range es {
		sb.WriteByte(' ')
		sb.WriteString(hexs(e.ID))
		sb.WriteByte(' ')
		sb.WriteString(strconv.Itoa(len(e.Locks)))
		for _, l := range e.Locks {
			sb.WriteByte(' ')
			sb.WriteString(hexs(l.Name))
			sb.WriteByte(' ')
			sb.WriteString(hexs(l.Key))
			sb.WriteByte(' ')
			sb.WriteString(strconv.FormatInt(int64(l.Size), 10))
		}
	}
	return sb.String()
}

func parseEntries(toks []string) (Entries, []string, error) {
	next := func() (string, error) {
		if len(toks) == 0 {
			return "", fmt.Errorf("short entries")
		}
		t := toks[0]
		toks = toks[1:]
		return t, nil
	}
	t, err := next()
	if err != nil {
		return nil, nil, err
	}
	n, err := strconv.Atoi(t)
	if err != nil || n < 0 {
		return nil, nil, fmt.Errorf("bad entry count %q", t)
	}
	es := make(Entries, 0, n)
	for i := 0; i < n; i++ {
		idt, err := next()
		if err != nil {
			return nil, nil, err
		}
		id, err := unhexs(idt)
		if err != nil {
			return nil, nil, err
		}
		nlt, err := next()
		if err != nil {
			return nil, nil, err
		}
		nl, err := strconv.Atoi(nlt)
		if err != nil || nl < 0 {
			return nil, nil, fmt.Errorf("bad lock count %q", nlt)
		}
		e := Entry{ID: id, Locks: make([]Lock, 0, nl)}
		for j := 0; j < nl; j++ {
			a, err := next()
			if err != nil {
				return nil, nil, err
			}
			b, err := next()
			if err != nil {
				return nil, nil, err
			}
			c, err := next()
			if err != nil {
				return nil, nil, err
			}
			name, err := unhexs(a)
			if err != nil {
				return nil, nil, err
			}
			key, err := unhexs(b)
			if err != nil {
				return nil, nil, err
			}
			sz, err := strconv.ParseInt(c, 10, 32)
			if err != nil {
				return nil, nil, err
			}
			e.Locks = append(e.Locks, Lock{name, key, int32(sz)})
		}
		es = append(es, e)
	}
	return es, toks, nil
}

// AsMap: the map the entries denote when assigned in order (later wins).
func (es Entries) AsMap() map[string][]Lock {
	m := make(map[string][]Lock, len(es))
	for _, e := range es {
		l := e.Locks
		if l == nil {
			l = []Lock{}
		}
		m[e.ID] = l
	}
	return m
}

// Sorted returns the entries of a map sorted by id (canonical form).
func sortedEntries(m map[string][]Lock) Entries {
	es := make(Entries, 0, len(m))
	for k, v := range m {
		es = append(es, Entry{k, v})
	}
	sort.Slice(es, func(i, j int) bool { return es[i].ID < es[j].ID })
	return es
}

func sameMap(a, b map[string][]Lock) bool {
	if len(a) != len(b) {
		return false
	}
	for k, va := range a {
		vb, ok := b[k]
		if !ok || len(va) != len(vb) {
			return false
		}
		for i := range va {
			if va[i] != vb[i] {
				return false
			}
		}
	}
	return true
}

func (es Entries) totalLocks() int {
	n := 0
	for _, e := range es {
		n += len(e.Locks)
	}
	return n
}

func (es Entries) clone() Entries {
	out := make(Entries, len(es))
	for i, e := range es {
		out[i] = Entry{e.ID, append([]Lock(nil), e.Locks...)}
	}
	return out
}

// Outcome of a decode / read, on either side.
//
// Class: ok | err | panic | alloc | timeout | crash.
// Alloc: real side = bytes allocated during the call (runtime.MemStats.TotalAlloc delta);
//
//	model side = number of slice elements + map entries make() was asked for.
type Outcome struct {
	Class   string
	Kind    string // error kind (buftoosmall|overflow|verifymarshal|other) or panic reason
	Alloc   uint64
	Req     uint64 // model: the size of the refused allocation request (class alloc)
	Entries Entries
	Msg     string
}

func parseHexN(s string) uint64 {
	s = strings.TrimPrefix(s, "0x")
	v, err := strconv.ParseUint(s, 16, 64)
	if err != nil {
		return ^uint64(0)
	}
	return v
}

// parseOutcome parses "ok <alloc> <entries>" | "err <kind> <alloc> [msg]" |
// "panic <why> <alloc> [msg]" | "alloc <n> <alloc>".
func parseOutcome(toks []string) (Outcome, error) {
	if len(toks) < 2 {
		return Outcome{}, fmt.Errorf("short outcome %v", toks)
	}
	switch toks[0] {
	case "ok":
		es, _, err := parseEntries(toks[2:])
		if err != nil {
			return Outcome{}, err
		}
		return Outcome{Class: "ok", Alloc: parseHexN(toks[1]), Entries: es}, nil
	case "err", "panic":
		if len(toks) < 3 {
			return Outcome{}, fmt.Errorf("short outcome %v", toks)
		}
		o := Outcome{Class: toks[0], Kind: toks[1], Alloc: parseHexN(toks[2])}
		if len(toks) > 3 {
			m, _ := unhexs(toks[3])
			o.Msg = m
		}
		return o, nil
	case "alloc":
		if len(toks) < 3 {
			return Outcome{}, fmt.Errorf("short outcome %v", toks)
		}
		return Outcome{Class: "alloc", Req: parseHexN(toks[1]), Alloc: parseHexN(toks[2])}, nil
	}
	return Outcome{}, fmt.Errorf("bad outcome %v", toks)
}

func (o Outcome) String() string {
	switch o.Class {
	case "ok":
		s := o.Entries.Tokens()
		if len(s) > 300 {
			s = s[:300] + "..."
		}
		return fmt.Sprintf("ok alloc=%d map=[%s]", o.Alloc, s)
	case "err":
		return fmt.Sprintf("err %s alloc=%d %s", o.Kind, o.Alloc, o.Msg)
	case "panic":
		return fmt.Sprintf("panic %s alloc=%d %s", o.Kind, o.Alloc, o.Msg)
	case "alloc":
		return fmt.Sprintf("alloc request=%d alloc=%d %s", o.Req, o.Alloc, o.Msg)
	}
	return fmt.Sprintf("%s %s", o.Class, o.Msg)
}

// ---- replay / corpus files ----

type LockJSON struct {
	Name string `json:"name_hex"`
	Key  string `json:"key_hex"`
	Size int32  `json:"size"`
}
type EntryJSON struct {
	ID    string     `json:"id_hex"`
	Locks []LockJSON `json:"locks"`
}

// CaseJSON is the format of corpus files and of replay files:
// kind "bytes": a state file holding Hex is read; kind "map": write then read Map on a fresh path;
// kind "seq": write the maps of Seq one after the other to one store, the state file and a left-over
// "<path>.tmp" holding PreState / PreTmp beforehand (absent = no such file);
// kind "perm": the model's encodings of Map in every entry order are read by the real store.
// Other fields (rule, what, observed, ...) are for the reader and ignored here.
type CaseJSON struct {
	Kind     string        `json:"kind"`
	Hex      *string       `json:"hex,omitempty"`
	Map      []EntryJSON   `json:"map,omitempty"`
	Seq      [][]EntryJSON `json:"seq,omitempty"`
	PreState *string       `json:"pre_state_hex,omitempty"`
	PreTmp   *string       `json:"pre_tmp_hex,omitempty"`
	Origin   string        `json:"origin,omitempty"`
	Note     string        `json:"note,omitempty"`
}

func toJSONEntries(es Entries) []EntryJSON {
	out := make([]EntryJSON, 0, len(es))
	for _, e := range es {
		ej := EntryJSON{ID: hex.EncodeToString([]byte(e.ID)), Locks: []LockJSON{}}
		for _, l := range e.Locks {
			ej.Locks = append(ej.Locks, LockJSON{hex.EncodeToString([]byte(l.Name)), hex.EncodeToString([]byte(l.Key)), l.Size})
		}
		out = append(out, ej)
	}
	return out
}

func fromJSONEntries(js []EntryJSON) (Entries, error) {
	es := make(Entries, 0, len(js))
	for _, ej := range js {
		id, err := hex.DecodeString(ej.ID)
		if err != nil {
			return nil, err
		}
		e := Entry{ID: string(id), Locks: []Lock{}}
		for _, lj := range ej.Locks {
			n, err := hex.DecodeString(lj.Name)
			if err != nil {
				return nil, err
			}
			k, err := hex.DecodeString(lj.Key)
			if err != nil {
				return nil, err
			}
			e.Locks = append(e.Locks, Lock{string(n), string(k), lj.Size})
		}
		es = append(es, e)
	}
	return es, nil
}
