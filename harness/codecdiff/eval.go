package main

// Evaluation of one case on both sides, the property's own oracle on what the REAL store did,
// the comparison with the model, and shrinking of failing inputs.
//
// Three levels of findings:
//   property  the property's predicate is false on what the real code did with a real input
//             (round trip differs | stale or missing bytes after a rewrite | Write fails |
//              bad bytes -> panic, death of the process, no answer, allocation > C*len + C0)
//   mismatch  model and real code differ in the property's projection of the observation
//             (outcome class value / error / panic / ..., the decoded map, the file length)
//   outside   they differ in something the property does not read (WHICH benc error; benc's
//             decoder on its own, which store.Read never runs on unvalidated bytes)

import (
	"encoding/hex"
	"fmt"
	"io"
	"sort"
	"strings"
	"time"
)

// The property's allocation bound for reading a state file of n bytes: C*n + C0 bytes
// (file buffer <= 2.3 n; strings <= n; 40-byte cl.Lock values for >= 6 bytes of input each;
// map slots of ~90 bytes for >= 6 bytes of input each: below 26 n).
const (
	allocC  = 64
	allocC0 = 64 << 10
)

type Finding struct {
	Level  string    `json:"level"`
	Rule   string    `json:"rule"`
	Text   string    `json:"what"`
	CaseID int       `json:"case_id"`
	Origin string    `json:"origin"`
	Step   int       `json:"step,omitempty"`
	Real   string    `json:"real"`
	Model  string    `json:"model,omitempty"`
	Case   CaseJSON  `json:"case"`
	Shrunk *CaseJSON `json:"shrunk,omitempty"`
	c      *Case
}

type Result struct {
	Findings     []*Finding
	RealClass    map[string]int
	ModelClass   map[string]int
	ErrKinds     map[string]int
	Ties         map[string]int
	MaxAllocNum  uint64 // the largest allocation seen for a read that was within the bound ...
	MaxAllocLen  int    // ... and the file length it belongs to
	ModelSkipped int
	SkipReasons  []string
	Harness      []string
	Sample       map[string]any
	Evaluations  int
}

func (r *Result) skip(why string) {
	r.ModelSkipped++
	if len(r.SkipReasons) < 3 {
		r.SkipReasons = append(r.SkipReasons, clip(why, 160))
	}
}

func newResult() *Result {
	return &Result{RealClass: map[string]int{}, ModelClass: map[string]int{}, ErrKinds: map[string]int{}, Ties: map[string]int{}}
}

type Worker struct {
	real  *Real
	benc  *Real // a second child for benc-without-validator (it is expected to die now and then)
	model *Model
	trace io.Writer
}

func (w *Worker) tr(f string, a ...any) {
	if w.trace != nil {
		fmt.Fprintf(w.trace, f+"\n", a...)
	}
}

func caseJSON(c *Case) CaseJSON {
	j := CaseJSON{Kind: c.Kind, Origin: c.Origin, Note: c.Note}
	switch c.Kind {
	case "bytes":
		h := hex.EncodeToString(c.Bytes)
		j.Hex = &h
	case "perm":
		j.Map = toJSONEntries(c.Seq[0])
	default:
		if len(c.Seq) == 1 && c.PreState == nil && c.PreTmp == nil {
			j.Kind = "map"
			j.Map = toJSONEntries(c.Seq[0])
		} else {
			j.Kind = "seq"
			for _, es := range c.Seq {
				j.Seq = append(j.Seq, toJSONEntries(es))
			}
			if c.PreState != nil {
				h := hex.EncodeToString(*c.PreState)
				j.PreState = &h
			}
			if c.PreTmp != nil {
				h := hex.EncodeToString(*c.PreTmp)
				j.PreTmp = &h
			}
		}
	}
	return j
}

func caseFromJSON(j CaseJSON) (*Case, error) {
	c := &Case{Kind: j.Kind, Origin: j.Origin, Note: j.Note}
	unhex := func(p *string) (*[]byte, error) {
		if p == nil {
			return nil, nil
		}
		b, err := hex.DecodeString(*p)
		if err != nil {
			return nil, err
		}
		if b == nil {
			b = []byte{}
		}
		return &b, nil
	}
	switch j.Kind {
	case "bytes":
		if j.Hex == nil {
			return nil, fmt.Errorf("kind bytes without hex")
		}
		b, err := hex.DecodeString(*j.Hex)
		if err != nil {
			return nil, err
		}
		c.Bytes, c.Benc = b, true
	case "map", "perm":
		es, err := fromJSONEntries(j.Map)
		if err != nil {
			return nil, err
		}
		c.Seq = []Entries{es}
		if j.Kind == "map" {
			c.Kind = "seq"
		}
	case "seq":
		for _, m := range j.Seq {
			es, err := fromJSONEntries(m)
			if err != nil {
				return nil, err
			}
			c.Seq = append(c.Seq, es)
		}
		var err error
		if c.PreState, err = unhex(j.PreState); err != nil {
			return nil, err
		}
		if c.PreTmp, err = unhex(j.PreTmp); err != nil {
			return nil, err
		}
	default:
		return nil, fmt.Errorf("unknown kind %q", j.Kind)
	}
	for _, es := range c.Seq {
		seen := map[string]bool{}
		for _, e := range es {
			if seen[e.ID] {
				return nil, fmt.Errorf("duplicate session id in a map")
			}
			seen[e.ID] = true
		}
	}
	return c, nil
}

// ------------------------------------------------------------------- the property's oracle

// propRead: the predicate of the property on one store.Read of a state file of n bytes.
func propRead(o Outcome, n int) (string, string) {
	switch o.Class {
	case "panic":
		return "panic", "store.Read panicked: " + clip(o.Msg, 300)
	case "died":
		return "died", clip(o.Msg, 400)
	case "timeout":
		return "hang", clip(o.Msg, 300)
	case "ok", "err":
		if o.Alloc > uint64(allocC)*uint64(n)+allocC0 {
			return "allocation", fmt.Sprintf("store.Read of a %d-byte file allocated %d bytes (bound %d*len + %d = %d)", n, o.Alloc, allocC, allocC0, allocC*n+allocC0)
		}
	}
	return "", ""
}

func describeDiff(want map[string][]Lock, got Entries) string {
	gm := got.AsMap()
	if len(gm) != len(want) {
		return fmt.Sprintf("%d sessions read back, %d written", len(gm), len(want))
	}
	keys := make([]string, 0, len(want))
	for k := range want {
		keys = append(keys, k)
	}
	sort.Strings(keys)
	for _, k := range keys {
		g, ok := gm[k]
		if !ok {
			return fmt.Sprintf("session %q is missing", clip(k, 40))
		}
		if len(g) != len(want[k]) {
			return fmt.Sprintf("session %q: %d holds read back, %d written", clip(k, 40), len(g), len(want[k]))
		}
		for i := range g {
			if g[i] != want[k][i] {
				return fmt.Sprintf("session %q hold %d: read back (%q,%q,%d), written (%q,%q,%d)", clip(k, 40), i,
					clip(g[i].Name, 40), clip(g[i].Key, 40), g[i].Size, clip(want[k][i].Name, 40), clip(want[k][i].Key, 40), want[k][i].Size)
			}
		}
	}
	return "maps differ"
}

// propWrite: the predicate on one Write of map es (followed by the two reads). which: "" when it holds.
func propWrite(es Entries, obs WriteObs) (string, string) {
	want := es.AsMap()
	if !obs.WriteOK {
		switch obs.Write.Class {
		case "harness":
			return "", ""
		case "timeout":
			return "hang", "store.Write did not return: " + clip(obs.Write.Msg, 300)
		case "died":
			return "died", "during store.Write: " + clip(obs.Write.Msg, 400)
		}
		return "write-failed", fmt.Sprintf("store.Write of a valid map ended with %s: %s", obs.Write.Class, clip(obs.Write.Msg, 300))
	}
	for i, o := range []Outcome{obs.Same, obs.Fresh} {
		who := []string{"Read() on the writing store", "Read() on a store newly opened on the path"}[i]
		switch o.Class {
		case "ok":
			if !sameMap(want, o.Entries.AsMap()) {
				return "roundtrip", who + " after Write returned a different map: " + describeDiff(want, o.Entries)
			}
		case "harness":
			return "", ""
		case "err":
			return "roundtrip", who + " after Write returned an error instead of the map written: " + clip(o.Msg, 200)
		default:
			r, t := propRead(o, len(obs.File))
			return r, who + " after Write: " + t
		}
	}
	if obs.FileOK {
		exp := encodedLen(es)
		switch {
		case len(obs.File) > exp:
			return "stale-bytes", fmt.Sprintf("after Write the state file has %d bytes, the encoding of the map has %d: %d stale bytes", len(obs.File), exp, len(obs.File)-exp)
		case len(obs.File) < exp:
			return "short-file", fmt.Sprintf("after Write the state file has %d bytes, the encoding of the map has %d", len(obs.File), exp)
		}
	}
	for _, o := range []Outcome{obs.Same, obs.Fresh} {
		if r, t := propRead(o, len(obs.File)); r != "" {
			return r, "reading back what was written: " + t
		}
	}
	return "", ""
}

// ------------------------------------------------------------------------------ comparison

func canon(es Entries) string { return sortedEntries(es.AsMap()).Tokens() }

// cmpRead compares a real read with the model's answer. level "" = agree.
func cmpRead(real, model Outcome) (string, string, string) {
	rc, mc := real.Class, model.Class
	if rc == "harness" {
		return "", "", ""
	}
	if rc == mc {
		switch rc {
		case "ok":
			if canon(real.Entries) != canon(model.Entries) {
				return "mismatch", "decoded-map", "both decode the bytes, to different maps: " + describeDiff(model.Entries.AsMap(), real.Entries)
			}
		case "err":
			if real.Kind != model.Kind {
				return "outside", "error-kind", fmt.Sprintf("both reject the bytes; real error %s (%s), model %s", real.Kind, clip(real.Msg, 80), model.Kind)
			}
		}
		return "", "", ""
	}
	return "mismatch", "outcome-class", fmt.Sprintf("real store: %s, model: %s", rc, mc)
}

// cmpBenc: benc's decoder alone against the model's benc_decode (outside C17's projection).
// The model's 'alloc' (a request the input does not back, above 2^20 elements) corresponds to a real
// process that died of it, ran out of time zeroing it, or measurably allocated more than 6 MiB.
func cmpBenc(real, model Outcome) string {
	rc, mc := real.Class, model.Class
	if rc == "harness" {
		return ""
	}
	if mc == "alloc" {
		if rc == "died" || rc == "timeout" || real.Alloc > 6<<20 {
			return ""
		}
		return fmt.Sprintf("benc alone: model reports an unbacked allocation request of %d elements, real benc: %s alloc=%d", model.Req, rc, real.Alloc)
	}
	if rc != mc {
		return fmt.Sprintf("benc alone: real %s (%s), model %s %s", rc, clip(real.Msg, 80), mc, model.Kind)
	}
	if rc == "ok" && canon(real.Entries) != canon(model.Entries) {
		return "benc alone: both decode, to different maps"
	}
	return ""
}

// --------------------------------------------------------------------------------- cases

func (w *Worker) finding(res *Result, c *Case, level, rule, text string, step int, real, model string) *Finding {
	f := &Finding{Level: level, Rule: rule, Text: text, CaseID: c.ID, Origin: c.Origin, Step: step, Real: real, Model: model, Case: caseJSON(c), c: c}
	res.Findings = append(res.Findings, f)
	w.tr("  ** %s [%s] %s", level, rule, text)
	return f
}

func (w *Worker) noteAlloc(res *Result, o Outcome, n int) {
	if (o.Class == "ok" || o.Class == "err") && o.Alloc <= uint64(allocC)*uint64(n)+allocC0 {
		// keep the read with the largest allocation per input byte (+1 KiB so that tiny files do not dominate)
		if res.MaxAllocNum == 0 || o.Alloc*uint64(res.MaxAllocLen+1024) > res.MaxAllocNum*uint64(n+1024) {
			res.MaxAllocNum, res.MaxAllocLen = o.Alloc, n
		}
	}
}

func (w *Worker) eval(c *Case) *Result {
	res := newResult()
	switch c.Kind {
	case "bytes":
		w.evalBytes(c, res)
	case "perm":
		w.evalPerm(c, res)
	default:
		w.evalSeq(c, res)
	}
	return res
}

func (w *Worker) evalBytes(c *Case, res *Result) {
	w.tr("state file (%d bytes): %s", len(c.Bytes), clip(hexb(c.Bytes), 400))
	ro := w.real.read(c.Bytes)
	res.RealClass["read:"+ro.Class]++
	res.Evaluations++
	w.tr("  real  store.Read: %s", ro)
	if ro.Class == "harness" {
		res.Harness = append(res.Harness, ro.Msg)
		return
	}
	if ro.Class == "err" {
		res.ErrKinds["real:"+ro.Kind]++
	}
	w.noteAlloc(res, ro, len(c.Bytes))
	rule, text := propRead(ro, len(c.Bytes))
	var pf *Finding
	if rule != "" {
		pf = w.finding(res, c, "property", rule, text, 0, ro.String(), "")
	}
	var mo, mb Outcome
	if c.Benc {
		md, merr := w.model.decode(c.Bytes)
		if merr != "" {
			res.skip(merr)
			w.tr("  model: %s", merr)
			return
		}
		mo, mb = md.Read, md.Benc
		w.tr("  model decode_i  : %s", md.Dec)
	} else {
		ans, ok := w.model.ask("V " + hexb(c.Bytes))
		var err error
		if ok {
			mo, err = modelOutcome(ans)
		}
		if !ok || err != nil {
			res.skip(ans)
			w.tr("  model: %s", clip(ans, 200))
			return
		}
	}
	w.tr("  model file_read : %s", mo)
	res.ModelClass["read:"+mo.Class]++
	if mo.Class == "err" {
		res.ErrKinds["model:"+mo.Kind]++
	}
	res.Ties["decode_class"]++
	if pf != nil {
		pf.Model = mo.String()
	}
	if level, r, t := cmpRead(ro, mo); level != "" && !(pf != nil && level == "mismatch") {
		w.finding(res, c, level, r, t, 0, ro.String(), mo.String())
	}
	if res.Sample == nil {
		res.Sample = map[string]any{"origin": c.Origin, "kind": "bytes", "hex": clip(hexb(c.Bytes), 160), "note": c.Note, "real": clip(ro.String(), 200), "model": clip(mo.String(), 200)}
	}
	if c.Benc && w.benc != nil {
		bo := w.benc.benc(c.Bytes)
		w.tr("  real  benc alone (no validator): %s", bo)
		w.tr("  model benc_decode              : %s", mb)
		res.RealClass["benc:"+bo.Class]++
		res.ModelClass["benc:"+mb.Class]++
		res.Ties["benc_class"]++
		if t := cmpBenc(bo, mb); t != "" {
			w.finding(res, c, "outside", "benc-alone", t, 0, bo.String(), mb.String())
		}
	}
}

// runSeqReal performs the writes on the real store. -> observations (one per write performed), open failure
func (w *Worker) runSeqReal(c *Case) ([]WriteObs, *Outcome) {
	ok, o := w.real.open(c.PreState, c.PreTmp)
	if !ok {
		return nil, &o
	}
	var out []WriteObs
	for _, es := range c.Seq {
		obs := w.real.write(es)
		out = append(out, obs)
		if cl := obs.Write.Class; cl == "died" || cl == "timeout" || cl == "harness" {
			break
		}
	}
	w.real.close()
	return out, nil
}

// judgeSeq: the first write at which the property fails.
func judgeSeq(c *Case, obs []WriteObs, openFail *Outcome) (int, string, string) {
	if openFail != nil {
		switch openFail.Class {
		case "harness":
			return 0, "", ""
		case "died", "timeout":
			return 0, "died", "store.New on the state file: " + clip(openFail.Msg, 300)
		}
		return 0, "open-failed", clip(openFail.Msg, 300)
	}
	for i, o := range obs {
		if r, t := propWrite(c.Seq[i], o); r != "" {
			return i, r, fmt.Sprintf("write %d of %d: %s", i+1, len(c.Seq), t)
		}
	}
	return 0, "", ""
}

func preDesc(p *[]byte) string {
	if p == nil {
		return "absent"
	}
	return fmt.Sprintf("%d bytes", len(*p))
}

func (w *Worker) evalSeq(c *Case, res *Result) {
	w.tr("store on a path whose state file is %s and whose left-over .tmp is %s; %d write(s)", preDesc(c.PreState), preDesc(c.PreTmp), len(c.Seq))
	obs, openFail := w.runSeqReal(c)
	step, rule, text := judgeSeq(c, obs, openFail)
	var pf *Finding
	for i, o := range obs {
		res.Evaluations++
		if !o.WriteOK {
			res.RealClass["write:"+o.Write.Class]++
			if o.Write.Class == "harness" {
				res.Harness = append(res.Harness, o.Write.Msg)
			}
		} else {
			res.RealClass["write:ok"]++
			res.RealClass["read-after-write:"+o.Same.Class]++
			res.RealClass["read-after-write:"+o.Fresh.Class]++
			w.noteAlloc(res, o.Same, len(o.File))
			w.noteAlloc(res, o.Fresh, len(o.File))
		}
		res.Ties["write_then_read_real"]++
		w.tr(" write %d: map of %d session(s), %d hold(s); encoding has %d bytes", i+1, len(c.Seq[i]), c.Seq[i].totalLocks(), encodedLen(c.Seq[i]))
		w.tr("  real  Write ok=%v; state file %d bytes: %s", o.WriteOK, len(o.File), clip(hexb(o.File), 200))
		if !o.WriteOK {
			w.tr("  real  Write: %s", o.Write)
		}
		w.tr("  real  Read (same store) : %s", o.Same)
		w.tr("  real  Read (fresh store): %s", o.Fresh)
	}
	if openFail != nil {
		w.tr("  real  store.New: %s", openFail)
		if openFail.Class == "harness" {
			res.Harness = append(res.Harness, openFail.Msg)
		}
	}
	if rule != "" {
		real := ""
		if step < len(obs) {
			real = fmt.Sprintf("file %d bytes; same-store read: %s; fresh-store read: %s", len(obs[step].File), clip(obs[step].Same.String(), 200), clip(obs[step].Fresh.String(), 200))
			if !obs[step].WriteOK {
				real = "Write: " + clip(obs[step].Write.String(), 300)
			}
		}
		pf = w.finding(res, c, "property", rule, text, step+1, real, "")
	}
	// ---- the model on the same sequence, compared write by write
	if e := w.model.fsSet(c.PreState, c.PreTmp); e != "" {
		res.skip(e)
		return
	}
	for i, es := range c.Seq {
		if i >= len(obs) || !obs[i].WriteOK {
			break
		}
		want := es.AsMap()
		wantS := canon(es)
		mb, e := w.model.fsWrite(es)
		if e != "" {
			res.skip(e)
			w.tr("  model: %s", e)
			return
		}
		mr, e := w.model.fsRead()
		if e != "" {
			res.skip(e)
			w.tr("  model: %s", e)
			return
		}
		w.tr(" write %d, model: state file %d bytes: %s", i+1, len(mb), clip(hexb(mb), 200))
		w.tr("  model file_read: %s", mr)
		res.ModelClass["read-after-write:"+mr.Class]++
		quiet := pf != nil && pf.Step == i+1 // the property failure already says it
		if mr.Class != "ok" || canon(mr.Entries) != wantS {
			w.finding(res, c, "mismatch", "model-roundtrip", fmt.Sprintf("write %d: the MODEL does not read back what it wrote (%s)", i+1, mr.Class), i+1, "", mr.String())
		}
		if len(mb) != encodedLen(es) {
			w.finding(res, c, "mismatch", "model-file-length", fmt.Sprintf("write %d: model file has %d bytes, the format says %d", i+1, len(mb), encodedLen(es)), i+1, "", "")
		}
		if obs[i].FileOK {
			res.Ties["file_length"]++
			if len(mb) != len(obs[i].File) && !quiet {
				w.finding(res, c, "mismatch", "file-length", fmt.Sprintf("write %d: real state file has %d bytes, the model's %d", i+1, len(obs[i].File), len(mb)), i+1, fmt.Sprint(len(obs[i].File)), fmt.Sprint(len(mb)))
			}
			// the model decodes what the real store wrote (whatever order Go's map iteration took)
			ans, ok := w.model.ask("V " + hexb(obs[i].File))
			if !ok {
				res.skip(ans)
				w.tr("  model: %s", clip(ans, 200))
			} else if mo, err := modelOutcome(ans); err == nil {
				res.Ties["model_decodes_real_file"]++
				w.tr("  model file_read of the REAL file: %s", mo)
				if (mo.Class != "ok" || canon(mo.Entries) != wantS) && !quiet {
					w.finding(res, c, "mismatch", "model-decodes-real-file", fmt.Sprintf("write %d: the model reads the real state file as %s, not as the map written", i+1, mo.Class), i+1, clip(hexb(obs[i].File), 300), mo.String())
				}
			}
		}
		// the real store reads what the model wrote (entries in the order of the case)
		rr := w.real.read(mb)
		res.Ties["real_reads_model_bytes"]++
		res.Evaluations++
		res.RealClass["read:"+rr.Class]++
		w.tr("  real  store.Read of the MODEL's file: %s", rr)
		w.noteAlloc(res, rr, len(mb))
		if r, t := propRead(rr, len(mb)); r != "" {
			bc := &Case{ID: c.ID, Kind: "bytes", Origin: c.Origin + "/model-encoding", Bytes: mb, Note: "the model's encoding of a generated map"}
			w.finding(res, bc, "property", r, t, 0, rr.String(), mr.String())
		} else if rr.Class != "harness" && (rr.Class != "ok" || !sameMap(want, rr.Entries.AsMap())) && !quiet {
			w.finding(res, c, "mismatch", "real-reads-model-bytes", fmt.Sprintf("write %d: the real store reads the model's encoding as %s, not as the map", i+1, rr.Class), i+1, rr.String(), clip(hexb(mb), 300))
		}
	}
	if res.Sample == nil && len(obs) > 0 && len(c.Seq) > 0 {
		res.Sample = map[string]any{"origin": c.Origin, "kind": "seq", "writes": len(c.Seq), "first_map": clip(c.Seq[0].Tokens(), 160),
			"encoded_lengths": seqLens(c), "real_last_read": clip(obs[len(obs)-1].Fresh.String(), 200)}
	}
}

func seqLens(c *Case) []int {
	var l []int
	for _, es := range c.Seq {
		l = append(l, encodedLen(es))
	}
	return l
}

func permutations(n int) [][]int {
	var out [][]int
	var rec func(cur []int, used []bool)
	rec = func(cur []int, used []bool) {
		if len(cur) == n {
			out = append(out, append([]int{}, cur...))
			return
		}
		for i := 0; i < n; i++ {
			if !used[i] {
				used[i] = true
				rec(append(cur, i), used)
				used[i] = false
			}
		}
	}
	rec(nil, make([]bool, n))
	return out
}

func (w *Worker) evalPerm(c *Case, res *Result) {
	es := c.Seq[0]
	if len(es) > 4 {
		es = es[:4]
	}
	want := es.AsMap()
	w.tr("map of %d session(s); the model's encoding in every order of the entries is read by the real store", len(es))
	for _, p := range permutations(len(es)) {
		pe := make(Entries, len(es))
		for i, j := range p {
			pe[i] = es[j]
		}
		mb, e := w.model.encode(pe)
		if e != "" {
			res.skip(e)
			return
		}
		mm, e := w.model.toMap(pe)
		if e == "" && canon(mm) != canon(es) {
			w.finding(res, c, "mismatch", "model-to-map", fmt.Sprintf("order %v: the model's to_map is not the map", p), 0, "", "")
		}
		rr := w.real.read(mb)
		res.Evaluations++
		res.Ties["real_reads_model_bytes_in_every_order"]++
		res.RealClass["read:"+rr.Class]++
		w.noteAlloc(res, rr, len(mb))
		w.tr("  order %v: %d bytes %s -> real %s", p, len(mb), clip(hexb(mb), 120), clip(rr.String(), 200))
		if rr.Class == "harness" {
			res.Harness = append(res.Harness, rr.Msg)
			continue
		}
		if r, t := propRead(rr, len(mb)); r != "" {
			bc := &Case{ID: c.ID, Kind: "bytes", Origin: c.Origin + "/model-encoding", Bytes: mb, Note: fmt.Sprintf("the model's encoding of a generated map, entry order %v", p)}
			w.finding(res, bc, "property", r, t, 0, rr.String(), "")
		} else if rr.Class != "ok" || !sameMap(want, rr.Entries.AsMap()) {
			w.finding(res, c, "mismatch", "real-reads-model-bytes", fmt.Sprintf("entry order %v: the real store reads the model's encoding as %s, not as the map", p, rr.Class), 0, rr.String(), clip(hexb(mb), 300))
		}
	}
	if res.Sample == nil {
		res.Sample = map[string]any{"origin": c.Origin, "kind": "perm", "map": clip(es.Tokens(), 160), "orders": len(permutations(len(es)))}
	}
}

// -------------------------------------------------------------------------------- shrinking

// shrinkUntil bounds the time spent on shrinking (a hanging store costs one deadline per attempt).
var shrinkUntil = time.Now().Add(time.Hour)

// shrinkBytes: a smaller byte string on which still(b) holds. At most budget evaluations.
func shrinkBytes(b []byte, still func([]byte) bool, budget int) []byte {
	try := func(c []byte) bool {
		if budget <= 0 || time.Now().After(shrinkUntil) {
			return false
		}
		budget--
		return still(c)
	}
	cur := append([]byte{}, b...)
	// shorter prefixes
	for len(cur) > 0 && budget > 0 {
		progressed := false
		for _, k := range []int{len(cur) / 2, len(cur) - 4, len(cur) - 1} {
			if k >= 0 && k < len(cur) && try(cur[:k]) {
				cur = append([]byte{}, cur[:k]...)
				progressed = true
				break
			}
		}
		if !progressed {
			break
		}
	}
	// drop single bytes, then make bytes zero
	for i := len(cur) - 1; i >= 0 && budget > 0 && len(cur) <= 64; i-- {
		c := append(append([]byte{}, cur[:i]...), cur[i+1:]...)
		if try(c) {
			cur = c
		}
	}
	for i := 0; i < len(cur) && budget > 0 && len(cur) <= 64; i++ {
		if cur[i] != 0 {
			c := append([]byte{}, cur...)
			c[i] = 0
			if try(c) {
				cur = c
			}
		}
	}
	return cur
}

func shortenStr(s string) []string {
	if len(s) == 0 {
		return nil
	}
	out := []string{""}
	if len(s) > 1 {
		out = append(out, s[:1], s[:len(s)/2])
	}
	return out
}

// shrinkSeq: a smaller sequence case on which still(c) holds.
func shrinkSeq(c *Case, still func(*Case) bool, budget int) *Case {
	try := func(x *Case) bool {
		if budget <= 0 || time.Now().After(shrinkUntil) {
			return false
		}
		budget--
		return still(x)
	}
	clone := func(x *Case) *Case {
		y := *x
		y.Seq = nil
		for _, es := range x.Seq {
			y.Seq = append(y.Seq, es.clone())
		}
		return &y
	}
	cur := clone(c)
	if cur.PreTmp != nil {
		x := clone(cur)
		x.PreTmp = nil
		if try(x) {
			cur = x
		}
	}
	if cur.PreState != nil {
		x := clone(cur)
		x.PreState = nil
		if try(x) {
			cur = x
		}
	}
	if cur.PreTmp != nil && len(*cur.PreTmp) > 8 {
		x := clone(cur)
		short := append([]byte{}, (*cur.PreTmp)[:8]...)
		x.PreTmp = &short
		if try(x) {
			cur = x
		}
	}
	if cur.PreState != nil && len(*cur.PreState) > 8 {
		x := clone(cur)
		short := append([]byte{}, (*cur.PreState)[:8]...)
		x.PreState = &short
		if try(x) {
			cur = x
		}
	}
	// fewer writes
	for i := 0; i < len(cur.Seq) && len(cur.Seq) > 1; {
		x := clone(cur)
		x.Seq = append(x.Seq[:i], x.Seq[i+1:]...)
		if try(x) {
			cur = x
		} else {
			i++
		}
	}
	// smaller maps
	for mi := range cur.Seq {
		// fewer sessions
		for i := 0; i < len(cur.Seq[mi]); {
			x := clone(cur)
			x.Seq[mi] = append(x.Seq[mi][:i], x.Seq[mi][i+1:]...)
			if try(x) {
				cur = x
			} else {
				i++
			}
		}
		for ei := range cur.Seq[mi] {
			// fewer holds: halves, then one by one
			for len(cur.Seq[mi][ei].Locks) > 1 {
				x := clone(cur)
				l := x.Seq[mi][ei].Locks
				x.Seq[mi][ei].Locks = l[:len(l)/2]
				if try(x) {
					cur = x
					continue
				}
				x = clone(cur)
				l = x.Seq[mi][ei].Locks
				x.Seq[mi][ei].Locks = l[len(l)/2:]
				if try(x) {
					cur = x
					continue
				}
				break
			}
			for i := 0; i < len(cur.Seq[mi][ei].Locks) && len(cur.Seq[mi][ei].Locks) <= 8; {
				x := clone(cur)
				l := x.Seq[mi][ei].Locks
				x.Seq[mi][ei].Locks = append(l[:i], l[i+1:]...)
				if try(x) {
					cur = x
				} else {
					i++
				}
			}
			// shorter strings, plainer sizes
			for _, s := range shortenStr(cur.Seq[mi][ei].ID) {
				dup := false
				for k, e := range cur.Seq[mi] {
					if k != ei && e.ID == s {
						dup = true
					}
				}
				if dup {
					continue
				}
				x := clone(cur)
				x.Seq[mi][ei].ID = s
				if try(x) {
					cur = x
					break
				}
			}
			for li := range cur.Seq[mi][ei].Locks {
				if len(cur.Seq[mi][ei].Locks) > 8 {
					break
				}
				for _, s := range shortenStr(cur.Seq[mi][ei].Locks[li].Name) {
					x := clone(cur)
					x.Seq[mi][ei].Locks[li].Name = s
					if try(x) {
						cur = x
						break
					}
				}
				for _, s := range shortenStr(cur.Seq[mi][ei].Locks[li].Key) {
					x := clone(cur)
					x.Seq[mi][ei].Locks[li].Key = s
					if try(x) {
						cur = x
						break
					}
				}
				if cur.Seq[mi][ei].Locks[li].Size != 1 {
					x := clone(cur)
					x.Seq[mi][ei].Locks[li].Size = 1
					if try(x) {
						cur = x
					}
				}
			}
		}
	}
	return cur
}

// shrink reduces the input of a finding while the real code still fails the same rule
// (property findings) or the two sides still differ by the same rule (mismatches on bytes).
func (w *Worker) shrink(f *Finding) {
	c := f.c
	if c == nil {
		return
	}
	saved := w.trace
	w.trace = nil
	defer func() { w.trace = saved }()
	switch {
	case c.Kind == "bytes" && f.Level == "property":
		b := shrinkBytes(c.Bytes, func(b []byte) bool {
			r, _ := propRead(w.real.read(b), len(b))
			return r == f.Rule
		}, 150)
		if len(b) < len(c.Bytes) || string(b) != string(c.Bytes) {
			j := caseJSON(&Case{Kind: "bytes", Origin: c.Origin, Bytes: b, Note: "shrunk from case " + fmt.Sprint(c.ID)})
			f.Shrunk = &j
		}
	case c.Kind == "bytes" && f.Level == "mismatch":
		b := shrinkBytes(c.Bytes, func(b []byte) bool {
			ro := w.real.read(b)
			ans, ok := w.model.ask("V " + hexb(b))
			if !ok {
				return false
			}
			mo, err := modelOutcome(ans)
			if err != nil {
				return false
			}
			l, r, _ := cmpRead(ro, mo)
			return l == "mismatch" && r == f.Rule
		}, 80)
		if string(b) != string(c.Bytes) {
			j := caseJSON(&Case{Kind: "bytes", Origin: c.Origin, Bytes: b, Note: "shrunk from case " + fmt.Sprint(c.ID)})
			f.Shrunk = &j
		}
	case c.Kind == "seq" && f.Level == "property":
		x := shrinkSeq(c, func(x *Case) bool {
			obs, of := w.runSeqReal(x)
			_, r, _ := judgeSeq(x, obs, of)
			return r == f.Rule
		}, 140)
		j := caseJSON(x)
		j.Note = strings.TrimSpace("shrunk from case " + fmt.Sprint(c.ID))
		f.Shrunk = &j
	}
}
