package main

// codecdiff [flags]
//
//	-model <exe>    the extracted model (ocaml/codec/codecdriver)
//	-work <dir>     scratch directory (state files of the children live here)
//	-corpus <dir>   corpus/codec/*.json, run first
//	-tier quick|thorough     -seed <n> (VERIF_SEED)     -workers <n>     -deadline <seconds>
//	-report <file>  JSON report (see Report)
//	-replay <file>  run exactly the case of a corpus / replay file, print both sides
//	-child <dir> <address-space limit>     (internal) the process that runs the real store
//
// Exit status 0 whenever a report was written; verdicts are made by checks/c17.py from the report.

import (
	"encoding/json"
	"flag"
	"fmt"
	"os"
	"path/filepath"
	"runtime"
	"sort"
	"strconv"
	"sync"
	"sync/atomic"
	"time"
)

// Dist is the distribution of the generated inputs.
type Dist struct {
	StringKinds      map[string]int   `json:"string_kinds"`
	StringLen        map[string]int   `json:"string_lengths"`
	SizeKinds        map[string]int   `json:"size_kinds"`
	MapShapes        map[string]int   `json:"map_shapes"`
	MapSessions      map[string]int   `json:"sessions_per_map"`
	MapHolds         map[string]int   `json:"holds_per_map"`
	EncodedLen       map[string]int   `json:"encoded_length_of_maps"`
	EmptySessions    int              `json:"sessions_without_holds"`
	SeqLen           map[string]int   `json:"writes_per_sequence"`
	SeqPatterns      map[string]int   `json:"sequence_patterns"`
	SeqSteps         map[string]int   `json:"consecutive_writes"`
	PreState         map[string]int   `json:"on_disk_before_open"`
	BytesLen         map[string]int   `json:"malformed_input_lengths"`
	Origins          map[string]int   `json:"cases_by_generator"`
	Kinds            map[string]int   `json:"cases_by_kind"`
	DamagedEncodings []map[string]any `json:"damaged_encodings"`
}

func newDist() *Dist {
	m := func() map[string]int { return map[string]int{} }
	return &Dist{StringKinds: m(), StringLen: m(), SizeKinds: m(), MapShapes: m(), MapSessions: m(), MapHolds: m(), EncodedLen: m(),
		SeqLen: m(), SeqPatterns: m(), SeqSteps: m(), PreState: m(), BytesLen: m(), Origins: m(), Kinds: m()}
}

func bucket(n int) string {
	switch {
	case n == 0:
		return "0"
	case n == 1:
		return "1"
	case n < 8:
		return "2-7"
	case n < 64:
		return "8-63"
	case n < 128:
		return "64-127"
	case n < 1024:
		return "128-1023"
	case n < 16384:
		return "1Ki-16Ki"
	case n < 65536:
		return "16Ki-64Ki"
	}
	return ">=64Ki"
}

func (d *Dist) addLen(h map[string]int, n int) { h[bucket(n)]++ }

type Report struct {
	Seed               uint64         `json:"seed"`
	Tier               string         `json:"tier"`
	Workers            int            `json:"workers"`
	WallS              float64        `json:"wall_s"`
	Cases              int            `json:"cases"`
	CasesRun           int            `json:"cases_run"`
	NotRun             int            `json:"cases_not_run_deadline"`
	Corpus             []string       `json:"corpus_files"`
	CorpusBad          []string       `json:"corpus_unreadable,omitempty"`
	Evaluations        int            `json:"evaluations"`
	Distinct           int            `json:"distinct_inputs"`
	DistinctNontrivial int            `json:"distinct_nontrivial_inputs"`
	RealCalls          int64          `json:"real_calls"`
	ModelCalls         int64          `json:"model_calls"`
	RealDeaths         int64          `json:"real_child_deaths_or_timeouts"`
	ModelSkip          int            `json:"model_evaluations_skipped"`
	SkipWhy            []string       `json:"model_skip_reasons,omitempty"`
	Dist               *Dist          `json:"distribution"`
	RealClass          map[string]int `json:"real_outcome_classes"`
	ModelClass         map[string]int `json:"model_outcome_classes"`
	ErrKinds           map[string]int `json:"error_kinds"`
	Ties               map[string]int `json:"ties"`
	AllocBound         map[string]any `json:"allocation_bound"`
	Counts             map[string]int `json:"findings_by_level_and_rule"`
	Property           []*Finding     `json:"property_failures"`
	Mismatches         []*Finding     `json:"mismatches"`
	Outside            []*Finding     `json:"outside_projection"`
	Harness            []string       `json:"harness_problems"`
	Samples            []any          `json:"samples"`
	Replay             bool           `json:"replay,omitempty"`
}

func addMap(dst, src map[string]int) {
	for k, v := range src {
		dst[k] += v
	}
}

func loadCase(path string) (*Case, error) {
	raw, err := os.ReadFile(path)
	if err != nil {
		return nil, err
	}
	var j CaseJSON
	if err := json.Unmarshal(raw, &j); err != nil {
		return nil, err
	}
	return caseFromJSON(j)
}

var nPropertyFindings atomic.Int64

func main() {
	if len(os.Args) >= 4 && os.Args[1] == "-child" {
		lim, _ := strconv.ParseUint(os.Args[3], 10, 64)
		childMain(os.Args[2], lim)
		return
	}
	model := flag.String("model", "", "")
	work := flag.String("work", "", "")
	corpus := flag.String("corpus", "", "")
	tier := flag.String("tier", "quick", "")
	seed := flag.Uint64("seed", 1, "")
	workers := flag.Int("workers", 0, "")
	deadline := flag.Float64("deadline", 150, "")
	report := flag.String("report", "", "")
	replay := flag.String("replay", "", "")
	asLimit := flag.Uint64("aslimit", 1<<30, "")
	flag.Parse()
	if *model == "" || *work == "" || *report == "" {
		fmt.Fprintln(os.Stderr, "codecdiff: -model, -work and -report are required")
		os.Exit(2)
	}
	self, err := os.Executable()
	if err != nil {
		fmt.Fprintln(os.Stderr, "codecdiff:", err)
		os.Exit(2)
	}
	t0 := time.Now()
	nw := *workers
	if nw <= 0 {
		nw = min(8, max(2, runtime.NumCPU()/2))
	}
	realTmo, modelTmo := 10*time.Second, 40*time.Second
	if *tier == "thorough" {
		realTmo, modelTmo = 20*time.Second, 180*time.Second
	}
	mkWorker := func(i int) *Worker {
		return &Worker{
			real:  &Real{exe: self, dir: filepath.Join(*work, fmt.Sprintf("real%d", i)), as: *asLimit, tmo: realTmo},
			benc:  &Real{exe: self, dir: filepath.Join(*work, fmt.Sprintf("benc%d", i)), as: *asLimit, tmo: 4 * time.Second},
			model: &Model{exe: *model, tmo: modelTmo},
		}
	}

	dist := newDist()
	rep := &Report{Seed: *seed, Tier: *tier, Workers: nw, Dist: dist, RealClass: map[string]int{}, ModelClass: map[string]int{}, ErrKinds: map[string]int{},
		Ties: map[string]int{}, Counts: map[string]int{}, Property: []*Finding{}, Mismatches: []*Finding{}, Outside: []*Finding{}, Harness: []string{}, Samples: []any{}, Corpus: []string{}}

	// ---- the list of cases: corpus first, then the generated ones
	g := newGen(*seed, *tier, dist)
	if *replay != "" {
		c, err := loadCase(*replay)
		if err != nil {
			fmt.Println("cannot read the replay file:", err)
			rep.Harness = append(rep.Harness, "replay file unreadable: "+err.Error())
			rep.Replay = true
			writeReport(*report, rep)
			return
		}
		if c.Origin == "" {
			c.Origin = "replay"
		}
		g.add(c)
		rep.Replay = true
		nw = 1
	} else {
		if *corpus != "" {
			files, _ := filepath.Glob(filepath.Join(*corpus, "*.json"))
			sort.Strings(files)
			for _, f := range files {
				c, err := loadCase(f)
				if err != nil {
					rep.CorpusBad = append(rep.CorpusBad, filepath.Base(f)+": "+err.Error())
					continue
				}
				c.Origin = "corpus:" + filepath.Base(f)
				g.add(c)
				rep.Corpus = append(rep.Corpus, filepath.Base(f))
			}
		}
		g.generate(planOf(*tier))
	}
	cases := g.cases
	// distinct inputs, and among them the non-trivial ones: a map / sequence / order case with at least one
	// session in one of its maps; a byte string whose first count is a well-formed varint >= 1 that the rest
	// of the file could hold (so that at least one session id is looked at)
	distinct := map[string]bool{}
	for _, c := range cases {
		dist.Origins[c.Origin]++
		dist.Kinds[c.Kind]++
		if c.Kind == "bytes" {
			dist.addLen(dist.BytesLen, len(c.Bytes))
			distinct["b"+string(c.Bytes)] = entersEntries(c.Bytes)
		} else {
			k := c.Kind
			nt := false
			for _, es := range c.Seq {
				k += "|" + es.Tokens()
				nt = nt || len(es) > 0
			}
			distinct[k+optHex(c.PreState)+optHex(c.PreTmp)] = nt
		}
	}
	rep.Cases, rep.Distinct = len(cases), len(distinct)
	for _, nt := range distinct {
		if nt {
			rep.DistinctNontrivial++
		}
	}

	// ---- run
	results := make([]*Result, len(cases))
	stop := t0.Add(time.Duration(*deadline * float64(time.Second)))
	var wg sync.WaitGroup
	next := make(chan int, len(cases))
	// expensive cases first so that the workers finish together
	order := make([]int, len(cases))
	for i := range order {
		order[i] = i
	}
	cost := func(c *Case) float64 {
		x := 0.0
		for _, es := range c.Seq {
			x += modelCost(es)
		}
		return x
	}
	if *replay == "" {
		sort.SliceStable(order, func(a, b int) bool {
			ca, cb := cases[order[a]], cases[order[b]]
			// corpus always first
			pa, pb := len(ca.Origin) > 7 && ca.Origin[:7] == "corpus:", len(cb.Origin) > 7 && cb.Origin[:7] == "corpus:"
			if pa != pb {
				return pa
			}
			return cost(ca) > cost(cb)
		})
	}
	for _, i := range order {
		next <- i
	}
	close(next)
	ws := make([]*Worker, nw)
	for k := 0; k < nw; k++ {
		ws[k] = mkWorker(k)
		if *replay != "" {
			ws[k].trace = os.Stdout
		}
		wg.Add(1)
		go func(w *Worker) {
			defer wg.Done()
			for i := range next {
				// past the deadline, or the property is refuted many times over already: the rest is not run
				if time.Now().After(stop) || nPropertyFindings.Load() >= 60 {
					continue
				}
				results[i] = w.eval(cases[i])
				for _, f := range results[i].Findings {
					if f.Level == "property" {
						nPropertyFindings.Add(1)
					}
				}
			}
		}(ws[k])
	}
	wg.Wait()

	// ---- collect (in case order: the report does not depend on scheduling)
	var all []*Finding
	seenSample := map[string]bool{}
	for i, r := range results {
		if r == nil {
			rep.NotRun++
			continue
		}
		rep.CasesRun++
		rep.Evaluations += r.Evaluations
		rep.ModelSkip += r.ModelSkipped
		for _, why := range r.SkipReasons {
			if len(rep.SkipWhy) < 8 {
				rep.SkipWhy = append(rep.SkipWhy, fmt.Sprintf("case %d (%s): %s", cases[i].ID, cases[i].Origin, why))
			}
		}
		addMap(rep.RealClass, r.RealClass)
		addMap(rep.ModelClass, r.ModelClass)
		addMap(rep.ErrKinds, r.ErrKinds)
		addMap(rep.Ties, r.Ties)
		for _, h := range r.Harness {
			if len(rep.Harness) < 10 {
				rep.Harness = append(rep.Harness, h)
			}
		}
		all = append(all, r.Findings...)
		if r.Sample != nil && !seenSample[cases[i].Origin] && len(rep.Samples) < 14 {
			seenSample[cases[i].Origin] = true
			rep.Samples = append(rep.Samples, r.Sample)
		}
	}
	var maxNum uint64
	maxLen := 0
	for _, r := range results {
		if r != nil && r.MaxAllocNum > 0 && (maxNum == 0 || r.MaxAllocNum*uint64(maxLen+1024) > maxNum*uint64(r.MaxAllocLen+1024)) {
			maxNum, maxLen = r.MaxAllocNum, r.MaxAllocLen
		}
	}
	rep.AllocBound = map[string]any{"c": allocC, "c0": allocC0, "rule": "bytes allocated by one store.Read (runtime.MemStats.TotalAlloc) <= c*len(file) + c0",
		"address_space_limit_of_child": *asLimit, "largest_relative_allocation_within_bound": map[string]any{"allocated": maxNum, "file_len": maxLen}}

	// ---- shrink the first findings of every rule, write everything out
	perRule := map[string]int{}
	shrinkUntil = time.Now().Add(40 * time.Second)
	if *tier == "thorough" {
		shrinkUntil = time.Now().Add(180 * time.Second)
	}
	for _, f := range all {
		key := f.Level + ":" + f.Rule
		rep.Counts[key]++
		perRule[key]++
		var dst *[]*Finding
		switch f.Level {
		case "property":
			dst = &rep.Property
		case "mismatch":
			dst = &rep.Mismatches
		default:
			dst = &rep.Outside
		}
		if perRule[key] > 4 || len(*dst) >= 24 {
			continue
		}
		if perRule[key] <= 2 && f.Level != "outside" && *replay == "" && time.Now().Before(stop.Add(30*time.Second)) {
			ws[0].shrink(f)
		}
		*dst = append(*dst, f)
	}
	for _, w := range ws {
		w.real.stop()
		w.benc.stop()
		w.model.stop()
	}
	rep.RealCalls, rep.ModelCalls, rep.RealDeaths = nRealCalls.Load(), nModelCalls.Load(), nRealDeaths.Load()
	rep.WallS = time.Since(t0).Seconds()
	writeReport(*report, rep)
	if *replay != "" {
		fmt.Printf("verdict: %d property failure(s), %d mismatch(es) in the property's projection, %d difference(s) outside it\n", len(rep.Property), len(rep.Mismatches), len(rep.Outside))
	}
	os.RemoveAll(filepath.Join(*work, "real0"))
}

// entersEntries: the first count of b is a canonical-length varint c >= 1 with c <= (rest of b)/6.
func entersEntries(b []byte) bool {
	var v uint64
	for i := 0; i < len(b) && i < 10; i++ {
		v |= uint64(b[i]&0x7f) << (7 * uint(i))
		if b[i] < 0x80 {
			if i == 9 && b[i] > 1 {
				return false
			}
			return v >= 1 && v <= uint64(len(b)-i-1)/6
		}
	}
	return false
}

func writeReport(path string, rep *Report) {
	b, err := json.MarshalIndent(rep, "", " ")
	if err != nil {
		fmt.Fprintln(os.Stderr, "codecdiff: report:", err)
		os.Exit(3)
	}
	if err := os.WriteFile(path, b, 0644); err != nil {
		fmt.Fprintln(os.Stderr, "codecdiff: report:", err)
		os.Exit(3)
	}
}
