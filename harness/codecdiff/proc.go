package main

// Line-oriented conversations with the two kinds of helper processes: the child that runs the
// real store (child.go) and the extracted model (ocaml/codec/driver.ml). Every question has a
// deadline; a process that dies or does not answer is killed and classified, never waited for.

import (
	"bufio"
	"encoding/hex"
	"fmt"
	"io"
	"os"
	"os/exec"
	"strings"
	"sync"
	"sync/atomic"
	"time"
)

type tailBuf struct {
	mu sync.Mutex
	b  []byte
}

func (t *tailBuf) Write(p []byte) (int, error) {
	t.mu.Lock()
	// the beginning of a Go fatal error / panic report says what happened
	if room := 4096 - len(t.b); room > 0 {
		t.b = append(t.b, p[:min(room, len(p))]...)
	}
	t.mu.Unlock()
	return len(p), nil
}

func (t *tailBuf) String() string {
	t.mu.Lock()
	defer t.mu.Unlock()
	return string(t.b)
}

type proc struct {
	cmd   *exec.Cmd
	stdin io.WriteCloser
	lines chan string
	errb  *tailBuf
	dead  bool
}

func startProc(name string, args ...string) (*proc, error) {
	cmd := exec.Command(name, args...)
	in, err := cmd.StdinPipe()
	if err != nil {
		return nil, err
	}
	out, err := cmd.StdoutPipe()
	if err != nil {
		return nil, err
	}
	p := &proc{cmd: cmd, stdin: in, lines: make(chan string, 4), errb: &tailBuf{}}
	cmd.Stderr = p.errb
	if err := cmd.Start(); err != nil {
		return nil, err
	}
	go func() {
		r := bufio.NewReaderSize(out, 1<<20)
		for {
			line, err := r.ReadString('\n')
			if strings.HasSuffix(line, "\n") {
				p.lines <- strings.TrimRight(line, "\r\n")
			}
			if err != nil {
				close(p.lines)
				return
			}
		}
	}()
	return p, nil
}

// ask sends one line and waits for one line. status: ok | timeout | died.
func (p *proc) ask(line string, d time.Duration) (string, string) {
	if p == nil || p.dead {
		return "", "died"
	}
	werr := make(chan error, 1)
	go func() {
		_, err := io.WriteString(p.stdin, line+"\n")
		werr <- err
	}()
	t := time.NewTimer(d)
	defer t.Stop()
	select {
	case ans, ok := <-p.lines:
		if !ok {
			p.kill()
			return "", "died"
		}
		return ans, "ok"
	case <-t.C:
		p.kill()
		return "", "timeout"
	}
}

func (p *proc) kill() {
	if p == nil || p.dead {
		return
	}
	p.dead = true
	p.stdin.Close()
	if p.cmd.Process != nil {
		p.cmd.Process.Kill()
	}
	go func() {
		for range p.lines {
		}
	}()
	done := make(chan struct{})
	go func() { p.cmd.Wait(); close(done) }()
	select {
	case <-done:
	case <-time.After(5 * time.Second):
	}
}

func (p *proc) stderrTail() string {
	s := p.errb.String()
	// the first lines of a Go fatal error / panic say what happened
	lines := strings.Split(s, "\n")
	if len(lines) > 6 {
		lines = lines[:6]
	}
	return strings.TrimSpace(strings.Join(lines, " / "))
}

// ------------------------------------------------------------------------------ counters

var (
	nRealCalls  atomic.Int64
	nModelCalls atomic.Int64
	nRealDeaths atomic.Int64
)

// --------------------------------------------------------------------------- the real side

// Real is one child process running the real store of the tree under test.
type Real struct {
	exe, dir string
	as       uint64
	tmo      time.Duration
	p        *proc
	n        int
}

func (r *Real) ensure() bool {
	if r.p != nil && !r.p.dead {
		return true
	}
	r.n++
	d := fmt.Sprintf("%s/c%d", r.dir, r.n)
	os.RemoveAll(d)
	if os.MkdirAll(d, 0755) != nil {
		return false
	}
	// a child that cannot even answer a ping (resource limits too tight for this Go runtime, ...)
	// is a problem of the harness, never an observation about the store: retry with looser limits
	for _, as := range []uint64{r.as, 2 * r.as, 4 * r.as} {
		p, err := startProc(r.exe, "-child", d, fmt.Sprint(as))
		if err != nil {
			return false
		}
		if ans, st := p.ask("P", 20*time.Second); st == "ok" && strings.HasPrefix(ans, "pong") {
			r.p = p
			return true
		}
		p.kill()
	}
	return false
}

// cmd: (answer, status); status ok | timeout | died | nostart
func (r *Real) cmd(line string) (string, string, string) {
	if !r.ensure() {
		return "", "nostart", ""
	}
	nRealCalls.Add(1)
	ans, st := r.p.ask(line, r.tmo)
	msg := ""
	if st != "ok" {
		nRealDeaths.Add(1)
		msg = r.p.stderrTail()
	}
	return ans, st, msg
}

func (r *Real) stop() {
	if r.p != nil {
		r.p.kill()
	}
}

func deadOutcome(st, msg string) Outcome {
	switch st {
	case "timeout":
		return Outcome{Class: "timeout", Msg: "no answer from store.Read within the deadline; " + msg}
	case "nostart":
		return Outcome{Class: "harness", Msg: "child process could not be started"}
	}
	return Outcome{Class: "died", Msg: "the process running the real store died: " + msg}
}

func realOutcome(ans string) Outcome {
	o, err := parseOutcome(strings.Split(strings.TrimSpace(ans), " "))
	if err != nil {
		return Outcome{Class: "harness", Msg: "unparsable answer of the child: " + clip(ans, 200)}
	}
	return o
}

func hexb(b []byte) string {
	if len(b) == 0 {
		return "-"
	}
	return hex.EncodeToString(b)
}

func unhexb(t string) ([]byte, error) {
	if t == "-" {
		return nil, nil
	}
	return hex.DecodeString(t)
}

// read: store.New(file holding b).Read()
func (r *Real) read(b []byte) Outcome {
	ans, st, msg := r.cmd("R " + hexb(b))
	if st != "ok" {
		return deadOutcome(st, msg)
	}
	return realOutcome(ans)
}

// benc: benc's decoder without the validator
func (r *Real) benc(b []byte) Outcome {
	ans, st, msg := r.cmd("B " + hexb(b))
	if st != "ok" {
		return deadOutcome(st, msg)
	}
	return realOutcome(ans)
}

func optHex(b *[]byte) string {
	if b == nil {
		return "x"
	}
	return hexb(*b)
}

func (r *Real) open(state, tmp *[]byte) (bool, Outcome) {
	ans, st, msg := r.cmd("O " + optHex(state) + " " + optHex(tmp))
	if st != "ok" {
		return false, deadOutcome(st, msg)
	}
	if ans != "opened" {
		m := ans
		if f := strings.Fields(ans); len(f) == 2 && f[0] == "failed" {
			m, _ = unhexs(f[1])
		}
		return false, Outcome{Class: "panic", Kind: "go", Msg: "store.New failed: " + m}
	}
	return true, Outcome{}
}

// WriteObs is what the real store did for one Write on the open store.
type WriteObs struct {
	WriteOK bool    // Write returned nil without panicking
	Write   Outcome // when !WriteOK
	File    []byte  // the state file's bytes afterwards (os.ReadFile)
	FileOK  bool
	Same    Outcome // Read() on the writing store
	Fresh   Outcome // Read() on a new store opened on the path
}

func (r *Real) write(es Entries) WriteObs {
	ans, st, msg := r.cmd("W " + es.Tokens())
	if st != "ok" {
		d := deadOutcome(st, msg)
		return WriteObs{Write: d, Same: d, Fresh: d}
	}
	parts := strings.Split(ans, " | ")
	if len(parts) != 3 {
		h := Outcome{Class: "harness", Msg: "unparsable answer of the child: " + clip(ans, 200)}
		return WriteObs{Write: h, Same: h, Fresh: h}
	}
	w := WriteObs{Same: realOutcome(parts[1]), Fresh: realOutcome(parts[2])}
	if parts[0] == "-" && parts[1] == parts[2] && !strings.HasPrefix(parts[1], "ok ") {
		// Write itself failed (the child repeats its outcome in both positions)
		w.Write = w.Same
		f, _ := unhexb("-")
		w.File = f
		return w
	}
	w.WriteOK = true
	if parts[0] != "unreadable" {
		if f, err := unhexb(parts[0]); err == nil {
			w.File, w.FileOK = f, true
		}
	}
	return w
}

func (r *Real) close() {
	if r.p != nil && !r.p.dead {
		r.cmd("C")
	}
}

// -------------------------------------------------------------------------- the model side

// Model is one process of the extracted Coq model.
type Model struct {
	exe string
	tmo time.Duration
	p   *proc
}

func (m *Model) ask(line string) (string, bool) {
	if m.p == nil || m.p.dead {
		// the extracted functions recurse over lists of bytes: give the driver a large stack
		p, err := startProc("/bin/sh", "-c", `ulimit -s 4000000 2>/dev/null || ulimit -s unlimited 2>/dev/null; exec "$0"`, m.exe)
		if err != nil {
			return "cannot start the model driver: " + err.Error(), false
		}
		m.p = p
	}
	nModelCalls.Add(1)
	ans, st := m.p.ask(line, m.tmo)
	if st != "ok" {
		return "model driver " + st + " " + m.p.stderrTail(), false
	}
	if strings.HasPrefix(ans, "bad") {
		return "model driver: " + clip(ans, 200), false
	}
	return ans, true
}

func (m *Model) stop() {
	if m.p != nil {
		m.p.kill()
	}
}

// ModelDec: decode_i, benc_decode_i and file_read of the same bytes.
type ModelDec struct {
	Dec, Benc, Read Outcome
}

func modelOutcome(s string) (Outcome, error) {
	return parseOutcome(strings.Split(strings.TrimSpace(s), " "))
}

func (m *Model) decode(b []byte) (ModelDec, string) {
	ans, ok := m.ask("D " + hexb(b))
	if !ok {
		return ModelDec{}, ans
	}
	parts := strings.Split(ans, " | ")
	if len(parts) != 3 {
		return ModelDec{}, "unparsable model answer: " + clip(ans, 200)
	}
	var md ModelDec
	var err error
	if md.Dec, err = modelOutcome(parts[0]); err != nil {
		return md, err.Error()
	}
	if md.Benc, err = modelOutcome(parts[1]); err != nil {
		return md, err.Error()
	}
	if md.Read, err = modelOutcome(parts[2]); err != nil {
		return md, err.Error()
	}
	return md, ""
}

func (m *Model) encode(es Entries) ([]byte, string) {
	ans, ok := m.ask("E " + es.Tokens())
	if !ok {
		return nil, ans
	}
	b, err := unhexb(ans)
	if err != nil {
		return nil, "unparsable model answer: " + clip(ans, 200)
	}
	return b, ""
}

func (m *Model) toMap(es Entries) (Entries, string) {
	ans, ok := m.ask("M " + es.Tokens())
	if !ok {
		return nil, ans
	}
	o, err := modelOutcome(ans)
	if err != nil || o.Class != "ok" {
		return nil, "unparsable model answer: " + clip(ans, 200)
	}
	return o.Entries, ""
}

func (m *Model) fsSet(state, tmp *[]byte) string {
	if state == nil && tmp == nil {
		if _, ok := m.ask("N"); !ok {
			return "model driver failed on N"
		}
		return ""
	}
	var s []byte
	if state != nil {
		s = *state
	}
	if ans, ok := m.ask("F " + hexb(s) + " " + optHex(tmp)); !ok {
		return ans
	}
	return ""
}

func (m *Model) fsWrite(es Entries) ([]byte, string) {
	ans, ok := m.ask("W " + es.Tokens())
	if !ok {
		return nil, ans
	}
	b, err := unhexb(ans)
	if err != nil {
		return nil, "unparsable model answer: " + clip(ans, 200)
	}
	return b, ""
}

func (m *Model) fsRead() (Outcome, string) {
	ans, ok := m.ask("R")
	if !ok {
		return Outcome{}, ans
	}
	o, err := modelOutcome(ans)
	if err != nil {
		return o, err.Error()
	}
	return o, ""
}

func clip(s string, n int) string {
	if len(s) > n {
		return s[:n] + "..."
	}
	return s
}
