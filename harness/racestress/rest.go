package racestress

import (
	"bytes"
	"context"
	"encoding/json"
	"fmt"
	"io"
	"net/http"
	"strings"
	"sync"
	"time"

	pb "github.com/imoore76/ldlm/protos"
)

type restActor struct {
	actorBase
	hc      *http.Client
	base    string
	cookie  string
	sessN   int
	holds   []hold
	pin     *hold
	idle    bool
	lastReq time.Time
	dirty   bool // an abandoned request of this session may still reach the handler (and re-arm the idle timer) later
}

func newRestActor(e *env, id string, k int, idle bool) *restActor {
	tr := &http.Transport{MaxIdleConnsPerHost: 4, IdleConnTimeout: 5 * time.Second}
	return &restActor{actorBase: e.newBase(id, k), hc: &http.Client{Transport: tr, Timeout: 4 * time.Second},
		base: "http://" + e.st.RestAddr, idle: idle}
}

type restReply struct {
	status int
	body   []byte
	cookie string // value of the ldlm-session cookie the response sets ("" = none)
	setCk  bool
	err    error
}

func (a *restActor) do(ctx context.Context, method, path, cookie, body string, password string) restReply {
	var rd io.Reader
	if body != "" {
		rd = strings.NewReader(body)
	}
	req, err := http.NewRequestWithContext(ctx, method, a.base+path, rd)
	if err != nil {
		return restReply{err: err}
	}
	if body != "" {
		req.Header.Set("Content-Type", "application/json")
	}
	if cookie != "" {
		req.AddCookie(&http.Cookie{Name: "ldlm-session", Value: cookie})
	}
	if password != "" {
		req.SetBasicAuth("u", password)
	}
	rsp, err := a.hc.Do(req)
	if err != nil {
		return restReply{err: err}
	}
	defer rsp.Body.Close()
	b, err := io.ReadAll(rsp.Body)
	out := restReply{status: rsp.StatusCode, body: b, err: err}
	for _, c := range rsp.Cookies() {
		if c.Name == "ldlm-session" {
			out.cookie, out.setCk = c.Value, true
		}
	}
	return out
}

func (a *restActor) bad(op, class, what, req string, r restReply) {
	a.e.anomaly(a.id, "rest", op, class, pkgsRest, what, req, fmt.Sprintf("HTTP %d %s", r.status, string(r.body)))
}

// parseObj: the body must be exactly one JSON object.
func parseObj(b []byte) (map[string]any, error) {
	dec := json.NewDecoder(bytes.NewReader(b))
	var m map[string]any
	if err := dec.Decode(&m); err != nil {
		return nil, err
	}
	if dec.More() {
		return nil, fmt.Errorf("data after the JSON value")
	}
	if _, err := dec.Token(); err != io.EOF {
		return nil, fmt.Errorf("data after the JSON value")
	}
	if m == nil {
		return nil, fmt.Errorf("not an object")
	}
	return m, nil
}

// toResp turns the gateway's JSON rendering of a Lock/UnlockResponse into a resp; ok=false: the object is not such a rendering.
func toResp(m map[string]any, raw []byte) (resp, string) {
	r := resp{Raw: string(raw)}
	for k, v := range m {
		switch k {
		case "name":
			s, ok := v.(string)
			if !ok {
				return r, "name is not a string"
			}
			r.Name = s
		case "key":
			s, ok := v.(string)
			if !ok {
				return r, "key is not a string"
			}
			r.Key = s
		case "locked", "unlocked":
			f, ok := v.(bool)
			if !ok {
				return r, k + " is not a boolean"
			}
			r.Flag = f
		case "error":
			if v == nil {
				continue
			}
			em, ok := v.(map[string]any)
			if !ok {
				return r, "error is not an object"
			}
			r.HasErr = true
			switch c := em["code"].(type) {
			case string:
				r.Code = c
			case float64:
				r.Code = pb.ErrorCode(int32(c)).String()
			case nil:
				r.Code = cUnknown // protojson omits the zero enum unless EmitUnpopulated
			default:
				return r, "error.code is neither a string nor a number"
			}
			if s, ok := em["message"].(string); ok {
				r.Msg = s
			}
		default:
			return r, "unexpected member " + k
		}
	}
	return r, ""
}

// call sends one lock request of this actor's session and judges the answer. Returns the response and whether it was a
// judged, well-formed service answer. gone=true: the session was refused (401) — tolerated at any time (a session
// timeout of 100-300 ms can run out between two requests of a busy machine).
func (a *restActor) call(op, path string, body map[string]any, ex expect) (r resp, ok bool, gone bool) {
	b, _ := json.Marshal(body)
	ctx, cancel := context.WithTimeout(context.Background(), 4*time.Second)
	defer cancel()
	rep := a.do(ctx, "POST", path, a.cookie, string(b), a.e.cfg.Password)
	a.lastReq = time.Now()
	a.n("rest." + op)
	reqS := "POST " + path + " " + string(b)
	if rep.err != nil {
		a.n("rest.transport-error")
		if !a.e.closing.Load() {
			a.e.anomaly(a.id, "rest", ex.Op, "http-error", pkgsRest, "the request failed below the handler although the stack was up: "+rep.err.Error(), reqS, rep.err.Error())
		}
		return r, false, false
	}
	m, err := parseObj(rep.body)
	if err != nil {
		a.bad(ex.Op, "not-json", "the response body is not one JSON object: "+err.Error(), reqS, rep)
		return r, false, false
	}
	if rep.status == http.StatusUnauthorized {
		if _, has := m["error"].(string); !has || len(m) != 1 {
			a.bad(ex.Op, "401-body", "a 401 whose body is not {\"error\": \"...\"}", reqS, rep)
		}
		a.n("rest.401")
		return r, false, true
	}
	if rep.status != http.StatusOK {
		if !a.e.closing.Load() {
			a.bad(ex.Op, fmt.Sprintf("status-%d", rep.status), fmt.Sprintf("HTTP status %d for a well-formed request of a live session", rep.status), reqS, rep)
		}
		return r, false, false
	}
	r, why := toResp(m, rep.body)
	if why != "" {
		a.bad(ex.Op, "shape", "the body is not the rendering of one response: "+why, reqS, rep)
		return r, false, false
	}
	a.dirty = false
	if !rep.setCk || rep.cookie != a.cookie {
		a.bad(ex.Op, "cookie", fmt.Sprintf("the response does not re-issue this session's cookie (got %q, sent %q)", rep.cookie, a.cookie), reqS, rep)
	}
	return r, a.e.judge(a.id, "rest", pkgsRest, ex, r, reqS), false
}

func (a *restActor) createSession() bool {
	ctx, cancel := context.WithTimeout(context.Background(), 4*time.Second)
	defer cancel()
	rep := a.do(ctx, "POST", "/session", "", "", a.e.cfg.Password)
	a.n("rest.session-create")
	if rep.err != nil {
		return false
	}
	m, err := parseObj(rep.body)
	sid, _ := m["session_id"].(string)
	if err != nil || rep.status != http.StatusCreated || len(sid) != 32 || rep.cookie != sid {
		if !a.e.closing.Load() {
			a.bad("session", "create", fmt.Sprintf("POST /session: status %d, cookie %q, body does not carry that 32 byte session id", rep.status, rep.cookie), "POST /session", rep)
		}
		return false
	}
	a.cookie, a.holds, a.pin = sid, nil, nil
	a.sessN++
	a.lastReq = time.Now()
	return true
}

func (a *restActor) deleteSession() {
	ctx, cancel := context.WithTimeout(context.Background(), 4*time.Second)
	defer cancel()
	old := a.cookie
	rep := a.do(ctx, "DELETE", "/session", old, "", a.e.cfg.Password)
	a.n("rest.session-delete")
	a.cookie, a.holds, a.pin = "", nil, nil
	if rep.err != nil {
		return
	}
	m, err := parseObj(rep.body)
	switch {
	case err != nil:
		a.bad("session", "not-json", "DELETE /session: the body is not one JSON object: "+err.Error(), "DELETE /session", rep)
	case rep.status == http.StatusOK:
		if s, ok := m["session_id"].(string); !ok || s != "" || !rep.setCk || rep.cookie != "" {
			a.bad("session", "delete", "DELETE /session: 200 without {\"session_id\": \"\"} and a cleared cookie", "DELETE /session", rep)
		}
	case rep.status == http.StatusConflict: // the session ran out first
		a.n("rest.session-delete-409")
	default:
		if !a.e.closing.Load() {
			a.bad("session", fmt.Sprintf("status-%d", rep.status), "DELETE /session: unexpected status", "DELETE /session", rep)
		}
	}
	// the deleted session's cookie is refused from now on
	if rep.status == http.StatusOK && a.rng.Intn(2) == 0 {
		a.cookie = old
		_, _, gone := a.call("lock-after-delete", "/v1/lock", map[string]any{"name": "after-" + a.id}, expect{Op: "trylock", Name: "after-" + a.id, Codes: okOnly, Flag: -1})
		if !gone && !a.e.closing.Load() {
			a.e.anomaly(a.id, "rest", "session", "deleted-cookie-accepted", pkgsRest, "a request with the cookie of a deleted session was served", "POST /v1/lock after DELETE /session", "")
		}
		a.cookie = ""
	}
}

func (a *restActor) tryLock(nm lockName, lease int32, pin bool) {
	body := map[string]any{"name": nm.N, "size": nm.Size}
	if lease > 0 {
		body["lock_timeout_seconds"] = lease
	}
	t := time.Now()
	flag := -1
	if pin {
		flag = 1
	}
	r, ok, gone := a.call("lock", "/v1/lock", body, expect{Op: "trylock", Name: nm.N, Codes: okOnly, Flag: flag})
	if gone {
		a.cookie = ""
		return
	}
	if ok && r.Flag {
		h := hold{nm.N, r.Key, nm.Size, lease, t}
		if pin {
			a.pin = &h
		} else {
			a.holds = append(a.holds, h)
		}
	}
}

func (a *restActor) unlock(h hold) {
	ex := expect{Op: "unlock", Name: h.Name, Codes: okOnly, Flag: 1}
	if h.Lease > 0 || isAdm(h.Name) {
		ex = expect{Op: "unlock", Name: h.Name, Codes: afterLease, Flag: -1}
	}
	if _, _, gone := a.call("unlock", "/v1/unlock", map[string]any{"name": h.Name, "key": h.Key}, ex); gone {
		a.cookie = ""
	}
}

func (a *restActor) failing() {
	var gone bool
	switch a.rng.Intn(6) {
	case 0:
		nm := a.pickShared()
		_, _, gone = a.call("unlock-wrong-key", "/v1/unlock", map[string]any{"name": nm.N, "key": "00000000-0000-4000-8000-" + fmt.Sprintf("%012d", a.rng.Intn(1000000))},
			expect{Op: "unlock", Name: nm.N, Codes: wrongKeyCodes, Flag: 0})
	case 1:
		n := "nx-" + a.id
		_, _, gone = a.call("unlock-unknown-lock", "/v1/unlock", map[string]any{"name": n, "key": "k"}, expect{Op: "unlock", Name: n, Codes: []string{cNoLock}, Flag: 0})
	case 2:
		nm := a.pickShared()
		_, _, gone = a.call("renew-unknown", "/v1/renew", map[string]any{"name": nm.N, "key": "ffffffff-0000-4000-8000-000000000002", "lock_timeout_seconds": 1},
			expect{Op: "renew", Name: nm.N, Codes: []string{cNoLockOr}, Flag: 0})
	case 3:
		nm := a.pickShared()
		_, _, gone = a.call("lock-bad-size", "/v1/lock", map[string]any{"name": nm.N, "size": -1 - a.rng.Intn(3)}, expect{Op: "trylock", Name: nm.N, Codes: []string{cBadSize}, Flag: 0})
	case 4:
		if a.pin != nil {
			_, _, gone = a.call("lock-size-mismatch", "/v1/lock", map[string]any{"name": a.pin.Name, "size": a.pin.Size + 1},
				expect{Op: "trylock", Name: a.pin.Name, Codes: []string{cMismatch}, Flag: 0})
		}
	case 5:
		if a.e.cfg.Password != "" {
			ctx, cancel := context.WithTimeout(context.Background(), 4*time.Second)
			rep := a.do(ctx, "POST", "/v1/lock", a.cookie, `{"name":"never"}`, a.e.cfg.Password+"x")
			cancel()
			a.n("rest.bad-password")
			if rep.err == nil && rep.status != http.StatusUnauthorized {
				a.e.anomaly(a.id, "rest", "trylock", "password", []string{"net/security", "net/rest"}, "a request with a wrong password was not refused with 401", "POST /v1/lock, wrong password",
					fmt.Sprintf("HTTP %d %s", rep.status, rep.body))
			}
		}
	}
	if gone {
		a.cookie = ""
	}
}

// abandoned: a request whose client goes away while it is being served.
func (a *restActor) abandoned() {
	nm := a.pickShared()
	ctx, cancel := context.WithTimeout(context.Background(), time.Duration(100+a.rng.Intn(1500))*time.Microsecond)
	defer cancel()
	a.do(ctx, "POST", "/v1/lock", a.cookie, fmt.Sprintf(`{"name":%q,"size":%d,"lock_timeout_seconds":1}`, nm.N, nm.Size), a.e.cfg.Password)
	a.n("rest.abandoned")
	a.dirty = true
}

// burst: three requests of this ONE session at once (they queue on the session's mutex).
func (a *restActor) burst() {
	var wg sync.WaitGroup
	cookie := a.cookie
	for i := 0; i < 3; i++ {
		wg.Add(1)
		a.e.goroutines.Add(1)
		n := fmt.Sprintf("nx-%s-b%d", a.id, i)
		go func() {
			defer wg.Done()
			ctx, cancel := context.WithTimeout(context.Background(), 4*time.Second)
			defer cancel()
			body := fmt.Sprintf(`{"name":%q,"key":"k"}`, n)
			rep := a.do(ctx, "POST", "/v1/unlock", cookie, body, a.e.cfg.Password)
			a.e.bump("rest.unlock-unknown-lock")
			if rep.err != nil || rep.status == http.StatusUnauthorized {
				return
			}
			m, err := parseObj(rep.body)
			if err != nil {
				a.e.anomaly(a.id, "rest", "unlock", "not-json", pkgsRest, "the response body is not one JSON object: "+err.Error(), "POST /v1/unlock "+body, string(rep.body))
				return
			}
			r, why := toResp(m, rep.body)
			if why != "" {
				a.e.anomaly(a.id, "rest", "unlock", "shape", pkgsRest, "the body is not the rendering of one response: "+why, "POST /v1/unlock "+body, string(rep.body))
				return
			}
			a.e.judge(a.id, "rest", pkgsRest, expect{Op: "unlock", Name: n, Codes: []string{cNoLock}, Flag: 0}, r, "POST /v1/unlock "+body)
		}()
	}
	wg.Wait()
	a.lastReq = time.Now()
}

func (a *restActor) loop() {
	defer a.hc.CloseIdleConnections()
	tmo := ms(a.e.cfg.RestSessionTimeoutMs)
	for !a.over() {
		if a.cookie == "" {
			if !a.createSession() {
				if a.e.closing.Load() {
					return
				}
				time.Sleep(2 * time.Millisecond)
				continue
			}
			a.tryLock(lockName{fmt.Sprintf("pin-%s-%d", a.id, a.sessN), 2}, 0, true)
			continue
		}
		if a.idle && !a.dirty && a.rng.Intn(6) == 0 {
			// let the session run out with its holds in place; the next request must be refused (the margin is generous: on a
			// loaded machine the runtime fires a timer tens of milliseconds late)
			time.Sleep(tmo + time.Duration(150+a.rng.Intn(150))*time.Millisecond)
			a.n("rest.idle-expiry")
			_, _, gone := a.call("lock-after-expiry", "/v1/lock", map[string]any{"name": "late-" + a.id}, expect{Op: "trylock", Name: "late-" + a.id, Codes: okOnly, Flag: -1})
			if !gone && !a.e.closing.Load() && !a.e.closed.Load() {
				a.e.anomaly(a.id, "rest", "session", "expired-cookie-accepted", pkgsRest,
					fmt.Sprintf("a session idle for more than its timeout (%v) was still served", tmo), "POST /v1/lock after idling", "")
			}
			a.cookie = ""
			continue
		}
		if len(a.holds) >= 3 {
			h := a.holds[0]
			a.holds = a.holds[1:]
			a.unlock(h)
			continue
		}
		switch x := a.rng.Intn(100); {
		case x < 30:
			lease := int32(a.rng.Intn(2))
			if a.e.cfg.NoClear {
				lease = 1 // a session that runs out must not leave a shared name held for good
			}
			a.tryLock(a.pickShared(), lease, false)
		case x < 52:
			if len(a.holds) > 0 {
				i := a.rng.Intn(len(a.holds))
				h := a.holds[i]
				a.holds = append(a.holds[:i], a.holds[i+1:]...)
				a.unlock(h)
			}
		case x < 58:
			for _, h := range a.holds {
				if h.Lease > 0 {
					if _, _, gone := a.call("renew", "/v1/renew", map[string]any{"name": h.Name, "key": h.Key, "lock_timeout_seconds": 1},
						expect{Op: "renew", Name: h.Name, Codes: []string{cNone, cNoLockOr}, Flag: -1, KeyIs: h.Key, ExactKey: true}); gone {
						a.cookie = ""
					}
					break
				}
			}
		case x < 62:
			a.deleteSession()
		case x < 66:
			a.abandoned()
		case x < 70:
			a.burst()
		default:
			a.failing()
		}
		if a.e.closed.Load() {
			return
		}
		a.pause(1200)
	}
}
