package racestress

import (
	"fmt"
	"log/slog"
	gonet "net"
	"path/filepath"
	"time"

	ldlmlog "github.com/imoore76/ldlm/log"
	ldlmnet "github.com/imoore76/ldlm/net"
	ldlmgrpc "github.com/imoore76/ldlm/net/grpc"
	"github.com/imoore76/ldlm/net/rest"
	"github.com/imoore76/ldlm/server"
	"github.com/imoore76/ldlm/server/ipc"
	"github.com/imoore76/ldlm/server/session"
)

// stackT is the real stack, started the way cmd/server/main.go starts it (same as harness/e2e/stack, with every option
// of the configuration structs settable).
type stackT struct {
	LS       *server.LockServer
	GrpcAddr string
	RestAddr string
	Sock     string
	prepare  func()
	netClose func()
	lsClose  func()
}

func freePort() (string, error) {
	l, err := gonet.Listen("tcp", "127.0.0.1:0")
	if err != nil {
		return "", err
	}
	defer l.Close()
	return l.Addr().String(), nil
}

func ms(n int) time.Duration { return time.Duration(n) * time.Millisecond }

// startStack: first=true is the short-lived stack that only fills the state file (no REST, no IPC: server/ipc keeps a
// process-wide singleton that a second Run would overwrite while connections of the first are alive).
func startStack(c *Config, first bool) (*stackT, error) {
	var lastErr error
	for attempt := 0; attempt < 4; attempt++ {
		g, err := freePort()
		if err != nil {
			return nil, err
		}
		r, err := freePort()
		if err != nil {
			return nil, err
		}
		sc := &server.LockServerConfig{
			Shards:              c.Shards,
			LockGcInterval:      ms(c.GcIntervalMs),
			LockGcMinIdle:       ms(c.GcMinIdleMs),
			DefaultLockTimeout:  ms(c.DefaultLockTimeoutMs),
			NoClearOnDisconnect: c.NoClear,
			IPCConfig:           ipc.IPCConfig{IPCSocketFile: ""},
			SessionConfig:       session.SessionConfig{StateFile: ""},
		}
		if c.StateFile {
			sc.SessionConfig.StateFile = filepath.Join(c.Work, "state.bin")
		}
		sock := ""
		if !first {
			sock = filepath.Join(c.Work, fmt.Sprintf("ipc%d.sock", attempt))
			sc.IPCConfig.IPCSocketFile = sock
		}
		ls, lsClose, err := server.New(sc)
		if err != nil {
			if lsClose != nil {
				lsClose()
			}
			return nil, fmt.Errorf("server.New: %w", err)
		}
		nc := &ldlmnet.NetConfig{
			GrpcConfig: ldlmgrpc.GrpcConfig{KeepaliveInterval: 60 * time.Second, KeepaliveTimeout: 10 * time.Second, ListenAddress: g},
		}
		if !first {
			nc.RestConfig = rest.RestConfig{RestListenAddress: r, RestSessionTimeout: ms(c.RestSessionTimeoutMs)}
		}
		nc.SecurityConfig.Password = c.Password
		netClose, err := ldlmnet.Run(ls, nc)
		if err != nil {
			lsClose()
			lastErr = fmt.Errorf("net.Run: %w", err)
			continue
		}
		s := &stackT{LS: ls, GrpcAddr: g, RestAddr: r, Sock: sock, netClose: netClose, lsClose: lsClose}
		s.prepare = func() {
			// cmd/server/main.go calls PrepareShutdown first; older trees do not have it
			if p, ok := any(ls).(interface{ PrepareShutdown() }); ok {
				p.PrepareShutdown()
			}
		}
		addrs := []string{g}
		if !first {
			addrs = append(addrs, r)
		}
		for _, a := range addrs {
			ok := false
			for i := 0; i < 300; i++ {
				cn, err := gonet.DialTimeout("tcp", a, 200*time.Millisecond)
				if err == nil {
					cn.Close()
					ok = true
					break
				}
				time.Sleep(5 * time.Millisecond)
			}
			if !ok {
				return nil, fmt.Errorf("listener %s did not come up", a)
			}
		}
		return s, nil
	}
	return nil, lastErr
}

func setLogLevel(verbose bool) {
	if verbose {
		ldlmlog.SetLevel(slog.LevelInfo)
	} else {
		ldlmlog.SetLevel(slog.LevelError)
	}
}
