package racestress

import (
	"encoding/json"
	"fmt"
	"math/rand"
	"os"
	"runtime"
	"sort"
	"strings"
	"sync"
	"sync/atomic"
	"time"
)

// ---------------------------------------------------------------------------------------------------- lock names

type lockName struct {
	N    string
	Size int32
}

// A few shared names with FIXED sizes (every request on them asks for that size, so that a lock collected by GC and
// created again keeps it): contention, parked Lock calls, hand-offs, collection of idle locks. adm* are the only names
// the admin actor unlocks behind their holders' backs.
var sharedNames = []lockName{{"s0", 1}, {"s1", 1}, {"s2", 2}, {"s3", 3}, {"s4", 1}, {"s5", 2}, {"s6", 1}, {"s7", 4}, {"s8", 1}, {"s9", 2}, {"adm0", 1}, {"adm1", 2}}

func isAdm(n string) bool { return strings.HasPrefix(n, "adm") }

// ------------------------------------------------------------------------------------------------------- errors

const (
	cNone     = ""
	cUnknown  = "Unknown"
	cNoLock   = "LockDoesNotExist"
	cBadKey   = "InvalidLockKey"
	cWaitTO   = "LockWaitTimeout"
	cNotLk    = "NotLocked"
	cNoLockOr = "LockDoesNotExistOrInvalidKey"
	cMismatch = "LockSizeMismatch"
	cBadSize  = "InvalidLockSize"
)

// resp is a LockResponse / UnlockResponse as it reached the caller, whatever the transport.
type resp struct {
	Name   string
	Key    string
	Flag   bool // locked / unlocked
	HasErr bool
	Code   string
	Msg    string
	Raw    string // the bytes (REST) or the rendered message (gRPC)
}

// expect says what the request that was sent can produce.
type expect struct {
	Op       string   // trylock lock unlock renew
	Name     string   // the name the request carried
	Codes    []string // admissible error codes (cNone = no error)
	Flag     int      // -1 either, 0 must be false, 1 must be true
	KeyIs    string   // renew echoes the key it was given
	ExactKey bool
}

var (
	// the packages a KIND of anomaly is attributed to: a body that is not one response, a wrong name, cookie or status is the
	// transport's; a wrong error code, flag or key can also come from below it (pkgsSem is added for those classes)
	pkgsRest   = []string{"net/rest", "net/grpc", "net"}
	pkgsGrpc   = []string{"net/grpc", "net"}
	pkgsClient = []string{"client", "net/grpc", "net"}
	pkgsSem    = []string{"server", "lock", "timermap"}
	pkgsIpc    = []string{"server/ipc", "server"}
	pkgsClose  = []string{"server", "net", "net/grpc", "net/rest", "lock", "timermap"}
)

// ---------------------------------------------------------------------------------------------------------- env

type env struct {
	cfg        *Config
	st         *stackT
	start      time.Time
	shutdownAt time.Time
	stopAt     time.Time
	closing    atomic.Bool // set immediately before the closers run
	closed     atomic.Bool // set when the closers have returned
	goroutines atomic.Int64

	mu       sync.Mutex
	anoms    []Anomaly
	anomN    map[string]int
	requests map[string]int
	running  map[string]bool
}

func (e *env) sinceMs() int64 { return time.Since(e.start).Milliseconds() }

func (e *env) anomaly(actor, via, op, class string, pkgs []string, what, req, rsp string) {
	sig := via + ":" + op + ":" + class
	e.mu.Lock()
	defer e.mu.Unlock()
	e.anomN[sig]++
	if e.anomN[sig] <= 3 {
		if len(rsp) > 1200 {
			rsp = rsp[:1200] + "…"
		}
		e.anoms = append(e.anoms, Anomaly{Sig: sig, Packages: pkgs, What: what, Request: req, Response: rsp, Actor: actor,
			AtMs: time.Since(e.start).Milliseconds(), Closing: e.closing.Load()})
	}
}

func in(s string, xs []string) bool {
	for _, x := range xs {
		if x == s {
			return true
		}
	}
	return false
}

// judge checks one response against what its request can produce. Purely local: no model of the lock table.
func (e *env) judge(actor, via string, pkgs []string, ex expect, r resp, req string) bool {
	closing := e.closing.Load()
	bad := func(class, what string) bool {
		ps := pkgs
		if class != "name" {
			ps = append(append([]string{}, pkgs...), pkgsSem...)
		}
		e.anomaly(actor, via, ex.Op, class, ps, what, req, r.Raw)
		return false
	}
	if r.Name != ex.Name {
		return bad("name", fmt.Sprintf("the response names %q, the request named %q", r.Name, ex.Name))
	}
	code := r.Code
	if !r.HasErr {
		code = cNone
	}
	if r.Flag && r.HasErr {
		return bad("true-with-error", fmt.Sprintf("the response says %s and carries the error %s %q", flagWord(ex.Op), r.Code, r.Msg))
	}
	if !in(code, ex.Codes) && !(closing && code == cUnknown) {
		return bad("code", fmt.Sprintf("error code %q (message %q) — this request can only produce %s", code, r.Msg, showCodes(ex.Codes)))
	}
	if ex.Flag == 0 && r.Flag || ex.Flag == 1 && !r.Flag && !(closing && code == cUnknown) {
		return bad("flag", fmt.Sprintf("%s=%v, this request must give %v (error %q)", flagWord(ex.Op), r.Flag, ex.Flag == 1, code))
	}
	switch ex.Op {
	case "trylock", "lock":
		if r.Flag && len(r.Key) != 36 {
			return bad("key", fmt.Sprintf("granted with key %q (not a 36 byte uuid)", r.Key))
		}
	case "renew":
		if ex.ExactKey && r.Flag && r.Key != ex.KeyIs {
			return bad("key", fmt.Sprintf("renewed key %q, the request carried %q", r.Key, ex.KeyIs))
		}
	}
	return true
}

func flagWord(op string) string {
	if op == "unlock" {
		return "unlocked"
	}
	return "locked"
}

func showCodes(cs []string) string {
	out := []string{}
	for _, c := range cs {
		if c == cNone {
			c = "no error"
		}
		out = append(out, c)
	}
	return strings.Join(out, " | ")
}

// ------------------------------------------------------------------------------------------------------- actors

type hold struct {
	Name  string
	Key   string
	Size  int32
	Lease int32 // seconds, 0 = none
	At    time.Time
}

func (h hold) mayHaveExpired() bool {
	return h.Lease > 0 && time.Since(h.At) > time.Duration(h.Lease)*time.Second-150*time.Millisecond
}

type actorBase struct {
	e      *env
	id     string
	rng    *rand.Rand
	counts map[string]int
}

func (a *actorBase) n(kind string) { a.counts[kind]++ }

func (a *actorBase) pause(maxUs int) {
	if maxUs > 0 {
		time.Sleep(time.Duration(a.rng.Intn(maxUs)) * time.Microsecond)
	}
}

func (a *actorBase) pickShared() lockName { return sharedNames[a.rng.Intn(len(sharedNames))] }

// over: the actor stops starting work.
func (a *actorBase) over() bool { return a.e.closed.Load() || time.Now().After(a.e.stopAt) }

func (e *env) spawn(wg *sync.WaitGroup, id string, counts map[string]int, f func()) {
	wg.Add(1)
	e.goroutines.Add(1)
	e.mu.Lock()
	e.running[id] = true
	e.mu.Unlock()
	go func() {
		defer wg.Done()
		defer func() {
			e.mu.Lock()
			delete(e.running, id)
			for k, v := range counts {
				e.requests[k] += v
			}
			e.mu.Unlock()
		}()
		f()
	}()
}

func (e *env) newBase(id string, k int) actorBase {
	return actorBase{e: e, id: id, rng: rand.New(rand.NewSource(e.cfg.Seed*7919 + int64(k)*104729 + 17)), counts: map[string]int{}}
}

// --------------------------------------------------------------------------------------------------------- run

func writeResult(path string, r *Result) {
	b, _ := json.MarshalIndent(r, "", " ")
	tmp := path + ".tmp"
	if err := os.WriteFile(tmp, b, 0o644); err == nil {
		os.Rename(tmp, path)
	}
}

// Run executes one configuration and returns its account.
func Run(cfg Config) *Result {
	if runtime.GOMAXPROCS(0) < 4 {
		runtime.GOMAXPROCS(4)
	}
	res := &Result{ID: cfg.ID, Config: cfg, Requests: map[string]int{}, AnomalyCount: map[string]int{}, GoMaxProcs: runtime.GOMAXPROCS(0)}
	setLogLevel(cfg.Verbose)
	t0 := time.Now()

	// ---- a first stack fills the state file and is closed gracefully with its client connected: the holds stay in the file
	var pre []hold
	if cfg.StateFile && cfg.Preload > 0 {
		s0, err := startStack(&cfg, true)
		if err != nil {
			res.StartError = "first stack: " + err.Error()
			return res
		}
		pre = preload(&cfg, s0)
		s0.prepare()
		s0.netClose()
		s0.lsClose()
	}

	st, err := startStack(&cfg, false)
	if err != nil {
		res.StartError = err.Error()
		return res
	}
	e := &env{cfg: &cfg, st: st, start: time.Now(), anomN: map[string]int{}, requests: map[string]int{}, running: map[string]bool{}}
	total := ms(cfg.DurationMs)
	e.shutdownAt = e.start.Add(total - 350*time.Millisecond)
	e.stopAt = e.start.Add(total + 100*time.Millisecond)
	res.Restored = len(st.LS.Locks())

	var wg sync.WaitGroup
	k := 0
	next := func() int { k++; return k }
	if len(pre) > 0 {
		a := &pbActor{actorBase: e.newBase("restore", next())}
		e.spawn(&wg, a.id, a.counts, func() { a.restoreLoop(pre) })
	}
	for i := 0; i < cfg.PbClients; i++ {
		a := &pbActor{actorBase: e.newBase(fmt.Sprintf("pb%d", i), next())}
		e.spawn(&wg, a.id, a.counts, a.loop)
	}
	for i := 0; i < cfg.DiscClients; i++ {
		a := &pbActor{actorBase: e.newBase(fmt.Sprintf("disc%d", i), next())}
		e.spawn(&wg, a.id, a.counts, a.discLoop)
	}
	for i := 0; i < cfg.GoClients; i++ {
		a := &goActor{actorBase: e.newBase(fmt.Sprintf("go%d", i), next())}
		e.spawn(&wg, a.id, a.counts, a.loop)
	}
	for i := 0; i < cfg.AutoRenewClients; i++ {
		a := &goActor{actorBase: e.newBase(fmt.Sprintf("ar%d", i), next())}
		e.spawn(&wg, a.id, a.counts, a.autoRenewLoop)
	}
	for i := 0; i < cfg.RestSessions; i++ {
		a := newRestActor(e, fmt.Sprintf("rest%d", i), next(), false)
		e.spawn(&wg, a.id, a.counts, a.loop)
	}
	for i := 0; i < cfg.RestIdle; i++ {
		a := newRestActor(e, fmt.Sprintf("idle%d", i), next(), true)
		e.spawn(&wg, a.id, a.counts, a.loop)
	}
	for i := 0; i < cfg.Admins; i++ {
		a := &admActor{actorBase: e.newBase(fmt.Sprintf("adm%d", i), next())}
		e.spawn(&wg, a.id, a.counts, a.loop)
	}

	// ---- the graceful close of cmd/server/main.go, while the clients are active
	time.Sleep(time.Until(e.shutdownAt))
	tc := time.Now()
	e.closing.Store(true)
	for i, c := range []func(){st.prepare, st.netClose, st.lsClose} {
		func() {
			defer func() {
				if p := recover(); p != nil {
					e.anomaly("closer", "close", []string{"PrepareShutdown", "net closer", "server closer"}[i], "panic", pkgsClose,
						fmt.Sprintf("the closer panicked: %v", p), "graceful close with clients active", fmt.Sprint(p))
				}
			}()
			c()
		}()
	}
	e.closed.Store(true)
	res.CloseMs = time.Since(tc).Milliseconds()

	done := make(chan struct{})
	go func() { wg.Wait(); close(done) }()
	select {
	case <-done:
	case <-time.After(6 * time.Second):
		e.mu.Lock()
		for id := range e.running {
			res.HungActors = append(res.HungActors, id)
		}
		e.mu.Unlock()
		sort.Strings(res.HungActors)
	}
	e.mu.Lock()
	res.Anomalies = append([]Anomaly{}, e.anoms...)
	for k, v := range e.anomN {
		res.AnomalyCount[k] = v
	}
	for k, v := range e.requests {
		res.Requests[k] = v
	}
	e.mu.Unlock()
	res.Goroutines = e.goroutines.Load()
	res.WallMs = time.Since(t0).Milliseconds()
	res.Done = true
	return res
}
