// Package racestress is the workload of the T5-race tie (lib/racetie.py): the REAL in-process ldlm stack
// (server.New + net.Run: gRPC listener + REST gateway + admin IPC socket), compiled with -race, under a
// concurrent real-time load of gRPC clients (raw pb and the project's Go client), REST sessions and admin IPC
// calls, ending in the graceful close of cmd/server/main.go while the clients are still active.
//
// The interleaving models of /verif (Mlk, Msv, the REST fine model) assume that the code is free of data
// races, so that every execution is an interleaving of the modelled critical sections. This package is what
// checks that assumption: the race detector's reports are collected by lib/racetie.py (GORACE log_path) and
// the workload itself judges every response it receives LOCALLY (the body is one JSON value / one pb message,
// echoes the name that was asked, carries an error code that the request can produce): a response that was
// overwritten by another session's response is a failing input by itself.
//
// One process runs ONE configuration (server/ipc keeps a process-wide singleton): RACESTRESS_CFG names the
// JSON configuration, RACESTRESS_OUT the file the result is written to.
package racestress

type Config struct {
	ID                   string `json:"id"`
	Seed                 int64  `json:"seed"`
	DurationMs           int    `json:"duration_ms"` // from the start of the main stack to the end of the closers
	Shards               uint32 `json:"shards"`
	StateFile            bool   `json:"state_file"`
	NoClear              bool   `json:"no_clear"`
	Password             string `json:"password"`
	GcIntervalMs         int    `json:"gc_interval_ms"`
	GcMinIdleMs          int    `json:"gc_min_idle_ms"`
	DefaultLockTimeoutMs int    `json:"default_lock_timeout_ms"`
	RestSessionTimeoutMs int    `json:"rest_session_timeout_ms"`
	Verbose              bool   `json:"verbose"` // Info-level logging of the stack (stderr should go to /dev/null)
	Work                 string `json:"work"`    // existing private directory: state file, IPC socket
	Preload              int    `json:"preload"` // holds written to the state file by a first, short-lived stack

	PbClients        int `json:"pb_clients"`
	DiscClients      int `json:"disc_clients"`
	GoClients        int `json:"go_clients"`
	AutoRenewClients int `json:"autorenew_clients"`
	RestSessions     int `json:"rest_sessions"`
	RestIdle         int `json:"rest_idle"`
	Admins           int `json:"admins"`
}

// Anomaly is a response (or a crash of a closer) that the request which produced it cannot explain.
type Anomaly struct {
	Sig      string   `json:"sig"`      // "<via>:<op>:<class>" — what lib/racetie.py de-duplicates and reproduces by
	Packages []string `json:"packages"` // ldlm packages on the path of that kind of request
	What     string   `json:"what"`
	Request  string   `json:"request"`
	Response string   `json:"response"`
	Actor    string   `json:"actor"`
	AtMs     int64    `json:"at_ms"`
	Closing  bool     `json:"closing"`
}

type Result struct {
	ID           string         `json:"id"`
	Config       Config         `json:"config"`
	Done         bool           `json:"done"`
	StartError   string         `json:"start_error,omitempty"`
	Goroutines   int64          `json:"goroutines"` // workload goroutines started (actors + their helpers)
	Requests     map[string]int `json:"requests"`   // per kind
	Anomalies    []Anomaly      `json:"anomalies"`  // first few of each signature
	AnomalyCount map[string]int `json:"anomaly_count"`
	HungActors   []string       `json:"hung_actors,omitempty"`
	Restored     int            `json:"restored"` // holds the main stack listed right after it started on the preloaded file
	WallMs       int64          `json:"wall_ms"`
	CloseMs      int64          `json:"close_ms"`
	GoMaxProcs   int            `json:"gomaxprocs"`
}
