package racestress

import (
	"context"
	"errors"
	"fmt"
	"time"

	"github.com/imoore76/ldlm/client"
)

func init() {
	// the renew interval of the project's client is max(lease-30, MinRenewSeconds) seconds; its own tests lower it the same way
	client.MinRenewSeconds = 1
}

type goActor struct {
	actorBase
}

func (a *goActor) newClient(ctx context.Context, noAutoRenew bool) (*client.Client, error) {
	return client.New(ctx, client.Config{Address: a.e.st.GrpcAddr, Password: a.e.cfg.Password, NoAutoRenew: noAutoRenew, MaxRetries: 0})
}

var clientErrs = []error{client.ErrLockDoesNotExist, client.ErrInvalidLockKey, client.ErrLockWaitTimeout, client.ErrLockNotLocked,
	client.ErrLockDoesNotExistOrInvalidKey, client.ErrInvalidLockSize, client.ErrLockSizeMismatch}

// check: err must be nil or one of `allowed` (client error variables); any other error is an anomaly unless the stack is
// closing (then the call failed below the service).
func (a *goActor) check(op, name string, err error, allowed ...error) bool {
	if err == nil {
		return true
	}
	for _, w := range allowed {
		if errors.Is(err, w) {
			return true
		}
	}
	if a.e.closing.Load() {
		return false
	}
	class := "rpc-error"
	for _, w := range clientErrs {
		if errors.Is(err, w) {
			class = "code"
		}
	}
	ps := pkgsClient
	if class == "code" {
		ps = append(append([]string{}, pkgsClient...), pkgsSem...)
	}
	a.e.anomaly(a.id, "client", op, class, ps, fmt.Sprintf("%s %s through the Go client returned %q, which this request cannot produce", op, name, err.Error()), op+" "+name, err.Error())
	return false
}

func (a *goActor) loop() {
	ctx, cancel := context.WithCancel(context.Background())
	defer cancel()
	c, err := a.newClient(ctx, true)
	if err != nil {
		return
	}
	defer c.Close()
	var holds []*client.Lock
	leased := map[string]bool{}
	for !a.over() {
		if len(holds) >= 3 || (len(holds) > 0 && a.rng.Intn(3) == 0) {
			l := holds[0]
			holds = holds[1:]
			err := l.Unlock()
			a.n("client.unlock")
			if leased[l.Key] || isAdm(l.Name) {
				a.check("unlock", l.Name, err, client.ErrInvalidLockKey, client.ErrLockDoesNotExist)
			} else {
				a.check("unlock", l.Name, err)
			}
			delete(leased, l.Key)
			continue
		}
		nm := a.pickShared()
		switch x := a.rng.Intn(100); {
		case x < 45:
			lease := int32(a.rng.Intn(2))
			l, err := c.TryLock(nm.N, &client.LockOptions{Size: nm.Size, LockTimeoutSeconds: lease})
			a.n("client.trylock")
			if a.check("trylock", nm.N, err) && l != nil {
				if l.Name != nm.N {
					a.e.anomaly(a.id, "client", "trylock", "name", pkgsClient, fmt.Sprintf("the lock returned names %q, asked %q", l.Name, nm.N), "TryLock "+nm.N, fmt.Sprintf("%+v", *l))
				} else if l.Locked {
					holds = append(holds, l)
					leased[l.Key] = lease > 0
				}
			}
		case x < 60:
			lease := int32(a.rng.Intn(2))
			l, err := c.Lock(nm.N, &client.LockOptions{Size: nm.Size, LockTimeoutSeconds: lease, WaitTimeoutSeconds: 1})
			a.n("client.lock-wait")
			if err != nil && errors.Is(err, client.ErrLockWaitTimeout) {
				break
			}
			if a.check("lock", nm.N, err) && l != nil && l.Locked {
				if l.Name != nm.N {
					a.e.anomaly(a.id, "client", "lock", "name", pkgsClient, fmt.Sprintf("the lock returned names %q, asked %q", l.Name, nm.N), "Lock "+nm.N, fmt.Sprintf("%+v", *l))
				} else {
					holds = append(holds, l)
					leased[l.Key] = lease > 0
				}
			}
		case x < 70:
			_, err := c.Unlock(nm.N, "00000000-0000-4000-8000-999999999999")
			a.n("client.unlock-wrong-key")
			if err == nil && !a.e.closing.Load() {
				a.e.anomaly(a.id, "client", "unlock", "code", pkgsClient, "Unlock with a key nobody was given returned no error", "Unlock "+nm.N, "nil")
			} else {
				a.check("unlock", nm.N, err, client.ErrInvalidLockKey, client.ErrLockDoesNotExist)
			}
		case x < 78:
			_, err := c.Renew(nm.N, "ffffffff-0000-4000-8000-000000000001", 1)
			a.n("client.renew-unknown")
			if err == nil && !a.e.closing.Load() {
				a.e.anomaly(a.id, "client", "renew", "code", pkgsClient, "Renew of a hold that does not exist returned no error", "Renew "+nm.N, "nil")
			} else {
				a.check("renew", nm.N, err, client.ErrLockDoesNotExistOrInvalidKey)
			}
		case x < 84:
			_, err := c.TryLock(nm.N, &client.LockOptions{Size: nm.Size}) // Size > 0 only: the client sends no size otherwise
			a.n("client.trylock")
			a.check("trylock", nm.N, err)
		default:
			for _, l := range holds {
				if leased[l.Key] {
					err := l.Renew(1)
					a.n("client.renew")
					a.check("renew", l.Name, err, client.ErrLockDoesNotExistOrInvalidKey)
					break
				}
			}
		}
		if a.e.closed.Load() {
			return
		}
		a.pause(1500)
	}
}

// autoRenewLoop: the client's renewer goroutine at work. One hold of a private name with a lease of 3 s (renewed every
// second by the client), unlocked half way between two renewals (client.Unlock while the renewer is inside its RPC is the
// recorded finding F-STOPDROP of C19, which panics the process: not what this stage is about), everything finished before
// the stack closes (a renewer whose Renew fails panics by design).
func (a *goActor) autoRenewLoop() {
	ctx, cancel := context.WithCancel(context.Background())
	defer cancel()
	c, err := a.newClient(ctx, false)
	if err != nil {
		return
	}
	defer c.Close()
	for round := 0; time.Until(a.e.shutdownAt) > 1900*time.Millisecond; round++ {
		name := fmt.Sprintf("ar-%s-%d", a.id, round)
		l, err := c.Lock(name, &client.LockOptions{LockTimeoutSeconds: 3, WaitTimeoutSeconds: 1})
		a.n("client.lock-autorenew")
		if !a.check("lock", name, err) || l == nil || !l.Locked {
			return
		}
		time.Sleep(1500 * time.Millisecond) // the renewer renews at +1.0 s
		a.n("client.renew-by-renewer")
		err = l.Unlock()
		a.n("client.unlock")
		a.check("unlock", name, err)
	}
}
