package racestress

import (
	"encoding/json"
	"os"
	"testing"
)

// TestRaceStress runs the configuration named by RACESTRESS_CFG and writes its account to RACESTRESS_OUT. The verdict is
// lib/racetie.py's (race reports in GORACE's log_path + the anomalies of the account), never this test's status.
func TestRaceStress(t *testing.T) {
	cfgPath, outPath := os.Getenv("RACESTRESS_CFG"), os.Getenv("RACESTRESS_OUT")
	if cfgPath == "" || outPath == "" {
		t.Skip("RACESTRESS_CFG / RACESTRESS_OUT not set (run through lib/racetie.py)")
	}
	b, err := os.ReadFile(cfgPath)
	if err != nil {
		t.Fatal(err)
	}
	var cfg Config
	if err := json.Unmarshal(b, &cfg); err != nil {
		t.Fatal(err)
	}
	res := Run(cfg)
	writeResult(outPath, res)
	if !res.Done {
		t.Fatalf("the workload did not run: %s", res.StartError)
	}
	t.Logf("%s: %d goroutines, %d anomalies, %d ms", res.ID, res.Goroutines, len(res.Anomalies), res.WallMs)
}
