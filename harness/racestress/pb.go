package racestress

import (
	"context"
	"fmt"
	"sync"
	"time"

	"google.golang.org/grpc"
	"google.golang.org/grpc/codes"
	"google.golang.org/grpc/credentials/insecure"
	"google.golang.org/grpc/metadata"
	"google.golang.org/grpc/status"

	pb "github.com/imoore76/ldlm/protos"
)

func (e *env) bump(kind string) {
	e.mu.Lock()
	e.requests[kind]++
	e.mu.Unlock()
}

func dial(addr string) (*grpc.ClientConn, pb.LDLMClient, error) {
	conn, err := grpc.NewClient(addr, grpc.WithTransportCredentials(insecure.NewCredentials()))
	if err != nil {
		return nil, nil, err
	}
	return conn, pb.NewLDLMClient(conn), nil
}

func authCtx(password string, d time.Duration) (context.Context, context.CancelFunc) {
	ctx, cancel := context.WithTimeout(context.Background(), d)
	if password != "" {
		ctx = metadata.AppendToOutgoingContext(ctx, "authorization", password)
	}
	return ctx, cancel
}

func pbErr(e *pb.Error) (bool, string, string) {
	if e == nil {
		return false, "", ""
	}
	return true, e.Code.String(), e.Message
}

func fromLock(r *pb.LockResponse) resp {
	h, c, m := pbErr(r.Error)
	return resp{Name: r.Name, Key: r.Key, Flag: r.Locked, HasErr: h, Code: c, Msg: m, Raw: r.String()}
}

func fromUnlock(r *pb.UnlockResponse) resp {
	h, c, m := pbErr(r.Error)
	return resp{Name: r.Name, Flag: r.Unlocked, HasErr: h, Code: c, Msg: m, Raw: r.String()}
}

// preload takes the configured number of holds on the first stack; they stay in the state file when that stack is closed.
func preload(cfg *Config, s *stackT) []hold {
	conn, c, err := dial(s.GrpcAddr)
	if err != nil {
		return nil
	}
	defer conn.Close()
	var out []hold
	for i := 0; i < cfg.Preload; i++ {
		ctx, cancel := authCtx(cfg.Password, 3*time.Second)
		name := fmt.Sprintf("pre%d", i%((cfg.Preload+1)/2))
		size := int32(2)
		r, err := c.TryLock(ctx, &pb.TryLockRequest{Name: name, Size: &size})
		cancel()
		if err == nil && r.Locked {
			out = append(out, hold{Name: name, Key: r.Key, Size: size})
		}
	}
	return out
}

type pbActor struct {
	actorBase
	conn  *grpc.ClientConn
	c     pb.LDLMClient
	holds []hold
	side  sync.WaitGroup
}

// transport: an RPC that failed below the service. Tolerated while the stack is closing and for calls this actor cancelled
// itself; anything else is an anomaly.
func (a *pbActor) transport(op string, err error, self bool) {
	a.n("pb.transport-error")
	if self || a.e.closing.Load() {
		return
	}
	st, _ := status.FromError(err)
	a.e.anomaly(a.id, "grpc", op, "rpc-error-"+st.Code().String(), pkgsGrpc,
		"the call failed below the service although the stack was up and the call was not cancelled: "+err.Error(), op, err.Error())
}

func (a *pbActor) connect() bool {
	conn, c, err := dial(a.e.st.GrpcAddr)
	if err != nil {
		return false
	}
	a.conn, a.c = conn, c
	a.holds = nil
	return true
}

var (
	okOnly        = []string{cNone}
	afterLease    = []string{cNone, cBadKey, cNoLock}
	wrongKeyCodes = []string{cBadKey, cNoLock}
)

func (a *pbActor) tryLock(nm lockName, lease int32) {
	ctx, cancel := authCtx(a.e.cfg.Password, 3*time.Second)
	defer cancel()
	req := &pb.TryLockRequest{Name: nm.N, Size: &nm.Size}
	if lease > 0 {
		req.LockTimeoutSeconds = &lease
	}
	t := time.Now()
	r, err := a.c.TryLock(ctx, req)
	a.n("pb.trylock")
	if err != nil {
		a.transport("trylock", err, false)
		return
	}
	if a.e.judge(a.id, "grpc", pkgsGrpc, expect{Op: "trylock", Name: nm.N, Codes: okOnly, Flag: -1}, fromLock(r), req.String()) && r.Locked {
		a.holds = append(a.holds, hold{nm.N, r.Key, nm.Size, lease, t})
	}
}

func (a *pbActor) lockWait(nm lockName, lease int32) {
	ctx, cancel := authCtx(a.e.cfg.Password, 4*time.Second)
	defer cancel()
	wait := int32(1)
	req := &pb.LockRequest{Name: nm.N, Size: &nm.Size, WaitTimeoutSeconds: &wait}
	if lease > 0 {
		req.LockTimeoutSeconds = &lease
	}
	r, err := a.c.Lock(ctx, req)
	t := time.Now()
	a.n("pb.lock-wait")
	if err != nil {
		a.transport("lock", err, false)
		return
	}
	if a.e.judge(a.id, "grpc", pkgsGrpc, expect{Op: "lock", Name: nm.N, Codes: []string{cNone, cWaitTO}, Flag: -1}, fromLock(r), req.String()) && r.Locked {
		a.holds = append(a.holds, hold{nm.N, r.Key, nm.Size, lease, t})
	}
}

// lockCancel: a Lock without wait timeout whose caller gives up after a few milliseconds. Always with a lease: a grant
// whose answer is lost heals by itself.
func (a *pbActor) lockCancel(nm lockName) {
	ctx, cancel := authCtx(a.e.cfg.Password, time.Duration(2+a.rng.Intn(60))*time.Millisecond)
	defer cancel()
	lease := int32(1)
	req := &pb.LockRequest{Name: nm.N, Size: &nm.Size, LockTimeoutSeconds: &lease}
	r, err := a.c.Lock(ctx, req)
	t := time.Now()
	a.n("pb.lock-cancel")
	if err != nil {
		a.transport("lock", err, true)
		return
	}
	// the server's copy of the deadline can fire first: then the answer is locked=false with the context's error (Unknown)
	if a.e.judge(a.id, "grpc", pkgsGrpc, expect{Op: "lock", Name: nm.N, Codes: []string{cNone, cUnknown}, Flag: -1}, fromLock(r), req.String()) && r.Locked {
		a.holds = append(a.holds, hold{nm.N, r.Key, nm.Size, lease, t})
	}
}

func (a *pbActor) unlockHold(h hold) {
	ctx, cancel := authCtx(a.e.cfg.Password, 3*time.Second)
	defer cancel()
	req := &pb.UnlockRequest{Name: h.Name, Key: h.Key}
	r, err := a.c.Unlock(ctx, req)
	a.n("pb.unlock")
	if err != nil {
		a.transport("unlock", err, false)
		return
	}
	ex := expect{Op: "unlock", Name: h.Name, Codes: okOnly, Flag: 1}
	if h.Lease > 0 || isAdm(h.Name) {
		ex = expect{Op: "unlock", Name: h.Name, Codes: afterLease, Flag: -1} // the lease / the admin may have released it
	}
	a.e.judge(a.id, "grpc", pkgsGrpc, ex, fromUnlock(r), req.String())
}

func (a *pbActor) failing() {
	ctx, cancel := authCtx(a.e.cfg.Password, 3*time.Second)
	defer cancel()
	switch a.rng.Intn(6) {
	case 0: // a key nobody was given
		nm := a.pickShared()
		req := &pb.UnlockRequest{Name: nm.N, Key: "00000000-0000-4000-8000-" + fmt.Sprintf("%012d", a.rng.Intn(1000000))}
		r, err := a.c.Unlock(ctx, req)
		a.n("pb.unlock-wrong-key")
		if err != nil {
			a.transport("unlock", err, false)
			return
		}
		a.e.judge(a.id, "grpc", pkgsGrpc, expect{Op: "unlock", Name: nm.N, Codes: wrongKeyCodes, Flag: 0}, fromUnlock(r), req.String())
	case 1: // a lock nobody created
		req := &pb.UnlockRequest{Name: "nx-" + a.id, Key: "k"}
		r, err := a.c.Unlock(ctx, req)
		a.n("pb.unlock-unknown-lock")
		if err != nil {
			a.transport("unlock", err, false)
			return
		}
		a.e.judge(a.id, "grpc", pkgsGrpc, expect{Op: "unlock", Name: req.Name, Codes: []string{cNoLock}, Flag: 0}, fromUnlock(r), req.String())
	case 2: // renew of a hold that does not exist
		nm := a.pickShared()
		req := &pb.RenewRequest{Name: nm.N, Key: "ffffffff-0000-4000-8000-000000000000", LockTimeoutSeconds: 1}
		r, err := a.c.Renew(ctx, req)
		a.n("pb.renew-unknown")
		if err != nil {
			a.transport("renew", err, false)
			return
		}
		a.e.judge(a.id, "grpc", pkgsGrpc, expect{Op: "renew", Name: nm.N, Codes: []string{cNoLockOr}, Flag: 0}, fromLock(r), req.String())
	case 3: // invalid size
		bad := int32(-1 - a.rng.Intn(3))
		req := &pb.TryLockRequest{Name: a.pickShared().N, Size: &bad}
		r, err := a.c.TryLock(ctx, req)
		a.n("pb.trylock-bad-size")
		if err != nil {
			a.transport("trylock", err, false)
			return
		}
		a.e.judge(a.id, "grpc", pkgsGrpc, expect{Op: "trylock", Name: req.Name, Codes: []string{cBadSize}, Flag: 0}, fromLock(r), req.String())
	case 4: // size mismatch on a lock this actor holds without a lease (it exists for sure)
		for _, h := range a.holds {
			if h.Lease == 0 && !isAdm(h.Name) {
				other := h.Size + 1
				req := &pb.TryLockRequest{Name: h.Name, Size: &other}
				r, err := a.c.TryLock(ctx, req)
				a.n("pb.trylock-size-mismatch")
				if err != nil {
					a.transport("trylock", err, false)
					return
				}
				a.e.judge(a.id, "grpc", pkgsGrpc, expect{Op: "trylock", Name: h.Name, Codes: []string{cMismatch}, Flag: 0}, fromLock(r), req.String())
				return
			}
		}
	case 5: // wrong password
		if a.e.cfg.Password == "" {
			return
		}
		bctx, bcancel := authCtx(a.e.cfg.Password+"x", 3*time.Second)
		defer bcancel()
		_, err := a.c.TryLock(bctx, &pb.TryLockRequest{Name: "never"})
		a.n("pb.bad-password")
		if st, _ := status.FromError(err); err == nil || st.Code() != codes.Unauthenticated {
			if !a.e.closing.Load() {
				a.e.anomaly(a.id, "grpc", "trylock", "password", []string{"net/security", "net/grpc"},
					"a call with a wrong password was not refused with Unauthenticated", "TryLock never, wrong password", fmt.Sprint(err))
			}
		}
	}
}

func (a *pbActor) renewHold(h hold) {
	ctx, cancel := authCtx(a.e.cfg.Password, 3*time.Second)
	defer cancel()
	req := &pb.RenewRequest{Name: h.Name, Key: h.Key, LockTimeoutSeconds: h.Lease}
	r, err := a.c.Renew(ctx, req)
	a.n("pb.renew")
	if err != nil {
		a.transport("renew", err, false)
		return
	}
	a.e.judge(a.id, "grpc", pkgsGrpc, expect{Op: "renew", Name: h.Name, Codes: []string{cNone, cNoLockOr}, Flag: -1, KeyIs: h.Key, ExactKey: true}, fromLock(r), req.String())
}

// leaseRace: a hold with a lease of one second; Unlock and Renew are sent, from two goroutines, at the instant the lease
// runs out. Runs beside the actor's loop on a connection of its own.
func (a *pbActor) leaseRace(k int) {
	e := a.e
	conn, c, err := dial(e.st.GrpcAddr)
	if err != nil {
		return
	}
	defer conn.Close()
	nm := lockName{fmt.Sprintf("lr-%s-%d", a.id, k), 1}
	if k%2 == 0 {
		nm = sharedNames[2+k%2] // s2 (size 2): the expiry hands the unit to a parked Lock
	}
	lease := int32(1)
	ctx, cancel := authCtx(e.cfg.Password, 3*time.Second)
	t := time.Now()
	r, err := c.TryLock(ctx, &pb.TryLockRequest{Name: nm.N, Size: &nm.Size, LockTimeoutSeconds: &lease})
	cancel()
	e.bump("pb.trylock")
	if err != nil || !r.Locked {
		return
	}
	jit := time.Duration(int64(k*7919)%6000-3000) * time.Microsecond
	time.Sleep(time.Until(t.Add(time.Second + jit)))
	var wg sync.WaitGroup
	wg.Add(2)
	e.goroutines.Add(2)
	go func() {
		defer wg.Done()
		ctx, cancel := authCtx(e.cfg.Password, 3*time.Second)
		defer cancel()
		req := &pb.UnlockRequest{Name: nm.N, Key: r.Key}
		u, err := c.Unlock(ctx, req)
		e.bump("pb.unlock-at-expiry")
		if err == nil {
			e.judge(a.id, "grpc", pkgsGrpc, expect{Op: "unlock", Name: nm.N, Codes: afterLease, Flag: -1}, fromUnlock(u), req.String())
		}
	}()
	go func() {
		defer wg.Done()
		ctx, cancel := authCtx(e.cfg.Password, 3*time.Second)
		defer cancel()
		req := &pb.RenewRequest{Name: nm.N, Key: r.Key, LockTimeoutSeconds: 1}
		u, err := c.Renew(ctx, req)
		e.bump("pb.renew-at-expiry")
		if err == nil {
			e.judge(a.id, "grpc", pkgsGrpc, expect{Op: "renew", Name: nm.N, Codes: []string{cNone, cNoLockOr}, Flag: -1, KeyIs: r.Key, ExactKey: true}, fromLock(u), req.String())
		}
	}()
	wg.Wait()
	// whatever happened, leave nothing behind
	ctx2, cancel2 := authCtx(e.cfg.Password, 2*time.Second)
	c.Unlock(ctx2, &pb.UnlockRequest{Name: nm.N, Key: r.Key})
	cancel2()
}

func (a *pbActor) loop() {
	if !a.connect() {
		return
	}
	defer func() { a.side.Wait(); a.conn.Close() }()
	races := 0
	for !a.over() {
		// one lease race at a time beside the loop, as long as it can finish before the close
		if races < 8 && a.rng.Intn(40) == 0 && time.Until(a.e.shutdownAt) > 0 {
			races++
			k := races
			a.side.Add(1)
			a.e.goroutines.Add(1)
			go func() { defer a.side.Done(); a.leaseRace(k) }()
		}
		if len(a.holds) >= 3 {
			h := a.holds[0]
			a.holds = a.holds[1:]
			a.unlockHold(h)
			continue
		}
		switch x := a.rng.Intn(100); {
		case x < 30:
			lease := int32(0)
			if a.rng.Intn(2) == 0 {
				lease = 1
			}
			a.tryLock(a.pickShared(), lease)
		case x < 36:
			a.lockWait(a.pickShared(), int32(a.rng.Intn(2)))
		case x < 46:
			a.lockCancel(a.pickShared())
		case x < 70:
			if len(a.holds) > 0 {
				i := a.rng.Intn(len(a.holds))
				h := a.holds[i]
				a.holds = append(a.holds[:i], a.holds[i+1:]...)
				a.unlockHold(h)
			}
		case x < 78:
			for _, h := range a.holds {
				if h.Lease > 0 {
					a.renewHold(h)
					break
				}
			}
		default:
			a.failing()
		}
		if a.e.closed.Load() {
			return
		}
		a.pause(1500)
	}
}

// discLoop: connections that go away with requests in flight.
func (a *pbActor) discLoop() {
	for !a.over() && !a.e.closing.Load() {
		if !a.connect() {
			return
		}
		lease := int32(1)
		for i := 0; i < 1+a.rng.Intn(3); i++ {
			l := lease * int32(a.rng.Intn(2))
			if a.e.cfg.NoClear {
				l = lease // nothing clears these holds when the connection goes away
			}
			a.tryLock(a.pickShared(), l)
		}
		var wg sync.WaitGroup
		for i := 0; i < 2; i++ {
			nm := a.pickShared()
			wg.Add(1)
			a.e.goroutines.Add(1)
			c := a.c
			go func() {
				defer wg.Done()
				ctx, cancel := authCtx(a.e.cfg.Password, 3*time.Second)
				defer cancel()
				wait := int32(2)
				c.Lock(ctx, &pb.LockRequest{Name: nm.N, Size: &nm.Size, WaitTimeoutSeconds: &wait, LockTimeoutSeconds: &lease})
				a.e.bump("pb.lock-in-flight-at-disconnect")
			}()
		}
		time.Sleep(time.Duration(1+a.rng.Intn(25)) * time.Millisecond)
		a.conn.Close() // the server sees ConnEnd with the calls above in flight
		a.n("pb.disconnect")
		wg.Wait()
		a.pause(3000)
	}
}

// restoreLoop: the holds the main stack restored from the state file (with the sub-second default lease) are unlocked /
// renewed with their original keys around the instant their lease runs out.
func (a *pbActor) restoreLoop(pre []hold) {
	if !a.connect() {
		return
	}
	defer a.conn.Close()
	dlt := ms(a.e.cfg.DefaultLockTimeoutMs)
	for i, h := range pre {
		h.Lease = 1
		target := a.e.start.Add(dlt + time.Duration(a.rng.Intn(40000)-20000)*time.Microsecond)
		if i%3 == 0 {
			target = a.e.start.Add(time.Duration(a.rng.Int63n(int64(dlt))))
		}
		if d := time.Until(target); d > 0 {
			time.Sleep(d)
		}
		if a.over() {
			return
		}
		if i%4 == 1 {
			a.renewHold(h)
		}
		a.unlockHold(h)
	}
}
