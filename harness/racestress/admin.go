package racestress

import (
	"net/rpc"
	"regexp"
	"time"

	"github.com/imoore76/ldlm/server/ipc"
)

type admActor struct {
	actorBase
}

var listLine = regexp.MustCompile(`^\{Name: (.*), Key: ([0-9a-f-]{36}), Size: ([0-9]+)\}$`)

// loop: the admin IPC (what ldlm-lock list / unlock send) against the live server: listings all the time, now and then an
// unlock of one of the adm* locks by key or by name.
func (a *admActor) loop() {
	var c *rpc.Client
	for i := 0; i < 100 && c == nil; i++ {
		cl, err := rpc.DialHTTP("unix", a.e.st.Sock)
		if err == nil {
			c = cl
			break
		}
		time.Sleep(5 * time.Millisecond)
	}
	if c == nil {
		a.e.anomaly(a.id, "ipc", "dial", "no-socket", pkgsIpc, "the admin socket of the running server cannot be dialled", a.e.st.Sock, "")
		return
	}
	defer c.Close()
	for !a.over() && !a.e.closing.Load() {
		var locks ipc.ListLocksResponse
		err := c.Call("IPC.ListLocks", ipc.ListLocksRequest{}, &locks)
		a.n("ipc.list")
		if err != nil {
			if !a.e.closing.Load() {
				a.e.anomaly(a.id, "ipc", "list", "error", pkgsIpc, "ListLocks failed on a running server: "+err.Error(), "IPC.ListLocks", err.Error())
			}
			return
		}
		var adm [][]string
		for _, l := range locks {
			m := listLine.FindStringSubmatch(l)
			if m == nil {
				a.e.anomaly(a.id, "ipc", "list", "line", pkgsIpc, "a listing line is not {Name: …, Key: <uuid>, Size: n}", "IPC.ListLocks", l)
				continue
			}
			if isAdm(m[1]) {
				adm = append(adm, m)
			}
		}
		if len(adm) > 0 && a.rng.Intn(3) == 0 {
			m := adm[a.rng.Intn(len(adm))]
			req := ipc.UnlockRequest{Name: m[1], Key: m[2]}
			if a.rng.Intn(2) == 0 {
				req.Key = "" // by name
			}
			var ok ipc.UnlockResponse
			c.Call("IPC.Unlock", req, &ok) // the holder may have released it meanwhile: any answer is legitimate
			a.n("ipc.unlock")
		}
		a.pause(4000)
	}
}
