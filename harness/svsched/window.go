package svsched

// WINDOW RUNS. The model-chosen schedules execute one MODEL step per item: the instrumenter's inner yield points (A: sites: every
// mutex acquisition and every time.Timer method call in timermap.go, session.go, store.go) are transparent there, because on the
// tree the model was written against they lie inside one step. A tree under test may have split such a step (a lookup under a read
// lock, the Stop outside any lock, the delete under the write lock; a snapshot under the map's mutex, the file write after it).
// In a window run every inner yield point parks, and the HARNESS explores the interleavings of the goroutines' micro-steps itself:
// stateless depth-first search with a preemption bound, one fresh server per execution, the choice sequence replayed from the start.
// The R: notes of the instrumented code say which mutexes a parked goroutine holds; a goroutine parked in front of an acquisition
// that would block is not enabled. These runs are not compared with the model; the properties' model-independent oracles
// (lib/svtie.py) judge the real trace.
//
// Input (written by lib/svtie.py from the scenario table; names hex encoded as in schedule items):
//
//	S <id> / C <noclear> / N <preemption bound> <cap> <seed>
//	P <item> | P finish <tid>              sequential prefix (inner yield points transparent)
//	T call ... [after <tid> ...]           concurrent calls, issued as soon as the listed calls returned
//	E connend <sid> [after ...] | E cancel <tid> <err> | E tick <ns> <max> | E signal [after ...]
//	Z

import (
	"bufio"
	"fmt"
	"math/rand"
	"strconv"
	"strings"
	"testing"
	"testing/synctest"

	"ldlmverif/vhook"
)

type wCall struct {
	it    Item
	after []int
}

type wEnv struct {
	kind  string // connend cancel tick signal
	sid   string
	tid   int
	err   string
	dt    int64
	max   int
	after []int
	raw   string
}

type WScenario struct {
	ID      string
	NoClear bool
	Bound   int
	Cap     int
	Seed    int64
	Pre     []Item // Kind "finish": run Tid until it cannot move
	Calls   []wCall
	Env     []wEnv
}

func splitAfter(toks []string) ([]string, []int) {
	for i, t := range toks {
		if t == "after" {
			var deps []int
			for _, d := range toks[i+1:] {
				v, err := strconv.Atoi(d)
				if err == nil {
					deps = append(deps, v)
				}
			}
			return toks[:i], deps
		}
	}
	return toks, nil
}

func ParseWindows(sc *bufio.Scanner) []*WScenario {
	var out []*WScenario
	var cur *WScenario
	for sc.Scan() {
		f := strings.Fields(sc.Text())
		if len(f) == 0 {
			continue
		}
		switch f[0] {
		case "S":
			if len(f) >= 2 {
				cur = &WScenario{ID: f[1], Bound: 2, Cap: 200}
				out = append(out, cur)
			}
		case "C":
			if cur != nil && len(f) >= 2 {
				cur.NoClear = f[1] == "1"
			}
		case "N":
			if cur != nil && len(f) >= 4 {
				cur.Bound, _ = strconv.Atoi(f[1])
				cur.Cap, _ = strconv.Atoi(f[2])
				cur.Seed, _ = strconv.ParseInt(f[3], 10, 64)
			}
		case "P":
			if cur == nil || len(f) < 2 {
				continue
			}
			if f[1] == "finish" && len(f) >= 3 {
				t, _ := strconv.Atoi(f[2])
				cur.Pre = append(cur.Pre, Item{Kind: "finish", Tid: t, Raw: strings.Join(f[1:], " ")})
			} else if it, ok := ParseItem(0, f[1:]); ok {
				cur.Pre = append(cur.Pre, it)
			}
		case "T":
			if cur == nil || len(f) < 2 {
				continue
			}
			toks, deps := splitAfter(f[1:])
			if it, ok := ParseItem(0, toks); ok && it.Kind == "call" {
				cur.Calls = append(cur.Calls, wCall{it, deps})
			}
		case "E":
			if cur == nil || len(f) < 2 {
				continue
			}
			toks, deps := splitAfter(f[1:])
			e := wEnv{kind: toks[0], after: deps, raw: strings.Join(toks, " ")}
			switch e.kind {
			case "connend":
				if len(toks) < 2 {
					continue
				}
				e.sid = unhx(toks[1])
			case "cancel":
				if len(toks) < 3 {
					continue
				}
				e.tid, _ = strconv.Atoi(toks[1])
				e.err = toks[2]
			case "tick":
				if len(toks) < 3 {
					continue
				}
				e.dt, _ = strconv.ParseInt(toks[1], 10, 64)
				e.max, _ = strconv.Atoi(toks[2])
				e.raw = "tick " + toks[1]
			case "signal":
			default:
				continue
			}
			cur.Env = append(cur.Env, e)
		case "Z":
			cur = nil
		}
	}
	return out
}

// one choice point of an execution
type choiceRec struct {
	n      int
	costs  []int
	chosen int
}

type alt struct {
	tid  int // >= 0: micro-step of that goroutine
	env  int // index into the scenario's env items (tid < 0)
	stop bool
	cost int
}

func (r *runner) callDone(tid int) bool {
	c := r.calls[tid]
	return c != nil && c.done
}

func (r *runner) depsDone(deps []int) bool {
	for _, d := range deps {
		if !r.callDone(d) {
			return false
		}
	}
	return true
}

// echo + execute + observe one item of a window run
func (r *runner) wItem(it Item) {
	it.K = r.idx
	r.idx++
	fmt.Fprintf(r.w, "I %d %s\n", it.K, it.Raw)
	r.w.Flush()
	r.doItem(it)
	r.wait("window item " + it.Raw)
	if it.Kind == "call" {
		r.afterCall(it)
	}
	r.observe("X", it.K)
}

// microStep releases one parked goroutine to its next yield point (inner or model).
func (r *runner) microStep(tid int) {
	r.wItem(Item{Kind: "run", Tid: tid, Raw: fmt.Sprintf("run %d", tid)})
}

// windowExec is one execution: the prefix, then the concurrent part along `path` (beyond it: the first alternative).
func (r *runner) windowExec(ws *WScenario, path []int, rng *rand.Rand) []choiceRec {
	var recs []choiceRec
	r.inner = false
	for _, it := range ws.Pre {
		if r.crashed {
			break
		}
		if it.Kind == "finish" {
			for n := 0; n < 64; n++ {
				in, ok := r.s.Get(it.Tid)
				if !ok || in.State != vhook.Parked {
					break
				}
				r.microStep(it.Tid)
			}
			continue
		}
		r.wItem(it)
	}
	r.inner = true
	pending := append([]wCall(nil), ws.Calls...)
	envLeft := make([]int, len(ws.Env))
	for i, e := range ws.Env {
		envLeft[i] = 1
		if e.kind == "tick" {
			envLeft[i] = e.max
		}
	}
	last := -1
	// a fixed pseudo-random order of the alternatives per depth (the same in every re-execution): a capped search is then not
	// biased towards the lowest thread ids
	perm := func(depth, n int) []int {
		p := rand.New(rand.NewSource(ws.Seed*1000003 + int64(depth))).Perm(n)
		return p
	}
	_ = rng
	for stepN := 0; stepN < 400 && !r.crashed; stepN++ {
		// calls whose dependencies have returned are issued at once (an Unlock / Renew presents a key only after its grant was delivered)
		for progress := true; progress; {
			progress = false
			for i, pc := range pending {
				if !r.depsDone(pc.after) {
					continue
				}
				drop := false
				if pc.it.Op == "unl" || pc.it.Op == "renew" {
					var acq *call
					for _, c := range r.calls {
						if c.symKey == pc.it.Key && (c.op == "try" || c.op == "lock") {
							acq = c
						}
					}
					if acq != nil && !acq.done {
						continue
					}
					if acq != nil && !acq.ok {
						drop = true
					}
				}
				pending = append(pending[:i:i], pending[i+1:]...)
				if !drop {
					r.wItem(pc.it)
				}
				progress = true
				break
			}
		}
		var enabled []int
		lastEnabled := false
		for _, in := range r.s.Snapshot() {
			if r.canRun(in) {
				enabled = append(enabled, in.ID)
				if in.ID == last {
					lastEnabled = true
				}
			}
		}
		var alts []alt
		if lastEnabled {
			alts = append(alts, alt{tid: last})
		}
		var rest []alt
		for _, t := range enabled {
			if t != last {
				rest = append(rest, alt{tid: t, cost: b2i(lastEnabled)})
			}
		}
		for i, e := range ws.Env {
			if envLeft[i] <= 0 || !r.depsDone(e.after) {
				continue
			}
			ok := true
			switch e.kind {
			case "cancel":
				c := r.calls[e.tid]
				ok = c != nil && !c.done
			case "connend":
				se := r.sess[e.sid]
				ok = se != nil && !se.ended
			case "signal":
				ok = !r.signalled
			}
			if ok {
				rest = append(rest, alt{tid: -1, env: i, cost: b2i(lastEnabled)})
			}
		}
		if len(enabled) == 0 {
			alts = append(alts, alt{tid: -1, stop: true})
		}
		for _, j := range perm(len(recs), len(rest)) {
			alts = append(alts, rest[j])
		}
		if len(alts) == 0 {
			break
		}
		rec := choiceRec{n: len(alts)}
		for _, a := range alts {
			rec.costs = append(rec.costs, a.cost)
		}
		if len(recs) < len(path) && path[len(recs)] < len(alts) {
			rec.chosen = path[len(recs)]
		}
		recs = append(recs, rec)
		a := alts[rec.chosen]
		if a.stop {
			break
		}
		if a.tid >= 0 {
			r.microStep(a.tid)
			last = a.tid
			continue
		}
		e := ws.Env[a.env]
		envLeft[a.env]--
		it := Item{Kind: e.kind, Sid: e.sid, Tid: e.tid, Err: e.err, Dt: e.dt, Raw: e.raw}
		r.wItem(it)
		last = -1
	}
	return recs
}

// ExploreWindow runs the preemption-bounded search over one scenario. -> number of executions
func ExploreWindow(t *testing.T, ws *WScenario, w *bufio.Writer, wd *vhook.Watchdog, opt Options, reached map[string]int, images map[string]bool, seq *int) int {
	opt.Window = true
	var path []int
	runs := 0
	for runs < ws.Cap {
		var recs []choiceRec
		sc := &Schedule{ID: fmt.Sprintf("%s~w%d", ws.ID, runs), NoClear: ws.NoClear}
		synctest.Test(t, func(t *testing.T) {
			r := newRunner(sc, w, wd, opt, images)
			defer r.unhook()
			*seq++
			if !r.boot(*seq) {
				return
			}
			recs = r.windowExec(ws, path, nil)
			if !r.crashed {
				r.epilogue()
			}
			r.finish(reached)
		})
		runs++
		// backtrack: the deepest choice point with an untried alternative within the preemption bound
		cum := make([]int, len(recs)+1)
		for i, rc := range recs {
			cum[i+1] = cum[i] + rc.costs[rc.chosen]
		}
		next := -1
		nj := 0
		for i := len(recs) - 1; i >= 0 && next < 0; i-- {
			for j := recs[i].chosen + 1; j < recs[i].n; j++ {
				if cum[i]+recs[i].costs[j] <= ws.Bound {
					next, nj = i, j
					break
				}
			}
		}
		if next < 0 {
			break
		}
		path = path[:0]
		for i := 0; i < next; i++ {
			path = append(path, recs[i].chosen)
		}
		path = append(path, nj)
	}
	return runs
}
