// Package svsched is the layer-2 harness of the T2 "sched-diff" tie: it drives the REAL LockServer (server.New with a real
// lock manager, timer map and session manager writing a real state file; server.go / timermap.go instrumented with yield
// points through `go test -overlay`, see anchors.json) along schedules chosen by the extracted model Msv
// (ocaml/sv/svdriver gen), one model step per item, and writes what the implementation did after every item in the
// format `svdriver check` reads. The raw state file is captured after every item (and, when the instrumenter found
// in-place file operations in store.Write, between them): these are the crash images of C09.
//
// Keys and session ids are drawn by the server (uuid). Schedules name them symbolically ("K1" = the key the call with
// thread id 1 draws, "s1" = the first session); the harness keeps the bijection symbolic <-> real, substitutes the real
// value when a later item presents a key, and prints symbolic names (M lines record the bijection).
//
// Wait timeouts: a VCancel item ends the request's PARENT context with the given cause (server.ErrLockWaitTimeout or
// context.Canceled); requests are issued without a wait timeout of their own (a real one would need the clock to move,
// which the model's VCancel does not do). The server's own WithTimeoutCause path is covered by the T1 tie.
package svsched

import (
	"bufio"
	"context"
	"crypto/sha256"
	"encoding/hex"
	"fmt"
	"os"
	"path/filepath"
	"sort"
	"strconv"
	"strings"
	"sync"
	"testing/synctest"
	"time"

	"github.com/imoore76/ldlm/lock"
	"github.com/imoore76/ldlm/server"
	sesspkg "github.com/imoore76/ldlm/server/session"
	"github.com/imoore76/ldlm/server/session/store"
	"github.com/imoore76/ldlm/timermap"

	"ldlmverif/vhook"
)

func hx(s string) string {
	if s == "" {
		return "-"
	}
	return hex.EncodeToString([]byte(s))
}

func unhx(s string) string {
	if s == "" || s == "-" {
		return ""
	}
	b, err := hex.DecodeString(s)
	if err != nil {
		return ""
	}
	return string(b)
}

var errNames = []struct {
	e error
	n string
}{
	{server.ErrEmptyName, "server.ErrEmptyName"},
	{server.ErrLockWaitTimeout, "server.ErrLockWaitTimeout"},
	{server.ErrLockDoesNotExistOrInvalidKey, "server.ErrLockDoesNotExistOrInvalidKey"},
	{server.ErrSessionDoesNotExist, "server.ErrSessionDoesNotExist"},
	{server.ErrInvalidLockTimeout, "server.ErrInvalidLockTimeout"},
	{server.ErrInvalidWaitTimeout, "server.ErrInvalidWaitTimeout"},
	{lock.ErrInvalidLockKey, "lock.ErrInvalidLockKey"},
	{lock.ErrLockNotLocked, "lock.ErrLockNotLocked"},
	{lock.ErrLockDoesNotExist, "lock.ErrLockDoesNotExist"},
	{lock.ErrManagerShutdown, "lock.ErrManagerShutdown"},
	{lock.ErrLockSizeMismatch, "lock.ErrLockSizeMismatch"},
	{lock.ErrInvalidLockSize, "lock.ErrInvalidLockSize"},
	{timermap.ErrTimerDoesNotExist, "timermap.ErrTimerDoesNotExist"},
	{context.Canceled, "context.Canceled"},
	{context.DeadlineExceeded, "context.DeadlineExceeded"},
}

// errTok names the Go error VARIABLE (identity, not text); anything else is "other".
func errTok(e error) string {
	if e == nil {
		return "~"
	}
	for _, x := range errNames {
		if e == x.e {
			return x.n
		}
	}
	return "other"
}

func errOfTok(t string) error {
	for _, x := range errNames {
		if t == x.n {
			return x.e
		}
	}
	return context.Canceled
}

// ---------------------------------------------------------------------------------------------- schedules

type Spawn struct {
	Tid  int
	Kind string // x (lease callback: A name, B key), d (DestroySession: A session), s (closer)
	A, B string
}

type Item struct {
	K     int
	Kind  string // connect call run wake cancel connend tick signal
	Tid   int
	Op    string // try lock unl renew
	Sid   string
	Name  string
	Key   string
	Size  int32
	Lt    *int32
	Err   string
	Dt    int64
	Spawn []Spawn
	Raw   string // the tokens after "I <k>", annotations included
}

type Schedule struct {
	ID      string
	NoClear bool
	Items   []Item
}

func (it Item) forced() bool { return it.Kind == "wake" }

func parseSpawn(toks []string) []Spawn {
	var out []Spawn
	for _, t := range toks {
		f := strings.Split(t, ":")
		if len(f) < 2 {
			continue
		}
		sp := Spawn{Kind: f[1]}
		sp.Tid, _ = strconv.Atoi(f[0])
		if len(f) > 2 {
			sp.A = unhx(f[2])
		}
		if len(f) > 3 {
			sp.B = unhx(f[3])
		}
		out = append(out, sp)
	}
	return out
}

// ParseItem reads one schedule item (the tokens after "I <k>").
func ParseItem(k int, f []string) (Item, bool) {
	if len(f) == 0 {
		return Item{}, false
	}
	it := Item{Kind: f[0], Raw: strings.Join(f, " ")}
	it.K = k
	toks := f[1:]
	for i, t := range toks {
		if t == "spawn" {
			it.Spawn = parseSpawn(toks[i+1:])
			toks = toks[:i]
			break
		}
	}
	ok := true
	switch it.Kind {
	case "connect", "connend":
		if len(toks) < 1 {
			ok = false
			break
		}
		it.Sid = unhx(toks[0])
	case "call":
		if len(toks) < 2 {
			ok = false
			break
		}
		it.Tid, _ = strconv.Atoi(toks[0])
		it.Op = toks[1]
		a := toks[2:]
		switch it.Op {
		case "try", "lock":
			if len(a) < 5 {
				ok = false
				break
			}
			it.Sid, it.Name, it.Key = unhx(a[0]), unhx(a[1]), unhx(a[2])
			z, _ := strconv.Atoi(a[3])
			it.Size = int32(z)
			if a[4] != "~" {
				v, _ := strconv.Atoi(a[4])
				lt := int32(v)
				it.Lt = &lt
			}
		case "unl":
			if len(a) < 2 {
				ok = false
				break
			}
			it.Name, it.Key = unhx(a[0]), unhx(a[1])
		case "renew":
			if len(a) < 3 {
				ok = false
				break
			}
			it.Name, it.Key = unhx(a[0]), unhx(a[1])
			v, _ := strconv.Atoi(a[2])
			lt := int32(v)
			it.Lt = &lt
		default:
			ok = false
		}
	case "run", "wake":
		if len(toks) < 1 {
			ok = false
			break
		}
		it.Tid, _ = strconv.Atoi(toks[0])
	case "cancel":
		if len(toks) < 2 {
			ok = false
			break
		}
		it.Tid, _ = strconv.Atoi(toks[0])
		it.Err = toks[1]
	case "tick":
		if len(toks) < 1 {
			ok = false
			break
		}
		it.Dt, _ = strconv.ParseInt(toks[0], 10, 64)
	case "signal":
	default:
		ok = false
	}
	return it, ok
}

// ParseSchedules reads `svdriver gen` / `svdriver expand` output (expected observations and ghost lines are skipped).
func ParseSchedules(sc *bufio.Scanner) []*Schedule {
	var out []*Schedule
	var cur *Schedule
	for sc.Scan() {
		f := strings.Fields(sc.Text())
		if len(f) == 0 {
			continue
		}
		switch f[0] {
		case "S":
			if len(f) >= 2 {
				cur = &Schedule{ID: f[1]}
				out = append(out, cur)
			}
		case "C":
			if cur != nil && len(f) >= 2 {
				cur.NoClear = f[1] == "1"
			}
		case "I":
			if cur == nil || len(f) < 3 {
				continue
			}
			k, _ := strconv.Atoi(f[1])
			it, ok := ParseItem(k, f[2:])
			if ok {
				cur.Items = append(cur.Items, it)
			}
		case "Z":
			cur = nil
		}
	}
	return out
}

// ---------------------------------------------------------------------------------------------- execution

type call struct {
	tid     int
	op      string
	sid     string // symbolic
	name    string
	symKey  string
	realKey string
	size    int32
	lt      *int32
	cancel  context.CancelCauseFunc
	done    bool
	ok      bool
	err     error
	counted bool // lease deadline recorded
	bound   bool // the key the server drew is known
}

type session struct {
	sym, real string
	ctx       context.Context
	cancel    context.CancelCauseFunc
	ended     bool
}

type snap struct {
	sha, label, status string
	dec                map[string][]centry
}

// Options of a run (environment of the test binary).
type Options struct {
	CloserOrder []string // prepare, net, server in the order cmd/server/main.go has them
	XSplit      int      // -1: sentinel (X...) yield points are transparent; j >= 0: the first j pass, later ones park
	NetSync     bool     // the network stop runs every DestroySession to completion before it returns (as grpc's Stop does)
	ImgDir      string
	StateDir    string
	Window      bool // window runs (window.go): the INNER yield points (A: sites) park; the harness chooses the interleaving
}

type runner struct {
	w   *bufio.Writer
	wd  *vhook.Watchdog
	s   *vhook.Sched
	opt Options
	sc  *Schedule

	ls        *server.LockServer
	lm        *lock.Manager
	closer    func()
	statePath string
	start     time.Time

	calls  map[int]*call
	order  []int
	sess   map[string]*session // by symbolic id
	sidSym map[string]string   // real -> symbolic
	keySym map[string]string   // real -> symbolic
	symKey map[string]string   // symbolic -> real
	tkey   map[string][2]string
	sys    map[int]string // threads the server starts itself: kind

	mu         sync.Mutex
	expectExp  map[[2]string]int
	curSpawn   []Spawn
	nextUnexp  int
	snaps      []snap
	pendingM   []string
	xseen      int
	signalled  bool
	closerDone bool
	crashed    bool
	idx        int
	curK       int
	deadlines  []int64
	images     map[string]bool

	// window runs: which mutexes the goroutines hold (from the A: / R: notes of the instrumented code)
	inner   bool           // inner yield points park (false during the sequential prefix of a window run)
	holdW   map[string]int // mutex name -> writers (0/1)
	holdR   map[string]int // mutex name -> readers
	nextSys int
	cache   map[string]string // last readable rendering of a view whose mutex a parked goroutine holds
}

func (r *runner) beat(what string) { r.wd.Beat(fmt.Sprintf("%s %d %s", r.sc.ID, r.idx, what)) }

func (r *runner) wait(what string) {
	r.beat(what)
	synctest.Wait()
	r.beat(what + " done")
}

func splitLabel(full string) (string, []string) {
	f := strings.Split(full, "\x00")
	return f[0], f[1:]
}

// step is what the instrumented code calls at every yield point.
func (r *runner) step(label string, args ...string) {
	if strings.HasPrefix(label, "R:") {
		if r.opt.Window {
			r.noteRelease(label[2:])
		}
		return
	}
	if strings.HasPrefix(label, "A:") {
		// an inner yield point: inside what the model treats as one step. Transparent in the model-chosen schedules.
		if !r.opt.Window {
			return
		}
		if r.inner {
			r.s.Step(label)
		}
		r.noteAcquire(label)
		return
	}
	if strings.HasPrefix(label, "X") {
		if r.opt.XSplit < 0 {
			return
		}
		r.mu.Lock()
		r.xseen++
		pass := r.xseen <= r.opt.XSplit
		r.mu.Unlock()
		if pass {
			return
		}
	}
	full := label
	if len(args) > 0 {
		full += "\x00" + strings.Join(args, "\x00")
	}
	r.s.Step(full)
}

// siteMutex: "A:TimerMap.Remove#1:*.timersMtx.Lock()" -> ("timersMtx", 'W'); a site that is no mutex acquisition -> ("", 0).
func siteMutex(label string) (string, byte) {
	i := strings.LastIndex(label, ":")
	t := label[i+1:]
	mode := byte(0)
	switch {
	case strings.HasSuffix(t, ".RLock()"):
		t, mode = strings.TrimSuffix(t, ".RLock()"), 'R'
	case strings.HasSuffix(t, ".Lock()"):
		t, mode = strings.TrimSuffix(t, ".Lock()"), 'W'
	case strings.HasSuffix(t, ".RUnlock()"):
		t, mode = strings.TrimSuffix(t, ".RUnlock()"), 'R'
	case strings.HasSuffix(t, ".Unlock()"):
		t, mode = strings.TrimSuffix(t, ".Unlock()"), 'W'
	default:
		return "", 0
	}
	if j := strings.LastIndex(t, "."); j >= 0 {
		t = t[j+1:]
	}
	return t, mode
}

func (r *runner) noteAcquire(label string) {
	m, mode := siteMutex(label)
	if m == "" {
		return
	}
	r.mu.Lock()
	if mode == 'W' {
		r.holdW[m]++
	} else {
		r.holdR[m]++
	}
	r.mu.Unlock()
}

func (r *runner) noteRelease(text string) {
	m, mode := siteMutex(":" + text)
	if m == "" {
		return
	}
	r.mu.Lock()
	if mode == 'W' && r.holdW[m] > 0 {
		r.holdW[m]--
	} else if mode == 'R' && r.holdR[m] > 0 {
		r.holdR[m]--
	}
	r.mu.Unlock()
}

// held: some goroutine holds mutex m (exclusively, or at all).
func (r *runner) held(m string, exclusiveOnly bool) bool {
	r.mu.Lock()
	defer r.mu.Unlock()
	return r.holdW[m] > 0 || (!exclusiveOnly && r.holdR[m] > 0)
}

// canRun: releasing the parked goroutine does not make it block on a mutex that a parked goroutine holds.
func (r *runner) canRun(in vhook.Info) bool {
	if in.State != vhook.Parked {
		return false
	}
	lab, _ := splitLabel(in.Label)
	if !strings.HasPrefix(lab, "A:") {
		return true
	}
	m, mode := siteMutex(lab)
	if m == "" {
		return true
	}
	return !r.held(m, mode == 'R')
}

// onUnknown registers the goroutines the runtime starts for lease timers, at their first yield point.
func (r *runner) onUnknown(full string) (int, bool) {
	// whichever of its yield points the callback reaches first (a tree under test may have reordered its steps): the
	// server.go ones carry (name, key), timermap's carries the timer key
	label, args := splitLabel(full)
	r.mu.Lock()
	defer r.mu.Unlock()
	var name, sym string
	switch {
	case (label == "VCbUnlock" || label == "VCbSessRemove") && len(args) >= 2:
		name, sym = args[0], r.symOfKey(args[1])
	case label == "VCbTmRemove" && len(args) >= 1:
		nk, ok := r.tkey[args[0]]
		if !ok {
			return 0, false
		}
		name, sym = nk[0], nk[1]
	default:
		return 0, false
	}
	id, ok := r.expectExp[[2]string{name, sym}]
	if ok {
		delete(r.expectExp, [2]string{name, sym})
	} else {
		id = r.nextUnexp
		r.nextUnexp++
	}
	r.sys[id] = "x:" + hx(name) + ":" + hx(sym)
	r.pendingM = append(r.pendingM, fmt.Sprintf("M thr %d x %s %s", id, hx(name), hx(sym)))
	return id, true
}

func (r *runner) symOfKey(real string) string {
	if s, ok := r.keySym[real]; ok {
		return s
	}
	return "?" + real
}

func (r *runner) symOfSid(real string) string {
	if s, ok := r.sidSym[real]; ok {
		return s
	}
	return "?" + real
}

func (r *runner) bindKey(c *call, real string) {
	if real == "" || c.bound {
		return
	}
	c.bound = true
	c.realKey = real
	r.mu.Lock()
	r.keySym[real] = c.symKey
	r.symKey[c.symKey] = real
	r.tkey[server.VerifTimerKey(c.name, real)] = [2]string{c.name, c.symKey}
	r.mu.Unlock()
	fmt.Fprintf(r.w, "M key %s %s\n", hx(c.symKey), hx(real))
}

func (r *runner) spawnID(kind, a string) int {
	r.mu.Lock()
	defer r.mu.Unlock()
	for i, sp := range r.curSpawn {
		if sp.Kind == kind && sp.A == a {
			r.curSpawn = append(r.curSpawn[:i:i], r.curSpawn[i+1:]...)
			return sp.Tid
		}
	}
	id := r.nextUnexp
	r.nextUnexp++
	return id
}

func (r *runner) startCall(it Item) {
	c := &call{tid: it.Tid, op: it.Op, sid: it.Sid, name: it.Name, symKey: it.Key, size: it.Size, lt: it.Lt}
	var parent context.Context = context.Background()
	if it.Op == "try" || it.Op == "lock" {
		se := r.sess[it.Sid]
		if se == nil {
			fmt.Fprintf(r.w, "N %d call %d skipped: no session %s\n", it.K, it.Tid, hx(it.Sid))
			return
		}
		parent = se.ctx
	} else {
		r.mu.Lock()
		if real, ok := r.symKey[it.Key]; ok {
			c.realKey = real
		} else {
			c.realKey = it.Key
		}
		r.mu.Unlock()
	}
	ctx, cancel := context.WithCancelCause(parent)
	c.cancel = cancel
	r.calls[it.Tid] = c
	r.order = append(r.order, it.Tid)
	ls := r.ls
	r.s.Go(it.Tid, func() {
		switch c.op {
		case "try":
			lk, err := ls.TryLock(ctx, c.name, &c.size, c.lt)
			c.err = err
			if lk != nil {
				c.ok = lk.Locked
				c.realKey = lk.Key
			}
		case "lock":
			lk, err := ls.Lock(ctx, c.name, &c.size, c.lt, nil)
			c.err = err
			if lk != nil {
				c.ok = lk.Locked
				c.realKey = lk.Key
			}
		case "unl":
			c.ok, c.err = ls.Unlock(ctx, c.name, c.realKey)
		case "renew":
			lt := int32(0)
			if c.lt != nil {
				lt = *c.lt
			}
			lk, err := ls.Renew(ctx, c.name, c.realKey, lt)
			c.err = err
			if lk != nil {
				c.ok = lk.Locked
			}
		}
		c.done = true
	})
}

// afterCall learns the key the server drew: it is the argument of the call's first yield point.
func (r *runner) afterCall(it Item) {
	c := r.calls[it.Tid]
	if c == nil || (c.op != "try" && c.op != "lock") {
		return
	}
	in, ok := r.s.Get(it.Tid)
	if !ok {
		return
	}
	if in.State == vhook.Parked {
		if _, args := splitLabel(in.Label); len(args) > 0 {
			r.bindKey(c, args[0])
		}
	} else if c.done {
		r.bindKey(c, c.realKey)
	}
}

func (r *runner) startDestroy(id int, se *session) {
	r.sys[id] = "d:" + hx(se.sym)
	r.mu.Lock()
	r.pendingM = append(r.pendingM, fmt.Sprintf("M thr %d d %s", id, hx(se.sym)))
	r.mu.Unlock()
	ls, ctx := r.ls, se.ctx
	r.s.Go(id, func() { ls.DestroySession(ctx) })
}

// netStop stands for the network closer: every connection ends (request contexts end, ConnEnd is delivered for every
// open session: one DestroySession goroutine each).
func (r *runner) netStop() {
	var open []*session
	for _, se := range r.sess {
		if !se.ended {
			open = append(open, se)
		}
	}
	sort.Slice(open, func(i, j int) bool { return open[i].sym < open[j].sym })
	for _, tid := range r.order {
		r.calls[tid].cancel(context.Canceled)
	}
	var wg sync.WaitGroup
	for _, se := range open {
		se.cancel(context.Canceled)
		se.ended = true
		if r.opt.NetSync {
			wg.Add(1)
			ls, ctx := r.ls, se.ctx
			go func() { defer wg.Done(); ls.DestroySession(ctx) }()
		} else {
			r.startDestroy(r.spawnID("d", se.sym), se)
		}
	}
	wg.Wait()
}

// closerSeq is what cmd/server/main.go runs when a signal arrives, in the order the tree under test has it.
func (r *runner) closerSeq() {
	for _, p := range r.opt.CloserOrder {
		switch p {
		case "prepare":
			r.step("VShFlag")
			r.ls.PrepareShutdown()
		case "net":
			r.step("VShNet")
			r.netStop()
		case "server":
			r.closer()
			r.closerDone = true
		}
	}
}

func (r *runner) now() int64 { return int64(time.Since(r.start)) }

func (r *runner) doItem(it Item) {
	switch it.Kind {
	case "connect":
		base, cancel := context.WithCancelCause(context.Background())
		real, ctx := r.ls.CreateSession(base, nil)
		r.sess[it.Sid] = &session{sym: it.Sid, real: real, ctx: ctx, cancel: cancel}
		r.sidSym[real] = it.Sid
		fmt.Fprintf(r.w, "M sid %s %s\n", hx(it.Sid), hx(real))
	case "call":
		r.startCall(it)
	case "run":
		r.mu.Lock()
		r.curSpawn = append([]Spawn(nil), it.Spawn...)
		r.mu.Unlock()
		if !r.s.Release(it.Tid) {
			in, ok := r.s.Get(it.Tid)
			st := "absent"
			if ok {
				st = in.State.String()
			}
			fmt.Fprintf(r.w, "N %d run %d skipped: thread is %s\n", it.K, it.Tid, st)
		}
	case "wake":
		// the goroutine made this move by itself
	case "cancel":
		if c := r.calls[it.Tid]; c != nil {
			c.cancel(errOfTok(it.Err))
		} else {
			fmt.Fprintf(r.w, "N %d cancel %d skipped: no such call\n", it.K, it.Tid)
		}
	case "connend":
		se := r.sess[it.Sid]
		if se == nil || se.ended {
			fmt.Fprintf(r.w, "N %d connend %s skipped\n", it.K, hx(it.Sid))
			return
		}
		r.mu.Lock()
		r.curSpawn = append([]Spawn(nil), it.Spawn...)
		r.mu.Unlock()
		se.cancel(context.Canceled)
		se.ended = true
		r.startDestroy(r.spawnID("d", it.Sid), se)
	case "tick":
		r.mu.Lock()
		for _, sp := range it.Spawn {
			if sp.Kind == "x" {
				r.expectExp[[2]string{sp.A, sp.B}] = sp.Tid
			}
		}
		r.mu.Unlock()
		if it.Dt > 0 {
			time.Sleep(time.Duration(it.Dt))
		}
	case "signal":
		if r.signalled {
			return
		}
		r.signalled = true
		r.mu.Lock()
		r.curSpawn = append([]Spawn(nil), it.Spawn...)
		r.mu.Unlock()
		id := r.spawnID("s", "")
		r.sys[id] = "s"
		r.mu.Lock()
		r.pendingM = append(r.pendingM, fmt.Sprintf("M thr %d s", id))
		r.mu.Unlock()
		r.s.Go(id, r.closerSeq)
	}
}

// ---------------------------------------------------------------------------------------------- observation

func b2i(b bool) int {
	if b {
		return 1
	}
	return 0
}

type centry struct {
	name, key string
	size      int32
}

func (r *runner) entries(w *strings.Builder, l []centry) {
	for _, e := range l {
		fmt.Fprintf(w, " %s %s %d", hx(e.name), hx(e.key), e.size)
	}
}

func safely(f func()) (panicked string) {
	defer func() {
		if x := recover(); x != nil {
			panicked = fmt.Sprint(x)
		}
	}()
	f()
	return ""
}

// image captures the state file as a kill now would leave it.
func (r *runner) image() (string, []byte) {
	b, err := os.ReadFile(r.statePath)
	if err != nil {
		b = nil
	}
	sum := sha256.Sum256(b)
	sha := hex.EncodeToString(sum[:8])
	if !r.images[sha] {
		r.images[sha] = true
		os.WriteFile(filepath.Join(r.opt.ImgDir, sha+".bin"), b, 0o644)
	}
	return sha, b
}

// snapHook is store.VerifSnap: called between in-place file operations of store.Write (only when the instrumenter
// found any).
func (r *runner) snapHook(label string) {
	sha, raw := r.image()
	st, dec := r.decode(raw)
	r.mu.Lock()
	r.snaps = append(r.snaps, snap{sha, label, st, dec})
	r.mu.Unlock()
}

// decode: what the real store reads from the current bytes of the state file ("0": empty, "1": decoded, "2 ...": failed).
func (r *runner) decode(raw []byte) (string, map[string][]centry) {
	if len(raw) == 0 {
		return "0", nil
	}
	var dec map[string][]centry
	var derr error
	p := safely(func() {
		st, err := store.New(r.statePath)
		if err != nil {
			derr = err
			return
		}
		defer st.Close()
		m, err := st.Read()
		if err != nil {
			derr = err
			return
		}
		dec = map[string][]centry{}
		for sid, ls := range m {
			dec[sid] = []centry{}
			for _, l := range ls {
				dec[sid] = append(dec[sid], centry{l.Name(), r.symOfKey(l.Key()), l.Size()})
			}
		}
	})
	switch {
	case p != "":
		return "2 panic " + hx(p), nil
	case derr != nil:
		return "2 err " + hx(derr.Error()), nil
	}
	return "1", dec
}

func (r *runner) fileLines(sb *strings.Builder, pfx string, dec map[string][]centry) {
	var fs []string
	for sid := range dec {
		fs = append(fs, sid)
	}
	sort.Slice(fs, func(i, j int) bool { return hx(r.symOfSid(fs[i])) < hx(r.symOfSid(fs[j])) })
	for _, sid := range fs {
		fmt.Fprintf(sb, "%s %s %d", pfx, hx(r.symOfSid(sid)), len(dec[sid]))
		r.entries(sb, dec[sid])
		fmt.Fprintln(sb)
	}
}

// observe writes the block after item k ("X": compared with the model by svdriver check; "Y": epilogue, oracles only).
func (r *runner) observe(tag string, k int) {
	var sb strings.Builder
	r.mu.Lock()
	for _, l := range r.pendingM {
		fmt.Fprintln(&sb, l)
	}
	r.pendingM = nil
	r.mu.Unlock()
	fmt.Fprintf(&sb, "%s %d %d\n", tag, k, r.now())
	for _, in := range r.s.Snapshot() {
		c := r.calls[in.ID]
		switch in.State {
		case vhook.Parked:
			lab, _ := splitLabel(in.Label)
			fmt.Fprintf(&sb, "T %d P %s\n", in.ID, lab)
		case vhook.Running:
			if strings.HasPrefix(r.sys[in.ID], "x:") {
				// a lease callback runs in a goroutine the runtime started (not vhook.Go): it never blocks durably, so
				// "not at a yield point" after synctest.Wait() means that it has returned
				fmt.Fprintf(&sb, "T %d E\n", in.ID)
			} else {
				fmt.Fprintf(&sb, "T %d B\n", in.ID)
			}
		case vhook.Finished:
			if c != nil {
				if c.op == "try" || c.op == "lock" {
					r.bindKey(c, c.realKey)
				}
				fmt.Fprintf(&sb, "T %d F %d %s\n", in.ID, b2i(c.ok), errTok(c.err))
				if c.ok && !c.counted && c.lt != nil && *c.lt > 0 && c.op != "unl" {
					c.counted = true
					r.deadlines = append(r.deadlines, r.now()+int64(*c.lt)*int64(time.Second))
				}
			} else {
				fmt.Fprintf(&sb, "T %d E\n", in.ID)
			}
		case vhook.Panicked:
			r.crashed = true
			fmt.Fprintf(&sb, "T %d Z %s\n", in.ID, hx(in.Panic))
		}
	}
	if r.lm != nil {
		t := r.lm.VerifTable()
		sort.Slice(t, func(i, j int) bool { return hx(t[i].Name) < hx(t[j].Name) })
		for _, l := range t {
			fmt.Fprintf(&sb, "L %s %d %d", hx(l.Name), l.Size, len(l.Keys))
			for _, k := range l.Keys {
				fmt.Fprintf(&sb, " %s", hx(r.symOfKey(k)))
			}
			fmt.Fprintln(&sb)
		}
	}
	// a view whose mutex a parked goroutine holds (window runs) cannot be read now: the last readable rendering is repeated
	if r.opt.Window && r.held("timersMtx", true) {
		sb.WriteString(r.cache["tmr"])
	} else {
		var tm []string
		for _, k := range r.ls.VerifTimerKeys() {
			if nk, ok := r.tkey[k]; ok {
				tm = append(tm, hx(nk[0])+" "+hx(nk[1]))
			} else {
				tm = append(tm, hx("?")+" "+hx(k))
			}
		}
		sort.Strings(tm)
		var tb strings.Builder
		for _, l := range tm {
			fmt.Fprintf(&tb, "A %s\n", l)
		}
		r.cache["tmr"] = tb.String()
		sb.WriteString(tb.String())
	}
	if r.opt.Window && r.held("sessionLocksMtx", false) {
		sb.WriteString(r.cache["ses"])
	} else {
		var svb strings.Builder
		sv := &svb
		ses := r.ls.VerifSessions()
		var sids []string
		for sid := range ses {
			sids = append(sids, sid)
		}
		sort.Slice(sids, func(i, j int) bool { return hx(r.symOfSid(sids[i])) < hx(r.symOfSid(sids[j])) })
		for _, sid := range sids {
			fmt.Fprintf(sv, "P %s %d", hx(r.symOfSid(sid)), len(ses[sid]))
			for _, l := range ses[sid] {
				fmt.Fprintf(sv, " %s %s %d", hx(l.Name()), hx(r.symOfKey(l.Key())), l.Size())
			}
			fmt.Fprintln(sv)
		}
		var lst []centry
		for _, l := range r.ls.Locks() {
			lst = append(lst, centry{l.Name(), r.symOfKey(l.Key()), l.Size()})
		}
		sort.Slice(lst, func(i, j int) bool {
			a, b := lst[i], lst[j]
			if hx(a.name) != hx(b.name) {
				return hx(a.name) < hx(b.name)
			}
			if hx(a.key) != hx(b.key) {
				return hx(a.key) < hx(b.key)
			}
			return a.size < b.size
		})
		fmt.Fprintf(sv, "G %d", len(lst))
		r.entries(sv, lst)
		fmt.Fprintln(sv)
		r.cache["ses"] = svb.String()
		sb.WriteString(svb.String())
	}
	// the state file: raw bytes (crash image) and what the real store decodes from them
	sha, raw := r.image()
	st, dec := r.decode(raw)
	fmt.Fprintf(&sb, "F %s\n", st)
	r.fileLines(&sb, "Q", dec)
	r.mu.Lock()
	for _, s := range r.snaps {
		fmt.Fprintf(&sb, "M img %s %s %s\n", s.sha, s.label, s.status)
		r.fileLines(&sb, "MQ", s.dec)
	}
	r.snaps = nil
	r.mu.Unlock()
	fmt.Fprintf(&sb, "M img %s post\n", sha)
	fmt.Fprintf(&sb, "K %d\n", b2i(r.crashed))
	r.w.WriteString(sb.String())
	r.w.Flush()
}

// ---------------------------------------------------------------------------------------------- one schedule

func newRunner(sc *Schedule, w *bufio.Writer, wd *vhook.Watchdog, opt Options, images map[string]bool) *runner {
	r := &runner{w: w, wd: wd, s: vhook.New(), opt: opt, sc: sc, calls: map[int]*call{}, sess: map[string]*session{},
		sidSym: map[string]string{}, keySym: map[string]string{}, symKey: map[string]string{}, tkey: map[string][2]string{},
		sys: map[int]string{}, expectExp: map[[2]string]int{}, nextUnexp: 9000, images: images,
		holdW: map[string]int{}, holdR: map[string]int{}, cache: map[string]string{}}
	r.s.OnUnknown = r.onUnknown
	server.VerifStep = r.step
	timermap.VerifStep = r.step
	sesspkg.VerifStep = r.step
	store.VerifStep = r.step
	store.VerifSnap = r.snapHook
	return r
}

func (r *runner) unhook() {
	server.VerifStep = nil
	timermap.VerifStep = nil
	sesspkg.VerifStep = nil
	store.VerifStep = nil
	store.VerifSnap = nil
}

// boot starts the real server of this run (state file in the work directory, GC and IPC off).
func (r *runner) boot(seq int) bool {
	w, sc, opt := r.w, r.sc, r.opt
	fmt.Fprintf(w, "S %s\nC %d\n", sc.ID, b2i(sc.NoClear))
	r.statePath = filepath.Join(opt.StateDir, fmt.Sprintf("state-%d", seq))
	os.Remove(r.statePath)
	os.Remove(r.statePath + ".tmp")
	r.start = time.Now()
	cfg := &server.LockServerConfig{Shards: 1, LockGcInterval: 1000000 * time.Hour, LockGcMinIdle: 1000000 * time.Hour,
		DefaultLockTimeout: 10 * time.Minute, NoClearOnDisconnect: sc.NoClear}
	cfg.IPCSocketFile = ""
	cfg.StateFile = r.statePath
	ls, closer, err := server.New(cfg)
	if err != nil {
		fmt.Fprintf(w, "N -1 server.New failed: %s\nZ\n", hx(err.Error()))
		if closer != nil {
			closer()
		}
		return false
	}
	r.ls, r.closer = ls, closer
	r.lm = ls.VerifLockManager()
	r.wait("new server")
	return true
}

// finish: the end of a run (teardown, reached labels, end marker, scratch files).
func (r *runner) finish(reached map[string]int) {
	r.teardown()
	for k, v := range r.s.Reached() {
		lab, _ := splitLabel(k)
		reached[lab] += v
	}
	fmt.Fprintln(r.w, "Z")
	r.w.Flush()
	os.Remove(r.statePath)
	os.Remove(r.statePath + ".tmp")
}

// RunSchedule executes one schedule inside the current synctest bubble.
func RunSchedule(sc *Schedule, w *bufio.Writer, wd *vhook.Watchdog, opt Options, reached map[string]int, images map[string]bool, seq int) {
	r := newRunner(sc, w, wd, opt, images)
	defer r.unhook()
	if !r.boot(seq) {
		return
	}

	last := -1
	for i, it := range sc.Items {
		r.idx = it.K
		last = it.K
		fmt.Fprintf(w, "I %d %s\n", it.K, it.Raw)
		w.Flush()
		r.doItem(it)
		r.wait("item " + it.Raw)
		if it.Kind == "call" {
			r.afterCall(it)
		}
		if i+1 < len(sc.Items) && sc.Items[i+1].forced() {
			continue
		}
		r.observe("X", it.K)
		if r.crashed {
			break
		}
	}
	r.idx = last + 1
	if !r.crashed {
		r.epilogue()
	}
	r.finish(reached)
}

// drain runs whoever is parked at a yield point, lowest thread id first, one step at a time, until nobody is.
// tag "I": the steps are further schedule items (compared with the model); "J": epilogue.
func (r *runner) drain(tag string) {
	obs := "X"
	if tag == "J" {
		obs = "Y"
	}
	for n := 0; n < 300 && !r.crashed; n++ {
		id := -1
		for _, in := range r.s.Snapshot() {
			if in.State == vhook.Parked && (!r.opt.Window || r.canRun(in)) {
				id = in.ID
				break
			}
		}
		if id < 0 {
			return
		}
		k := r.idx
		r.idx++
		fmt.Fprintf(r.w, "%s %d run %d\n", tag, k, id)
		r.w.Flush()
		r.mu.Lock()
		r.curSpawn = nil
		r.mu.Unlock()
		r.s.Release(id)
		r.wait(fmt.Sprintf("drain run %d", id))
		r.observe(obs, k)
	}
}

// epilogue: (1) the schedule is completed (every parked goroutine runs to its end); (2) unless the server was shut
// down, the clock is advanced to just before and to every lease deadline the REAL responses imply (grant or renewal
// instant + lease), so that the oracles see that a renewed hold stays until its renewed deadline and goes then.
func (r *runner) epilogue() {
	r.drain("I")
	if r.crashed || r.signalled {
		return
	}
	ds := append([]int64(nil), r.deadlines...)
	// renewals: the response instant + lease
	sort.Slice(ds, func(i, j int) bool { return ds[i] < ds[j] })
	n := 0
	prev := int64(-1)
	for _, d := range ds {
		if d == prev || d <= r.now() || n >= 6 {
			continue
		}
		prev = d
		n++
		for _, target := range []int64{d - 1, d} {
			dt := target - r.now()
			if dt <= 0 {
				continue
			}
			k := r.idx
			r.idx++
			fmt.Fprintf(r.w, "J %d tick %d\n", k, dt)
			r.w.Flush()
			time.Sleep(time.Duration(dt))
			r.wait("epilogue tick")
			r.observe("Y", k)
			r.drain("J")
		}
	}
}

// teardown makes every goroutine of the bubble exit.
func (r *runner) teardown() {
	r.s.FreeRun()
	for _, c := range r.calls {
		c.cancel(context.Canceled)
	}
	for _, se := range r.sess {
		se.cancel(context.Canceled)
	}
	r.wait("teardown cancel")
	if !r.signalled {
		r.signalled = true
		cl := r.closer
		go cl()
		r.wait("teardown close")
	}
	r.ls.VerifCloseStore()
}
