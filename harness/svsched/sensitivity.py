#!/usr/bin/env python3
"""Sensitivity run of the T2 sched-diff tie (layer 2): re-introduces known defects into a SCRATCH worktree of /repo, one at a
time, and reports what `python3 -m lib.svtie` says about each (violation with a replay of a real trace / correspondence
mismatch / unplaced hooks). Nothing here is needed by the checks; the scratch lives under /tmp/t2sv and is removed afterwards.

    python3 harness/svsched/sensitivity.py [--tier quick] [--only i,ii,iii,iv,v,vi] [--prop C05,C06,C09,C11] [--keep]
"""
import argparse
import os
import shutil
import subprocess
import sys
from pathlib import Path

VERIF = Path(__file__).resolve().parent.parent.parent
REPO = Path(os.environ.get("VERIF_REPO_BASE", "/repo"))
SCRATCH = Path("/tmp/t2sv")
WT = SCRATCH / "wt"
SAVED = SCRATCH / "pristine"


def edit(rel, old, new):
    path = WT / rel
    s = path.read_text()
    if old not in s:
        raise SystemExit("mutant does not apply: %r not in %s" % (old[:60], path))
    keep = SAVED / rel
    if not keep.exists():
        keep.parent.mkdir(parents=True, exist_ok=True)
        shutil.copy(path, keep)
    path.write_text(s.replace(old, new, 1))


def restore():
    if SAVED.exists():
        for f in SAVED.rglob("*"):
            if f.is_file():
                shutil.copy(f, WT / f.relative_to(SAVED))
        shutil.rmtree(SAVED)


def m_reset_outside():
    edit("timermap/timermap.go",
         "\tm.timersMtx.Lock()\n\tdefer m.timersMtx.Unlock()\n\n\tt, ok := m.timers[key]\n\tif ok {\n\t\tif t.Stop() {",
         "\tm.timersMtx.RLock()\n\tt, ok := m.timers[key]\n\tm.timersMtx.RUnlock()\n\n\tif ok {\n\t\tif t.Stop() {")


def m_ds_unlock_first():
    edit("server/server.go",
         "\t\tif stopped := l.lockTimerMgr.Remove(timerKey(lk.Name(), lk.Key())); !stopped {\n\t\t\t// The timer was not stopped before firing, so it unlocks the lock.\n\t\t\tcontinue\n\t\t}\n", "")
    edit("server/server.go",
         "\t\t\t\t\"Unlocked during client session cleanup\",\n\t\t\t\t\"lock\", lk.Name(),\n\t\t\t)\n",
         "\t\t\t\t\"Unlocked during client session cleanup\",\n\t\t\t\t\"lock\", lk.Name(),\n\t\t\t)\n\t\t\tl.lockTimerMgr.Remove(timerKey(lk.Name(), lk.Key()))\n")


def m_unlock_remove_first():
    edit("server/server.go",
         "\t\tunlocked, err = l.lockMgr.Unlock(name, key)\n\t} else {\n\t\t// The timer was not stopped before firing, so it has already unlocked the lock.\n\t\tunlocked = true\n\t}\n\n"
         "\tif unlocked {\n\t\t// Remove from lock map and lock timer\n\t\tl.sessionMgr.RemoveLock(name, key, sessionId)\n\t}\n",
         "\t\tl.sessionMgr.RemoveLock(name, key, sessionId)\n\t\tunlocked, err = l.lockMgr.Unlock(name, key)\n\t} else {\n\t\tunlocked = true\n\t\tl.sessionMgr.RemoveLock(name, key, sessionId)\n\t}\n")


def m_timeout_no_remove():
    edit("server/server.go", "\t\t}()\n\t\tl.sessionMgr.RemoveLock(name, key, sessionId)\n", "\t\t}()\n")


def m_write_in_place():
    s = (WT / "server/session/store/store.go").read_text()
    a = s.index("\ttmp, err := os.OpenFile(l.path+\".tmp\"")
    b = s.index("\tl.fh = tmp\n\treturn nil\n") + len("\tl.fh = tmp\n\treturn nil\n")
    edit("server/session/store/store.go", s[a:b],
         "\tl.fh.Truncate(0)\n\tl.fh.Seek(0, io.SeekStart)\n\tif _, err := l.fh.Write(d); err != nil {\n\t\tpanic(err)\n\t}\n\tl.fh.Sync()\n\treturn nil\n")


def m_prepare_after_net():
    edit("cmd/server/main.go", "\t\tlockSrv.PrepareShutdown()\n\t\tnetCloser()\n", "\t\tnetCloser()\n\t\tlockSrv.PrepareShutdown()\n")


MUTANTS = [
    ("i", "timermap.Reset stops and re-arms the timer outside timersMtx (F-RESET re-introduced)", m_reset_outside),
    ("ii", "DestroySession unlocks before it removes the timer (F-RENEW-END re-introduced)", m_ds_unlock_first),
    ("iii", "Unlock calls sessionMgr.RemoveLock before lockMgr.Unlock", m_unlock_remove_first),
    ("iv", "onTimeoutFunc no longer calls sessionMgr.RemoveLock", m_timeout_no_remove),
    ("v", "store.Write truncates and rewrites the state file in place (F-TRUNC re-introduced)", m_write_in_place),
    ("vi", "cmd/server/main.go: PrepareShutdown after the network stop (F-SHUTCLEAR re-introduced)", m_prepare_after_net),
]


def main():
    ap = argparse.ArgumentParser()
    ap.add_argument("--tier", default="quick")
    ap.add_argument("--only", default=None)
    ap.add_argument("--prop", default="C05,C06,C09,C11")
    ap.add_argument("--keep", action="store_true")
    a = ap.parse_args()
    only = a.only.split(",") if a.only else None
    SCRATCH.mkdir(parents=True, exist_ok=True)
    subprocess.run(["git", "-C", str(REPO), "worktree", "remove", "--force", str(WT)], stdout=subprocess.DEVNULL, stderr=subprocess.DEVNULL, timeout=60)
    r = subprocess.run(["git", "-C", str(REPO), "worktree", "add", "--detach", str(WT), "HEAD"], capture_output=True, text=True, timeout=120)
    if r.returncode != 0:
        print(r.stdout, r.stderr)
        return 2
    try:
        for mid, what, fn in MUTANTS:
            if only and mid not in only:
                continue
            restore()
            fn()
            env = dict(os.environ, VERIF_REPO=str(WT))
            try:
                p = subprocess.run([sys.executable, "-m", "lib.svtie", "--tier", a.tier, "--prop", a.prop, "--name", "T2SVSENS"], cwd=VERIF, env=env,
                                   capture_output=True, text=True, timeout=1800)
                out = p.stdout + ("\n[stderr] " + p.stderr[-1500:] if p.returncode not in (0, 1) else "")
            except subprocess.TimeoutExpired:
                out = "[timeout]"
            print("=" * 100)
            print("mutant (%s): %s" % (mid, what))
            for line in out.splitlines():
                if line.startswith(("C0", "C1", "VIOLATION", "   ", "KNOWN", "total", "[stderr]", "build failed")):
                    print("  " + line[:520])
            sys.stdout.flush()
    finally:
        if not a.keep:
            subprocess.run(["git", "-C", str(REPO), "worktree", "remove", "--force", str(WT)], stdout=subprocess.DEVNULL, stderr=subprocess.DEVNULL, timeout=60)
            shutil.rmtree(SCRATCH, ignore_errors=True)
            shutil.rmtree(VERIF / "replays" / "T2SVSENS", ignore_errors=True)
            shutil.rmtree(VERIF / ".work" / "T2SVSENS", ignore_errors=True)
    return 0


if __name__ == "__main__":
    sys.exit(main())
