package svsched

import (
	"bufio"
	"encoding/json"
	"fmt"
	"io"
	"log/slog"
	"os"
	"path/filepath"
	"sort"
	"strconv"
	"strings"
	"testing"
	"testing/synctest"
	"time"

	"github.com/imoore76/ldlm/server"
	"github.com/imoore76/ldlm/server/session/store"

	"ldlmverif/vhook"
)

// Environment:
//
//	SVSCHED_IN            schedules file (`svdriver gen` / `svdriver expand` output)
//	SVSCHED_OUT           directory for observed.txt, progress.txt (S <sid> / D <sid> / H <info>), reached.json, stacks.txt,
//	                      images/<sha>.bin (crash images, deduplicated), images.txt (load test of every image)
//	SVSCHED_SKIP          number of schedules of SVSCHED_IN to skip (the parent restarts after a crashed / hung schedule)
//	SVSCHED_WATCHDOG_MS   wall-clock budget of one synctest.Wait (default 2000)
//	SVSCHED_CLOSER_ORDER  prepare,net,server in the order cmd/server/main.go of the tree under test has them
//	SVSCHED_XSPLIT        -1 (default): sentinel yield points are transparent; j: the first j pass, the next ones park
//	SVSCHED_NET_SYNC      1: the network stop runs the DestroySession calls to completion before it returns
func TestSvSched(t *testing.T) {
	slog.SetDefault(slog.New(slog.NewTextHandler(io.Discard, nil)))
	out := os.Getenv("SVSCHED_OUT")
	in := os.Getenv("SVSCHED_IN")
	if out == "" || in == "" {
		t.Skip("SVSCHED_IN / SVSCHED_OUT not set")
	}
	opt := Options{CloserOrder: []string{"prepare", "net", "server"}, XSplit: -1, ImgDir: filepath.Join(out, "images"), StateDir: filepath.Join(out, "state")}
	if v := os.Getenv("SVSCHED_CLOSER_ORDER"); v != "" {
		opt.CloserOrder = strings.Split(v, ",")
	}
	if v := os.Getenv("SVSCHED_XSPLIT"); v != "" {
		opt.XSplit, _ = strconv.Atoi(v)
	}
	opt.NetSync = os.Getenv("SVSCHED_NET_SYNC") == "1"
	os.MkdirAll(opt.ImgDir, 0o755)
	os.MkdirAll(opt.StateDir, 0o755)
	f, err := os.Open(in)
	if err != nil {
		t.Fatal(err)
	}
	sc := bufio.NewScanner(f)
	sc.Buffer(make([]byte, 1<<20), 1<<26)
	scheds := ParseSchedules(sc)
	f.Close()
	skip, _ := strconv.Atoi(os.Getenv("SVSCHED_SKIP"))
	wdms, _ := strconv.Atoi(os.Getenv("SVSCHED_WATCHDOG_MS"))
	if wdms <= 0 {
		wdms = 2000
	}
	of, _ := os.OpenFile(filepath.Join(out, "observed.txt"), os.O_CREATE|os.O_WRONLY|os.O_APPEND, 0o644)
	pf, _ := os.OpenFile(filepath.Join(out, "progress.txt"), os.O_CREATE|os.O_WRONLY|os.O_APPEND, 0o644)
	defer of.Close()
	defer pf.Close()
	w := bufio.NewWriter(of)
	wd := vhook.StartWatchdog(time.Duration(wdms)*time.Millisecond, vhook.ExitOnHang(pf, filepath.Join(out, "stacks.txt")))
	defer wd.Stop()
	reached := map[string]int{}
	if rb, err := os.ReadFile(filepath.Join(out, "reached.json")); err == nil {
		json.Unmarshal(rb, &reached)
	}
	images := map[string]bool{}
	if es, err := os.ReadDir(opt.ImgDir); err == nil {
		for _, e := range es {
			images[strings.TrimSuffix(e.Name(), ".bin")] = true
		}
	}
	for i, s := range scheds {
		if i < skip {
			continue
		}
		fmt.Fprintf(pf, "S %s\n", s.ID)
		wd.Arm()
		synctest.Test(t, func(t *testing.T) {
			RunSchedule(s, w, wd, opt, reached, images, i)
		})
		wd.Disarm()
		w.Flush()
		fmt.Fprintf(pf, "D %s\n", s.ID)
		rb, _ := json.Marshal(reached)
		os.WriteFile(filepath.Join(out, "reached.json"), rb, 0o644)
	}
	loadImages(t, out, opt.ImgDir, wd)
}

// TestSvWindow: the window runs (window.go). Same environment; SVSCHED_IN is a window scenario file, SVSCHED_SKIP counts scenarios.
// windows.txt gets one line per scenario: W <id> <executions> <1 if the bounded search was exhausted> <bound> <cap>.
func TestSvWindow(t *testing.T) {
	slog.SetDefault(slog.New(slog.NewTextHandler(io.Discard, nil)))
	out := os.Getenv("SVSCHED_OUT")
	in := os.Getenv("SVSCHED_IN")
	if out == "" || in == "" {
		t.Skip("SVSCHED_IN / SVSCHED_OUT not set")
	}
	opt := Options{CloserOrder: []string{"prepare", "net", "server"}, XSplit: -1, ImgDir: filepath.Join(out, "images"), StateDir: filepath.Join(out, "state"), Window: true}
	if v := os.Getenv("SVSCHED_CLOSER_ORDER"); v != "" {
		opt.CloserOrder = strings.Split(v, ",")
	}
	os.MkdirAll(opt.ImgDir, 0o755)
	os.MkdirAll(opt.StateDir, 0o755)
	f, err := os.Open(in)
	if err != nil {
		t.Fatal(err)
	}
	sc := bufio.NewScanner(f)
	sc.Buffer(make([]byte, 1<<20), 1<<26)
	wss := ParseWindows(sc)
	f.Close()
	skip, _ := strconv.Atoi(os.Getenv("SVSCHED_SKIP"))
	wdms, _ := strconv.Atoi(os.Getenv("SVSCHED_WATCHDOG_MS"))
	if wdms <= 0 {
		wdms = 2000
	}
	of, _ := os.OpenFile(filepath.Join(out, "observed.txt"), os.O_CREATE|os.O_WRONLY|os.O_APPEND, 0o644)
	pf, _ := os.OpenFile(filepath.Join(out, "progress.txt"), os.O_CREATE|os.O_WRONLY|os.O_APPEND, 0o644)
	sf, _ := os.OpenFile(filepath.Join(out, "windows.txt"), os.O_CREATE|os.O_WRONLY|os.O_APPEND, 0o644)
	defer of.Close()
	defer pf.Close()
	defer sf.Close()
	w := bufio.NewWriter(of)
	wd := vhook.StartWatchdog(time.Duration(wdms)*time.Millisecond, vhook.ExitOnHang(pf, filepath.Join(out, "stacks.txt")))
	defer wd.Stop()
	reached := map[string]int{}
	if rb, err := os.ReadFile(filepath.Join(out, "reached.json")); err == nil {
		json.Unmarshal(rb, &reached)
	}
	images := map[string]bool{}
	if es, err := os.ReadDir(opt.ImgDir); err == nil {
		for _, e := range es {
			images[strings.TrimSuffix(e.Name(), ".bin")] = true
		}
	}
	seq := skip * 100000
	for i, ws := range wss {
		if i < skip {
			continue
		}
		fmt.Fprintf(pf, "S %s\n", ws.ID)
		wd.Arm()
		n := ExploreWindow(t, ws, w, wd, opt, reached, images, &seq)
		wd.Disarm()
		w.Flush()
		fmt.Fprintf(pf, "D %s\n", ws.ID)
		fmt.Fprintf(sf, "W %s %d %d %d %d\n", ws.ID, n, b2i(n < ws.Cap), ws.Bound, ws.Cap)
		rb, _ := json.Marshal(reached)
		os.WriteFile(filepath.Join(out, "reached.json"), rb, 0o644)
	}
	loadImages(t, out, opt.ImgDir, wd)
}

// loadImages: every crash image captured so far (and not yet tested) is decoded by the real store and loaded by
// server.New on a copy, inside a bubble (the loaded holds get lease timers). One line per image in images.txt.
func loadImages(t *testing.T, out, dir string, wd *vhook.Watchdog) {
	done := map[string]bool{}
	if b, err := os.ReadFile(filepath.Join(out, "images.txt")); err == nil {
		for _, l := range strings.Split(string(b), "\n") {
			if f := strings.Fields(l); len(f) >= 2 && f[0] == "IMG" {
				done[f[1]] = true
			}
		}
	}
	es, _ := os.ReadDir(dir)
	var shas []string
	for _, e := range es {
		if s := strings.TrimSuffix(e.Name(), ".bin"); s != e.Name() && !done[s] {
			shas = append(shas, s)
		}
	}
	sort.Strings(shas)
	rf, _ := os.OpenFile(filepath.Join(out, "images.txt"), os.O_CREATE|os.O_WRONLY|os.O_APPEND, 0o644)
	defer rf.Close()
	for _, sha := range shas {
		raw, err := os.ReadFile(filepath.Join(dir, sha+".bin"))
		if err != nil {
			continue
		}
		cp := filepath.Join(out, "state", "img-"+sha)
		dec, nw := "ok", "ok"
		nent, nloaded := -1, -1
		wd.Arm()
		wd.Beat("image " + sha)
		synctest.Test(t, func(t *testing.T) {
			os.WriteFile(cp, raw, 0o644)
			if p := safely(func() {
				st, err := store.New(cp)
				if err != nil {
					dec = "err:" + hx(err.Error())
					return
				}
				defer st.Close()
				m, err := st.Read()
				if err != nil {
					dec = "err:" + hx(err.Error())
					return
				}
				nent = 0
				for _, l := range m {
					nent += len(l)
				}
			}); p != "" {
				dec = "panic:" + hx(p)
			}
			os.WriteFile(cp, raw, 0o644)
			if p := safely(func() {
				cfg := &server.LockServerConfig{Shards: 1, LockGcInterval: 1000000 * time.Hour, LockGcMinIdle: 1000000 * time.Hour, DefaultLockTimeout: 10 * time.Minute}
				cfg.IPCSocketFile = ""
				cfg.StateFile = cp
				ls, closer, err := server.New(cfg)
				if err != nil {
					nw = "err:" + hx(err.Error())
					if closer != nil {
						closer()
					}
					return
				}
				nloaded = len(ls.Locks())
				closer()
				ls.VerifCloseStore()
			}); p != "" {
				nw = "panic:" + hx(p)
			}
			synctest.Wait()
		})
		wd.Disarm()
		os.Remove(cp)
		os.Remove(cp + ".tmp")
		fmt.Fprintf(rf, "IMG %s %d decode=%s new=%s entries=%d loaded=%d\n", sha, len(raw), dec, nw, nent, nloaded)
	}
}
