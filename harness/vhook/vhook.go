// Package vhook is the generic yield-point scheduler of the T2 "sched-diff" ties.
//
// Instrumented copies of the code under test call Step("<label>") immediately before each atomic step of the model
// (the label is the model's pc name). Inside a testing/synctest bubble every REGISTERED goroutine that reaches a Step
// records (thread id, label) and parks on its own channel, which is a durable block for synctest; the driver executes
// one schedule item by releasing exactly one parked goroutine and calling synctest.Wait(): the goroutine runs its
// critical section and parks at its next yield point, blocks somewhere else (e.g. in a select) or finishes.
//
// The package knows nothing about the code under test: labels are plain strings, threads are small integers chosen by
// the driver. Goroutines that were not started through Go (timers, GC loops, the driver itself) pass through Step
// unless OnUnknown registers them on first contact.
package vhook

import (
	"bytes"
	"fmt"
	"os"
	"runtime"
	"sort"
	"strconv"
	"sync"
	"sync/atomic"
	"time"
)

type State int

const (
	Running  State = iota // not at a yield point: after synctest.Wait() this means durably blocked elsewhere
	Parked                // at Step(label)
	Finished              // the function given to Go returned
	Panicked              // the function given to Go panicked (the panic is recovered at the top of the goroutine: every
	// deferred function of the code under test has run exactly as it would while the process dies)
)

func (s State) String() string {
	return [...]string{"running", "parked", "finished", "panicked"}[s]
}

type thread struct {
	id    int
	gid   uint64
	state State
	label string
	ch    chan struct{}
	panic string
	steps int
}

// Info is a snapshot of one thread.
type Info struct {
	ID    int
	State State
	Label string // valid when Parked
	Panic string // valid when Panicked
	Steps int    // number of yield points reached so far
}

type Sched struct {
	mu      sync.Mutex
	byGid   map[uint64]*thread
	byID    map[int]*thread
	free    atomic.Bool
	reached map[string]int
	// OnUnknown, if set, is asked for a thread id when an unregistered goroutine reaches a yield point
	// (ok=false: let it pass). Used by the layers that have goroutines of their own (timer callbacks).
	OnUnknown func(label string) (id int, ok bool)
}

func New() *Sched {
	return &Sched{byGid: map[uint64]*thread{}, byID: map[int]*thread{}, reached: map[string]int{}}
}

// curGid parses "goroutine N [" from the current goroutine's stack header.
func curGid() uint64 {
	var buf [64]byte
	n := runtime.Stack(buf[:], false)
	b := buf[:n]
	b = bytes.TrimPrefix(b, []byte("goroutine "))
	i := bytes.IndexByte(b, ' ')
	if i < 0 {
		return 0
	}
	g, _ := strconv.ParseUint(string(b[:i]), 10, 64)
	return g
}

// Step is the yield point. It is what the instrumented code calls through its package-level hook variable.
func (s *Sched) Step(label string) {
	gid := curGid()
	s.mu.Lock()
	s.reached[label]++
	t := s.byGid[gid]
	if t == nil && s.OnUnknown != nil && !s.free.Load() {
		if id, ok := s.OnUnknown(label); ok {
			t = &thread{id: id, gid: gid, ch: make(chan struct{})}
			s.byGid[gid] = t
			s.byID[id] = t
		}
	}
	if t == nil {
		s.mu.Unlock()
		return
	}
	t.steps++
	if s.free.Load() {
		s.mu.Unlock()
		return
	}
	t.state = Parked
	t.label = label
	ch := t.ch
	s.mu.Unlock()
	<-ch
}

// Who returns the thread id of the calling goroutine (ok=false: not a registered goroutine). Used by yield points that are
// transparent in a run (the caller only records that the thread passed them).
func (s *Sched) Who() (int, bool) {
	gid := curGid()
	s.mu.Lock()
	defer s.mu.Unlock()
	if t := s.byGid[gid]; t != nil {
		return t.id, true
	}
	return 0, false
}

// Count records that a label was reached without parking (transparent yield points).
func (s *Sched) Count(label string) {
	s.mu.Lock()
	s.reached[label]++
	s.mu.Unlock()
}

// Go starts f in a new goroutine registered as thread id. The caller then calls synctest.Wait().
func (s *Sched) Go(id int, f func()) {
	t := &thread{id: id, ch: make(chan struct{})}
	s.mu.Lock()
	s.byID[id] = t
	s.mu.Unlock()
	go func() {
		gid := curGid()
		s.mu.Lock()
		t.gid = gid
		s.byGid[gid] = t
		s.mu.Unlock()
		defer func() {
			r := recover()
			s.mu.Lock()
			if r != nil {
				t.state = Panicked
				t.panic = fmt.Sprint(r)
			} else {
				t.state = Finished
			}
			delete(s.byGid, gid)
			s.mu.Unlock()
		}()
		f()
	}()
}

// Release lets a parked thread run its next step. It reports whether the thread was parked.
func (s *Sched) Release(id int) bool {
	s.mu.Lock()
	t := s.byID[id]
	if t == nil || t.state != Parked {
		s.mu.Unlock()
		return false
	}
	t.state = Running
	t.label = ""
	ch := t.ch
	s.mu.Unlock()
	ch <- struct{}{}
	return true
}

// FreeRun turns every yield point into a no-op from now on and releases whoever is parked.
func (s *Sched) FreeRun() {
	s.free.Store(true)
	s.mu.Lock()
	var chs []chan struct{}
	for _, t := range s.byID {
		if t.state == Parked {
			t.state = Running
			t.label = ""
			chs = append(chs, t.ch)
		}
	}
	s.mu.Unlock()
	for _, ch := range chs {
		ch <- struct{}{}
	}
}

// Snapshot returns every thread, sorted by id.
func (s *Sched) Snapshot() []Info {
	s.mu.Lock()
	defer s.mu.Unlock()
	out := make([]Info, 0, len(s.byID))
	for _, t := range s.byID {
		out = append(out, Info{ID: t.id, State: t.state, Label: t.label, Panic: t.panic, Steps: t.steps})
	}
	sort.Slice(out, func(i, j int) bool { return out[i].ID < out[j].ID })
	return out
}

func (s *Sched) Get(id int) (Info, bool) {
	s.mu.Lock()
	defer s.mu.Unlock()
	t := s.byID[id]
	if t == nil {
		return Info{}, false
	}
	return Info{ID: t.id, State: t.state, Label: t.label, Panic: t.panic, Steps: t.steps}, true
}

// Reached returns how often each label was reached (by any goroutine).
func (s *Sched) Reached() map[string]int {
	s.mu.Lock()
	defer s.mu.Unlock()
	out := map[string]int{}
	for k, v := range s.reached {
		out[k] = v
	}
	return out
}

// ------------------------------------------------------------------------------------------------ watchdog

// Watchdog turns a hang (a released goroutine blocked on a mutex that a parked one owns, a deadlock in the code under
// test) into a verdict: if Beat is not called for longer than the timeout while armed, onHang runs (it normally records
// the position and exits the process). It must be started OUTSIDE the synctest bubble so that it runs on the wall clock.
type Watchdog struct {
	beat  atomic.Int64
	armed atomic.Bool
	info  atomic.Value
	stop  chan struct{}
}

func StartWatchdog(timeout time.Duration, onHang func(info string, stacks []byte)) *Watchdog {
	w := &Watchdog{stop: make(chan struct{})}
	w.info.Store("")
	go func() {
		last := w.beat.Load()
		since := time.Now()
		for {
			select {
			case <-w.stop:
				return
			case <-time.After(20 * time.Millisecond):
			}
			cur := w.beat.Load()
			if cur != last || !w.armed.Load() {
				last = cur
				since = time.Now()
				continue
			}
			if time.Since(since) > timeout {
				buf := make([]byte, 1<<20)
				n := runtime.Stack(buf, true)
				info, _ := w.info.Load().(string)
				onHang(info, buf[:n])
				since = time.Now()
			}
		}
	}()
	return w
}

// Beat records progress; info says where the driver is (shown when the watchdog fires).
func (w *Watchdog) Beat(info string) {
	w.info.Store(info)
	w.beat.Add(1)
}

func (w *Watchdog) Arm()    { w.beat.Add(1); w.armed.Store(true) }
func (w *Watchdog) Disarm() { w.armed.Store(false); w.beat.Add(1) }
func (w *Watchdog) Stop()   { close(w.stop) }

// ExitOnHang is the usual onHang: append a line to the progress file, dump the stacks next to it, exit 3.
func ExitOnHang(progress *os.File, stackPath string) func(string, []byte) {
	return func(info string, stacks []byte) {
		fmt.Fprintf(progress, "H %s\n", info)
		progress.Sync()
		os.WriteFile(stackPath, stacks, 0o644)
		os.Exit(3)
	}
}
