//go:build !restsess

package restdiff

import "net/http"

// Built without the accessor (it did not compile against this tree): the session table is not visible;
// probes then carry no cookie list.
func sessionCookies(h http.Handler) ([]string, bool) { return nil, false }

func hookAfterReset(h http.Handler, f func(key string, ok bool)) bool { return false }
