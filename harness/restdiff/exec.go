package restdiff

import (
	"context"
	"crypto/sha256"
	"encoding/hex"
	"encoding/json"
	"fmt"
	"net/http"
	"net/http/httptest"
	"os"
	"sort"
	"strconv"
	"strings"
	"sync"
	"sync/atomic"
	"testing/synctest"
	"time"

	"google.golang.org/grpc/stats"
	"google.golang.org/grpc/status"
	"google.golang.org/protobuf/encoding/protojson"

	"github.com/imoore76/ldlm/lock"
	grpcsvc "github.com/imoore76/ldlm/net/grpc"
	"github.com/imoore76/ldlm/net/rest"
	"github.com/imoore76/ldlm/net/security"
	pb "github.com/imoore76/ldlm/protos"
	"github.com/imoore76/ldlm/server"
	"github.com/imoore76/ldlm/server/session/store"
	"github.com/imoore76/ldlm/timermap"
)

const sessionCookie = "ldlm-session"

// longTok is the length above which a string is written to the trace in abbreviated form.
const longTok = 128

// abbrev maps a long string (lock name, key, echoed name) injectively - up to SHA-256 collisions - to a short one:
// "\x7fL<length>:<first 10 bytes of its SHA-256, hex>". The trace, the oracle and the extracted model treat names and keys
// as opaque values (equality and emptiness only), so the abbreviated trace is judged exactly like the full one, and a
// 1 MB name does not make a 100 MB trace. Both sides of a case are abbreviated by the same function.
func abbrev(s string) string {
	if len(s) <= longTok {
		return s
	}
	h := sha256.Sum256([]byte(s))
	return fmt.Sprintf("\x7fL%d:%x", len(s), h[:10])
}

func hx(s string) string {
	if s == "" {
		return "-"
	}
	return hex.EncodeToString([]byte(abbrev(s)))
}

// hxCut: hex of at most n bytes of s (free text: error messages, response bodies).
func hxCut(s string, n int) string {
	if s == "" {
		return "-"
	}
	if len(s) > n {
		s = s[:n]
	}
	return hex.EncodeToString([]byte(s))
}

func unhx(s string) string {
	if s == "" || s == "-" {
		return ""
	}
	if strings.HasPrefix(s, "rep:") {
		// rep:<unit hex>:<count>[:<suffix hex>]
		f := strings.Split(s[4:], ":")
		if len(f) < 2 {
			return ""
		}
		u, err := hex.DecodeString(f[0])
		n, err2 := strconv.Atoi(f[1])
		if err != nil || err2 != nil || n < 0 || n*len(u) > 64<<20 {
			return ""
		}
		out := strings.Repeat(string(u), n)
		if len(f) > 2 {
			if t, err := hex.DecodeString(f[2]); err == nil {
				out += string(t)
			}
		}
		return out
	}
	b, err := hex.DecodeString(s)
	if err != nil {
		return ""
	}
	return string(b)
}

var errNames = []struct {
	e error
	n string
}{
	{server.ErrEmptyName, "server.ErrEmptyName"},
	{server.ErrLockWaitTimeout, "server.ErrLockWaitTimeout"},
	{server.ErrLockDoesNotExistOrInvalidKey, "server.ErrLockDoesNotExistOrInvalidKey"},
	{server.ErrSessionDoesNotExist, "server.ErrSessionDoesNotExist"},
	{server.ErrInvalidLockTimeout, "server.ErrInvalidLockTimeout"},
	{server.ErrInvalidWaitTimeout, "server.ErrInvalidWaitTimeout"},
	{lock.ErrInvalidLockKey, "lock.ErrInvalidLockKey"},
	{lock.ErrLockNotLocked, "lock.ErrLockNotLocked"},
	{lock.ErrLockDoesNotExist, "lock.ErrLockDoesNotExist"},
	{lock.ErrManagerShutdown, "lock.ErrManagerShutdown"},
	{lock.ErrLockSizeMismatch, "lock.ErrLockSizeMismatch"},
	{lock.ErrInvalidLockSize, "lock.ErrInvalidLockSize"},
	{timermap.ErrTimerDoesNotExist, "timermap.ErrTimerDoesNotExist"},
	{context.Canceled, "context.Canceled"},
	{context.DeadlineExceeded, "context.DeadlineExceeded"},
}

// errTok names the Go error variable a pb.Error was made from. Both transports flatten the error to
// (code, message) in Service; the message text identifies the variable.
func errTok(e *pb.Error) string {
	if e == nil {
		return "~"
	}
	for _, x := range errNames {
		if e.Message == x.e.Error() {
			return x.n
		}
	}
	return "other"
}

func optTok(p *int32) string {
	if p == nil {
		return "~"
	}
	return strconv.Itoa(int(*p))
}

func b01(b bool) string {
	if b {
		return "1"
	}
	return "0"
}

// wrapSvc is the grpcLockServer handed to the REST gateway: the real Service, observed. It records the
// server session id of every TagConn and every HandleConn(ConnEnd), and can hold a TryLock inside the
// server call (the request is then "in flight" while it owns the session mutex) until released.
type wrapSvc struct {
	*grpcsvc.Service
	srv    *server.LockServer
	mu     sync.Mutex
	tagged []string
	ends   []string         // ConnEnd deliveries (recorded when HandleConn is entered)
	ended  []string         // ConnEnd deliveries that have RETURNED (the lock server has finished ending the session)
	gates  map[string]*gate // by lock name
	// window runs (window_on_test.go): observer of the server calls and a yield point inside them
	onEvent func(what, sid, name string) // serve-enter / serve-exit (TryLock), end-enter / end-exit (ConnEnd)
	yield   func(label string)           // H:serve (inside TryLock, before the lock server is called), H:connend
}

type gate struct {
	entered chan struct{}
	release chan struct{}
}

func newWrap(srv *server.LockServer) *wrapSvc {
	return &wrapSvc{Service: grpcsvc.NewService(srv), srv: srv, gates: map[string]*gate{}}
}

func (w *wrapSvc) TagConn(ctx context.Context, st *stats.ConnTagInfo) context.Context {
	ctx = w.Service.TagConn(ctx, st)
	sid, _ := w.srv.SessionId(ctx)
	w.mu.Lock()
	w.tagged = append(w.tagged, sid)
	w.mu.Unlock()
	return ctx
}

func (w *wrapSvc) HandleConn(ctx context.Context, st stats.ConnStats) {
	_, isEnd := st.(*stats.ConnEnd)
	sid := ""
	if isEnd {
		sid, _ = w.srv.SessionId(ctx)
		w.mu.Lock()
		w.ends = append(w.ends, sid)
		w.mu.Unlock()
		if w.onEvent != nil {
			w.onEvent("end-enter", sid, "")
		}
		if w.yield != nil {
			w.yield("H:connend")
		}
	}
	w.Service.HandleConn(ctx, st)
	if isEnd {
		w.mu.Lock()
		w.ended = append(w.ended, sid)
		w.mu.Unlock()
		if w.onEvent != nil {
			w.onEvent("end-exit", sid, "")
		}
	}
}

func (w *wrapSvc) TryLock(ctx context.Context, req *pb.TryLockRequest) (*pb.LockResponse, error) {
	w.mu.Lock()
	g := w.gates[req.Name]
	w.mu.Unlock()
	if g != nil {
		close(g.entered)
		<-g.release
	}
	if w.onEvent == nil && w.yield == nil {
		return w.Service.TryLock(ctx, req)
	}
	sid, _ := w.srv.SessionId(ctx)
	if w.onEvent != nil {
		w.onEvent("serve-enter", sid, req.Name)
	}
	if w.yield != nil {
		w.yield("H:serve")
	}
	r, err := w.Service.TryLock(ctx, req)
	if w.onEvent != nil {
		what := "serve-exit"
		if r != nil && r.Locked {
			what = "serve-exit-locked"
		}
		w.onEvent(what, sid, req.Name)
	}
	return r, err
}

func (w *wrapSvc) addGate(name string) *gate {
	g := &gate{entered: make(chan struct{}), release: make(chan struct{})}
	w.mu.Lock()
	w.gates[name] = g
	w.mu.Unlock()
	return g
}

func (w *wrapSvc) drainEnds() []string {
	w.mu.Lock()
	defer w.mu.Unlock()
	e := w.ends
	w.ends = nil
	return e
}

func (w *wrapSvc) lastTagged() string {
	w.mu.Lock()
	defer w.mu.Unlock()
	if len(w.tagged) == 0 {
		return ""
	}
	return w.tagged[len(w.tagged)-1]
}

// caller is what a client of the gRPC side calls.
type caller interface {
	TryLock(ctx context.Context, r *pb.TryLockRequest) (*pb.LockResponse, error)
	Unlock(ctx context.Context, r *pb.UnlockRequest) (*pb.UnlockResponse, error)
	Renew(ctx context.Context, r *pb.RenewRequest) (*pb.LockResponse, error)
}

// grpcFront is the gRPC transport in front of one LockServer (grpc_on.go: the real grpc.Run over an in-memory
// listener; grpc_off.go: the Service object called directly).
type grpcFront struct {
	// connect opens a client connection: the caller, the context to call with, the server session id of the
	// connection, and the function that closes it (ConnEnd delivered before it returns)
	connect func() (caller, context.Context, string, func(), error)
	stop    func()
}

// recLS is the LockServer handed to the gRPC Service, observed: it records the session ids CreateSession draws.
type recLS struct {
	*server.LockServer
	mu      sync.Mutex
	created []string
}

func (r *recLS) CreateSession(ctx context.Context, info map[string]any) (string, context.Context) {
	sid, ctx2 := r.LockServer.CreateSession(ctx, info)
	r.mu.Lock()
	r.created = append(r.created, sid)
	r.mu.Unlock()
	return sid, ctx2
}

func (r *recLS) count() int {
	r.mu.Lock()
	defer r.mu.Unlock()
	return len(r.created)
}

// after returns the session id created since count() returned n ("" if none).
func (r *recLS) after(n int) string {
	r.mu.Lock()
	defer r.mu.Unlock()
	if len(r.created) > n {
		return r.created[len(r.created)-1]
	}
	return ""
}

// side is one real LockServer with its transport.
type side struct {
	srv    *server.LockServer
	closer func()
	path   string
	// REST
	wrap    *wrapSvc
	handler http.Handler
	hcloser func()
	// gRPC
	front *grpcFront
}

type slot struct {
	tr     string // mode "mixed": rest | grpc
	cookie string // REST: the cookie of the last session created in this slot
	sidR   string
	made   bool
	ctxG   context.Context
	callG  caller
	closeG func()
	sidG   string
	connG  bool
}

// progress shared with the wall-clock watchdog (which runs outside the bubble)
var (
	progCase  atomic.Value // string
	progEvent atomic.Int64
	progTick  atomic.Int64
)

// Exec runs one history. It must be called inside a synctest bubble.
type Exec struct {
	cfg   Cfg
	mode  string
	R, G  side
	M     *grpcFront // mode "mixed": the gRPC transport in front of the REST side's LockServer
	start time.Time
	slots map[int]*slot
	keysR map[int]string
	keysG map[int]string
	lines []string
	Panic string
	stats map[string]int
	// cookies that were replaced in their slot or deleted (create events of class "ended" carry the latest one)
	retired []string
}

func serverConfig(c Cfg, path string) *server.LockServerConfig {
	sc := &server.LockServerConfig{
		Shards:              c.Shards,
		LockGcInterval:      time.Duration(c.GcI),
		LockGcMinIdle:       time.Duration(c.GcM),
		DefaultLockTimeout:  time.Duration(c.Dlt),
		NoClearOnDisconnect: c.NoClear,
	}
	sc.IPCSocketFile = ""
	if c.File {
		sc.StateFile = path
	}
	return sc
}

func bootRest(c Cfg, path string) (side, error) {
	var s side
	srv, closer, err := server.New(serverConfig(c, path))
	if err != nil {
		if closer != nil {
			closer()
		}
		return s, err
	}
	s.srv, s.closer, s.path = srv, closer, path
	s.wrap = newWrap(srv)
	hs, hcloser, err := rest.NewRestServer(s.wrap, &rest.RestConfig{RestSessionTimeout: time.Duration(c.Tmo)}, &security.SecurityConfig{})
	if err != nil {
		closer()
		return s, err
	}
	s.handler, s.hcloser = hs.Handler, hcloser
	return s, nil
}

func bootGrpc(c Cfg, path string) (side, error) {
	var s side
	srv, closer, err := server.New(serverConfig(c, path))
	if err != nil {
		if closer != nil {
			closer()
		}
		return s, err
	}
	s.srv, s.closer, s.path = srv, closer, path
	if s.front, err = newGrpcFront(srv); err != nil {
		closer()
		return s, err
	}
	return s, nil
}

func (x *Exec) emit(format string, a ...any) { x.lines = append(x.lines, fmt.Sprintf(format, a...)) }

type exchange struct {
	status int
	body   string
	cookie string // Set-Cookie value of the session cookie, if any
	hung   bool
	panic  string
}

// serveHTTP performs one exchange on the real handler. As net/http does, the request's context is
// cancelled when the handler returns.
func serveHTTP(h http.Handler, method, path, body string, cookie *string) exchange {
	var req *http.Request
	func() {
		defer func() { recover() }()
		req = httptest.NewRequest(method, path, strings.NewReader(body))
	}()
	if req == nil {
		return exchange{status: -2, panic: "unusable request"}
	}
	ctx, cancel := context.WithCancel(context.Background())
	defer cancel()
	req = req.WithContext(ctx)
	if body != "" {
		req.Header.Set("Content-Type", "application/json")
	}
	if cookie != nil {
		// http.Request.AddCookie would drop an empty value's "="; write the header as a browser does
		if req.Header.Get("Cookie") == "" {
			req.Header.Set("Cookie", sessionCookie+"="+*cookie)
		}
	}
	rec := httptest.NewRecorder()
	var ex exchange
	done := make(chan struct{})
	go func() {
		defer func() {
			if r := recover(); r != nil {
				ex.panic = fmt.Sprint(r)
			}
			close(done)
		}()
		h.ServeHTTP(rec, req)
	}()
	synctest.Wait()
	select {
	case <-done:
	default:
		ex.hung = true
		return ex
	}
	ex.status = rec.Code
	ex.body = rec.Body.String()
	for _, c := range rec.Result().Cookies() {
		if c.Name == sessionCookie {
			ex.cookie = c.Value
		}
	}
	if ex.panic != "" {
		ex.status = -1
	}
	return ex
}

func jstr(s string) string {
	b, _ := json.Marshal(s)
	return string(b)
}

func jint(v int32, quoted, float bool) string {
	s := strconv.Itoa(int(v))
	if float {
		s += ".0"
	}
	if quoted {
		return `"` + s + `"`
	}
	return s
}

// renderBody renders an abstract request as a JSON body; every mode denotes the SAME request.
func renderBody(q, name string, size, lt *int32, key, mode string) string {
	ltName := "lockTimeoutSeconds"
	if mode == "snake" || mode == "mixed" {
		ltName = "lock_timeout_seconds"
	}
	quoted := mode == "quoted" || mode == "mixed"
	float := mode == "float"
	f := []string{}
	if !(name == "" && mode == "snake") { // an absent string field is the empty string
		f = append(f, `"name":`+jstr(name))
	}
	switch q {
	case "try":
		if size != nil {
			f = append(f, `"size":`+jint(*size, quoted, float))
		} else if mode == "null" {
			f = append(f, `"size":null`)
		}
		if lt != nil {
			f = append(f, `"`+ltName+`":`+jint(*lt, quoted, float))
		} else if mode == "null" {
			f = append(f, `"`+ltName+`":null`)
		}
	case "unl":
		f = append(f, `"key":`+jstr(key))
	case "ren":
		f = append(f, `"key":`+jstr(key))
		if lt != nil {
			f = append(f, `"`+ltName+`":`+jint(*lt, quoted, float))
		}
	}
	if mode == "extra" {
		f = append(f, `"bogus":{"x":[1,"two",null]}`, `"waitTimeoutSeconds":7`)
	}
	if len(f) == 0 && mode == "null" {
		return ""
	}
	return "{" + strings.Join(f, ",") + "}"
}

var routes = map[string]string{"try": "/v1/lock", "unl": "/v1/unlock", "ren": "/v1/renew"}

func noopExchange(kind string) (method, path, body string) {
	switch kind {
	case "badpath":
		return "POST", "/v1/nothing", `{"name":"a"}`
	case "badmethod":
		return "GET", "/v1/lock", ""
	case "malformed":
		return "POST", "/v1/lock", `{"name":"a"`
	case "overflow":
		return "POST", "/v1/lock", `{"name":"a","size":2147483648}`
	default: // badtype
		return "POST", "/v1/unlock", `{"name":"a","key":{"x":1}}`
	}
}

// (Lit, Pre and Suf may be in the rep: form of long strings: unhx reads both)
func (x *Exec) resolveKey(k *KeyRef, keys map[int]string) string {
	if k == nil {
		return ""
	}
	if k.Ref < 0 {
		return unhx(k.Lit)
	}
	return unhx(k.Pre) + keys[k.Ref] + unhx(k.Suf)
}

func (x *Exec) slot(s int) *slot {
	sl, ok := x.slots[s]
	if !ok {
		sl = &slot{}
		x.slots[s] = sl
	}
	return sl
}

// cookieFor returns the cookie the exchange carries (nil = no Cookie header).
func (x *Exec) cookieFor(ev Ev) *string {
	sl := x.slot(ev.S)
	switch ev.Ck {
	case "none":
		return nil
	case "unknown":
		c := "0123456789abcdef0123456789abcdef"
		return &c
	case "empty":
		c := ""
		return &c
	case "mangled":
		if !sl.made || len(sl.cookie) == 0 {
			return nil
		}
		c := sl.cookie
		last := c[len(c)-1]
		r := byte('0')
		if last == '0' {
			r = '1'
		}
		c = c[:len(c)-1] + string(r)
		return &c
	default: // own
		if !sl.made {
			return nil
		}
		c := sl.cookie
		return &c
	}
}

// createCookie: the cookie a POST /session carries, and what it is at that moment: own-live own-ended other-live other-ended
// retired-live (a cookie that was replaced in its slot while its session lives on; mode c20) retired-ended garbage
// (live = in the gateway's session table, when that is visible).
func (x *Exec) createCookie(ev Ev, h http.Handler) (*string, string) {
	var c string
	rel := ev.Ck
	switch ev.Ck {
	case "own":
		if sl := x.slot(ev.S); sl.made {
			c = sl.cookie
		}
	case "other":
		if sl := x.slot(ev.Cs); sl.made && ev.Cs != ev.S {
			c = sl.cookie
		}
	case "ended":
		if n := len(x.retired); n > 0 {
			c = x.retired[n-1]
		} else {
			c, rel = "feedfacefeedfacefeedfacefeedface", "garbage"
		}
	case "garbage":
		c = "feedfacefeedfacefeedfacefeedface"
	default:
		return nil, ""
	}
	if c == "" {
		return nil, ""
	}
	if rel == "ended" {
		rel = "retired"
	}
	if rel != "garbage" {
		live := "unknown"
		if cs, ok := sessionCookies(h); ok {
			live = "ended"
			for _, k := range cs {
				if k == c {
					live = "live"
				}
			}
		}
		rel += "-" + live
	}
	return &c, rel
}

func ckTok(c *string) string {
	if c == nil {
		return "~"
	}
	return hx(*c)
}

func clockToks(n, k string, sz int32) string { return fmt.Sprintf("%s %s %d", hx(n), hx(k), sz) }

func probeServer(srv *server.LockServer, cfg Cfg, path string, start time.Time) []string {
	outs := []string{}
	ls := srv.Locks()
	parts := []string{}
	for _, l := range ls {
		parts = append(parts, clockToks(l.Name(), l.Key(), l.Size()))
	}
	outs = append(outs, strings.TrimSpace(fmt.Sprintf("listing %d %s", len(ls), strings.Join(parts, " "))))
	if !cfg.File {
		outs = append(outs, "file none")
	} else {
		st, err := store.New(path)
		if err != nil {
			outs = append(outs, "file error:"+hx(err.Error()))
		} else {
			m, err := st.Read()
			st.Close()
			if err != nil {
				outs = append(outs, "file error:"+hx(err.Error()))
			} else if m == nil {
				outs = append(outs, "file none")
			} else {
				sids := []string{}
				for sid := range m {
					sids = append(sids, sid)
				}
				sort.Strings(sids)
				fp := []string{}
				for _, sid := range sids {
					cs := []string{}
					for _, l := range m[sid] {
						cs = append(cs, clockToks(l.Name(), l.Key(), l.Size()))
					}
					fp = append(fp, strings.TrimSpace(fmt.Sprintf("%s %d %s", hx(sid), len(m[sid]), strings.Join(cs, " "))))
				}
				outs = append(outs, strings.TrimSpace(fmt.Sprintf("file %d %s", len(m), strings.Join(fp, " "))))
			}
		}
	}
	tb := srv.VerifLockManager().VerifTable()
	sort.Slice(tb, func(i, j int) bool { return tb[i].Name < tb[j].Name })
	tp := []string{}
	for _, l := range tb {
		ks := []string{}
		for _, k := range l.Keys {
			ks = append(ks, hx(k))
		}
		tp = append(tp, strings.TrimSpace(fmt.Sprintf("%s %d %d %d %s", hx(l.Name), l.Size, l.LastAccessed-start.UnixNano(), len(l.Keys), strings.Join(ks, " "))))
	}
	outs = append(outs, strings.TrimSpace(fmt.Sprintf("table %d %s", len(tb), strings.Join(tp, " "))))
	return outs
}

func (x *Exec) emitEnds() {
	for _, sid := range x.R.wrap.drainEnds() {
		x.emit("O end %s", hx(sid))
		x.stats["connend"]++
	}
}

func lockRespToks(body string) (string, *pb.LockResponse) {
	var r pb.LockResponse
	if err := protojson.Unmarshal([]byte(body), &r); err != nil {
		return "badbody " + hx(body), nil
	}
	return fmt.Sprintf("r lock %s %s %s", b01(r.Locked), hx(r.Key), errTok(r.Error)), &r
}

func unlockRespToks(body string) (string, *pb.UnlockResponse) {
	var r pb.UnlockResponse
	if err := protojson.Unmarshal([]byte(body), &r); err != nil {
		return "badbody " + hx(body), nil
	}
	return fmt.Sprintf("r unl %s %s", b01(r.Unlocked), errTok(r.Error)), &r
}

func errNote(e *pb.Error) string {
	if e == nil {
		return "code=~ msg=-"
	}
	return fmt.Sprintf("code=%s msg=%s", e.Code.String(), hx(e.Message))
}

// Step executes event i of the history.
func (x *Exec) Step(i int, ev Ev) {
	progEvent.Store(int64(i))
	progTick.Add(1)
	h := x.R.handler
	both := x.mode == "c15"
	switch ev.Op {
	case "create":
		sl := x.slot(ev.S)
		repost := both && sl.connG && ev.Ck == "own" && sl.made
		if both && sl.connG && !repost {
			return // the slot is in use on the gRPC side: a connection is not re-opened
		}
		if x.mode == "mixed" && (sl.connG || (sl.tr == "rest" && sl.made)) {
			return
		}
		if x.mode == "mixed" && ev.T == "grpc" {
			c, ctx, gs, cl, err := x.M.connect()
			if err != nil {
				x.emit("E grpc conn -")
				x.emit("O rpcerror %s", hx(err.Error()))
				return
			}
			sl.tr, sl.ctxG, sl.callG, sl.closeG, sl.sidG, sl.connG = "grpc", ctx, c, cl, gs, true
			x.emit("E grpc conn %s", hx(gs))
			x.stats["op_grpc_conn"]++
			return
		}
		sl.tr = "rest"
		nTagged := len(x.R.wrap.tagged)
		// the cookie the POST carries (a cookie-jar client sends what it has); the answer must be a fresh session all the same
		carried, class := x.createCookie(ev, h)
		old := *sl
		ex := serveHTTP(h, "POST", "/session", "", carried)
		if x.hang(ex) {
			return
		}
		sid := ""
		if len(x.R.wrap.tagged) > nTagged {
			sid = x.R.wrap.lastTagged()
		}
		if sl.made && sl.cookie != "" && sl.cookie != ex.cookie {
			x.retired = append(x.retired, sl.cookie)
		}
		sl.cookie, sl.sidR, sl.made = ex.cookie, sid, true
		x.emit("E create %s %s", hx(ex.cookie), hx(sid))
		x.emit("O st %d", ex.status)
		if carried != nil {
			x.emit("N create-carries class=%s cookie=%s returned_is_carried=%s new_server_session=%s", class, hx(*carried), b01(ex.cookie == *carried), b01(sid != ""))
			x.stats["create_ck_"+class]++
		} else {
			x.stats["create_ck_none"]++
		}
		x.note(ex)
		x.emitEnds()
		x.stats["op_create"]++
		if repost {
			// the client goes on with what it was given and closes its old session / connection
			c, ctx, gs, cl, err := x.G.front.connect()
			if err != nil {
				x.emit("G conn -")
				x.emit("P rpcerror %s", hx(err.Error()))
			} else {
				sl.ctxG, sl.callG, sl.closeG, sl.sidG, sl.connG = ctx, c, cl, gs, true
				x.emit("G conn %s", hx(gs))
			}
			oc := old.cookie
			ex2 := serveHTTP(h, "DELETE", "/session", "", &oc)
			if x.hang(ex2) {
				return
			}
			x.emit("E delete %s", hx(oc))
			x.emit("O st %d", ex2.status)
			x.note(ex2)
			x.emitEnds()
			x.stats["op_delete"]++
			x.stats[fmt.Sprintf("delete_status_%d", ex2.status)]++
			if old.connG && old.closeG != nil {
				old.closeG()
				x.emit("G disc %s", hx(old.sidG))
			}
			return
		}
		if both {
			c, ctx, gs, cl, err := x.G.front.connect()
			if err != nil {
				x.emit("G conn -")
				x.emit("P rpcerror %s", hx(err.Error()))
			} else {
				sl.ctxG, sl.callG, sl.closeG, sl.sidG, sl.connG = ctx, c, cl, gs, true
				x.emit("G conn %s", hx(gs))
			}
		}
	case "delete":
		if sl := x.slot(ev.S); x.mode == "mixed" && sl.tr == "grpc" {
			if sl.connG {
				sl.closeG()
				sl.connG = false
				x.emit("E grpc disc %s", hx(sl.sidG))
				x.stats["op_grpc_disc"]++
			}
			return
		}
		ck := x.cookieFor(ev)
		ex := serveHTTP(h, "DELETE", "/session", "", ck)
		if x.hang(ex) {
			return
		}
		x.emit("E delete %s", ckTok(ck))
		x.emit("O st %d", ex.status)
		x.note(ex)
		x.emitEnds()
		x.stats["op_delete"]++
		x.stats[fmt.Sprintf("delete_status_%d", ex.status)]++
		sl := x.slot(ev.S)
		if ex.status == 200 && ck != nil && *ck != "" {
			x.retired = append(x.retired, *ck)
		}
		if x.mode == "mixed" && ex.status == 200 {
			sl.made = false
		}
		if both && (ev.Ck == "" || ev.Ck == "own") && sl.connG {
			sl.closeG()
			sl.connG = false
			x.emit("G disc %s", hx(sl.sidG))
		}
	case "req":
		if sl := x.slot(ev.S); x.mode == "mixed" && sl.tr == "grpc" {
			if sl.connG && ev.Q != "noop" {
				x.grpcCall(i, ev, sl, sl.callG, x.keysR, "E grpc", "O")
				x.stats["op_grpc_"+ev.Q]++
			}
			return
		}
		ck := x.cookieFor(ev)
		sl := x.slot(ev.S)
		name := unhx(ev.Name)
		x.stats["op_"+ev.Q]++
		x.stats["cookie_"+ckKind(ev)]++
		if ev.Q == "noop" {
			m, p, b := noopExchange(ev.Noop)
			ex := serveHTTP(h, m, p, b, ck)
			if x.hang(ex) {
				return
			}
			x.emit("E req %s noop %d", ckTok(ck), ex.status)
			x.emit("O st %d", ex.status)
			x.note(ex)
			x.emitEnds()
			x.stats[fmt.Sprintf("status_%d", ex.status)]++
			x.stats["noop_"+ev.Noop]++
			return
		}
		keyR := x.resolveKey(ev.Key, x.keysR)
		mode := ev.Body
		if mode == "" {
			mode = "camel"
		}
		x.stats["body_"+mode]++
		body := renderBody(ev.Q, name, ev.Size, ev.Lt, keyR, mode)
		ex := serveHTTP(h, "POST", routes[ev.Q], body, ck)
		if x.hang(ex) {
			return
		}
		x.stats[fmt.Sprintf("status_%d", ex.status)]++
		var granted string
		outs := []string{fmt.Sprintf("O st %d", ex.status)}
		notes := ""
		if ex.status == 200 {
			switch ev.Q {
			case "unl":
				t, r := unlockRespToks(ex.body)
				outs = append(outs, "O "+t)
				if r != nil {
					notes = errNote(r.Error) + " name=" + hx(r.Name)
				}
			default:
				t, r := lockRespToks(ex.body)
				outs = append(outs, "O "+t)
				if r != nil {
					notes = errNote(r.Error) + " name=" + hx(r.Name)
					granted = r.Key
				}
			}
		}
		switch ev.Q {
		case "try":
			x.keysR[i] = granted
			x.emit("E req %s try %s %s %s %s", ckTok(ck), hx(name), optTok(ev.Size), optTok(ev.Lt), hx(granted))
		case "unl":
			x.emit("E req %s unl %s %s", ckTok(ck), hx(name), hx(keyR))
		case "ren":
			lt := int32(0)
			if ev.Lt != nil {
				lt = *ev.Lt
			}
			x.emit("E req %s ren %s %s %d", ckTok(ck), hx(name), hx(keyR), lt)
		}
		x.lines = append(x.lines, outs...)
		if notes != "" {
			x.emit("N %s", notes)
		}
		if ex.status != 200 {
			x.emit("N http=%d body=%s", ex.status, hxCut(ex.body, 300))
		}
		x.emit("N ev=%d render=%s body_bytes=%d name_bytes=%d key_bytes=%d", i, mode, len(body), len(name), len(keyR))
		if len(name) > longTok {
			x.stats["long_name_exchanges"]++
		}
		if len(keyR) > longTok {
			x.stats["long_key_exchanges"]++
		}
		if len(body) > 4096 {
			x.stats["bodies_over_4096_bytes"]++
		}
		if len(body) > 65536 {
			x.stats["bodies_over_64KiB"]++
		}
		x.note(ex)
		x.emitEnds()
		// the same abstract request over gRPC, on the connection that plays this session
		if both && (ev.Ck == "" || ev.Ck == "own") && sl.connG {
			x.grpcCall(i, ev, sl, sl.callG, x.keysG, "G", "P")
		}
	case "adv":
		x.emit("E adv %d", ev.Dt)
		if ev.Dt > 0 {
			time.Sleep(time.Duration(ev.Dt))
		}
		synctest.Wait()
		x.emitEnds()
		x.stats["op_adv"]++
		if both {
			x.emit("G adv %d", ev.Dt)
		}
	case "probe":
		synctest.Wait()
		x.emit("E probe")
		for _, o := range probeServer(x.R.srv, x.cfg, x.R.path, x.start) {
			x.emit("O %s", o)
		}
		if cs, ok := sessionCookies(h); ok {
			sort.Strings(cs)
			hs := []string{}
			for _, c := range cs {
				hs = append(hs, hx(c))
			}
			x.emit("%s", strings.TrimSpace(fmt.Sprintf("O cookies %d %s", len(cs), strings.Join(hs, " "))))
		}
		x.emitEnds()
		if both {
			x.emit("G probe")
			for _, o := range probeServer(x.G.srv, x.cfg, x.G.path, x.start) {
				x.emit("P %s", o)
			}
		}
	}
}

// grpcCall performs the request of ev on the gRPC Service svc with the connection context of sl and writes the
// event line (prefix ePre) and its outputs (prefix oPre).
func (x *Exec) grpcCall(i int, ev Ev, sl *slot, svc caller, keys map[int]string, ePre, oPre string) {
	name := unhx(ev.Name)
	key := x.resolveKey(ev.Key, keys)
	switch ev.Q {
	case "try":
		r, err := svc.TryLock(sl.ctxG, &pb.TryLockRequest{Name: name, Size: ev.Size, LockTimeoutSeconds: ev.Lt})
		if err != nil || r == nil {
			x.emit("%s try %s %s %s %s -", ePre, hx(sl.sidG), hx(name), optTok(ev.Size), optTok(ev.Lt))
			x.emit("%s rpcerror %s", oPre, rpcErrToks(err))
			return
		}
		keys[i] = r.Key
		x.emit("%s try %s %s %s %s %s", ePre, hx(sl.sidG), hx(name), optTok(ev.Size), optTok(ev.Lt), hx(r.Key))
		x.emit("%s r lock %s %s %s", oPre, b01(r.Locked), hx(r.Key), errTok(r.Error))
		x.emit("N %s name=%s", errNote(r.Error), hx(r.Name))
	case "unl":
		r, err := svc.Unlock(sl.ctxG, &pb.UnlockRequest{Name: name, Key: key})
		x.emit("%s unl %s %s %s", ePre, hx(sl.sidG), hx(name), hx(key))
		if err != nil || r == nil {
			x.emit("%s rpcerror %s", oPre, rpcErrToks(err))
			return
		}
		x.emit("%s r unl %s %s", oPre, b01(r.Unlocked), errTok(r.Error))
		x.emit("N %s name=%s", errNote(r.Error), hx(r.Name))
	case "ren":
		lt := int32(0)
		if ev.Lt != nil {
			lt = *ev.Lt
		}
		r, err := svc.Renew(sl.ctxG, &pb.RenewRequest{Name: name, Key: key, LockTimeoutSeconds: lt})
		x.emit("%s ren %s %s %d", ePre, hx(name), hx(key), lt)
		if err != nil || r == nil {
			x.emit("%s rpcerror %s", oPre, rpcErrToks(err))
			return
		}
		x.emit("%s r lock %s %s %s", oPre, b01(r.Locked), hx(r.Key), errTok(r.Error))
		x.emit("N %s name=%s", errNote(r.Error), hx(r.Name))
	}
}

// rpcErrToks: "<message, hex, at most 300 bytes> code=<gRPC status code>" of a call the transport refused.
func rpcErrToks(err error) string {
	return fmt.Sprintf("%s code=%d", hxCut(fmt.Sprint(err), 300), int(status.Code(err)))
}

func ckKind(ev Ev) string {
	if ev.Ck == "" {
		return "own"
	}
	return ev.Ck
}

func (x *Exec) note(ex exchange) {
	if ex.panic != "" {
		x.Panic = ex.panic
		x.emit("N panic=%s", hx(ex.panic))
	}
}

func (x *Exec) hang(ex exchange) bool {
	if ex.hung {
		x.Panic = "handler did not return"
		return true
	}
	return false
}

// Finish tears both servers down so that the bubble can end.
func (x *Exec) Finish() {
	for _, sl := range x.slots {
		if sl.connG && sl.closeG != nil {
			func() {
				defer func() { recover() }()
				sl.closeG()
			}()
			sl.connG = false
		}
	}
	if x.M != nil {
		x.M.stop()
	}
	if x.G.front != nil {
		x.G.front.stop()
	}
	if x.R.hcloser != nil {
		x.R.hcloser()
	}
	if x.R.closer != nil {
		x.R.closer()
	}
	if x.G.closer != nil {
		x.G.closer()
	}
	synctest.Wait()
}

// RunHistory executes h in the current bubble. gen, if not nil, supplies events online; every event is
// appended to curPath before it is executed so that a crash or hang leaves the history behind.
func RunHistory(h *History, stateDir string, curPath string, gen func(x *Exec, i int) (Ev, bool)) (lines []string, stats map[string]int, panicMsg string) {
	pr := stateDir + "/state-r.bin"
	pg := stateDir + "/state-g.bin"
	for _, p := range []string{pr, pg, pr + ".tmp", pg + ".tmp"} {
		os.Remove(p)
	}
	progCase.Store(h.ID)
	progEvent.Store(-1)
	progTick.Add(1)
	x := &Exec{cfg: h.Cfg, mode: h.Mode, slots: map[int]*slot{}, keysR: map[int]string{}, keysG: map[int]string{}, stats: map[string]int{}}
	x.start = time.Now()
	x.stats["grpc_front_real"] = 0
	if grpcFrontIsReal {
		x.stats["grpc_front_real"] = 1
	}
	head := []string{"H " + h.ID,
		fmt.Sprintf("C %s %s %d %d %d %d", b01(h.Cfg.NoClear), b01(h.Cfg.File), h.Cfg.GcI, h.Cfg.GcM, h.Cfg.Dlt, h.Cfg.Tmo)}
	var err error
	if x.R, err = bootRest(h.Cfg, pr); err != nil {
		return append(head, "B boot-error "+hx(err.Error()), "X"), x.stats, "boot: " + err.Error()
	}
	if h.Mode == "mixed" {
		if x.M, err = newGrpcFront(x.R.srv); err != nil {
			x.Finish()
			return append(head, "B boot-error "+hx(err.Error()), "X"), x.stats, "boot: " + err.Error()
		}
	}
	if h.Mode == "c15" {
		if x.G, err = bootGrpc(h.Cfg, pg); err != nil {
			x.Finish()
			return append(head, "B boot-error "+hx(err.Error()), "X"), x.stats, "boot: " + err.Error()
		}
	}
	var cur *os.File
	if curPath != "" {
		cur, _ = os.Create(curPath)
		if cur != nil {
			hb, _ := json.Marshal(History{ID: h.ID, Mode: h.Mode, Cfg: h.Cfg})
			cur.Write(append(hb, '\n'))
		}
	}
	logEv := func(ev Ev) {
		if cur != nil {
			b, _ := json.Marshal(ev)
			cur.Write(append(b, '\n'))
		}
	}
	func() {
		defer func() {
			if r := recover(); r != nil {
				x.Panic = fmt.Sprint(r)
			}
		}()
		if gen != nil {
			for i := 0; ; i++ {
				ev, ok := gen(x, i)
				if !ok {
					break
				}
				h.Events = append(h.Events, ev)
				logEv(ev)
				x.Step(i, ev)
				if x.Panic != "" {
					break
				}
			}
		} else {
			for i, ev := range h.Events {
				logEv(ev)
				x.Step(i, ev)
				if x.Panic != "" {
					break
				}
			}
		}
	}()
	if cur != nil {
		cur.Close()
	}
	func() {
		defer func() { recover() }()
		x.Finish()
	}()
	lines = append(head, x.lines...)
	if x.Panic != "" {
		lines = append(lines, "P! "+hx(x.Panic))
	}
	lines = append(lines, "X")
	return lines, x.stats, x.Panic
}
