//go:build restgrpc

package restdiff

import (
	"context"
	"fmt"
	"net"
	"testing/synctest"
	"time"

	"google.golang.org/grpc"
	"google.golang.org/grpc/connectivity"
	"google.golang.org/grpc/credentials/insecure"
	"google.golang.org/grpc/test/bufconn"

	grpcsvc "github.com/imoore76/ldlm/net/grpc"
	"github.com/imoore76/ldlm/net/security"
	pb "github.com/imoore76/ldlm/protos"
	"github.com/imoore76/ldlm/server"
)

// The gRPC side as a gRPC client sees it: the REAL grpcsvc.Run (its server options, interceptor chain and stats
// handler) serving over an in-memory listener inside the bubble (the copy of grpc.go under test has its net.Listen
// made injectable, grpc_anchors.json); every client of a history is a real *grpc.ClientConn, connect = the transport
// handshake (TagConn), disconnect = closing the connection (HandleConn(ConnEnd) by the server's transport).
const grpcFrontIsReal = true

const grpcFrontKind = "real grpc.Server started by net/grpc.Run (interceptors, stats handler) over bufconn; one ClientConn per client"

type clientCaller struct{ c pb.LDLMClient }

func (c clientCaller) TryLock(ctx context.Context, r *pb.TryLockRequest) (*pb.LockResponse, error) {
	return c.c.TryLock(ctx, r)
}
func (c clientCaller) Unlock(ctx context.Context, r *pb.UnlockRequest) (*pb.UnlockResponse, error) {
	return c.c.Unlock(ctx, r)
}
func (c clientCaller) Renew(ctx context.Context, r *pb.RenewRequest) (*pb.LockResponse, error) {
	return c.c.Renew(ctx, r)
}

func newGrpcFront(srv *server.LockServer) (*grpcFront, error) {
	rec := &recLS{LockServer: srv}
	lis := bufconn.Listen(1 << 16)
	grpcsvc.VerifListen = func(network, addr string) (net.Listener, error) { return lis, nil }
	defer func() { grpcsvc.VerifListen = nil }()
	stop, err := grpcsvc.Run(grpcsvc.NewService(rec), &grpcsvc.GrpcConfig{ListenAddress: "bufconn", KeepaliveInterval: 60 * time.Second, KeepaliveTimeout: 10 * time.Second},
		&security.SecurityConfig{})
	if err != nil {
		return nil, err
	}
	f := &grpcFront{stop: stop}
	f.connect = func() (caller, context.Context, string, func(), error) {
		n := rec.count()
		cc, err := grpc.NewClient("passthrough:///bufconn",
			grpc.WithContextDialer(func(ctx context.Context, _ string) (net.Conn, error) { return lis.DialContext(ctx) }),
			grpc.WithTransportCredentials(insecure.NewCredentials()), grpc.WithIdleTimeout(0))
		if err != nil {
			return nil, nil, "", nil, err
		}
		cc.Connect()
		synctest.Wait()
		if st := cc.GetState(); st != connectivity.Ready {
			cc.Close()
			return nil, nil, "", nil, fmt.Errorf("connection state %v", st)
		}
		sid := rec.after(n)
		closeFn := func() {
			cc.Close()
			synctest.Wait()
		}
		return clientCaller{pb.NewLDLMClient(cc)}, context.Background(), sid, closeFn, nil
	}
	return f, nil
}
