package restdiff

import (
	"bufio"
	"encoding/json"
	"fmt"
	"io"
	"log/slog"
	"os"
	"path/filepath"
	"strconv"
	"testing"
	"testing/synctest"
	"time"
)

// watchdog runs OUTSIDE every bubble on the wall clock: a goroutine blocked on a sync.Mutex is not
// "durably blocked" for synctest, so a deadlock of the gateway would hang synctest.Wait() forever.
// When no event completes for `limit` it records the case and ends the process with status 3.
func watchdog(pf *os.File, limit time.Duration, running *bool) {
	go func() {
		last := progTick.Load()
		since := time.Now()
		for {
			time.Sleep(200 * time.Millisecond)
			cur := progTick.Load()
			if cur != last || !*running {
				last, since = cur, time.Now()
				continue
			}
			if time.Since(since) > limit {
				id, _ := progCase.Load().(string)
				fmt.Fprintf(pf, "HANG %s %d\n", id, progEvent.Load())
				pf.Sync()
				os.Exit(3)
			}
		}
	}()
}

func envInt(name string, def int) int {
	if v, err := strconv.Atoi(os.Getenv(name)); err == nil {
		return v
	}
	return def
}

// Environment:
//
//	RD_OUT      directory for trace.txt, histories.jsonl, stats-*.json, progress.txt, current.jsonl
//	RD_PROFILE  profile JSON file            (generation mode)
//	RD_N        number of histories           RD_SEED seed      RD_FIRST first history number
//	RD_REPLAY   JSONL file of symbolic histories to execute instead of generating
//	RD_WATCHDOG seconds of wall clock without progress after which the run is declared hung (default 20)
func TestRest(t *testing.T) {
	slog.SetDefault(slog.New(slog.NewTextHandler(io.Discard, nil)))
	out := os.Getenv("RD_OUT")
	if out == "" {
		t.Skip("RD_OUT not set")
	}
	os.MkdirAll(out, 0o755)
	tf, _ := os.OpenFile(filepath.Join(out, "trace.txt"), os.O_CREATE|os.O_WRONLY|os.O_APPEND, 0o644)
	hf, _ := os.OpenFile(filepath.Join(out, "histories.jsonl"), os.O_CREATE|os.O_WRONLY|os.O_APPEND, 0o644)
	pf, _ := os.OpenFile(filepath.Join(out, "progress.txt"), os.O_CREATE|os.O_WRONLY|os.O_APPEND, 0o644)
	defer tf.Close()
	defer hf.Close()
	defer pf.Close()
	cur := filepath.Join(out, "current.jsonl")
	stats := map[string]int{}
	running := false
	watchdog(pf, time.Duration(envInt("RD_WATCHDOG", 20))*time.Second, &running)

	emit := func(h *History, lines []string) {
		w := bufio.NewWriter(tf)
		for _, l := range lines {
			w.WriteString(l + "\n")
		}
		w.Flush()
		b, _ := json.Marshal(h)
		hf.Write(append(b, '\n'))
		fmt.Fprintf(pf, "D %s\n", h.ID)
	}
	runOne := func(h *History, gen func(x *Exec, i int) (Ev, bool)) map[string]int {
		fmt.Fprintf(pf, "S %s\n", h.ID)
		var st map[string]int
		running = true
		synctest.Test(t, func(t *testing.T) {
			lines, s, _ := RunHistory(h, out, cur, gen)
			st = s
			emit(h, lines)
		})
		running = false
		return st
	}

	if rp := os.Getenv("RD_REPLAY"); rp != "" {
		f, err := os.Open(rp)
		if err != nil {
			t.Fatal(err)
		}
		sc := bufio.NewScanner(f)
		sc.Buffer(make([]byte, 1<<20), 1<<26)
		for sc.Scan() {
			if len(sc.Bytes()) == 0 {
				continue
			}
			var h History
			if err := json.Unmarshal(sc.Bytes(), &h); err != nil {
				continue
			}
			runOne(&h, nil)
		}
		return
	}

	var prof Profile
	b, err := os.ReadFile(os.Getenv("RD_PROFILE"))
	if err != nil {
		t.Fatal(err)
	}
	if err := json.Unmarshal(b, &prof); err != nil {
		t.Fatal(err)
	}
	n := envInt("RD_N", 1)
	seed, _ := strconv.ParseUint(os.Getenv("RD_SEED"), 10, 64)
	first := envInt("RD_FIRST", 0)
	for k := first; k < first+n; k++ {
		g := NewGen(seed, uint64(k), &prof)
		h := &History{ID: fmt.Sprintf("%s%d-%d", prof.Mode, seed, k), Mode: prof.Mode, Cfg: g.Config()}
		st := runOne(h, func(x *Exec, i int) (Ev, bool) { return g.Next(i) })
		for k, v := range g.Stats {
			stats[k] += v
		}
		for k, v := range st {
			stats[k] += v
		}
		stats["histories"]++
		stats["events"] += len(h.Events)
	}
	sb, _ := json.Marshal(stats)
	os.WriteFile(filepath.Join(out, fmt.Sprintf("stats-%d.json", first)), sb, 0o644)
}
