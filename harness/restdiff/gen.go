package restdiff

import (
	"encoding/hex"
	"math/rand/v2"
)

// Gen produces the events of one history online from one PCG stream seeded by (seed, index). Its choices
// depend only on its own bookkeeping (what the property text says should be live), never on the
// implementation's answers, so a history replays identically on a deviating tree.
type Gen struct {
	r     *rand.Rand
	p     *Profile
	cfg   Cfg
	n     int // events wanted (without probes)
	made  int
	now   int64
	slots []gslot
	tries []gtry
	probe bool // a probe is due next
	// a "long" history (Profile.LongPct): the long names / keys it draws from
	long      bool
	longNames []string
	longKeys  []string
	queue     []qitem // scripted events that follow a create carrying another session's cookie
	ended     int     // sessions that have ended so far (a retired cookie exists)
	Stats     map[string]int
}

type qitem struct {
	op   string // try delete
	s    int
	name string
}

type gslot struct {
	grpc  bool // mode "mixed": a gRPC connection (no idle timeout)
	made  bool
	alive bool
	last  int64
}

type gtry struct {
	idx  int
	name string
	grpc bool
	used bool // an unlock was already aimed at this grant
}

func NewGen(seed, index uint64, p *Profile) *Gen {
	g := &Gen{r: rand.New(rand.NewPCG(seed, index*0x9e3779b97f4a7c15+1)), p: p, Stats: map[string]int{}}
	g.cfg = Cfg{
		NoClear: pick(g, p.NoClear, false),
		File:    pick(g, p.File, false),
		Dlt:     pick(g, p.Dlt, int64(600e9)),
		Shards:  pick(g, p.Shards, uint32(16)),
		Tmo:     pick(g, p.Tmos, int64(2e9)),
	}
	gc := pick(g, p.Gc, [2]int64{1800e9, 300e9})
	g.cfg.GcI, g.cfg.GcM = gc[0], gc[1]
	lo, hi := p.MinLen, p.MaxLen
	if lo < 1 {
		lo = 1
	}
	if hi < lo {
		hi = lo
	}
	g.n = lo + g.r.IntN(hi-lo+1)
	ns := p.Sessions
	if ns < 1 {
		ns = 1
	}
	g.slots = make([]gslot, 1+g.r.IntN(ns))
	if p.Mode == "mixed" && len(g.slots) < 2 {
		g.slots = make([]gslot, 2) // both transports are present: even slots are REST sessions, odd slots gRPC connections
	}
	if p.LongPct > 0 && len(p.LongNames) > 0 && g.r.IntN(100) < p.LongPct {
		// two long names per history, so that unlock / renew meet the grants made under them
		g.long = true
		g.longNames = []string{p.LongNames[g.r.IntN(len(p.LongNames))], p.LongNames[g.r.IntN(len(p.LongNames))]}
		if len(p.LongKeys) > 0 {
			g.longKeys = []string{p.LongKeys[g.r.IntN(len(p.LongKeys))]}
		}
		g.Stats["long_histories"]++
	}
	return g
}

// name draws the lock name of a request.
func (g *Gen) name() string {
	if g.long && g.r.IntN(100) < 50 {
		g.Stats["long_name_requests"]++
		return g.longNames[g.r.IntN(len(g.longNames))]
	}
	return pick(g, g.p.Names, "61")
}

func pick[T any](g *Gen, l []T, def T) T {
	if len(l) == 0 {
		return def
	}
	return l[g.r.IntN(len(l))]
}

func (g *Gen) Config() Cfg { return g.cfg }

func (g *Gen) weighted() string {
	tot := 0
	keys := []string{"create", "delete", "try", "unl", "ren", "noop", "adv"}
	for _, k := range keys {
		tot += g.p.Weights[k]
	}
	if tot == 0 {
		return "try"
	}
	x := g.r.IntN(tot)
	for _, k := range keys {
		x -= g.p.Weights[k]
		if x < 0 {
			return k
		}
	}
	return "try"
}

var bodies = []string{"camel", "camel", "snake", "quoted", "float", "extra", "null", "mixed"}
var noops = []string{"badpath", "badmethod", "malformed", "overflow", "badtype"}
var badCks = []string{"none", "unknown", "empty", "mangled"}

func (g *Gen) aliveSlots() []int {
	out := []int{}
	for i, s := range g.slots {
		if s.alive {
			out = append(out, i)
		}
	}
	return out
}

func (g *Gen) touch(s int, ck string) {
	if (ck == "" || ck == "own") && g.slots[s].alive {
		g.slots[s].last = g.now
	} else if ck == "" || ck == "own" {
		g.Stats["req_on_dead_session"]++
	}
}

func (g *Gen) cookieKind() string {
	if g.p.Mode == "c20" && g.r.IntN(100) < g.p.BadCkPct {
		return badCks[g.r.IntN(len(badCks))]
	}
	return "own"
}

func (g *Gen) keyRef(name string, grpc bool, consume bool) *KeyRef {
	mark := func(idx int) *KeyRef {
		if consume {
			for k := range g.tries {
				if g.tries[k].idx == idx {
					g.tries[k].used = true
				}
			}
		}
		return &KeyRef{Ref: idx}
	}
	if g.long && len(g.longKeys) > 0 && g.r.IntN(100) < 12 {
		// a key is client supplied: a long literal, or a granted key with a long tail
		g.Stats["long_key_requests"]++
		lk := g.longKeys[g.r.IntN(len(g.longKeys))]
		if len(g.tries) > 0 && g.r.IntN(2) == 0 {
			return &KeyRef{Ref: g.tries[g.r.IntN(len(g.tries))].idx, Suf: lk}
		}
		return &KeyRef{Ref: -1, Lit: lk}
	}
	if len(g.tries) > 0 && g.r.IntN(100) >= g.p.BadKeyPct {
		// prefer a grant of the same name (mode "mixed": made over the other transport, not yet unlocked, recent first)
		cands := []gtry{}
		for _, t := range g.tries {
			if t.name == name && (g.p.Mode != "mixed" || !t.used || g.r.IntN(4) == 0) {
				cands = append(cands, t)
			}
		}
		if g.p.Mode == "mixed" && g.r.IntN(100) < 75 {
			other := []gtry{}
			for _, t := range cands {
				if t.grpc != grpc {
					other = append(other, t)
				}
			}
			if len(other) > 0 {
				if len(other) > 3 {
					other = other[len(other)-3:]
				}
				return mark(other[g.r.IntN(len(other))].idx)
			}
		}
		if len(cands) > 0 {
			return mark(cands[g.r.IntN(len(cands))].idx)
		}
		return mark(g.tries[g.r.IntN(len(g.tries))].idx)
	}
	switch g.r.IntN(4) {
	case 0:
		return &KeyRef{Ref: -1, Lit: hex.EncodeToString([]byte("stale-key"))}
	case 1:
		return &KeyRef{Ref: -1}
	case 2:
		if len(g.tries) > 0 {
			return &KeyRef{Ref: g.tries[g.r.IntN(len(g.tries))].idx, Suf: hex.EncodeToString([]byte("x"))}
		}
		return &KeyRef{Ref: -1, Lit: hex.EncodeToString([]byte("k"))}
	default:
		if len(g.tries) > 0 {
			return &KeyRef{Ref: g.tries[g.r.IntN(len(g.tries))].idx}
		}
		return &KeyRef{Ref: -1, Lit: hex.EncodeToString([]byte("00000000-0000-0000-0000-000000000000"))}
	}
}

// advance moves the generator's clock and ends the sessions the gap rule ends.
func (g *Gen) advance(dt int64) {
	g.now += dt
	for i := range g.slots {
		if g.slots[i].alive && !g.slots[i].grpc && g.now >= g.slots[i].last+g.cfg.Tmo {
			g.slots[i].alive = false
			g.ended++
			g.Stats["expected_expiry"]++
		}
	}
}

func (g *Gen) advEvent(i int) Ev {
	tmo := g.cfg.Tmo
	small := []int64{1, 1e6, 1e9 - 1, 1e9, 1e9 + 1, 2e9, 3e9, tmo / 2}
	if g.p.Mode == "c15" || g.p.Mode == "mixed" {
		// keep every connected client alive: the most idle one may reach at most timeout-1ns
		max := int64(1) << 60
		for _, s := range g.slots {
			if s.alive && !s.grpc && s.last+tmo-1-g.now < max {
				max = s.last + tmo - 1 - g.now
			}
		}
		cands := []int64{}
		for _, d := range small {
			if d > 0 && d <= max {
				cands = append(cands, d)
			}
		}
		if max > 0 && max < int64(1)<<59 {
			cands = append(cands, max, max) // the boundary: a gap of exactly timeout-1ns
		}
		if max >= int64(1)<<59 { // only gRPC connections: nothing to keep alive
			cands = append(cands, small...)
		}
		if len(cands) == 0 {
			return Ev{} // caller touches a session instead
		}
		dt := cands[g.r.IntN(len(cands))]
		if dt == max {
			g.Stats["gap_tmo-1ns"]++
		}
		g.advance(dt)
		return Ev{Op: "adv", Dt: dt}
	}
	al := g.aliveSlots()
	if len(al) > 0 && g.r.IntN(100) < 60 {
		s := al[g.r.IntN(len(al))]
		gaps := []struct {
			n string
			d int64
		}{{"tmo-1ns", tmo - 1}, {"tmo", tmo}, {"tmo+1ns", tmo + 1}, {"2tmo", 2 * tmo}}
		c := gaps[g.r.IntN(len(gaps))]
		dt := g.slots[s].last + c.d - g.now
		if dt > 0 {
			g.Stats["gap_"+c.n]++
			g.advance(dt)
			return Ev{Op: "adv", Dt: dt}
		}
	}
	dt := small[g.r.IntN(len(small))]
	g.Stats["gap_small"]++
	g.advance(dt)
	return Ev{Op: "adv", Dt: dt}
}

// Next returns event i. A probe follows every other event.
func (g *Gen) Next(i int) (Ev, bool) {
	if g.probe {
		g.probe = false
		return Ev{Op: "probe"}, true
	}
	for len(g.queue) > 0 {
		q := g.queue[0]
		g.queue = g.queue[1:]
		if !g.slots[q.s].alive {
			continue
		}
		g.made++
		g.probe = true
		if q.op == "delete" {
			g.slots[q.s].alive = false
			g.ended++
			g.Stats["g_delete_live"]++
			g.Stats["scripted_after_create_with_cookie"]++
			return Ev{Op: "delete", S: q.s, Ck: "own"}, true
		}
		g.touch(q.s, "own")
		one := int32(1)
		g.tries = append(g.tries, gtry{idx: i, name: q.name, grpc: g.slots[q.s].grpc})
		g.Stats["scripted_after_create_with_cookie"]++
		return Ev{Op: "req", S: q.s, Ck: "own", Q: "try", Name: q.name, Size: &one, Body: "camel"}, true
	}
	if g.made >= g.n {
		return Ev{}, false
	}
	g.made++
	g.probe = true
	c15 := g.p.Mode == "c15" || g.p.Mode == "mixed"
	al := g.aliveSlots()
	op := g.weighted()
	if g.p.Mode == "c15" && op == "create" && len(al) > 0 && g.p.CreateCkPct > 0 && g.r.IntN(100) < g.p.CreateCkPct/3 {
		// a client posts to /session again with the cookie of its own LIVE session, goes on with what it gets and closes the old one
		s := al[g.r.IntN(len(al))]
		g.slots[s].last = g.now
		g.ended++
		g.Stats["g_create"]++
		g.Stats["g_create_ck_own_live"]++
		return Ev{Op: "create", S: s, Ck: "own"}, true
	}
	if g.made == 1 || (g.p.Mode == "mixed" && g.made == 2) || (len(al) == 0 && (c15 || g.r.IntN(100) < 70) && op != "adv") {
		op = "create"
	}
	if c15 && op == "create" && len(al) == len(g.slots) {
		op = "try"
	}
	if c15 && op == "delete" && len(al) == 0 {
		op = "create"
	}
	for tries := 0; tries < 3; tries++ {
		switch op {
		case "create":
			s := -1
			for k := range g.slots {
				if !g.slots[k].alive {
					s = k
					break
				}
			}
			if s < 0 {
				if c15 {
					op = "try"
					continue
				}
				s = g.r.IntN(len(g.slots))
			}
			wasMade, wasAlive := g.slots[s].made, g.slots[s].alive
			g.slots[s] = gslot{made: true, alive: true, last: g.now}
			g.Stats["g_create"]++
			if g.p.Mode != "mixed" && g.p.CreateCkPct > 0 && g.r.IntN(100) < g.p.CreateCkPct {
				// the POST carries a cookie; a fresh, independent session must come back all the same
				cls := []string{"garbage"}
				others := []int{}
				for _, a := range al {
					if a != s {
						others = append(others, a)
					}
				}
				if len(others) > 0 {
					cls = append(cls, "other", "other", "other")
				}
				if g.ended > 0 {
					cls = append(cls, "ended", "ended")
				}
				if wasMade && (!c15 || !wasAlive) {
					cls = append(cls, "own", "own")
				}
				ev := Ev{Op: "create", S: s, Ck: cls[g.r.IntN(len(cls))]}
				g.Stats["g_create_ck_"+ev.Ck]++
				if ev.Ck == "other" {
					ev.Cs = others[g.r.IntN(len(others))]
					// both sessions are then used as independent connections: a lock in each, the new one ends, (probe), the old one ends
					g.queue = append(g.queue, qitem{"try", ev.Cs, "6a61722d61"}, qitem{"try", s, "6a61722d62"}, qitem{"delete", s, ""})
					if g.r.IntN(2) == 0 {
						g.queue = append(g.queue, qitem{"try", ev.Cs, "6a61722d63"})
					}
					g.queue = append(g.queue, qitem{"delete", ev.Cs, ""})
				}
				return ev, true
			}
			if g.p.Mode == "mixed" {
				if s%2 == 1 {
					g.slots[s].grpc = true
					return Ev{Op: "create", S: s, T: "grpc"}, true
				}
				return Ev{Op: "create", S: s, T: "rest"}, true
			}
			return Ev{Op: "create", S: s}, true
		case "delete":
			s := g.r.IntN(len(g.slots))
			if c15 {
				s = al[g.r.IntN(len(al))]
			}
			ck := g.cookieKind()
			if ck == "own" {
				if g.slots[s].alive {
					g.Stats["g_delete_live"]++
				} else {
					g.Stats["g_delete_dead"]++
				}
				if g.slots[s].alive {
					g.ended++
				}
				g.slots[s].alive = false
			}
			return Ev{Op: "delete", S: s, Ck: ck}, true
		case "adv":
			ev := g.advEvent(i)
			if ev.Op == "" {
				op = "try"
				continue
			}
			return ev, true
		default:
			s := g.r.IntN(len(g.slots))
			if c15 || g.r.IntN(100) < 75 {
				if len(al) == 0 {
					if c15 {
						op = "create"
						continue
					}
				} else {
					s = al[g.r.IntN(len(al))]
				}
			}
			ck := g.cookieKind()
			g.touch(s, ck)
			ev := Ev{Op: "req", S: s, Ck: ck, Q: op}
			name := g.name()
			switch op {
			case "try":
				ev.Name, ev.Size, ev.Lt, ev.Body = name, pick(g, g.p.Sizes, nil), pick(g, g.p.Lts, nil), bodies[g.r.IntN(len(bodies))]
				g.tries = append(g.tries, gtry{idx: i, name: name, grpc: g.slots[s].grpc})
			case "unl":
				ev.Name, ev.Key, ev.Body = name, g.keyRef(name, g.slots[s].grpc, true), bodies[g.r.IntN(len(bodies))]
			case "ren":
				lt := pick(g, g.p.RenewLts, int32(2))
				ev.Name, ev.Key, ev.Body = name, g.keyRef(name, g.slots[s].grpc, false), bodies[g.r.IntN(len(bodies))]
				if !(lt == 0 && g.r.IntN(2) == 0) { // 0 is also sent as "absent"
					ev.Lt = &lt
				}
			default:
				ev.Q, ev.Noop = "noop", noops[g.r.IntN(len(noops))]
			}
			return ev, true
		}
	}
	return Ev{Op: "probe"}, true
}
