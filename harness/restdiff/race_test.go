package restdiff

import (
	"bufio"
	"encoding/json"
	"fmt"
	"io"
	"log/slog"
	"math/rand/v2"
	"os"
	"path/filepath"
	"strconv"
	"sync"
	"testing"
	"testing/synctest"
	"time"
)

// Environment:
//
//	RD_OUT           directory for races.jsonl (one RaceResult per line), scenarios.jsonl, progress.txt
//	RD_SEED          seed of the random scenarios
//	RD_RACE_VIRTUAL  number of random virtual-clock scenarios   RD_RACE_REAL  number of random wall-clock scenarios
//	RD_RACE_FILE     JSONL file of scenarios to run instead (replay)
//	RD_RACE_VTMO / RD_RACE_RTMO  session timeouts (ns) of the two clocks
func TestRace(t *testing.T) {
	slog.SetDefault(slog.New(slog.NewTextHandler(io.Discard, nil)))
	out := os.Getenv("RD_OUT")
	if out == "" {
		t.Skip("RD_OUT not set")
	}
	os.MkdirAll(out, 0o755)
	rf, _ := os.OpenFile(filepath.Join(out, "races.jsonl"), os.O_CREATE|os.O_WRONLY|os.O_APPEND, 0o644)
	sf, _ := os.OpenFile(filepath.Join(out, "scenarios.jsonl"), os.O_CREATE|os.O_WRONLY|os.O_APPEND, 0o644)
	pf, _ := os.OpenFile(filepath.Join(out, "progress.txt"), os.O_CREATE|os.O_WRONLY|os.O_APPEND, 0o644)
	defer rf.Close()
	defer sf.Close()
	defer pf.Close()
	vtmo := int64(envInt("RD_RACE_VTMO", 2_000_000_000))
	rtmo := int64(envInt("RD_RACE_RTMO", 40_000_000))
	seed, _ := strconv.ParseUint(os.Getenv("RD_SEED"), 10, 64)

	var scs []Scenario
	if fp := os.Getenv("RD_RACE_FILE"); fp != "" {
		f, err := os.Open(fp)
		if err != nil {
			t.Fatal(err)
		}
		sc := bufio.NewScanner(f)
		sc.Buffer(make([]byte, 1<<20), 1<<26)
		for sc.Scan() {
			var s Scenario
			if json.Unmarshal(sc.Bytes(), &s) == nil && s.ID != "" {
				scs = append(scs, s)
			}
		}
	} else {
		scs = FixedScenarios(vtmo, rtmo)
		r := rand.New(rand.NewPCG(seed, 0x5eed))
		for i := 0; i < envInt("RD_RACE_VIRTUAL", 0); i++ {
			scs = append(scs, RandomScenario(r, fmt.Sprintf("v-rand%d-%d", seed, i), true, vtmo, rtmo))
		}
		for i := 0; i < envInt("RD_RACE_REAL", 0); i++ {
			scs = append(scs, RandomScenario(r, fmt.Sprintf("r-rand%d-%d", seed, i), false, vtmo, rtmo))
		}
	}
	var wmu sync.Mutex
	write := func(res RaceResult) {
		b, _ := json.Marshal(res)
		wmu.Lock()
		rf.Write(append(b, '\n'))
		fmt.Fprintf(pf, "D %s\n", res.ID)
		wmu.Unlock()
	}
	for _, s := range scs {
		b, _ := json.Marshal(s)
		sf.Write(append(b, '\n'))
	}
	running := false
	watchdog(pf, time.Duration(envInt("RD_WATCHDOG", 20))*time.Second, &running)
	// virtual clock: one bubble per scenario, one at a time (the watchdog names the stuck one)
	for i := range scs {
		s := &scs[i]
		if s.Clock != "virtual" {
			continue
		}
		fmt.Fprintf(pf, "S %s\n", s.ID)
		running = true
		synctest.Test(t, func(t *testing.T) { write(RunScenario(s)) })
		running = false
	}
	// wall clock: independent handlers, several at a time
	sem := make(chan struct{}, 8)
	var wg sync.WaitGroup
	for i := range scs {
		s := &scs[i]
		if s.Clock == "virtual" {
			continue
		}
		wg.Add(1)
		sem <- struct{}{}
		go func() {
			defer wg.Done()
			defer func() { <-sem }()
			write(RunScenario(s))
		}()
	}
	wg.Wait()
}
