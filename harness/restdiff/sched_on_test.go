//go:build restsched

package restdiff

import (
	"bufio"
	"fmt"
	"io"
	"log/slog"
	"os"
	"path/filepath"
	"sort"
	"strconv"
	"strings"
	"sync"
	"testing"
	"testing/synctest"
	"time"

	"github.com/imoore76/ldlm/net/rest"
	"github.com/imoore76/ldlm/timermap"

	"ldlmverif/vhook"
)

// T2 tie of the fine-grained layer of coq/Model/Rest.v: the REAL rest handler, instrumented with one yield point per
// model program point (anchors.json, lib/instrument.py, go test -overlay), is driven along schedules chosen by the
// extracted model (`restdriver gen`): one item = one thread runs from its yield point to its next one. After every
// item the stepped thread's position is written out; `restdriver check` compares it with the model's pc, and the final
// statuses / ConnEnd counts / table entries with the model's final state. The model only schedules enabled threads
// (a thread about to take a mutex that is owned is never released), so a released goroutine that blocks is a
// disagreement: the wall-clock watchdog turns it into a verdict.

type schedThread struct {
	tid  int
	kind string
	ck   int
}

type schedCase struct {
	id    string
	nsess int
	ths   []schedThread
	items [][]string
}

func parseSchedules(path string) ([]*schedCase, error) {
	f, err := os.Open(path)
	if err != nil {
		return nil, err
	}
	defer f.Close()
	var out []*schedCase
	var cur *schedCase
	sc := bufio.NewScanner(f)
	sc.Buffer(make([]byte, 1<<20), 1<<26)
	for sc.Scan() {
		t := strings.Fields(sc.Text())
		if len(t) == 0 {
			continue
		}
		switch t[0] {
		case "S":
			n := 1
			if len(t) > 2 {
				n, _ = strconv.Atoi(t[2])
			}
			cur = &schedCase{id: t[1], nsess: n}
		case "T":
			if cur != nil && len(t) == 4 {
				tid, _ := strconv.Atoi(t[1][1:])
				ck, _ := strconv.Atoi(t[3])
				cur.ths = append(cur.ths, schedThread{tid: tid, kind: t[2], ck: ck})
			}
		case "I":
			if cur != nil {
				cur.items = append(cur.items, t[1:])
			}
		case "Z":
			if cur != nil {
				out = append(out, cur)
				cur = nil
			}
		}
	}
	return out, nil
}

func baseLabel(l string) string {
	if i := strings.IndexByte(l, ':'); i >= 0 {
		return l[:i]
	}
	return l
}

const schedTmo = 10 * time.Second

func runSchedule(c *schedCase, w *bufio.Writer) {
	progCase.Store(c.id)
	progEvent.Store(-1)
	progTick.Add(1)
	sch := vhook.New()
	hook := func(label, id string) {
		if id != "" {
			label += ":" + id
		}
		sch.Step(label)
	}
	// the inner yield points (A: before a mutex acquisition / timer-manager call, R: after a release; anchors.json
	// "acquisitions") lie inside the model's steps: transparent here, they park in the window runs (window_on_test.go)
	rest.VerifStep = func(label string, args ...string) {
		if strings.HasPrefix(label, "A:") || strings.HasPrefix(label, "R:") {
			return
		}
		id := ""
		if len(args) > 0 {
			id = args[0]
		}
		hook(label, id)
	}
	timermap.VerifStep = hook
	defer func() { rest.VerifStep, timermap.VerifStep = nil, nil }()
	fmt.Fprintf(w, "S %s\n", c.id)
	R, err := bootRest(Cfg{GcI: 1800e9, GcM: 300e9, Dlt: 600e9, Shards: 16, Tmo: int64(schedTmo)}, "")
	if err != nil {
		fmt.Fprintf(w, "B boot %s\n", hx(err.Error()))
		return
	}
	h := R.handler
	var mu sync.Mutex
	cookies := map[int]string{} // session index -> cookie
	idxOf := map[string]int{}
	sids := map[int]string{}
	status := map[int]int{}
	sch.OnUnknown = func(label string) (int, bool) {
		if strings.HasPrefix(label, "C0:") {
			mu.Lock()
			idx := idxOf[label[3:]]
			mu.Unlock()
			if idx > 0 {
				return 1000 + idx, true
			}
		}
		return 0, false
	}
	start := func(t schedThread) {
		ck := cookies[t.ck]
		sch.Go(t.tid, func() {
			var code int
			switch t.kind {
			case "create":
				code, _, _ = serveDirect(h, "POST", "/session", "", nil)
			case "del":
				code, _, _ = serveDirect(h, "DELETE", "/session", "", &ck)
			default:
				code, _, _ = serveDirect(h, "POST", "/v1/lock", fmt.Sprintf(`{"name":"t%d"}`, t.tid), &ck)
			}
			mu.Lock()
			status[t.tid] = code
			mu.Unlock()
		})
		synctest.Wait()
	}
	// the creators first: the cookie is drawn before CreateSession's first yield point, which reports it
	for _, t := range c.ths {
		if t.kind != "create" {
			continue
		}
		start(t)
		if in, ok := sch.Get(t.tid); ok && in.State == vhook.Parked && strings.HasPrefix(in.Label, "K0:") {
			ck := in.Label[3:]
			mu.Lock()
			cookies[t.ck], idxOf[ck] = ck, t.ck
			mu.Unlock()
			sids[t.ck] = R.wrap.lastTagged()
		}
	}
	for _, t := range c.ths {
		if t.kind != "create" {
			start(t)
		}
	}
	armedAt := map[int]time.Duration{}
	t0 := time.Now()
	ckOf := map[int]int{}
	for _, t := range c.ths {
		ckOf[t.tid] = t.ck
	}
	for k, it := range c.items {
		progEvent.Store(int64(k))
		progTick.Add(1)
		switch it[0] {
		case "run":
			tok := it[1]
			n, _ := strconv.Atoi(tok[1:])
			id, ck := n, ckOf[n]
			if tok[0] == 'c' {
				id, ck = 1000+n, n
			}
			before, _ := sch.Get(id)
			sch.Release(id)
			synctest.Wait()
			in, ok := sch.Get(id)
			st, lab := "absent", "-"
			if ok {
				st = in.State.String()
				if in.State == vhook.Parked {
					lab = baseLabel(in.Label)
				}
				if in.State == vhook.Panicked {
					lab = hx(in.Panic)
				}
			}
			fmt.Fprintf(w, "A %d %s %s %s\n", k, tok, st, lab)
			// the idle timer was (re-)armed by this step: all sessions share one timeout, later arms fire later
			bl := baseLabel(before.Label)
			if (bl == "Q1" && lab == "Q1b") || bl == "K2" {
				armedAt[ck] = time.Since(t0)
				time.Sleep(1)
				synctest.Wait()
			}
		case "fire":
			n, _ := strconv.Atoi(it[1])
			if d := armedAt[n] + schedTmo - time.Since(t0); d > 0 {
				time.Sleep(d)
			}
			synctest.Wait()
			in, ok := sch.Get(1000 + n)
			st, lab := "absent", "-"
			if ok {
				st = in.State.String()
				if in.State == vhook.Parked {
					lab = baseLabel(in.Label)
				}
			}
			fmt.Fprintf(w, "A %d c%d %s %s\n", k, n, st, lab)
		}
	}
	// whatever is left runs freely (the model's schedules are complete; this only matters after a disagreement)
	sch.FreeRun()
	synctest.Wait()
	progTick.Add(1)
	mu.Lock()
	tids := []int{}
	for _, t := range c.ths {
		tids = append(tids, t.tid)
	}
	sort.Ints(tids)
	for _, tid := range tids {
		fmt.Fprintf(w, "F u%d %d\n", tid, status[tid])
	}
	mu.Unlock()
	ends := map[string]int{}
	R.wrap.mu.Lock()
	for _, s := range R.wrap.ends {
		ends[s]++
	}
	R.wrap.mu.Unlock()
	table, visible := sessionCookies(h)
	for idx := 1; idx <= c.nsess; idx++ {
		entry := "?"
		if visible {
			entry = "0"
			for _, ck := range table {
				if ck == cookies[idx] && ck != "" {
					entry = "1"
				}
			}
		}
		fmt.Fprintf(w, "E %d %d %s\n", idx, ends[sids[idx]], entry)
	}
	fmt.Fprintf(w, "Z\n")
	R.hcloser()
	R.closer()
	synctest.Wait()
}

// Environment: RD_OUT (trace-sched.txt, progress.txt), RD_SCHED (output of `restdriver gen`).
func TestSched(t *testing.T) {
	slog.SetDefault(slog.New(slog.NewTextHandler(io.Discard, nil)))
	out := os.Getenv("RD_OUT")
	if out == "" {
		t.Skip("RD_OUT not set")
	}
	os.MkdirAll(out, 0o755)
	scs, err := parseSchedules(os.Getenv("RD_SCHED"))
	if err != nil {
		t.Fatal(err)
	}
	tf, _ := os.OpenFile(filepath.Join(out, "trace-sched.txt"), os.O_CREATE|os.O_WRONLY|os.O_APPEND, 0o644)
	pf, _ := os.OpenFile(filepath.Join(out, "progress.txt"), os.O_CREATE|os.O_WRONLY|os.O_APPEND, 0o644)
	defer tf.Close()
	defer pf.Close()
	running := false
	watchdog(pf, time.Duration(envInt("RD_WATCHDOG", 20))*time.Second, &running)
	for _, c := range scs {
		fmt.Fprintf(pf, "S %s\n", c.id)
		running = true
		synctest.Test(t, func(t *testing.T) {
			w := bufio.NewWriter(tf)
			runSchedule(c, w)
			w.Flush()
		})
		running = false
		fmt.Fprintf(pf, "D %s\n", c.id)
	}
}
