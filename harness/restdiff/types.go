// Package restdiff is the correspondence harness of the REST gateway (properties C15 and C20).
//
// It drives the REAL handler returned by rest.NewRestServer(...).Handler with httptest requests and,
// for C15, the REAL gRPC Service object with TagConn/HandleConn-managed contexts, each against its own
// real LockServer with identical configuration, inside one testing/synctest bubble (virtual time, exact).
// The observed traces are written in the line format read by ocaml/rest/driver.ml (extraction of
// coq/Model/Rest.v). A second entry point (race.go) runs controlled races of request / DELETE / idle
// callback on the real handler and counts HandleConn(ConnEnd) deliveries per session.
package restdiff

// KeyRef names a key symbolically so that histories replay although the server draws fresh UUIDs:
// Pre + (key returned by event Ref, if Ref >= 0) + Suf, or the literal Lit when Ref < 0.
type KeyRef struct {
	Ref int    `json:"ref"`
	Pre string `json:"pre,omitempty"` // hex (or rep: form, see Ev.Name)
	Suf string `json:"suf,omitempty"` // hex (or rep: form)
	Lit string `json:"lit,omitempty"` // hex (or rep: form)
}

// Ev is one symbolic event of a history.
type Ev struct {
	Op string `json:"op"` // create delete req adv probe
	S  int    `json:"s"`  // client slot: REST session / gRPC connection
	// T (create, mode "mixed"): the transport of the client in this slot: rest | grpc
	T string `json:"t,omitempty"`
	// Ck: which cookie the exchange carries: own (slot S's cookie, whatever its state) | none | unknown | empty | mangled
	// On a create (POST /session; a cookie-jar client posts with whatever cookie it has): "" none | own (slot S's current cookie; when
	// that session is live the client re-posts and then closes its old session with the old cookie) | other (the current cookie of
	// slot Cs) | ended (the most recently retired cookie) | garbage
	Ck string `json:"ck,omitempty"`
	Cs int    `json:"cs,omitempty"`
	// Q: try unl ren noop
	Q string `json:"q,omitempty"`
	// Name: hex, or a compact form for long names: "rep:<unit hex>:<count>[:<suffix hex>]" = unit repeated count times + suffix
	Name string  `json:"name,omitempty"`
	Size *int32  `json:"size,omitempty"`
	Lt   *int32  `json:"lt,omitempty"`
	Key  *KeyRef `json:"key,omitempty"`
	// Body: how the abstract request is rendered to JSON: camel snake quoted float extra null mixed
	Body string `json:"body,omitempty"`
	// Noop: badpath badmethod malformed overflow badtype  (exchanges the gateway answers itself)
	Noop string `json:"noop,omitempty"`
	Dt   int64  `json:"dt,omitempty"` // adv: ns
}

type Cfg struct {
	NoClear bool   `json:"noclear"`
	File    bool   `json:"file"`
	GcI     int64  `json:"gci"`
	GcM     int64  `json:"gcm"`
	Dlt     int64  `json:"dlt"`
	Shards  uint32 `json:"shards"`
	Tmo     int64  `json:"tmo"` // RestSessionTimeout, ns
}

type History struct {
	ID string `json:"id"`
	// c15: REST and gRPC side by side, each on its own server; c20: REST only, adversarial cookies and gaps;
	// mixed: REST sessions and gRPC connections on ONE server (C15_mixed)
	Mode   string `json:"mode"`
	Cfg    Cfg    `json:"cfg"`
	Events []Ev   `json:"events"`
}

// Profile steers the generator (written by checks/c15.py, checks/c20.py).
type Profile struct {
	Mode      string         `json:"mode"`
	Weights   map[string]int `json:"weights"` // create delete try unl ren noop adv
	MaxLen    int            `json:"max_len"`
	MinLen    int            `json:"min_len"`
	Sessions  int            `json:"sessions"`
	Names     []string       `json:"names"` // hex
	Sizes     []*int32       `json:"sizes"`
	Lts       []*int32       `json:"lts"`
	RenewLts  []int32        `json:"renew_lts"`
	Tmos      []int64        `json:"tmos"`
	NoClear   []bool         `json:"noclear"`
	File      []bool         `json:"file"`
	Gc        [][2]int64     `json:"gc"`
	Dlt       []int64        `json:"dlt"`
	Shards    []uint32       `json:"shards"`
	BadKeyPct int            `json:"bad_key_pct"`
	BadCkPct  int            `json:"bad_ck_pct"` // c20: share of exchanges with a missing / unknown / empty / mangled cookie
	// CreateCkPct: share (%) of the session creations that carry a cookie (of another live session, of an ended session, garbage, the
	// slot's own); after one that carries another live session's cookie both sessions are used as independent connections
	CreateCkPct int `json:"create_ck_pct"`
	// LongPct: share (%) of the histories that also draw lock names from LongNames and literal keys from LongKeys (request
	// bodies of 1 KB .. 1 MB: transport-level size limits are part of "the same request gets the same response")
	LongPct   int      `json:"long_pct"`
	LongNames []string `json:"long_names"` // hex or rep: form
	LongKeys  []string `json:"long_keys"`  // hex or rep: form
}
