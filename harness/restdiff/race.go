package restdiff

import (
	"context"
	"fmt"
	"math/rand/v2"
	"net/http"
	"net/http/httptest"
	"runtime"
	"strings"
	"sync"
	"time"
)

// Controlled races on the REAL rest handler (C20): request / DELETE / idle callback on one session,
// requests on two sessions. Goroutines are released at chosen instants (virtual, inside a bubble: exact
// ties; or on the wall clock with a short session timeout: time passes while a goroutine waits for a
// mutex, which a bubble cannot do) and a request can be held INSIDE the server call (it then owns the
// session mutex) until the driver releases it. Whatever interleaving results is a legitimate schedule;
// the oracle (checks/c20.py) is schedule independent: every handler returns, nothing panics, ConnEnd is
// delivered at most once per session at any time and exactly once after everything has settled, holds
// are released, the ended sessions' cookies are refused.

type RStep struct {
	Op   string `json:"op"`             // start wait done release sleep spin
	K    int    `json:"k,omitempty"`    // goroutine
	S    int    `json:"s,omitempty"`    // session slot
	Act  string `json:"act,omitempty"`  // req del
	Gate bool   `json:"gate,omitempty"` // hold the request inside the server call until released
	Hold bool   `json:"hold,omitempty"` // hold the request right after timerMgr.Reset (sessionsMtx held, session mutex not yet taken)
	Pm   int64  `json:"pm,omitempty"`   // start: delay before acting / sleep: duration, in 1/1000 of the timeout ...
	Ns   int64  `json:"ns,omitempty"`   // ... plus this many ns (virtual clock only)
}

type Scenario struct {
	ID       string  `json:"id"`
	Clock    string  `json:"clock"` // virtual | real
	Tmo      int64   `json:"tmo"`
	Sessions int     `json:"sessions"`
	Steps    []RStep `json:"steps"`
}

type RaceResult struct {
	ID        string         `json:"id"`
	Clock     string         `json:"clock"`
	Acts      map[int]string `json:"acts"`     // goroutine -> "req s" / "del s"
	Statuses  map[int]int    `json:"statuses"` // goroutine -> HTTP status (-1 panic, 0 never returned)
	Tmo       int64          `json:"tmo"`
	Starts    map[int]int64  `json:"starts"`     // goroutine -> instant (ns since the scenario began) at which it sent its request
	Fins      map[int]int64  `json:"fins"`       // goroutine -> instant at which its handler returned
	CreatedAt []int64        `json:"created_at"` // instant at which each slot's session was created
	Created   []string       `json:"created"`  // server session ids, by slot
	Ends      map[string]int `json:"ends"`     // ConnEnd deliveries per server session id after settling
	EndsEarly map[string]int `json:"ends_early"` // ConnEnd deliveries when every goroutine had returned (before settling)
	// the lock names listed by LockServer.Locks() at that moment (a request goroutine K locks "race-K"), and the ConnEnd
	// deliveries read once more after the listing (a session that ends in between is not judged)
	LocksJoin  []string       `json:"locks_join"`
	EndsEarly2 map[string]int `json:"ends_early2"`
	// ConnEnd deliveries that had RETURNED (DestroySession finished) before / after the listing: the timer's function is not one
	// of the joined goroutines, it may still be inside the lock server when every handler has returned
	DoneJoin  map[string]int `json:"done_join"`
	DoneJoin2 map[string]int `json:"done_join2"`
	Post      []int          `json:"post"` // status of a request with each slot's cookie after settling
	LocksLeft int            `json:"locks_left"`
	Panic     string         `json:"panic,omitempty"`
	Deadlock  bool           `json:"deadlock,omitempty"`
	SetupFail string         `json:"setup_fail,omitempty"`
	Skipped   string         `json:"skipped,omitempty"`
}

// serveDirect performs one exchange synchronously (usable outside a bubble).
func serveDirect(h http.Handler, method, path, body string, cookie *string) (status int, out string, setCookie string) {
	req := httptest.NewRequest(method, path, strings.NewReader(body))
	ctx, cancel := context.WithCancel(context.Background())
	defer cancel()
	req = req.WithContext(ctx)
	if cookie != nil {
		req.Header.Set("Cookie", sessionCookie+"="+*cookie)
	}
	rec := httptest.NewRecorder()
	func() {
		defer func() {
			if r := recover(); r != nil {
				rec.Code = -1
				out = fmt.Sprint("panic: ", r)
			}
		}()
		h.ServeHTTP(rec, req)
	}()
	if rec.Code == -1 {
		return -1, out, ""
	}
	for _, c := range rec.Result().Cookies() {
		if c.Name == sessionCookie {
			setCookie = c.Value
		}
	}
	return rec.Code, rec.Body.String(), setCookie
}

func dur(tmo, pm, ns int64) time.Duration { return time.Duration(tmo*pm/1000 + ns) }

// RunScenario executes one scenario on a fresh handler + LockServer. In a bubble when sc.Clock is virtual.
func RunScenario(sc *Scenario) RaceResult {
	res := RaceResult{ID: sc.ID, Clock: sc.Clock, Acts: map[int]string{}, Statuses: map[int]int{}, Ends: map[string]int{}, EndsEarly: map[string]int{},
		Tmo: sc.Tmo, Starts: map[int]int64{}, Fins: map[int]int64{}}
	t0 := time.Now()
	virtual := sc.Clock == "virtual"
	progCase.Store(sc.ID)
	progTick.Add(1)
	R, err := bootRest(Cfg{GcI: 1800e9, GcM: 300e9, Dlt: 600e9, Shards: 16, Tmo: sc.Tmo}, "")
	if err != nil {
		res.SetupFail = err.Error()
		return res
	}
	h := R.handler
	cookies := []string{}
	for s := 0; s < sc.Sessions; s++ {
		st, _, ck := serveDirect(h, "POST", "/session", "", nil)
		if st != 201 || ck == "" {
			res.SetupFail = fmt.Sprintf("POST /session answered %d", st)
		}
		cookies = append(cookies, ck)
		res.Created = append(res.Created, R.wrap.lastTagged())
		res.CreatedAt = append(res.CreatedAt, int64(time.Since(t0)))
	}
	var mu sync.Mutex
	// yield point after timerMgr.Reset: one-shot gates by cookie
	resetGates := map[string]*gate{}
	needHold := false
	for _, st := range sc.Steps {
		needHold = needHold || st.Hold
	}
	if needHold {
		ok := hookAfterReset(h, func(key string, ok bool) {
			mu.Lock()
			g := resetGates[key]
			delete(resetGates, key)
			mu.Unlock()
			if g != nil {
				close(g.entered)
				if ok {
					<-g.release
				}
			}
		})
		if !ok {
			res.Skipped = "no yield point after Reset on this tree (session-table accessor not built)"
			R.hcloser()
			R.closer()
			return res
		}
	}
	done := map[int]chan struct{}{}
	gates := map[int]*gate{}
	released := map[int]bool{}
	for _, st := range sc.Steps {
		progTick.Add(1)
		switch st.Op {
		case "start":
			k, s, act := st.K, st.S, st.Act
			d := make(chan struct{})
			done[k] = d
			res.Acts[k] = fmt.Sprintf("%s %d", act, s)
			name := fmt.Sprintf("race-%d", k)
			if st.Gate && act == "req" {
				gates[k] = R.wrap.addGate(name)
			}
			if st.Hold && act == "req" {
				g := &gate{entered: make(chan struct{}), release: make(chan struct{})}
				gates[k] = g
				mu.Lock()
				resetGates[cookies[s%len(cookies)]] = g
				mu.Unlock()
			}
			delay := dur(sc.Tmo, st.Pm, st.Ns)
			mu.Lock()
			res.Statuses[k] = 0
			mu.Unlock()
			go func() {
				defer close(d)
				if delay > 0 {
					time.Sleep(delay)
				}
				ck := cookies[s%len(cookies)]
				var code int
				var body string
				started := int64(time.Since(t0))
				if act == "del" {
					code, body, _ = serveDirect(h, "DELETE", "/session", "", &ck)
				} else {
					code, body, _ = serveDirect(h, "POST", "/v1/lock", `{"name":"`+name+`"}`, &ck)
				}
				mu.Lock()
				res.Starts[k], res.Fins[k] = started, int64(time.Since(t0))
				res.Statuses[k] = code
				if code == -1 {
					res.Panic = body
				}
				mu.Unlock()
			}()
		case "wait": // until goroutine K is inside the server call (or has returned)
			if g := gates[st.K]; g != nil {
				if virtual {
					select {
					case <-g.entered:
					case <-done[st.K]:
					}
				} else {
					// the request may be queued behind another one of its session: do not wait for ever
					select {
					case <-g.entered:
					case <-done[st.K]:
					case <-time.After(dur(sc.Tmo, 500, 0)):
					}
				}
			}
		case "done": // until goroutine K has returned
			if d := done[st.K]; d != nil {
				if virtual {
					<-d
				} else {
					select {
					case <-d:
					case <-time.After(5 * time.Second):
					}
				}
			}
		case "release":
			if g := gates[st.K]; g != nil && !released[st.K] {
				released[st.K] = true
				close(g.release)
			}
		case "sleep":
			time.Sleep(dur(sc.Tmo, st.Pm, st.Ns))
		case "spin":
			if virtual {
				for i := 0; i < 3000; i++ {
					runtime.Gosched()
				}
			} else {
				time.Sleep(3 * time.Millisecond)
			}
		}
	}
	// join
	for k, g := range gates {
		if !released[k] {
			close(g.release)
		}
	}
	if virtual {
		for _, d := range done {
			<-d // a deadlock leaves the bubble stuck here: the wall-clock watchdog reports it
			progTick.Add(1)
		}
	} else {
		deadline := time.After(10 * time.Second)
		for _, d := range done {
			select {
			case <-d:
			case <-deadline:
				res.Deadlock = true
			}
		}
		if res.Deadlock {
			return res
		}
	}
	res.DoneJoin, res.DoneJoin2 = map[string]int{}, map[string]int{}
	R.wrap.mu.Lock()
	for _, sid := range R.wrap.ends {
		res.EndsEarly[sid]++
	}
	for _, sid := range R.wrap.ended {
		res.DoneJoin[sid]++
	}
	R.wrap.mu.Unlock()
	res.LocksJoin = []string{}
	for _, l := range R.srv.Locks() {
		res.LocksJoin = append(res.LocksJoin, l.Name())
	}
	res.EndsEarly2 = map[string]int{}
	R.wrap.mu.Lock()
	for _, sid := range R.wrap.ends {
		res.EndsEarly2[sid]++
	}
	for _, sid := range R.wrap.ended {
		res.DoneJoin2[sid]++
	}
	R.wrap.mu.Unlock()
	// settle: a full timeout of idleness (and more) for every session
	time.Sleep(dur(sc.Tmo, 3000, 0))
	if !virtual {
		for i := 0; i < 1000; i++ {
			R.wrap.mu.Lock()
			n := len(R.wrap.ends)
			R.wrap.mu.Unlock()
			if n >= len(res.Created) {
				break
			}
			time.Sleep(10 * time.Millisecond)
		}
	}
	postDone := make(chan struct{})
	go func() {
		defer close(postDone)
		for s := range cookies {
			ck := cookies[s]
			code, _, _ := serveDirect(h, "POST", "/v1/lock", `{"name":"post"}`, &ck)
			mu.Lock()
			res.Post = append(res.Post, code)
			mu.Unlock()
		}
	}()
	if virtual {
		<-postDone
	} else {
		select {
		case <-postDone:
		case <-time.After(10 * time.Second):
			res.Deadlock = true
			return res
		}
	}
	R.wrap.mu.Lock()
	for _, sid := range R.wrap.ends {
		res.Ends[sid]++
	}
	R.wrap.mu.Unlock()
	res.LocksLeft = len(R.srv.Locks())
	R.hcloser()
	R.closer()
	return res
}

// FixedScenarios: the named races of DESIGN "C20" on one session and on two sessions.
func FixedScenarios(vtmo, rtmo int64) []Scenario {
	v := func(id string, sessions int, steps ...RStep) Scenario {
		return Scenario{ID: "v-" + id, Clock: "virtual", Tmo: vtmo, Sessions: sessions, Steps: steps}
	}
	r := func(id string, sessions int, steps ...RStep) Scenario {
		return Scenario{ID: "r-" + id, Clock: "real", Tmo: rtmo, Sessions: sessions, Steps: steps}
	}
	out := []Scenario{
		v("inflight-vs-delete", 1,
			RStep{Op: "start", K: 0, S: 0, Act: "req", Gate: true}, RStep{Op: "wait", K: 0},
			RStep{Op: "start", K: 1, S: 0, Act: "del"}, RStep{Op: "spin"}, RStep{Op: "release", K: 0}),
		v("two-deletes", 1, RStep{Op: "start", K: 0, S: 0, Act: "del"}, RStep{Op: "start", K: 1, S: 0, Act: "del"}),
		v("queued-requests-two-sessions", 2,
			RStep{Op: "start", K: 0, S: 0, Act: "req", Gate: true}, RStep{Op: "wait", K: 0},
			RStep{Op: "start", K: 1, S: 0, Act: "req"}, RStep{Op: "start", K: 2, S: 1, Act: "req"}, RStep{Op: "spin"},
			RStep{Op: "start", K: 3, S: 1, Act: "del"}, RStep{Op: "spin"}, RStep{Op: "release", K: 0}),
		v("inflight-vs-callback", 2,
			RStep{Op: "start", K: 0, S: 0, Act: "req", Gate: true}, RStep{Op: "wait", K: 0},
			RStep{Op: "sleep", Pm: 1000}, RStep{Op: "spin"},
			RStep{Op: "start", K: 1, S: 1, Act: "req"}, RStep{Op: "start", K: 2, S: 0, Act: "del"}, RStep{Op: "spin"},
			RStep{Op: "release", K: 0}),
	}
	// the idle timer fires between a request's Reset and its taking the session mutex
	out = append(out,
		v("reset-then-expiry", 2,
			RStep{Op: "start", K: 0, S: 0, Act: "req", Hold: true}, RStep{Op: "wait", K: 0},
			RStep{Op: "sleep", Pm: 1000}, RStep{Op: "spin"},
			RStep{Op: "release", K: 0}, RStep{Op: "start", K: 1, S: 1, Act: "req"}),
		v("reset-then-delete", 1,
			RStep{Op: "start", K: 0, S: 0, Act: "req", Hold: true}, RStep{Op: "wait", K: 0},
			RStep{Op: "start", K: 1, S: 0, Act: "del"}, RStep{Op: "spin"}, RStep{Op: "release", K: 0}),
		r("reset-then-expiry-wallclock", 2,
			RStep{Op: "start", K: 0, S: 0, Act: "req", Hold: true}, RStep{Op: "wait", K: 0},
			RStep{Op: "sleep", Pm: 1500}, RStep{Op: "start", K: 1, S: 1, Act: "req"}, RStep{Op: "start", K: 2, S: 0, Act: "del"}, RStep{Op: "spin"},
			RStep{Op: "release", K: 0}))
	for _, ns := range []int64{-1, 0, 1} {
		tag := map[int64]string{-1: "minus1ns", 0: "exact", 1: "plus1ns"}[ns]
		out = append(out,
			v("delete-vs-callback-"+tag, 1, RStep{Op: "start", K: 0, S: 0, Act: "del", Pm: 1000, Ns: ns}),
			v("request-vs-callback-"+tag, 1, RStep{Op: "start", K: 0, S: 0, Act: "req", Pm: 1000, Ns: ns}),
			v("request-delete-callback-"+tag, 2,
				RStep{Op: "start", K: 0, S: 0, Act: "req", Pm: 1000, Ns: ns}, RStep{Op: "start", K: 1, S: 0, Act: "del", Pm: 1000, Ns: ns},
				RStep{Op: "start", K: 2, S: 1, Act: "req", Pm: 1000, Ns: ns}, RStep{Op: "start", K: 3, S: 0, Act: "req", Pm: 1000}),
		)
	}
	// wall clock: the idle timer fires WHILE a request waits for the session mutex holding the table mutex
	for i := 0; i < 6; i++ {
		out = append(out, r(fmt.Sprintf("queued-request-then-expiry-%d", i), 2,
			RStep{Op: "start", K: 0, S: 0, Act: "req", Gate: true}, RStep{Op: "wait", K: 0},
			RStep{Op: "start", K: 1, S: 0, Act: "req"}, RStep{Op: "spin"},
			RStep{Op: "sleep", Pm: 1500}, RStep{Op: "start", K: 2, S: 1, Act: "req"}, RStep{Op: "spin"},
			RStep{Op: "release", K: 0}))
		// a request that arrives before its session's deadline but is processed after the idle timer fired (it waits for the
		// table mutex, the timer's function queues behind it); then a request shortly afterwards
		out = append(out, r(fmt.Sprintf("early-request-processed-after-expiry-%d", i), 2,
			RStep{Op: "start", K: 0, S: 0, Act: "req", Hold: true}, RStep{Op: "wait", K: 0},
			RStep{Op: "start", K: 1, S: 1, Act: "req", Pm: 900},
			RStep{Op: "sleep", Pm: 1300}, RStep{Op: "release", K: 0},
			RStep{Op: "sleep", Pm: 150}, RStep{Op: "start", K: 2, S: 1, Act: "req"}, RStep{Op: "spin"}))
		out = append(out, r(fmt.Sprintf("inflight-expiry-delete-%d", i), 1,
			RStep{Op: "start", K: 0, S: 0, Act: "req", Gate: true}, RStep{Op: "wait", K: 0},
			RStep{Op: "sleep", Pm: 1200}, RStep{Op: "start", K: 1, S: 0, Act: "del"}, RStep{Op: "spin"},
			RStep{Op: "release", K: 0}))
	}
	return out
}

// RandomScenario draws one scenario from r. Virtual scenarios use no gates (a goroutine waiting for a
// mutex would stop the fake clock): their races are the exact ties at tmo-1ns / tmo / tmo+1ns.
func RandomScenario(r *rand.Rand, id string, virtual bool, vtmo, rtmo int64) Scenario {
	sc := Scenario{ID: id, Sessions: 1 + r.IntN(2)}
	n := 2 + r.IntN(4)
	if virtual {
		sc.Clock, sc.Tmo = "virtual", vtmo
		pms := []int64{0, 1000, 1000, 1000, 2000}
		nss := []int64{-1, 0, 0, 1}
		for k := 0; k < n; k++ {
			act := "req"
			if r.IntN(3) == 0 {
				act = "del"
			}
			st := RStep{Op: "start", K: k, S: r.IntN(sc.Sessions), Act: act, Pm: pms[r.IntN(len(pms))]}
			if st.Pm > 0 {
				st.Ns = nss[r.IntN(len(nss))]
			}
			sc.Steps = append(sc.Steps, st)
		}
		return sc
	}
	sc.Clock, sc.Tmo = "real", rtmo
	pms := []int64{0, 0, 500, 900, 1000, 1100, 1500}
	gated := []int{}
	for k := 0; k < n; k++ {
		act := "req"
		if r.IntN(3) == 0 {
			act = "del"
		}
		st := RStep{Op: "start", K: k, S: r.IntN(sc.Sessions), Act: act}
		if act == "req" && r.IntN(3) == 0 {
			if r.IntN(3) == 0 {
				st.Hold = true
			} else {
				st.Gate = true
			}
			gated = append(gated, k)
			sc.Steps = append(sc.Steps, st, RStep{Op: "wait", K: k})
		} else {
			st.Pm = pms[r.IntN(len(pms))]
			sc.Steps = append(sc.Steps, st)
		}
		if r.IntN(3) == 0 {
			sc.Steps = append(sc.Steps, RStep{Op: "sleep", Pm: pms[r.IntN(len(pms))]})
		}
		if len(gated) > 0 && r.IntN(3) == 0 {
			sc.Steps = append(sc.Steps, RStep{Op: "spin"}, RStep{Op: "release", K: gated[0]})
			gated = gated[1:]
		}
	}
	sc.Steps = append(sc.Steps, RStep{Op: "sleep", Pm: pms[r.IntN(len(pms))]}, RStep{Op: "spin"})
	return sc
}
