//go:build restsess

package restdiff

import (
	"net/http"

	"github.com/imoore76/ldlm/net/rest"
)

// sessionCookies reads the keys of the REST session table through rest.VerifSessions, a function the
// checks add to package rest with `go test -overlay` (rest_verif.go.in; nothing is written to the tree).
func sessionCookies(h http.Handler) ([]string, bool) { return rest.VerifSessions(h) }

// hookAfterReset installs a yield point right after timerMgr.Reset (see rest_verif.go.in).
func hookAfterReset(h http.Handler, f func(key string, ok bool)) bool { return rest.VerifHookAfterReset(h, f) }
